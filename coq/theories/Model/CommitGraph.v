(* Model/CommitGraph.v — G: plumbing/format/commitgraph: MemoryIndex.Add,
   Encoder.Encode (encoder.go) and the fileIndex reader (file.go:
   OpenFileIndex, GetIndexByHash, GetCommitDataByIndex, Hashes).  Definitions
   only.  Width-sensitive arithmetic is written out (uint32/uint64/int64).
   The SHA-1 trailer is outside the model: the encoder model yields the bytes
   before the trailer, the reader never looks at it (only at the file size). *)
From Coq Require Import List NArith ZArith Bool String Ascii.
From GoGit Require Import Base.Out Gen.C51.
Import ListNotations.
Local Open Scope N_scope.

Definition two32 : N := 4294967296.
Definition two64 : N := 18446744073709551616.
Definition zN (z : Z) : N := Z.to_N z.

Definition parentNone : N := zN cg_parentNone.
Definition parentOctopusUsed : N := zN cg_parentOctopusUsed.
Definition parentOctopusMask : N := zN cg_parentOctopusMask.
Definition parentLast : N := zN cg_parentLast.
Definition szCommitData : N := zN cg_szCommitData.
Definition lenFanout : N := zN cg_lenFanout.
Definition hashSize : N := 20.

(* big-endian, fixed width *)
Fixpoint be (w : nat) (x : N) : bytes :=
  match w with
  | O => []
  | S w' => (N.shiftr x (8 * N.of_nat w')) mod 256 :: be w' x
  end.
Definition be32 (x : N) : bytes := be 4 (x mod two32).
Definition be64 (x : N) : bytes := be 8 (x mod two64).

Fixpoint unbe (b : bytes) (acc : N) : N :=
  match b with
  | [] => acc
  | c :: r => unbe r (acc * 256 + c)
  end.

(* uint64(int64 value) *)
Definition u64_of_Z (z : Z) : N := Z.to_N (z mod (Z.of_N two64)).
(* int64(uint64 value) *)
Definition i64_of_N (n : N) : Z :=
  let z := Z.of_N (n mod two64) in
  if (z <? 9223372036854775808)%Z then z else (z - 18446744073709551616)%Z.

(* ------------------------------------------------------------------ input *)
Record centry := mkEntry {
  e_hash : bytes; e_tree : bytes; e_parents : list bytes;
  e_gen : N;      (* CommitData.Generation, uint64 *)
  e_gen2 : N;     (* CommitData.GenerationV2, uint64 *)
  e_when : Z      (* CommitData.When.Unix(), int64 *)
}.

Fixpoint bytes_cmp (a b : bytes) : comparison :=
  match a, b with
  | [], [] => Eq
  | [], _ => Lt
  | _, [] => Gt
  | x :: a', y :: b' => match N.compare x y with Eq => bytes_cmp a' b' | c => c end
  end.
Definition bytes_eqb (a b : bytes) : bool := match bytes_cmp a b with Eq => true | _ => false end.

(* MemoryIndex.Add: GenerationV2 == MaxUint64 is reset to zero *)
Definition norm_gen2 (e : centry) : N := if e_gen2 e =? two64 - 1 then 0 else e_gen2 e.
Definition has_gen2 (es : list centry) : bool := forallb (fun e => negb (norm_gen2 e =? 0)) es.

(* CommitData.GenerationV2Data: uint64 subtraction *)
Definition gen2_data (e : centry) : N :=
  let g := norm_gen2 e in
  if g =? 0 then 0 else (g + two64 - u64_of_Z (e_when e)) mod two64.

Fixpoint insert_hash (h : bytes) (l : list bytes) : list bytes :=
  match l with
  | [] => [h]
  | x :: r => match bytes_cmp h x with Gt => x :: insert_hash h r | _ => h :: l end
  end.
Definition sort_hashes (l : list bytes) : list bytes := fold_right insert_hash [] l.

Fixpoint index_of_hash (h : bytes) (l : list bytes) (i : N) : option N :=
  match l with
  | [] => None
  | x :: r => if bytes_eqb h x then Some i else index_of_hash h r (i + 1)
  end.
(* Go map lookup of a missing key yields 0 *)
Definition hash_to_index (sorted : list bytes) (h : bytes) : N :=
  match index_of_hash h sorted 0 with Some i => i | None => 0 end.

(* the entry registered for a hash: indexMap keeps the LAST Add *)
Fixpoint find_entry (h : bytes) (es : list centry) (found : option centry) : option centry :=
  match es with
  | [] => found
  | e :: r => find_entry h r (if bytes_eqb h (e_hash e) then Some e else found)
  end.

Fixpoint dedup_hashes (l : list bytes) : list bytes :=
  match l with
  | [] => []
  | h :: r => if existsb (bytes_eqb h) r then dedup_hashes r else h :: dedup_hashes r
  end.

Definition count_le_first (sorted : list bytes) (b : N) : N :=
  N.of_nat (List.length (filter (fun h => match h with c :: _ => c <=? b | [] => true end) sorted)).

Definition fanout_of (sorted : list bytes) : list N :=
  map (fun i => count_le_first sorted (N.of_nat i)) (seq 0 256).

(* prepare: counted over the entries in insertion order *)
Definition extra_edges_count (es : list centry) : N :=
  fold_right (fun e n => (if 2 <? N.of_nat (List.length (e_parents e)) then N.of_nat (List.length (e_parents e)) - 1 else 0) + n) 0 es.
(* (after "fix: commitgraph encoder sizes the generation overflow chunk ...": counted with
   `> math.MaxInt32`, the same threshold encodeGenerationV2Data writes overflow entries with;
   before the fix the count used `> math.MaxUint32`) *)
Definition two31 : N := 2147483648.
Definition overflow_count (es : list centry) : N :=
  if has_gen2 es then N.of_nat (List.length (filter (fun e => two31 - 1 <? gen2_data e) es)) else 0.

Definition sig_OIDF : bytes := [79;73;68;70].
Definition sig_OIDL : bytes := [79;73;68;76].
Definition sig_CDAT : bytes := [67;68;65;84].
Definition sig_GDA2 : bytes := [71;68;65;50].
Definition sig_GDO2 : bytes := [71;68;79;50].
Definition sig_EDGE : bytes := [69;68;71;69].
Definition sig_BIDX : bytes := [66;73;68;88].
Definition sig_BDAT : bytes := [66;68;65;84].
Definition sig_BASE : bytes := [66;65;83;69].
Definition sig_ZERO : bytes := [0;0;0;0].
Definition sig_CGPH : bytes := [67;71;80;72].

Definition chunk_table (es : list centry) (n : N) : list (bytes * N) :=
  [(sig_OIDF, 4 * lenFanout); (sig_OIDL, n * hashSize); (sig_CDAT, n * (hashSize + szCommitData))]
  ++ (if 0 <? extra_edges_count es then [(sig_EDGE, extra_edges_count es * 4)] else [])
  ++ (if has_gen2 es then
        (sig_GDA2, n * 4) :: (if 0 <? overflow_count es then [(sig_GDO2, overflow_count es * 8)] else [])
      else []).

Fixpoint chunk_headers (tbl : list (bytes * N)) (off : N) : bytes :=
  match tbl with
  | [] => sig_ZERO ++ be64 off
  | (s, sz) :: r => s ++ be64 off ++ chunk_headers r (off + sz)
  end.

(* encodeCommitData: returns the CDAT bytes and the extra edge list *)
Fixpoint set_last (l : list N) : list N :=
  match l with
  | [] => []
  | [x] => [N.lor x parentLast]
  | x :: r => x :: set_last r
  end.

Fixpoint commit_data (sorted : list bytes) (es : list centry) (hs : list bytes) (edges : list N) : bytes * list N :=
  match hs with
  | [] => ([], edges)
  | h :: r =>
    match find_entry h es None with
    | None => ([], edges)
    | Some e =>
      let idx := hash_to_index sorted in
      let '(p1, p2, edges') :=
        match e_parents e with
        | [] => (parentNone, parentNone, edges)
        | [a] => (idx a, parentNone, edges)
        | [a; b] => (idx a, idx b, edges)
        | a :: rest => (idx a, N.lor (N.of_nat (List.length edges) mod two32) parentOctopusUsed,
                        edges ++ set_last (map idx rest))
        end in
      let t := N.lor (u64_of_Z (e_when e)) ((N.shiftl (e_gen e) 34) mod two64) in
      let '(rest_bytes, edges'') := commit_data sorted es r edges' in
      (e_tree e ++ be32 p1 ++ be32 p2 ++ be64 t ++ rest_bytes, edges'')
    end
  end.

(* encodeGenerationV2Data + encodeGenerationV2Overflow *)
Fixpoint gen2_chunks (ds : list N) (head : N) : bytes * list N :=
  match ds with
  | [] => ([], [])
  | d :: r =>
    if 2147483648 <=? d then
      let '(b, ov) := gen2_chunks r (head + 1) in
      (be32 (N.lor (head mod two32) 2147483648) ++ b, d :: ov)
    else
      let '(b, ov) := gen2_chunks r head in (be32 d ++ b, ov)
  end.

(* Encoder.Encode without the checksum trailer *)
Definition encode (es : list centry) : bytes :=
  let sorted := sort_hashes (dedup_hashes (map e_hash es)) in
  let n := N.of_nat (List.length sorted) in
  let tbl := chunk_table es n in
  let nchunks := N.of_nat (List.length tbl) in
  let '(cdat, edges) := commit_data sorted es sorted [] in
  let gens := if has_gen2 es
              then let ds := map (fun h => match find_entry h es None with Some e => gen2_data e | None => 0 end) sorted in
                   let '(g, ov) := gen2_chunks ds 0 in g ++ flat_map be64 ov
              else [] in
  sig_CGPH ++ [1; 1; nchunks mod 256; 0]
  ++ chunk_headers tbl (8 + (nchunks + 1) * 12)
  ++ flat_map be32 (fanout_of sorted)
  ++ List.concat sorted
  ++ cdat
  ++ flat_map be32 edges
  ++ gens.

(* ------------------------------------------------------------------ reader *)
Inductive cgerr := EMalformed | EVersion | EHash | EIO | ENotFound.

Inductive res (A : Type) := Ok (a : A) | Er (e : cgerr).
Arguments Ok {A} a. Arguments Er {A} e.

(* ReaderAt.ReadAt / SectionReader + io.ReadFull of exactly [len] bytes at [off] *)
Definition slice (file : bytes) (off : Z) (len : nat) : option bytes :=
  if (off <? 0)%Z || (Z.of_nat (List.length file) <? off + Z.of_nat len)%Z then None
  else Some (firstn len (skipn (Z.to_nat off) file)).

Definition rd (file : bytes) (off : Z) (len : nat) : res N :=
  match slice file off len with Some b => Ok (unbe b 0) | None => Er EIO end.

(* chunk kinds 0..8 as in chunk.go; 9 = zero chunk *)
Definition known_sigs : list bytes :=
  [sig_OIDF; sig_OIDL; sig_CDAT; sig_GDA2; sig_GDO2; sig_EDGE; sig_BIDX; sig_BDAT; sig_BASE; sig_ZERO].
Definition chunk_type (id : bytes) : option nat :=
  match index_of_hash id known_sigs 0 with Some i => Some (N.to_nat i) | None => None end.

Record findex := mkFI {
  f_fanout : list N;
  f_off : list Z;     (* 9 entries *)
  f_size : list Z;    (* 9 entries *)
  f_gen2 : bool;
  f_size_total : Z
}.

Definition set_nth {A} (i : nat) (x : A) (l : list A) : list A :=
  map (fun kx => if Nat.eqb (fst kx) i then x else snd kx) (combine (seq 0 (List.length l)) l).

(* readChunkHeaders loop: i-th entry; returns offsets table and the assigned list *)
Fixpoint read_toc (file : bytes) (nchunks : nat) (i : nat) (prev upper : Z) (seen : list bytes)
         (offs : list Z) (assigned : list (nat * Z)) : res (list Z * list (nat * Z)) :=
  match nchunks with
  | O => Ok (offs, assigned)
  | S k =>
    let base := (8 + 12 * Z.of_nat i)%Z in
    match slice file base 4, rd file (base + 4) 8 with
    | Some id, Ok o =>
      let co := i64_of_N o in
      if (upper <? co)%Z || (co <? prev)%Z then Er EMalformed
      else if existsb (bytes_eqb id) seen then Er EMalformed
      else
        match chunk_type id with
        | None => read_toc file k (S i) co upper (id :: seen) offs assigned
        | Some 9%nat => Er EMalformed
        | Some ct => read_toc file k (S i) co upper (id :: seen) (set_nth ct co offs) (assigned ++ [(ct, co)])
        end
    | _, _ => Er EIO
    end
  end.

Fixpoint assign_sizes (assigned : list (nat * Z)) (term : Z) (sizes : list Z) : list Z :=
  match assigned with
  | [] => sizes
  | (ct, o) :: r =>
    let e := match r with (_, o') :: _ => o' | [] => term end in
    assign_sizes r term (set_nth ct (e - o)%Z sizes)
  end.

Definition zeros9 : list Z := [0;0;0;0;0;0;0;0;0]%Z.
Definition off_of (t : list Z) (ct : nat) : Z := nth ct t 0%Z.

Fixpoint read_fanout (file : bytes) (off : Z) (n : nat) : res (list N) :=
  match n with
  | O => Ok []
  | S k =>
    match rd file off 4 with
    | Er e => Er e
    | Ok v => if 2147483647 <? v then Er EMalformed
              else match read_fanout file (off + 4)%Z k with Ok l => Ok (v :: l) | Er e => Er e end
    end
  end.

Definition open_file (file : bytes) : res findex :=
  match slice file 0 4 with
  | None => Er EIO
  | Some sg =>
    if negb (bytes_eqb sg sig_CGPH) then Er EMalformed else
    match slice file 4 4 with
    | Some [v; hv; nc; _] =>
      if negb (v =? 1) then Er EVersion
      else if negb (hv =? 1) then Er EHash
      else
        let size := Z.of_nat (List.length file) in
        let minsize := (8 + (Z.of_N nc + 1) * 12 + 1024 + 20)%Z in
        if (size <? minsize)%Z then Er EMalformed else
        match read_toc file (N.to_nat nc) 0 0%Z (size - 20)%Z [] zeros9 [] with
        | Er e => Er e
        | Ok (offs, assigned) =>
          let tb := (8 + 12 * Z.of_N nc)%Z in
          match slice file tb 4, rd file (tb + 4) 8 with
          | Some tid, Ok toff =>
            if negb (bytes_eqb tid sig_ZERO) then Er EMalformed else
            let sizes := assign_sizes assigned (i64_of_N toff) zeros9 in
            if (off_of offs 0 <=? 0)%Z || (off_of offs 1 <=? 0)%Z || (off_of offs 2 <=? 0)%Z then Er EMalformed
            else if negb (off_of sizes 0 =? 1024)%Z then Er EMalformed
            else
              match rd file (off_of offs 0 + 1020)%Z 4 with
              | Er e => Er e
              | Ok nco =>
                let ncommits := Z.of_N nco in
                if (2147483647 <? ncommits)%Z then Er EMalformed
                else if negb (off_of sizes 1 =? ncommits * 20)%Z then Er EMalformed
                else if negb (off_of sizes 2 =? ncommits * 36)%Z then Er EMalformed
                else if (0 <? off_of offs 3)%Z && negb (off_of sizes 3 =? ncommits * 4)%Z then Er EMalformed
                else
                  match read_fanout file (off_of offs 0) 256 with
                  | Er e => Er e
                  | Ok fo => Ok (mkFI fo offs sizes (0 <? off_of offs 3)%Z size)
                  end
              end
          | _, _ => Er EIO
          end
        end
    | _ => Er EIO
    end
  end.

Definition ncommits (fi : findex) : N := nth 255 (f_fanout fi) 0.

Record cdata := mkCD {
  d_tree : bytes; d_pidx : list N; d_phash : list bytes; d_gen : N; d_gen2 : N; d_when : N
}.

(* octopus: walk the EDGE chunk from [pos] *)
Fixpoint read_edges (file : bytes) (fuel : nat) (off pos cnt : Z) : res (list N) :=
  match fuel with
  | O => Er EMalformed
  | S k =>
    if (cnt <=? pos)%Z then Er EMalformed
    else
      match rd file off 4 with
      | Er e => Er e
      | Ok p =>
        if N.land p parentLast =? parentLast then Ok [N.land p parentOctopusMask]
        else match read_edges file k (off + 4)%Z (pos + 1)%Z cnt with
             | Ok l => Ok (N.land p parentOctopusMask :: l)
             | Er e => Er e
             end
      end
  end.

(* GetHashByIndex inside one file (position already made local) *)
Definition hash_local (file : bytes) (fi : findex) (i : N) : res bytes :=
  if ncommits fi <=? i then Er EMalformed
  else match slice file (off_of (f_off fi) 1 + Z.of_N i * 20)%Z 20 with
       | None => Er EIO
       | Some h => Ok h
       end.

(* getHashesFromIndexes: positions below [min] (minimumNumberOfHashes) belong to the parent
   layers of a split graph and are answered by [below] (parent.GetHashByIndex) *)
Fixpoint hashes_of (below : N -> res bytes) (min : N) (file : bytes) (fi : findex) (idxs : list N) : res (list bytes) :=
  match idxs with
  | [] => Ok []
  | i :: r =>
    match (if i <? min then below i else hash_local file fi (i - min)) with
    | Er e => Er e
    | Ok h => match hashes_of below min file fi r with Ok l => Ok (h :: l) | Er e => Er e end
    end
  end.

(* the parent positions encoded by the two parent words (octopus: walk of the EDGE chunk) *)
Definition parent_indexes (file : bytes) (fi : findex) (p1 p2 : N) : res (list N) :=
  if N.land p2 parentOctopusUsed =? parentOctopusUsed then
    let cnt := Z.quot (off_of (f_size fi) 5) 4 in
    let pos := Z.of_N (N.land p2 parentOctopusMask) in
    if (cnt <=? pos)%Z then Er EMalformed
    else match read_edges file (S (List.length file)) (off_of (f_off fi) 5 + 4 * pos)%Z pos cnt with
         | Ok l => Ok (N.land p1 parentOctopusMask :: l)
         | Er e => Er e
         end
  else if negb (p2 =? parentNone) then Ok [N.land p1 parentOctopusMask; N.land p2 parentOctopusMask]
  else if negb (p1 =? parentNone) then Ok [N.land p1 parentOctopusMask]
  else Ok [].

(* corrected commit date: commit time + the GDA2 offset, or + the GDO2 slot it points to *)
Definition gen2_of (file : bytes) (fi : findex) (idx tm : N) : res N :=
  if f_gen2 fi then
    match rd file (off_of (f_off fi) 3 + Z.of_N idx * 4)%Z 4 with
    | Er e => Er e
    | Ok d =>
      if 0 <? N.land d 2147483648 then
        let pos := Z.of_N (N.land d 2147483647) in
        let cnt := Z.quot (off_of (f_size fi) 4) 8 in
        if (cnt <=? pos)%Z then Er EMalformed
        else match rd file (off_of (f_off fi) 4 + pos * 8)%Z 8 with
             | Er e => Er e
             | Ok o => Ok ((tm + o) mod two64)
             end
      else Ok (tm + d)
    end
  else Ok 0.

(* GetCommitDataByIndex of one file; [idx] is the position inside this file (idx - min);
   f_gen2 fi is fileIndex.hasGenerationV2 (own GDA2 chunk && the parent's flag) *)
Definition get_commit_data_in (below : N -> res bytes) (min : N) (file : bytes) (fi : findex) (idx : N) : res cdata :=
  if ncommits fi <=? idx then Er ENotFound else
  let off := (off_of (f_off fi) 2 + Z.of_N idx * 36)%Z in
  match slice file off 20, rd file (off + 20)%Z 4, rd file (off + 24)%Z 4, rd file (off + 28)%Z 8 with
  | Some tree, Ok p1, Ok p2, Ok gt =>
    match parent_indexes file fi p1 p2 with
    | Er e => Er e
    | Ok pidx =>
      match hashes_of below min file fi pidx with
      | Er e => Er e
      | Ok ph =>
        let tm := N.land gt 17179869183 in
        match gen2_of file fi idx tm with
        | Er e => Er e
        | Ok g2 => Ok (mkCD tree pidx ph (N.shiftr gt 34) g2 tm)
        end
      end
    end
  | _, _, _, _ => Er EIO
  end.

(* a single file (no parent): minimumNumberOfHashes = 0, [below] is never consulted *)
Definition get_commit_data (file : bytes) (fi : findex) (idx : N) : res cdata :=
  get_commit_data_in (fun _ => Er EMalformed) 0 file fi idx.

(* GetIndexByHash: binary search inside the fanout bucket *)
Fixpoint bsearch (file : bytes) (fi : findex) (h : bytes) (fuel : nat) (low high : N) : res N :=
  match fuel with
  | O => Er ENotFound
  | S k =>
    if low <? high then
      let mid := N.shiftr ((low + high) mod two32) 1 in
      match slice file (off_of (f_off fi) 1 + Z.of_N mid * 20)%Z 20 with
      | None => Er EIO
      | Some oid =>
        match bytes_cmp h oid with
        | Lt => bsearch file fi h k low mid
        | Eq => Ok mid
        | Gt => bsearch file fi h k (mid + 1) high
        end
      end
    else Er ENotFound
  end.

Definition index_by_hash (file : bytes) (fi : findex) (h : bytes) : res N :=
  match h with
  | [] => Er ENotFound
  | b0 :: _ =>
    let low := if b0 =? 0 then 0 else nth (N.to_nat b0 - 1) (f_fanout fi) 0 in
    let high := nth (N.to_nat b0) (f_fanout fi) 0 in
    bsearch file fi h 40 low high
  end.

(* ------------------------------------------------------------ observables *)
Definition err_name (e : cgerr) : string :=
  match e with
  | EMalformed => "malformed" | EVersion => "version" | EHash => "hash" | EIO => "io" | ENotFound => "notfound"
  end.

Definition out_cdata (r : res cdata) : out :=
  match r with
  | Er e => OErr (err_name e)
  | Ok d => OList [OBytes (d_tree d); OList (map ON (d_pidx d)); OList (map OBytes (d_phash d));
                   ON (d_gen d); ON (d_gen2 d); ON (d_when d)]
  end.

Fixpoint upto (n : nat) : list N :=
  match n with O => [] | S k => upto k ++ [N.of_nat k] end.

(* ------------------------------------------------------------ split graphs
   OpenFileIndexWithParent: a chain of files, NEWEST FIRST; l_min = minimumNumberOfHashes
   (= parent.MaximumNumberOfHashes(), uint32), f_gen2 (l_fi L) = own GDA2 chunk && parent's flag *)
Record layer := mkLayer { l_file : bytes; l_fi : findex; l_min : N }.

Definition max_hashes (L : layer) : N := (l_min L + ncommits (l_fi L)) mod two32.

(* GetHashByIndex *)
Fixpoint ch_hash (ch : list layer) (idx : N) : res bytes :=
  match ch with
  | [] => Er EMalformed                      (* idx < minimumNumberOfHashes and parent == nil *)
  | L :: below =>
    if idx <? l_min L then ch_hash below idx
    else hash_local (l_file L) (l_fi L) (idx - l_min L)
  end.

(* GetCommitDataByIndex *)
Fixpoint ch_commit_data (ch : list layer) (idx : N) : res cdata :=
  match ch with
  | [] => Er ENotFound
  | L :: below =>
    if idx <? l_min L then ch_commit_data below idx
    else get_commit_data_in (ch_hash below) (l_min L) (l_file L) (l_fi L) (idx - l_min L)
  end.

(* GetIndexByHash: own file first, then the parent *)
Fixpoint ch_index_by_hash (ch : list layer) (h : bytes) : res N :=
  match ch with
  | [] => Er ENotFound
  | L :: below =>
    match index_by_hash (l_file L) (l_fi L) h with
    | Ok mid => Ok ((mid + l_min L) mod two32)
    | Er ENotFound => ch_index_by_hash below h
    | Er e => Er e
    end
  end.

Definition set_gen2 (fi : findex) (b : bool) : findex :=
  mkFI (f_fanout fi) (f_off fi) (f_size fi) b (f_size_total fi).

Definition open_with_parent (file : bytes) (parent : list layer) : res (list layer) :=
  match open_file file with
  | Er e => Er e
  | Ok fi =>
    match parent with
    | [] => Ok [mkLayer file fi 0]
    | P :: _ => Ok (mkLayer file (set_gen2 fi (f_gen2 fi && f_gen2 (l_fi P))) (max_hashes P) :: parent)
    end
  end.

(* dump of the newest layer of a chain through the reader: every commit position of that layer and the
   hash lookup of every listed hash; at most [cap] commits are dumped *)
Definition ch_dump (ch : list layer) (cap : nat) : out :=
  match ch with
  | [] => OErr "nochain"
  | L :: _ =>
    let base := l_min L in
    let n := (max_hashes L + two32 - base) mod two32 in
    let m := N.to_nat (N.min n (N.of_nat cap)) in
    OOk [OBool (f_gen2 (l_fi L)); ON n;
         OList (map (fun i => out_cdata (ch_commit_data ch (base + i))) (upto m));
         OList (map (fun i => match ch_hash ch (base + i) with
                              | Er e => OErr (err_name e)
                              | Ok h => match ch_index_by_hash ch h with
                                        | Ok j => OList [OBytes h; ON j]
                                        | Er e => OList [OBytes h; OErr (err_name e)]
                                        end
                              end) (upto m))]
  end.

Definition dump (file : bytes) (cap : nat) : out :=
  match open_with_parent file [] with
  | Er e => OErr (err_name e)
  | Ok ch => ch_dump ch cap
  end.

(* the files of a chain oldest first: one dump per layer, or the first error *)
Fixpoint chain_dumps (files : list bytes) (parent : list layer) (cap : nat) (acc : list out) : res (list out) :=
  match files with
  | [] => Ok acc
  | f :: r =>
    match open_with_parent f parent with
    | Er e => Er e
    | Ok ch => chain_dumps r ch cap (acc ++ [ch_dump ch cap])
    end
  end.

(* ------------------------------------------------------------ decoding a whole file *)
Definition decode_entry (file : bytes) (fi : findex) (i : N) : res centry :=
  match hash_local file fi i with
  | Er e => Er e
  | Ok h =>
    match get_commit_data file fi i with
    | Er e => Er e
    | Ok d => Ok (mkEntry h (d_tree d) (d_phash d) (d_gen d) (d_gen2 d) (Z.of_N (d_when d)))
    end
  end.

Fixpoint decode_all (file : bytes) (fi : findex) (is : list N) : res (list centry) :=
  match is with
  | [] => Ok []
  | i :: r =>
    match decode_entry file fi i with
    | Er e => Er e
    | Ok x => match decode_all file fi r with Ok l => Ok (x :: l) | Er e => Er e end
    end
  end.

(* (HasGenerationV2, the commits in position order) *)
Definition decode (file : bytes) : res (bool * list centry) :=
  match open_file file with
  | Er e => Er e
  | Ok fi =>
    match decode_all file fi (map N.of_nat (seq 0 (N.to_nat (ncommits fi)))) with
    | Er e => Er e
    | Ok l => Ok (f_gen2 fi, l)
    end
  end.

(* run-length form of byte strings over 4-byte words (the 1 KiB fanout is mostly repeats):
   keeps the correspondence's literals and printed values small *)
Fixpoint words4 (fuel : nat) (b : bytes) : list bytes :=
  match fuel with
  | O => []
  | S k => match b with
           | [] => []
           | _ => firstn 4 b :: words4 k (skipn 4 b)
           end
  end.

Fixpoint rle (ws : list bytes) : list (N * bytes) :=
  match ws with
  | [] => []
  | w :: r =>
    match rle r with
    | (n, w') :: t => if bytes_eqb w w' then (n + 1, w') :: t else (1, w) :: (n, w') :: t
    | [] => [(1, w)]
    end
  end.

Definition out_rle (b : bytes) : out :=
  OList (map (fun nw => OList [ON (fst nw); OBytes (snd nw)]) (rle (words4 (S (List.length b)) b))).

Fixpoint rep_bytes (n : nat) (w : bytes) : bytes :=
  match n with O => [] | S k => w ++ rep_bytes k w end.

Definition unrle (l : list (N * string)) : bytes :=
  flat_map (fun nw => rep_bytes (N.to_nat (fst nw)) (unhex (snd nw))) l.

(* long observables are compared through (length, polynomial hash mod 2^61) of their
   canonical rendering: the text itself is too expensive to print for every case *)
Fixpoint hash_string (s : string) (h : N) : N :=
  match s with
  | EmptyString => h
  | String a r => hash_string r (N.land (h * 1000003 + N_of_ascii a + 1) 2305843009213693951)
  end.

Definition compact (o : out) : out :=
  let s := render o in
  if Nat.leb (String.length s) 300 then o
  else OList [OSym "digest"; ONat (String.length s); ON (hash_string s 0)].

(* encode suite: hashes listed once, parents given by position in that list *)
Definition mk_entries (tree : string) (hs : list string) (es : list (nat * list nat * N * N * Z)) : list centry :=
  map (fun e => match e with
                | (i, ps, g, g2, w) =>
                  mkEntry (unhex (nth i hs EmptyString)) (unhex tree)
                          (map (fun p => unhex (nth p hs EmptyString)) ps) g g2 w
                end) es.

(* the bytes before the trailer, and what the reader makes of the whole file
   (the reader ignores the trailer's content: 20 zero bytes stand for it) *)
Definition c51_encode (tree : string) (hs : list string) (es : list (nat * list nat * N * N * Z)) : out :=
  let b := encode (mk_entries tree hs es) in
  OList [compact (out_rle b); compact (dump (b ++ repeat 0 20) 64)].

Definition c51_decode (file : list (N * string)) : out := compact (dump (unrle file) 64).

Definition c51_chain (files : list (list (N * string))) : out :=
  match chain_dumps (map unrle files) [] 64 [] with
  | Er e => OErr (err_name e)
  | Ok l => OList (map compact l)
  end.
