(* Model/GoPath.v — G: the Unix path algebra used by go-git and go-billy:
   path/filepath.Clean, Join, IsAbs (Go 1.26, unix build), strings.Split on
   '/', and the go-billy v6 path helpers of osfs.BoundOS (cleanUnderRoot,
   relativeInsideBase, toRelative, chrootPath) and helper/chroot
   (isCrossBoundaries, underlyingPath).  Executable definitions only.
   Validated against the Go functions by the C40 "paths" suite on every run. *)
From Coq Require Import List NArith Bool.
From GoGit Require Import Base.Out.
Import ListNotations.
Local Open Scope N_scope.

Definition SL : N := 47.
Definition DOT : bytes := [46].
Definition DOTDOT : bytes := [46; 46].

Fixpoint beq (a b : bytes) : bool :=
  match a, b with
  | [], [] => true
  | x :: a', y :: b' => (x =? y) && beq a' b'
  | _, _ => false
  end.

Definition is_nil (a : bytes) : bool := match a with [] => true | _ => false end.

(* strings.Split(s, "/") : n separators give n+1 pieces *)
Fixpoint split_sl (s : bytes) : list bytes :=
  match s with
  | [] => [[]]
  | c :: r =>
    if c =? SL then [] :: split_sl r
    else match split_sl r with
         | h :: t => (c :: h) :: t
         | [] => [[c]]
         end
  end.

(* strings.Join(cs, "/") *)
Definition join_sl (cs : list bytes) : bytes :=
  match cs with
  | [] => []
  | c :: r => c ++ flat_map (fun x => SL :: x) r
  end.

(* the component loop of filepath.Clean; [st] is the output so far, last
   component first.  Rooted paths drop a ".." at the root, relative paths keep
   leading ".." components (Go's `dotdot` marker). *)
Fixpoint reduce (rooted : bool) (st : list bytes) (cs : list bytes) : list bytes :=
  match cs with
  | [] => rev st
  | c :: r =>
    if is_nil c || beq c DOT then reduce rooted st r
    else if beq c DOTDOT then
      match st with
      | top :: st' => if beq top DOTDOT then reduce rooted (c :: st) r else reduce rooted st' r
      | [] => if rooted then reduce rooted [] r else reduce rooted [c] r
      end
    else reduce rooted (c :: st) r
  end.

Definition is_abs (p : bytes) : bool := match p with c :: _ => c =? SL | [] => false end.

(* filepath.Clean / path.Clean *)
Definition clean (p : bytes) : bytes :=
  match p with
  | [] => DOT
  | _ =>
    let cs := reduce (is_abs p) [] (split_sl p) in
    if is_abs p then SL :: join_sl cs
    else match cs with [] => DOT | _ => join_sl cs end
  end.

(* filepath.Join(a, b) *)
Definition join2 (a b : bytes) : bytes :=
  match a, b with
  | [], [] => []
  | [], _ => clean b
  | _, _ => clean (a ++ SL :: b)
  end.

(* strings.TrimLeft(s, "/") *)
Fixpoint trim_left_sl (s : bytes) : bytes :=
  match s with
  | c :: r => if c =? SL then trim_left_sl r else s
  | [] => []
  end.

(* components of a cleaned path *)
Definition comps (p : bytes) : list bytes := filter (fun c => negb (is_nil c)) (split_sl p).

Fixpoint is_prefix (a b : list bytes) : bool :=
  match a, b with
  | [], _ => true
  | x :: a', y :: b' => beq x y && is_prefix a' b'
  | _ :: _, [] => false
  end.

(* ---- go-billy osfs (os_rootfs.go) ---- *)

(* cleanUnderRoot: TrimLeft(Join("/", name), "/") *)
Definition clean_under_root (name : bytes) : bytes := trim_left_sl (join2 [SL] name).

(* relativeInsideBase(base, name) for absolute base and name: filepath.Rel of
   the cleaned paths, refused when it starts with ".." *)
Definition relative_inside_base (base name : bytes) : option bytes :=
  let bc := comps (clean base) in
  let nc := comps (clean name) in
  if is_prefix bc nc then Some (join_sl (skipn (List.length bc) nc)) else None.

(* RootOS.toRelative *)
Definition to_relative (base name : bytes) : bytes :=
  match name with
  | [] => []
  | _ =>
    if is_abs name then
      match relative_inside_base base name with
      | Some rel => clean_under_root rel
      | None => clean_under_root name
      end
    else clean_under_root name
  end.

(* BoundOS.chrootPath (baseDir <> "/" : hostAbsolutePath never applies on unix) *)
Definition chroot_path (base path : bytes) : bytes :=
  if is_abs path then
    match relative_inside_base base path with
    | Some rel => clean (join2 base rel)
    | None => clean (join2 base (clean_under_root path))
    end
  else clean (join2 base (clean_under_root path)).

(* os.joinPath *)
Definition os_join_path (dir name : bytes) : bytes :=
  match rev dir with
  | c :: _ => if c =? SL then dir ++ name else dir ++ SL :: name
  | [] => dir ++ SL :: name
  end.

(* ---- go-billy helper/chroot ---- *)

Definition has_prefix (p s : bytes) : bool := beq p (firstn (List.length p) s).

(* isCrossBoundaries *)
Definition is_cross_boundaries (name : bytes) : bool :=
  let n := clean (trim_left_sl name) in
  beq n DOTDOT || has_prefix [46; 46; 47] n.
