(* Model/SparseCheckout.v — G for C32.
   plumbing/format/index/index.go : Index.SkipUnless          (skip_unless)
   worktree.go : treeContainsDirs, Reset (HardReset / MergeReset), Checkout
                 (forced / non-forced), resetIndex, resetWorktree,
                 resetWorktreeToTree steps 1-3                (flat path maps)
   Executable definitions only.

   Trees, the index and the worktree are flat association lists from a
   '/'-separated path to blob content.  The merkletrie differ walks node
   trees; its result is the flat-map difference below when (a) there is no
   file/directory clash and (b) whenever the index holds SkipWorktree entries
   it lists exactly the paths of the target tree (the differ then walks both
   sides in lock-step and a skip node only hides itself).  Outside (b) the
   differ's treatment of skip nodes depends on sibling order and base names
   (difftree.go: from.Skip() / to.Skip() branches) and is NOT modelled; the
   correspondence generates modelled histories only inside (a)+(b) and
   exercises the rest with the direct oracle alone (suite "switch"). *)
From Coq Require Import List NArith Bool String.
From GoGit Require Import Base.Out.
Import ListNotations.
Local Open Scope N_scope.

Definition SLASH : N := 47.

Fixpoint bytes_eqb (a b : bytes) : bool :=
  match a, b with
  | [], [] => true
  | x :: a', y :: b' => (x =? y) && bytes_eqb a' b'
  | _, _ => false
  end.

(* strings.HasPrefix s p *)
Fixpoint has_prefix (p s : bytes) : bool :=
  match p, s with
  | [], _ => true
  | x :: p', y :: s' => (x =? y) && has_prefix p' s'
  | _ :: _, [] => false
  end.

(* SkipUnless: e.Name == pattern || strings.HasPrefix(e.Name, pattern+"/") *)
Definition pat_match (pattern name : bytes) : bool :=
  bytes_eqb name pattern || has_prefix (pattern ++ [SLASH]) name.

(* the condition before the repair (strings.HasPrefix(e.Name, pattern)); kept
   for the record of what failed, not part of G *)
Definition pat_match_old (pattern name : bytes) : bool := has_prefix pattern name.

Record entry := mkE { e_name : bytes; e_data : bytes; e_skip : bool }.

Definition included (pats : list bytes) (name : bytes) : bool :=
  existsb (fun p => pat_match p name) pats.

Definition skip_unless (pats : list bytes) (es : list entry) : list entry :=
  map (fun e => mkE (e_name e) (e_data e) (negb (included pats (e_name e)))) es.

(* ---- flat maps ---- *)
Definition fmap := list (bytes * bytes).

Fixpoint lookup (n : bytes) (m : fmap) : option bytes :=
  match m with
  | [] => None
  | (k, v) :: r => if bytes_eqb k n then Some v else lookup n r
  end.
Definition has (n : bytes) (m : fmap) : bool :=
  match lookup n m with Some _ => true | None => false end.
Definition remove (n : bytes) (m : fmap) : fmap :=
  filter (fun kv => negb (bytes_eqb (fst kv) n)) m.
Definition set (n v : bytes) (m : fmap) : fmap := (n, v) :: remove n m.

Fixpoint idx_find (n : bytes) (i : list entry) : option entry :=
  match i with
  | [] => None
  | e :: r => if bytes_eqb (e_name e) n then Some e else idx_find n r
  end.
Definition idx_has (n : bytes) (i : list entry) : bool :=
  match idx_find n i with Some _ => true | None => false end.
Definition idx_remove (n : bytes) (i : list entry) : list entry :=
  filter (fun e => negb (bytes_eqb (e_name e) n)) i.
Definition idx_set (e : entry) (i : list entry) : list entry := e :: idx_remove (e_name e) i.

(* ---- worktree.go ---- *)
(* treeContainsDirs: every dir must be found in the tree as a directory *)
Definition tree_has_dir (t : fmap) (d : bytes) : bool :=
  existsb (fun kv => has_prefix (d ++ [SLASH]) (fst kv)) t.
Definition tree_contains_dirs (t : fmap) (dirs : list bytes) : bool :=
  match dirs with [] => false | _ => forallb (tree_has_dir t) dirs end.

(* resetIndex: DiffTree(index, tree) -> Remove/Add per change, then SkipUnless
   when dirs is not empty; also returns removedFiles (names of the changes) *)
Definition reset_index (t : fmap) (dirs : list bytes) (i : list entry) : list entry * list bytes :=
  let deleted := filter (fun e => negb (e_skip e) && negb (has (e_name e) t)) i in
  let modified := filter (fun e => negb (e_skip e) &&
                     match lookup (e_name e) t with Some c => negb (bytes_eqb c (e_data e)) | None => false end) i in
  let inserted := filter (fun kv => negb (idx_has (fst kv) i)) t in
  let kept := filter (fun e => e_skip e || has (e_name e) t) i in
  let upd := map (fun e => if e_skip e then e else
                     match lookup (e_name e) t with Some c => mkE (e_name e) c false | None => e end) kept in
  let i1 := upd ++ map (fun kv => mkE (fst kv) (snd kv) false) inserted in
  (match dirs with [] => i1 | _ => skip_unless dirs i1 end,
   map e_name deleted ++ map e_name modified ++ map fst inserted).

(* containsUnstagedChanges: a visible index entry whose file is missing or differs *)
Definition unstaged (i : list entry) (w : fmap) : bool :=
  existsb (fun e => negb (e_skip e) &&
             match lookup (e_name e) w with Some c => negb (bytes_eqb c (e_data e)) | None => true end) i.

Inductive status := SOk | SErrDir | SErrUnstaged | SErrEntry.

(* Insert/Modify changes of DiffTree(worktree, index) restricted by [sel]:
   checkoutChange writes the target tree's file and re-adds the index entry *)
Fixpoint write_entries (t : fmap) (sel : bytes -> bool) (todo : list entry) (i : list entry) (w : fmap)
  : option (list entry * fmap) :=
  match todo with
  | [] => Some (i, w)
  | e :: r =>
    let differs := match lookup (e_name e) w with Some c => negb (bytes_eqb c (e_data e)) | None => true end in
    if negb (e_skip e) && differs && sel (e_name e) then
      match lookup (e_name e) t with
      | None => None                                  (* t.FindEntry: entry not found *)
      | Some c => write_entries t sel r (idx_set (mkE (e_name e) c false) i) (set (e_name e) c w)
      end
    else write_entries t sel r i w
  end.

Fixpoint mem (n : bytes) (l : list bytes) : bool :=
  match l with [] => false | x :: r => bytes_eqb x n || mem n r end.

(* resetWorktree (MergeReset): only the files named by removedFiles *)
Definition reset_worktree (t : fmap) (removed : list bytes) (i : list entry) (w : fmap)
  : option (list entry * fmap) :=
  let w1 := filter (fun kv => negb (mem (fst kv) removed && negb (idx_has (fst kv) i))) w in
  write_entries t (fun n => mem n removed) i i w1.

(* resetWorktreeToTree (HardReset): step 1 deletes prev\target, step 2 writes
   missing/stale visible entries, step 3 removes SkipWorktree files *)
Definition reset_worktree_to_tree (prev t : fmap) (i : list entry) (w : fmap)
  : option (list entry * fmap) :=
  let w1 := filter (fun kv => negb (has (fst kv) prev && negb (has (fst kv) t))) w in
  match write_entries t (fun _ => true) i i w1 with
  | None => None
  | Some (i2, w2) =>
    Some (i2, filter (fun kv => negb (match idx_find (fst kv) i with Some e => e_skip e | None => false end)) w2)
  end.

Record state := mkS { s_head : fmap; s_idx : list entry; s_wt : fmap }.

Inductive mode := Hard | Merge.

(* Worktree.Reset after opts.Validate; [prev] is opts.fromTree / headTree() *)
Definition reset_core (prev : fmap) (m : mode) (t : fmap) (dirs : list bytes) (sv : bool) (s : state)
  : status * state :=
  if (match m with Merge => unstaged (s_idx s) (s_wt s) | Hard => false end) then (SErrUnstaged, s)
  else if (match dirs with [] => false | _ => negb sv && negb (tree_contains_dirs t dirs) end) then (SErrDir, s)
  else
    let '(i1, removed) := reset_index t dirs (s_idx s) in
    match m with
    | Merge =>
      match removed with
      | [] => (SOk, mkS t i1 (s_wt s))
      | _ => match reset_worktree t removed i1 (s_wt s) with
             | Some (i2, w2) => (SOk, mkS t i2 w2)
             | None => (SErrEntry, s)
             end
      end
    | Hard =>
      match reset_worktree_to_tree prev t i1 (s_wt s) with
      | Some (i2, w2) => (SOk, mkS t i2 w2)
      | None => (SErrEntry, s)
      end
    end.

Inductive op :=
| OCheckout (force : bool) (t : fmap) (dirs : list bytes)
| OReset (m : mode) (t : fmap) (dirs : list bytes) (sv : bool)
| OWrite (n c : bytes)            (* the user creates / overwrites a worktree file *)
| OModify (n c : bytes).          (* ... only if the file exists *)

(* Checkout moves HEAD before calling Reset (fromTree captured first) *)
Definition step (s : state) (o : op) : status * state :=
  match o with
  | OCheckout force t dirs =>
    reset_core (s_head s) (if force then Hard else Merge) t dirs false (mkS t (s_idx s) (s_wt s))
  | OReset m t dirs sv => reset_core (s_head s) m t dirs sv s
  | OWrite n c => (SOk, mkS (s_head s) (s_idx s) (set n c (s_wt s)))
  | OModify n c => (SOk, if has n (s_wt s) then mkS (s_head s) (s_idx s) (set n c (s_wt s)) else s)
  end.

(* ---- observables ---- *)
Fixpoint bytes_leb (a b : bytes) : bool :=
  match a, b with
  | [], _ => true
  | _ :: _, [] => false
  | x :: a', y :: b' => if x <? y then true else if y <? x then false else bytes_leb a' b'
  end.
Fixpoint insert_by {A} (key : A -> bytes) (x : A) (l : list A) : list A :=
  match l with
  | [] => [x]
  | y :: r => if bytes_leb (key x) (key y) then x :: l else y :: insert_by key x r
  end.
Definition sort_by {A} (key : A -> bytes) (l : list A) : list A := fold_right (insert_by key) [] l.

Definition status_sym (st : status) : out :=
  OSym (match st with SOk => "ok" | SErrDir => "sparse_dir_not_found"
                 | SErrUnstaged => "unstaged" | SErrEntry => "entry_not_found" end).

Definition obs_state (s : state) : list out :=
  [ OList (map (fun e => OList [OBytes (e_name e); OBool (e_skip e); OBytes (e_data e)]) (sort_by e_name (s_idx s)));
    OList (map (fun kv => OList [OBytes (fst kv); OBytes (snd kv)]) (sort_by fst (s_wt s))) ].

(* the history stops at the first entry-not-found failure (partial effects are not modelled) *)
Fixpoint run (s : state) (ops : list op) : list out :=
  match ops with
  | [] => []
  | o :: r =>
    match step s o with
    | (SErrEntry, _) => [OList [status_sym SErrEntry]]
    | (st, s') => OList (status_sym st :: obs_state s') :: run s' r
    end
  end.

(* ---- correspondence entry points ---- *)
Definition c32_skip (names dirs : list string) (preskip : bool) : out :=
  OList (map (fun e => OBool (e_skip e))
           (skip_unless (map unhex dirs) (map (fun n => mkE (unhex n) [] preskip) names))).

Definition hexmap (l : list (string * string)) : fmap := map (fun kv => (unhex (fst kv), unhex (snd kv))) l.

Inductive hop :=
| HCheckout (to_b force : bool) (dirs : list string)
| HReset (to_b : bool) (m : mode) (dirs : list string) (sv : bool)
| HWrite (n c : string)
| HModify (n c : string).

Definition c32_hist (a b untracked : list (string * string)) (ops : list hop) : out :=
  let ta := hexmap a in let tb := hexmap b in
  let pick (x : bool) := if x then tb else ta in
  OList (run (mkS ta [] (hexmap untracked))
    (map (fun h => match h with
                   | HCheckout to_b f d => OCheckout f (pick to_b) (map unhex d)
                   | HReset to_b m d sv => OReset m (pick to_b) (map unhex d) sv
                   | HWrite n c => OWrite (unhex n) (unhex c)
                   | HModify n c => OModify (unhex n) (unhex c)
                   end) ops)).
