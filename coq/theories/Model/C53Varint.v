(* Model/C53Varint.v — G for the variable-length integer decoders of
   plumbing/format/packfile/util/util.go: DecodeLEB128, DecodeLEB128FromReader,
   VariableLengthSize (uint = uint64).  Every slice index is written with
   nth_error: an index outside the slice gives the result VOob (a Go panic),
   which the C53 theorems exclude.  Executable definitions only. *)
From Coq Require Import List NArith ZArith Bool String.
From GoGit Require Import Base.Out Base.GoInt Gen.C53.
Import ListNotations.

Inductive vres :=
| VOk (num : Z) (rest : bytes)     (* value, unread input *)
| VOverflow                        (* ErrLengthOverflow *)
| VEof                             (* reader error (io.EOF) *)
| VOob                             (* index out of range: would be a panic *)
| VFuel.

(* num |= (uint(b) & maskPayload) << (sz*7) at 64 bits *)
Definition leb_step (num : Z) (b : N) (sz : nat) : Z :=
  Z.lor num (wrapu 64 (Z.shiftl (Z.land (Z.of_N b) pfutil_maskPayload) (Z.of_nat sz * 7))).

(* DecodeLEB128: the loop, sz counts the bytes taken so far; fuel bounds the
   iterations (each one advances sz) *)
Fixpoint leb_loop (fuel : nat) (input : bytes) (num : Z) (sz : nat) : vres :=
  match fuel with
  | O => VFuel
  | S f =>
    if (Z.of_nat sz * 7 >? pfutil_uintBits - 7)%Z then VOverflow
    else match nth_error input sz with
         | None => VOob
         | Some b =>
           let num' := leb_step num b sz in
           let sz' := S sz in
           if (Z.land (Z.of_N b) pfutil_maskContinue =? 0)%Z || Nat.eqb sz' (List.length input)
           then VOk num' (skipn sz' input)
           else leb_loop f input num' sz'
         end
  end.

Definition decode_leb128 (input : bytes) : vres :=
  match input with
  | [] => VOk 0 []
  | _ => leb_loop (S (List.length input)) input 0 0
  end.

(* DecodeLEB128FromReader over the bytes the reader still holds *)
Fixpoint leb_reader (input : bytes) (num : Z) (sz : nat) : vres :=
  if (Z.of_nat sz * 7 >? pfutil_uintBits - 7)%Z then VOverflow
  else match input with
       | [] => VEof
       | b :: r =>
         let num' := leb_step num b sz in
         if (Z.land (Z.of_N b) pfutil_maskContinue =? 0)%Z then VOk num' r
         else leb_reader r num' (S sz)
       end.
Definition decode_leb128_reader (input : bytes) : vres := leb_reader input 0 0.

(* VariableLengthSize(first, reader) *)
Fixpoint vls_loop (input : bytes) (size : Z) (shift : Z) : vres :=
  if (shift >? 64 - 7)%Z then VOverflow
  else match input with
       | [] => VEof
       | b :: r =>
         let size' := Z.lor size (wrapu 64 (Z.shiftl (Z.land (Z.of_N b) 127) shift)) in
         if (Z.land (Z.of_N b) pfutil_maskContinue =? 0)%Z then VOk size' r
         else vls_loop r size' (shift + 7)
       end.
Definition variable_length_size (first : N) (tail : bytes) : vres :=
  let size := Z.land (Z.of_N first) 15 in
  if (Z.land (Z.of_N first) pfutil_maskContinue =? 0)%Z then VOk size tail
  else vls_loop tail size 4.

(* ---------- observables / entry points ---------- *)
Definition o_vres (v : vres) : out :=
  match v with
  | VOk n rest => OOk [ONum n; ONat (List.length rest)]
  | VOverflow => OErr "overflow"
  | VEof => OErr "eof"
  | VOob => OErr "oob"
  | VFuel => OErr "fuel"
  end.

Definition c53_leb (hex : string) : out := o_vres (decode_leb128 (unhex hex)).
Definition c53_leb_reader (hex : string) : out := o_vres (decode_leb128_reader (unhex hex)).
Definition c53_vls (first : N) (hex : string) : out := o_vres (variable_length_size first (unhex hex)).
