(* Model/Eol.v — G for C31: utils/convert/stat.go (GetStat, Stat.IsBinary),
   utils/convert/eol.go (crlfToLFWriter.Write, lfToCRLFWriter.Write) and the
   callers' decisions (worktree.go copyObjectToWorktree, worktree_status.go
   fillEncodedObjectFromFile, utils/merkletrie/filesystem/node.go
   doCalculateHashForRegular).  Executable definitions only, the code AS IT IS. *)
From Coq Require Import List NArith ZArith Bool String.
From GoGit Require Import Base.Out.
Import ListNotations.
Local Open Scope N_scope.

Definition CR : N := 13.
Definition LF : N := 10.
Definition SUB : N := 26.  (* ^Z *)

(* ------------------------------------------------------------------ Stat *)

Record stat := mkStat {
  s_nul : N; s_lonecr : N; s_lonelf : N; s_crlf : N; s_print : N; s_nonprint : N }.
Definition stat0 : stat := mkStat 0 0 0 0 0 0.

(* Stat.IsBinary: NUL > 0 || LoneCR > 0 || !((Printable >> 7) >= NonPrintable) *)
Definition is_binary (s : stat) : bool :=
  if 0 <? s_nul s then true
  else if 0 <? s_lonecr s then true
  else negb (s_nonprint s <=? N.shiftr (s_print s) 7).

(* one iteration of GetStat's loop body on byte b with the flag hadCR *)
Definition stat_step (st : stat) (hadCR : bool) (b : N) : stat * bool :=
  (* if b != '\n' && hadCR { LoneCR++; hadCR = false } *)
  let '(st, hadCR) :=
    if negb (b =? LF) && hadCR
    then (mkStat (s_nul st) (s_lonecr st + 1) (s_lonelf st) (s_crlf st) (s_print st) (s_nonprint st), false)
    else (st, hadCR) in
  if b =? LF then
    if hadCR then (mkStat (s_nul st) (s_lonecr st) (s_lonelf st) (s_crlf st + 1) (s_print st) (s_nonprint st), false)
    else (mkStat (s_nul st) (s_lonecr st) (s_lonelf st + 1) (s_crlf st) (s_print st) (s_nonprint st), hadCR)
  else if b =? CR then (st, true)
  else if b =? 127 then (mkStat (s_nul st) (s_lonecr st) (s_lonelf st) (s_crlf st) (s_print st) (s_nonprint st + 1), hadCR)
  else if b <? 32 then
    if (b =? 8) || (b =? 9) || (b =? 27) || (b =? 12)
    then (mkStat (s_nul st) (s_lonecr st) (s_lonelf st) (s_crlf st) (s_print st + 1) (s_nonprint st), hadCR)
    else if b =? 0
    then (mkStat (s_nul st + 1) (s_lonecr st) (s_lonelf st) (s_crlf st) (s_print st) (s_nonprint st), hadCR)
    else (mkStat (s_nul st) (s_lonecr st) (s_lonelf st) (s_crlf st) (s_print st) (s_nonprint st + 1), hadCR)
  else (mkStat (s_nul st) (s_lonecr st) (s_lonelf st) (s_crlf st) (s_print st + 1) (s_nonprint st), hadCR).

(* What one call r.Read(buf) with len(buf) = 1 can answer.  GetStat ignores the
   byte count: (0, nil) re-processes the stale buf[0]; (1, io.EOF) stores the
   byte but leaves the loop before counting it.  The end of the event list is
   (0, io.EOF). *)
Inductive rd := RByte (b : N) | RZero | RByteEOF (b : N).

(* the final adjustments: if hadCR { LoneCR++ }; if buf[0] == ^Z { NonPrintable-- } (uint: wraps) *)
Definition stat_finish (st : stat) (hadCR : bool) (buf0 : N) : stat :=
  let lc := if hadCR then s_lonecr st + 1 else s_lonecr st in
  let np := if buf0 =? SUB then (s_nonprint st + (2 ^ 64 - 1)) mod 2 ^ 64 else s_nonprint st in
  mkStat (s_nul st) lc (s_lonelf st) (s_crlf st) (s_print st) np.

Fixpoint get_stat_ev (evs : list rd) (st : stat) (hadCR : bool) (buf0 : N) : stat :=
  match evs with
  | [] => stat_finish st hadCR buf0
  | RByte b :: r => let '(st', h') := stat_step st hadCR b in get_stat_ev r st' h' b
  | RZero :: r => let '(st', h') := stat_step st hadCR buf0 in get_stat_ev r st' h' buf0
  | RByteEOF b :: _ => stat_finish st hadCR b
  end.

(* GetStat on a well-behaved reader delivering exactly the bytes [bs]
   (this is what bufio.Reader gives the three callers) *)
Definition get_stat (bs : bytes) : stat := get_stat_ev (map RByte bs) stat0 false 0.

(* ------------------------------------------------------------------ crlfToLFWriter *)

(* bytes.Index(w, "\r\n") = idx  as  Some (w[:idx], w[idx+2:]) *)
Fixpoint cut_crlf (w : bytes) : option (bytes * bytes) :=
  match w with
  | [] => None
  | c :: r =>
    match r with
    | [] => None
    | c2 :: r2 =>
      if (c =? CR) && (c2 =? LF) then Some ([], r2)
      else match cut_crlf r with Some (p, q) => Some (c :: p, q) | None => None end
    end
  end.

(* the `for` loop of Write: returns (bytes handed to the underlying writer by
   the loop, the Go variable n after the loop, data[n:]).  None = fuel exhausted. *)
Fixpoint lf_loop (fuel : nat) (window : bytes) (n : nat) : option (bytes * nat * bytes) :=
  match fuel with
  | O => None
  | S f =>
    match cut_crlf window with
    | None => Some ([], n, window)
    | Some (pre, post) =>
      match lf_loop f post (n + List.length pre + 2) with
      | Some (o, n', rest) => Some (pre ++ LF :: o, n', rest)
      | None => None
      end
    end
  end.

(* one Write(data) on an underlying writer that never fails:
   (bytes emitted, returned count) *)
Definition lf_write (data : bytes) : option (bytes * nat) :=
  match data with
  | [] => Some ([], O)
  | _ =>
    match lf_loop (S (List.length data)) data O with
    | None => None
    | Some (acc, n, rest) =>
      if last data 0 =? CR
      then (* data[n : len(data)-1] *)
           Some (acc ++ removelast rest, (n + List.length (removelast rest) + 1)%nat)
      else Some (acc ++ rest, (n + List.length rest)%nat)
    end
  end.

(* a sequence of Write calls (io.CopyBuffer: one per chunk read) *)
Fixpoint lf_writer (chunks : list bytes) : option (bytes * list nat) :=
  match chunks with
  | [] => Some ([], [])
  | d :: r =>
    match lf_write d, lf_writer r with
    | Some (o, n), Some (o', ns) => Some (o ++ o', n :: ns)
    | _, _ => None
    end
  end.

(* ------------------------------------------------------------------ lfToCRLFWriter *)

(* bytes.IndexByte(w, '\n') = idx  as  Some (w[:idx], w[idx+1:]) *)
Fixpoint cut_lf (w : bytes) : option (bytes * bytes) :=
  match w with
  | [] => None
  | c :: r =>
    if c =? LF then Some ([], r)
    else match cut_lf r with Some (p, q) => Some (c :: p, q) | None => None end
  end.

(* the loop: conv.hadCR is only updated after the loop, so every window that
   starts with LF consults the flag left by the PREVIOUS Write call *)
Fixpoint crlf_loop (fuel : nat) (hadCR : bool) (window : bytes) (n : nat)
  : option (bytes * nat * bytes) :=
  match fuel with
  | O => None
  | S f =>
    match cut_lf window with
    | None => Some ([], n, window)
    | Some (pre, post) =>
      let keep := match pre with [] => hadCR | _ => last pre 0 =? CR end in
      match crlf_loop f hadCR post (n + List.length pre + 1) with
      | Some (o, n', rest) => Some (pre ++ (if keep then [LF] else [CR; LF]) ++ o, n', rest)
      | None => None
      end
    end
  end.

(* one Write(data): (bytes emitted, returned count, new hadCR) *)
Definition crlf_write (hadCR : bool) (data : bytes) : option (bytes * nat * bool) :=
  match data with
  | [] => Some ([], O, hadCR)
  | _ =>
    match crlf_loop (S (List.length data)) hadCR data O with
    | None => None
    | Some (acc, n, rest) => Some (acc ++ rest, (n + List.length rest)%nat, last data 0 =? CR)
    end
  end.

Fixpoint crlf_writer (hadCR : bool) (chunks : list bytes) : option (bytes * list nat) :=
  match chunks with
  | [] => Some ([], [])
  | d :: r =>
    match crlf_write hadCR d with
    | Some (o, n, h) =>
      match crlf_writer h r with
      | Some (o', ns) => Some (o ++ o', n :: ns)
      | None => None
      end
    | None => None
    end
  end.

(* ------------------------------------------------------------------ callers *)

Inductive autocrlf := ACFalse | ACInput | ACTrue.

(* copyObjectToWorktree: the object is read twice; first by GetStat (through a
   bufio.Reader), then copied chunk by chunk, through the CRLF writer iff
   !stat.IsBinary() && stat.CRLF == 0 *)
Definition checkout_conv (ac : autocrlf) (chunks : list bytes) : option bytes :=
  match ac with
  | ACTrue =>
    let st := get_stat (List.concat chunks) in
    if is_binary st || negb (s_crlf st =? 0) then Some (List.concat chunks)
    else option_map fst (crlf_writer false chunks)
  | _ => Some (List.concat chunks)
  end.

(* fillEncodedObjectFromFile (add) *)
Definition add_conv (ac : autocrlf) (chunks : list bytes) : option bytes :=
  match ac with
  | ACFalse => Some (List.concat chunks)
  | _ =>
    if is_binary (get_stat (List.concat chunks)) then Some (List.concat chunks)
    else option_map fst (lf_writer chunks)
  end.

(* doCalculateHashForRegular with Options.AutoCRLF (= autocrlf true or input):
   (size declared to the hasher, bytes hashed) *)
Definition node_hash_input (ac : autocrlf) (chunks : list bytes) : option (N * bytes) :=
  let data := List.concat chunks in
  let size := N.of_nat (List.length data) in
  match ac with
  | ACFalse => Some (size, data)
  | _ =>
    let st := get_stat data in
    if is_binary st then Some (size, data)
    else option_map (fun r => (size - s_crlf st, fst r)) (lf_writer chunks)
  end.

(* io.CopyBuffer with the pooled 32 KiB buffer over a reader that fills it *)
Fixpoint chunks_of_aux (fuel : nat) (k : nat) (bs : bytes) : list bytes :=
  match fuel with
  | O => [bs]
  | S f => match bs with
           | [] => []
           | _ => firstn k bs :: chunks_of_aux f k (skipn k bs)
           end
  end.
Definition chunks_of (k : nat) (bs : bytes) : list bytes :=
  match k with O => [bs] | _ => chunks_of_aux (S (List.length bs)) k bs end.

(* ------------------------------------------------------------------ correspondence entry points *)

Definition ac_of (n : N) : autocrlf := if n =? 2 then ACTrue else if n =? 1 then ACInput else ACFalse.

Definition ev_of (n : N) : rd :=
  if n <? 256 then RByte n else if n <? 512 then RZero else RByteEOF (n - 512).

Definition out_stat (s : stat) : out :=
  OOk [ON (s_nul s); ON (s_lonecr s); ON (s_lonelf s); ON (s_crlf s); ON (s_print s); ON (s_nonprint s);
       OBool (is_binary s)].

Definition c31_stat (evs : list N) : out := out_stat (get_stat_ev (map ev_of evs) stat0 false 0).

Definition c31_isbin (nul lonecr lonelf crlf pr np : N) : out :=
  OBool (is_binary (mkStat nul lonecr lonelf crlf pr np)).

Definition out_w (r : option (bytes * list nat)) : out :=
  match r with
  | Some (o, ns) => OOk [OBytes o; OList (map ONat ns)]
  | None => OErr "fuel"
  end.

Definition c31_lfw (chunks : list string) : out := out_w (lf_writer (map unhex chunks)).
Definition c31_crlfw (chunks : list string) : out := out_w (crlf_writer false (map unhex chunks)).

Definition out_b (r : option bytes) : out :=
  match r with Some o => OOk [OBytes o] | None => OErr "fuel" end.

(* whole-file flows through the real worktree code: chunking = 32 KiB buffers *)
Definition BUFSZ : nat := N.to_nat 32768.
Definition c31_checkout (ac : N) (blob : string) : out :=
  out_b (checkout_conv (ac_of ac) (chunks_of BUFSZ (unhex blob))).
Definition c31_add (ac : N) (file : string) : out :=
  out_b (add_conv (ac_of ac) (chunks_of BUFSZ (unhex file))).
Definition c31_roundtrip (ac : N) (blob : string) : out :=
  match checkout_conv (ac_of ac) (chunks_of BUFSZ (unhex blob)) with
  | Some f => out_b (add_conv (ac_of ac) (chunks_of BUFSZ f))
  | None => OErr "fuel"
  end.
