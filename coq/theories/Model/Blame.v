(* Model/Blame.v — G for C46 (partial by design, DESIGN.md §4.C46).
   blame.go: Blame / addBlames / finishNeeds / applyNeeds, at the level of the attribution function:
     every line of commit c goes, at the same index, to the first parent whose blob is identical;
     without such a parent a line is handed to the first parent (in parent order, among the parents
     that contain the path) in which the line-diff oracle marks it Equal, and is charged to c when
     no parent takes it.
   The priority queue, the merging of queue items of one commit, the identical-commit short cuts and
   numParentsNeedResolving are evaluation strategy of this function and are not modelled; rename
   following in parentsContainingPath is not modelled (parents without the path are skipped).
   The line-diff oracle's answers are inputs: for an edge (parent, child) the list of (type, line count).
   Executable definitions only. *)
From Coq Require Import List NArith Bool Arith String.
From GoGit Require Import Base.Out.
Import ListNotations.

Inductive dop := Equal | Add | Delete.
Definition line := bytes.

Record commit := { c_parents : list nat; c_file : option (list line) }.
Definition history := list commit.                     (* parents first: a parent's index is smaller *)
Definition shape := list (dop * nat).                  (* countLines of each hunk of diff.Do(parent, child) *)
Definition dtable := list (nat * nat * shape).         (* (parent, child) -> shape *)

Fixpoint line_eqb (a b : line) : bool :=
  match a, b with
  | [], [] => true
  | x :: a', y :: b' => N.eqb x y && line_eqb a' b'
  | _, _ => false
  end.
Fixpoint lines_eqb (a b : list line) : bool :=
  match a, b with
  | [], [] => true
  | x :: a', y :: b' => line_eqb x y && lines_eqb a' b'
  | _, _ => false
  end.

Definition get_commit (h : history) (c : nat) : option commit := nth_error h c.
Definition file_of (h : history) (c : nat) : option (list line) :=
  match get_commit h c with Some k => k.(c_file) | None => None end.

Fixpoint get_shape (dt : dtable) (p c : nat) : shape :=
  match dt with
  | [] => []
  | (p', c', s) :: r => if Nat.eqb p p' && Nat.eqb c c' then s else get_shape r p c
  end.

(* the hunk walk of addBlames for one needed line i of the child (prev/cur = lines consumed so far):
   Some j = the line is Equal and is line j of the parent; None = added here (or not covered) *)
Fixpoint map_line (s : shape) (prev cur i : nat) : option nat :=
  match s with
  | [] => None
  | (Equal, n) :: r => if Nat.ltb i (cur + n) then Some (prev + (i - cur)) else map_line r (prev + n) (cur + n) i
  | (Add, n) :: r => if Nat.ltb i (cur + n) then None else map_line r prev (cur + n) i
  | (Delete, n) :: r => map_line r (prev + n) cur i
  end.

(* where line i of commit c goes in parent p (which contains the path) *)
Definition to_parent (h : history) (dt : dtable) (c : nat) (fc : list line) (i : nat) (p : nat) : option nat :=
  match file_of h p with
  | None => None                                         (* parentsContainingPath: parent skipped *)
  | Some fp => if lines_eqb fp fc then Some i            (* same blob: IdenticalToChild *)
               else map_line (get_shape dt p c) 0 0 i
  end.

(* first parent, in order, that takes the line *)
Fixpoint first_taker (h : history) (dt : dtable) (c : nat) (fc : list line) (i : nat) (ps : list nat) : option (nat * nat) :=
  match ps with
  | [] => None
  | p :: r => match to_parent h dt c fc i p with
              | Some j => Some (p, j)
              | None => first_taker h dt c fc i r
              end
  end.

(* a parent whose blob is identical takes the whole blame, whatever its position (as git does;
   the pre-scan added by "fix: blame passes all lines to a parent with an identical blob") *)
Fixpoint identical_parent (h : history) (fc : list line) (ps : list nat) : option nat :=
  match ps with
  | [] => None
  | p :: r => match file_of h p with
              | Some fp => if lines_eqb fp fc then Some p else identical_parent h fc r
              | None => identical_parent h fc r
              end
  end.

Definition taker (h : history) (dt : dtable) (c : nat) (fc : list line) (i : nat) (ps : list nat) : option (nat * nat) :=
  match identical_parent h fc ps with
  | Some p => Some (p, i)
  | None => first_taker h dt c fc i ps
  end.

(* the attribution: (commit, line index in that commit's version); None = out of fuel / no such line *)
Fixpoint blame_pos (fuel : nat) (h : history) (dt : dtable) (c i : nat) : option (nat * nat) :=
  match fuel with
  | O => None
  | S f =>
    match get_commit h c with
    | None => None
    | Some k =>
      match k.(c_file) with
      | None => None
      | Some fc =>
        if Nat.ltb i (List.length fc) then
          match taker h dt c fc i k.(c_parents) with
          | Some (p, j) => blame_pos f h dt p j
          | None => Some (c, i)
          end
        else None
      end
    end
  end.

Definition blame (h : history) (dt : dtable) (head : nat) : list (option nat) :=
  match file_of h head with
  | None => []
  | Some fc => map (fun i => option_map fst (blame_pos (S head) h dt head i)) (seq 0 (List.length fc))
  end.

(* ---------- well-formedness (boolean guards of the theorems) *)
Definition dag_ok (h : history) : bool :=
  forallb (fun ck => forallb (fun p => Nat.ltb p (fst ck)) (snd ck).(c_parents))
          (combine (seq 0 (List.length h)) h).

(* the oracle's contract on one edge: the Equal/Delete counts cover the parent, the Equal/Add counts
   cover the child, and every Equal run joins equal lines *)
Fixpoint shape_ok (s : shape) (fp fc : list line) : bool :=
  match s with
  | [] => match fp, fc with [], [] => true | _, _ => false end
  | (Equal, n) :: r =>
    Nat.leb n (List.length fp) && Nat.leb n (List.length fc) &&
    lines_eqb (firstn n fp) (firstn n fc) && shape_ok r (skipn n fp) (skipn n fc)
  | (Add, n) :: r => Nat.leb n (List.length fc) && shape_ok r fp (skipn n fc)
  | (Delete, n) :: r => Nat.leb n (List.length fp) && shape_ok r (skipn n fp) fc
  end.

Definition oracle_ok (h : history) (dt : dtable) : bool :=
  forallb (fun ck =>
    match (snd ck).(c_file) with
    | None => true
    | Some fc =>
      forallb (fun p => match file_of h p with
                        | None => true
                        | Some fp => lines_eqb fp fc || shape_ok (get_shape dt p (fst ck)) fp fc
                        end) (snd ck).(c_parents)
    end) (combine (seq 0 (List.length h)) h).

(* ---------- correspondence entry point *)
Definition LF : N := 10%N.
Fixpoint split_lines (s : bytes) : list line :=
  match s with
  | [] => []
  | c :: r =>
    if N.eqb c LF then [c] :: split_lines r
    else match split_lines r with
         | [] => [[c]]
         | l :: ls => (c :: l) :: ls
         end
  end.

Definition dop_of_N (n : N) : dop := if N.eqb n 1 then Add else if N.eqb n 2 then Delete else Equal.

Definition mk_commit (ps : list N) (content : option String.string) : commit :=
  {| c_parents := map N.to_nat ps; c_file := option_map (fun s => split_lines (unhex s)) content |}.
Definition mk_edge (p c : N) (s : list (N * N)) : nat * nat * shape :=
  (N.to_nat p, N.to_nat c, map (fun x => (dop_of_N (fst x), N.to_nat (snd x))) s).

Definition c46_run (h : history) (dt : dtable) (head : N) : out :=
  if negb (dag_ok h) then OErr "dag"%string
  else OOk [OList (map (fun o => match o with Some k => ONat k | None => OSym "unattributed"%string end)
                       (blame h dt (N.to_nat head)));
            OBool (oracle_ok h dt)].
