(* Model/IndexGlob.v — G for C28: worktree_status.go AddGlob and RemoveGlob.
     AddGlob    : go-billy util.Glob (the pattern is matched component by component against
                  the directory listings, filepath.Match per name; the repository directory
                  is left out since "fix: leave the .git directory out of the AddGlob matches"),
                  then doAddDirectory / doAddFile for every match with one Status and one
                  in-memory index, saved when nothing failed
     RemoveGlob : index.Glob (plumbing/format/index/match.go: filepath.Match on the WHOLE
                  entry name, '*' and '?' also matching '/'), then for every entry in index
                  order doRemoveFile and removeEmptyDirectory of its directory
   Patterns: literal bytes, '*', '?' (character classes and escapes are not modelled and not
   generated).  Executable definitions only, the code AS IT IS. *)
From Coq Require Import List NArith Bool String.
From GoGit Require Import Base.Out Model.Status Model.IndexOps.
Import ListNotations.
Local Open Scope N_scope.

Definition STAR : N := 42.
Definition QM : N := 63.

(* filepath.Match restricted to literals, '*' and '?' *)
Fixpoint gmatch (p s : bytes) {struct p} : bool :=
  match p with
  | [] => match s with [] => true | _ => false end
  | c :: p' =>
    if c =? STAR then
      (fix star (s : bytes) : bool := gmatch p' s || match s with [] => false | _ :: s' => star s' end) s
    else match s with
         | [] => false
         | x :: s' => ((c =? QM) || (c =? x)) && gmatch p' s'
         end
  end.

(* ------------------------------------------------------------ AddGlob *)

(* the names listed in directory d ([] = the root): first components of the worktree paths below it *)
Definition child_of (d : path) (p : path) : option bytes :=
  match d with
  | [] => match split_slash p [] with n :: _ => Some n | [] => None end
  | _ => if under d p then match split_slash (skipn (S (List.length d)) p) [] with n :: _ => Some n | [] => None end else None
  end.
Definition children (s : state) (d : path) : list bytes :=
  dedup (flat_map (fun f => match child_of d (wf_path f) with Some n => [n] | None => [] end) (st_wt s)).

Definition exists_wt (s : state) (p : path) : bool := has_file s p || is_dir_wt s p.

(* util.Glob: one pattern component after the other *)
Definition glob_step (s : state) (cands : list path) (cp : bytes) : list path :=
  flat_map (fun d => if match d with [] => true | _ => is_dir_wt s d end
                     then map (join d) (filter (gmatch cp) (children s d)) else []) cands.
Definition g_glob (s : state) (pat : bytes) : list path := fold_left (glob_step s) (split_slash pat []) [[]].

(* the names doAddFile is called with: a matched directory contributes the Status keys below it *)
Definition names_of (s : state) (ms : list path) : list path :=
  flat_map (fun m => if has_file s m then [m] else filter (under m) (status_keys s)) ms.

Definition g_add_matches (s : state) (ms : list path) : res :=
  match ms with
  | [] => RErr s                      (* ErrGlobNoMatches *)
  | _ => add_names s (names_of s ms)
  end.
Definition g_add_glob (s : state) (pat : bytes) : res := g_add_matches s (g_glob s pat).

(* ------------------------------------------------------------ RemoveGlob *)

(* filepath.Split(file): the directory part, without the trailing separator ([] when there is none) *)
Fixpoint drop_to_slash (r : bytes) : bytes :=
  match r with [] => [] | c :: r' => if c =? SLASH then r' else drop_to_slash r' end.
Definition dirname (p : path) : path := rev (drop_to_slash (rev p)).
Definition has_slash_b (p : path) : bool := existsb (fun c => c =? SLASH) p.

(* one entry: Lstat must not fail otherwise than "does not exist"; the entry and its file go; then
   removeEmptyDirectory(dir): ReadDir fails when the directory does not exist (any more) *)
Definition rm_glob1 (acc : res) (v : path) : res :=
  match acc with
  | RErr _ => acc
  | ROk s =>
    if existsb (fun f => under (wf_path f) v) (st_wt s) then RErr s      (* Lstat: "not a directory" *)
    else if is_dir_wt s v && negb (has_file s v) then RErr (with_index s (idx_remove (st_index s) v))
         (* the entry's path is a directory now: Remove fails after the entry was dropped in memory; not saved *)
    else
      let s2 := with_both s (idx_remove (st_index s) v) (wt_remove (st_wt s) v) in
      if has_slash_b v && negb (is_dir_wt s (dirname v)) then RErr s2 else ROk s2
  end.

Definition g_rm_glob (s : state) (pat : bytes) : res :=
  let victims := filter (gmatch pat) (map ie_path (st_index s)) in
  match fold_left rm_glob1 victims (ROk s) with
  | ROk s' => ROk s'
  | RErr s' => RErr (with_index s' (st_index s))       (* the index is only written at the end *)
  end.

Definition c28_addglob (tbl : list string) (s : state) (p : string) : out := out_res tbl (g_add_glob s (unhex p)).
Definition c28_rmglob (tbl : list string) (s : state) (p : string) : out := out_res tbl (g_rm_glob s (unhex p)).
