(* Model/ShellQuote.v — G for C41: plumbing/transport/ssh/ssh.go
   writeShellQuote and buildCommand.  Executable definitions only. *)
From Coq Require Import List NArith Bool String.
From GoGit Require Import Base.Out.
Import ListNotations.
Local Open Scope N_scope.

Definition SQ : N := 39.  Definition BS : N := 92.  Definition BANG : N := 33.
Definition SP : N := 32.

(* writeShellQuote: loop body for one byte *)
Definition quote1 (c : N) : bytes :=
  if (c =? SQ) || (c =? BANG) then [SQ; BS; c; SQ] else [c].
Definition quote (s : bytes) : bytes := SQ :: flat_map quote1 s ++ [SQ].

(* buildCommand: req.Command ' ' quote(path) (' ' quote(arg))* *)
Definition build (cmd path : bytes) (args : list bytes) : bytes :=
  cmd ++ [SP] ++ quote path ++ flat_map (fun a => SP :: quote a) args.

(* correspondence entry point: case = cmd, path, args *)
Definition c41_run (cmd path : string) (args : list string) : out :=
  OBytes (build (unhex cmd) (unhex path) (map unhex args)).
