(* Model/PackpV2.v — G for the protocol-v2 messages of C35:
   plumbing/protocol/packp/list.go            EncodeListV2 / DecodeListV2
   plumbing/protocol/packp/capability_adv.go  CapabilityAdv.Encode / Decode
   plumbing/protocol/packp/command.go         CommandRequest.Encode / Decode (Args nil, *LsRefsArgs, *FetchArgs)
   plumbing/protocol/packp/lsrefs.go          LsRefsArgs, validateRefPrefix, LsRefsOutput, parseLsRefsLine, parseFullHash
   plumbing/protocol/packp/fetch.go           FetchArgs, FetchOutput (acknowledgments, shallow-info, wanted-refs,
                                              packfile-uris, the packfile header) Encode / Decode
   Encoders produce the list of pkt-lines they write.  The v2 decoders call
   pktline.ReadLine directly, so they consume the successive ReadLine results of
   a chunked reader (rl_all); every entry carries the number of bytes left in
   the reader after that read, which makes "where Decode stops reading" an
   observable.  Not modelled: the limits tooManyRefPrefixes (65536 ref-prefix
   lines) and maxSectionLines (2^22 lines per section).
   Executable definitions only. *)
From Coq Require Import List NArith ZArith Bool String.
From GoGit Require Import Base.Out Base.GoInt Gen.C34 Model.PktLine Model.C35Utf8 Model.Packp.
Import ListNotations.

(* ---------- ReadLine over a chunked reader ---------- *)
(* what the decoders consume: the successive ReadLine results *)
Definition lines := list rd.

Fixpoint rl_all_go (fuel : nat) (r : reader) : list (rd * nat) :=
  match fuel with
  | O => []
  | S f =>
    let (d, r') := read_line r in
    match rd_err d with
    | Some _ => [(d, rlen r')]
    | None => (d, rlen r') :: rl_all_go f r'
    end
  end.
(* all ReadLine results up to and including the first error (io.EOF at the end of the data) *)
Definition rl_all (r : reader) : list (rd * nat) := rl_all_go (S (S (rlen r))) r.

(* the next ReadLine result; past the recorded error every further read reports io.EOF *)
Definition rl_next (ls : lines) : rd * lines :=
  match ls with
  | [] => (rd_fail PEeof, [])
  | d :: r => (d, r)
  end.

(* bytes left in the reader when a decoder returns with ls' of the results ls unread *)
Definition rl_rest (total : nat) (ls : list (rd * nat)) (ls' : lines) : nat :=
  match (List.length ls - List.length ls')%nat with
  | O => total
  | S k => snd (nth k ls (rd_fail PEeof, O))
  end.

Inductive v2err := V2Pkt (e : perr) | V2Other | V2Malformed.

Definition is_special (l : Z) : bool := (l =? 0)%Z || (l =? 1)%Z || (l =? 2)%Z.

(* ---------- parseFullHash: plumbing.IsHash && plumbing.FromHex ---------- *)
Definition parse_full_hash (s : bytes) : option hash :=
  if Nat.eqb (List.length s) 40 || Nat.eqb (List.length s) 64 then
    let (h, ok) := from_hex s in if ok then Some h else None
  else None.

(* ---------- EncodeListV2 / DecodeListV2 ---------- *)
Definition caps2_encode (l : caps) : list pkt :=
  map (fun e => match snd e with
                | [] => PData (fst e ++ [NL])
                | vs => PData (fst e ++ [61%N] ++ join [SP] vs ++ [NL])
                end) l.

Definition caps2_add_values (l : caps) (key : bytes) (vals : list bytes) : caps :=
  fold_left (fun acc v => match v with [] => acc | _ => cap_add acc key [v] end) vals l.

(* -> (terminating packet length, list, unread lines) *)
Fixpoint caps2_decode (ls : lines) (l : caps) : (Z * caps * lines) + v2err :=
  match ls with
  | [] => inl (0%Z, l, [])                           (* io.EOF: (pktline.Flush, nil) *)
  | d :: r =>
    match rd_err d with
    | Some PEeof => inl (0%Z, l, r)
    | Some e => inr (V2Pkt e)
    | None =>
      if is_special (rd_len d) then inl (rd_len d, l, r)
      else
        let line := trim_eol (rd_payload d) in
        match line with
        | [] => caps2_decode r l
        | _ =>
          match cut 61 line with
          | Some (k, v) => caps2_decode r (caps2_add_values l k (split_on SP v))
          | None => caps2_decode r (cap_add l line [])
          end
        end
    end
  end.

(* ---------- CapabilityAdv ---------- *)
Definition capadv_encode (version : Z) (l : caps) : option (list pkt) :=
  if (version =? 2)%Z then Some (PData (B "version 2" ++ [NL]) :: caps2_encode l ++ [PFlush]) else None.

Definition capadv_decode (ls : lines) : (Z * caps * lines) + v2err :=
  let (d, r) := rl_next ls in
  match rd_err d with
  | Some e => inr (V2Pkt e)
  | None =>
    if (rd_len d <? 4)%Z then inr V2Other
    else match rd_payload d with
    | [] => inr V2Other
    | p =>
      let line := trim_eol p in
      if negb (has_prefix (B "version ") line) then inr V2Other
      else match parse_version (skipn 8 line) with
      | None => inr V2Other
      | Some v =>
        if negb (v =? 2)%Z then inr V2Other
        else match caps2_decode r [] with
        | inr e => inr e
        | inl (len, l, r') => if (len =? 0)%Z then inl (v, l, r') else inr V2Other
        end
      end
    end
  end.

(* ---------- LsRefsArgs ---------- *)
Record lsargs := mklsargs { la_peel : bool; la_symrefs : bool; la_unborn : bool; la_prefixes : list bytes }.
Definition lsargs_zero : lsargs := mklsargs false false false [].

(* validateRefPrefix: non-empty, no rune that is NUL, a control character or white space *)
Definition ref_prefix_ok (p : bytes) : bool :=
  match p with
  | [] => false
  | _ => negb (contains_rune (fun c => (c =? 0)%N || is_control_rune c || is_space_rune c) p)
  end.

Definition lsargs_encode (a : lsargs) : option (list pkt) :=
  if forallb ref_prefix_ok (la_prefixes a) then
    Some ((if la_peel a then [PData (B "peel" ++ [NL])] else []) ++
          (if la_symrefs a then [PData (B "symrefs" ++ [NL])] else []) ++
          (if la_unborn a then [PData (B "unborn" ++ [NL])] else []) ++
          map (fun p => PData (B "ref-prefix " ++ p ++ [NL])) (la_prefixes a))
  else None.

Fixpoint lsargs_decode (ls : lines) (a : lsargs) : (lsargs * lines) + v2err :=
  match ls with
  | [] => inl (a, [])
  | d :: r =>
    match rd_err d with
    | Some PEeof => inl (a, r)
    | Some e => inr (V2Pkt e)
    | None =>
      if (rd_len d =? 0)%Z then inl (a, r)
      else
        let line := trim_eol (rd_payload d) in
        match line with
        | [] => lsargs_decode r a
        | _ =>
          if beq line (B "peel") then lsargs_decode r (mklsargs true (la_symrefs a) (la_unborn a) (la_prefixes a))
          else if beq line (B "symrefs") then lsargs_decode r (mklsargs (la_peel a) true (la_unborn a) (la_prefixes a))
          else if beq line (B "unborn") then lsargs_decode r (mklsargs (la_peel a) (la_symrefs a) true (la_prefixes a))
          else if has_prefix (B "ref-prefix ") line
          then lsargs_decode r (mklsargs (la_peel a) (la_symrefs a) (la_unborn a) (la_prefixes a ++ [skipn 11 line]))
          else lsargs_decode r a
        end
    end
  end.

(* ---------- FetchArgs ---------- *)
Record fetchargs := mkfetchargs {
  fa_wants : list hash; fa_haves : list hash; fa_done : bool; fa_thin : bool; fa_noprogress : bool;
  fa_includetag : bool; fa_ofsdelta : bool; fa_shallows : list hash; fa_deepen : Z; fa_deepenrel : bool;
  fa_since : option Z; fa_not : list bytes; fa_filter : bytes; fa_waitdone : bool }.
Definition fetchargs_zero : fetchargs := mkfetchargs [] [] false false false false false [] 0 false None [] [] false.

Definition flag_line (b : bool) (s : string) : list pkt := if b then [PData (B s ++ [NL])] else [].

Definition fetchargs_encode (a : fetchargs) : option (list pkt) :=
  match fa_wants a with
  | [] => None
  | _ =>
    Some (map (fun h => PData (B "want " ++ hash_str h ++ [NL])) (sort_hashes (fa_wants a)) ++
          map (fun h => PData (B "have " ++ hash_str h ++ [NL])) (sort_hashes (fa_haves a)) ++
          flag_line (fa_done a) "done" ++ flag_line (fa_thin a) "thin-pack" ++
          flag_line (fa_noprogress a) "no-progress" ++ flag_line (fa_includetag a) "include-tag" ++
          flag_line (fa_ofsdelta a) "ofs-delta" ++
          map (fun h => PData (B "shallow " ++ hash_str h ++ [NL])) (sort_hashes (fa_shallows a)) ++
          (if (fa_deepen a >? 0)%Z then [PData (B "deepen " ++ dec_bytes (fa_deepen a) ++ [NL])] else []) ++
          flag_line (fa_deepenrel a) "deepen-relative" ++
          (match fa_since a with Some t => [PData (B "deepen-since " ++ dec_bytes t ++ [NL])] | None => [] end) ++
          map (fun r => PData (B "deepen-not " ++ r ++ [NL])) (fa_not a) ++
          (match fa_filter a with [] => [] | f => [PData (B "filter " ++ f ++ [NL])] end) ++
          flag_line (fa_waitdone a) "wait-for-done")
  end.

Definition fa_set_wants a v := mkfetchargs v (fa_haves a) (fa_done a) (fa_thin a) (fa_noprogress a) (fa_includetag a) (fa_ofsdelta a) (fa_shallows a) (fa_deepen a) (fa_deepenrel a) (fa_since a) (fa_not a) (fa_filter a) (fa_waitdone a).
Definition fa_set_haves a v := mkfetchargs (fa_wants a) v (fa_done a) (fa_thin a) (fa_noprogress a) (fa_includetag a) (fa_ofsdelta a) (fa_shallows a) (fa_deepen a) (fa_deepenrel a) (fa_since a) (fa_not a) (fa_filter a) (fa_waitdone a).
Definition fa_set_done a := mkfetchargs (fa_wants a) (fa_haves a) true (fa_thin a) (fa_noprogress a) (fa_includetag a) (fa_ofsdelta a) (fa_shallows a) (fa_deepen a) (fa_deepenrel a) (fa_since a) (fa_not a) (fa_filter a) (fa_waitdone a).
Definition fa_set_thin a := mkfetchargs (fa_wants a) (fa_haves a) (fa_done a) true (fa_noprogress a) (fa_includetag a) (fa_ofsdelta a) (fa_shallows a) (fa_deepen a) (fa_deepenrel a) (fa_since a) (fa_not a) (fa_filter a) (fa_waitdone a).
Definition fa_set_noprogress a := mkfetchargs (fa_wants a) (fa_haves a) (fa_done a) (fa_thin a) true (fa_includetag a) (fa_ofsdelta a) (fa_shallows a) (fa_deepen a) (fa_deepenrel a) (fa_since a) (fa_not a) (fa_filter a) (fa_waitdone a).
Definition fa_set_includetag a := mkfetchargs (fa_wants a) (fa_haves a) (fa_done a) (fa_thin a) (fa_noprogress a) true (fa_ofsdelta a) (fa_shallows a) (fa_deepen a) (fa_deepenrel a) (fa_since a) (fa_not a) (fa_filter a) (fa_waitdone a).
Definition fa_set_ofsdelta a := mkfetchargs (fa_wants a) (fa_haves a) (fa_done a) (fa_thin a) (fa_noprogress a) (fa_includetag a) true (fa_shallows a) (fa_deepen a) (fa_deepenrel a) (fa_since a) (fa_not a) (fa_filter a) (fa_waitdone a).
Definition fa_set_shallows a v := mkfetchargs (fa_wants a) (fa_haves a) (fa_done a) (fa_thin a) (fa_noprogress a) (fa_includetag a) (fa_ofsdelta a) v (fa_deepen a) (fa_deepenrel a) (fa_since a) (fa_not a) (fa_filter a) (fa_waitdone a).
Definition fa_set_deepen a v := mkfetchargs (fa_wants a) (fa_haves a) (fa_done a) (fa_thin a) (fa_noprogress a) (fa_includetag a) (fa_ofsdelta a) (fa_shallows a) v (fa_deepenrel a) (fa_since a) (fa_not a) (fa_filter a) (fa_waitdone a).
Definition fa_set_deepenrel a := mkfetchargs (fa_wants a) (fa_haves a) (fa_done a) (fa_thin a) (fa_noprogress a) (fa_includetag a) (fa_ofsdelta a) (fa_shallows a) (fa_deepen a) true (fa_since a) (fa_not a) (fa_filter a) (fa_waitdone a).
Definition fa_set_since a v := mkfetchargs (fa_wants a) (fa_haves a) (fa_done a) (fa_thin a) (fa_noprogress a) (fa_includetag a) (fa_ofsdelta a) (fa_shallows a) (fa_deepen a) (fa_deepenrel a) v (fa_not a) (fa_filter a) (fa_waitdone a).
Definition fa_set_not a v := mkfetchargs (fa_wants a) (fa_haves a) (fa_done a) (fa_thin a) (fa_noprogress a) (fa_includetag a) (fa_ofsdelta a) (fa_shallows a) (fa_deepen a) (fa_deepenrel a) (fa_since a) v (fa_filter a) (fa_waitdone a).
Definition fa_set_filter a v := mkfetchargs (fa_wants a) (fa_haves a) (fa_done a) (fa_thin a) (fa_noprogress a) (fa_includetag a) (fa_ofsdelta a) (fa_shallows a) (fa_deepen a) (fa_deepenrel a) (fa_since a) (fa_not a) v (fa_waitdone a).
Definition fa_set_waitdone a := mkfetchargs (fa_wants a) (fa_haves a) (fa_done a) (fa_thin a) (fa_noprogress a) (fa_includetag a) (fa_ofsdelta a) (fa_shallows a) (fa_deepen a) (fa_deepenrel a) (fa_since a) (fa_not a) (fa_filter a) true.

(* one argument line (already TrimSpace'd, non-empty): the switch of FetchArgs.Decode; None = error *)
Definition fetchargs_line (line : bytes) (a : fetchargs) : option fetchargs :=
  if has_prefix (B "want ") line then
    match parse_full_hash (skipn 5 line) with Some h => Some (fa_set_wants a (fa_wants a ++ [h])) | None => None end
  else if has_prefix (B "have ") line then
    match parse_full_hash (skipn 5 line) with Some h => Some (fa_set_haves a (fa_haves a ++ [h])) | None => None end
  else if beq line (B "done") then Some (fa_set_done a)
  else if beq line (B "thin-pack") then Some (fa_set_thin a)
  else if beq line (B "no-progress") then Some (fa_set_noprogress a)
  else if beq line (B "include-tag") then Some (fa_set_includetag a)
  else if beq line (B "ofs-delta") then Some (fa_set_ofsdelta a)
  else if has_prefix (B "shallow ") line then
    match parse_full_hash (skipn 8 line) with Some h => Some (fa_set_shallows a (fa_shallows a ++ [h])) | None => None end
  else if beq line (B "deepen-relative") then Some (fa_set_deepenrel a)
  else if has_prefix (B "deepen-relative ") line then Some (fa_set_deepenrel a)
  else if has_prefix (B "deepen-since ") line then
    match parse_int (skipn 13 line) with Some t => Some (fa_set_since a (since_of t)) | None => None end
  else if has_prefix (B "deepen-not ") line then Some (fa_set_not a (fa_not a ++ [skipn 11 line]))
  else if has_prefix (B "deepen ") line then
    match parse_int (skipn 7 line) with Some n => Some (fa_set_deepen a n) | None => None end
  else if has_prefix (B "filter ") line then Some (fa_set_filter a (skipn 7 line))
  else if beq line (B "wait-for-done") then Some (fa_set_waitdone a)
  else Some a.

Fixpoint fetchargs_decode (ls : lines) (a : fetchargs) : (fetchargs * lines) + v2err :=
  match ls with
  | [] => inl (a, [])
  | d :: r =>
    match rd_err d with
    | Some PEeof => inl (a, r)
    | Some e => inr (V2Pkt e)
    | None =>
      if (rd_len d =? 0)%Z || (rd_len d =? 1)%Z then inl (a, r)
      else
        let line := trim_space_u (rd_payload d) in
        match line with
        | [] => inl (a, r)                              (* an empty line ends the arguments *)
        | _ => match fetchargs_line line a with
               | Some a' => fetchargs_decode r a'
               | None => inr V2Other
               end
        end
    end
  end.

(* ---------- CommandRequest ---------- *)
Inductive cargs := CANone | CALs (a : lsargs) | CAFetch (a : fetchargs).
Record cmdreq := mkcmdreq { cr_command : bytes; cr_caps : caps; cr_args : cargs }.

Definition cargs_encode (a : cargs) : option (list pkt) :=
  match a with
  | CANone => Some []
  | CALs x => lsargs_encode x
  | CAFetch x => fetchargs_encode x
  end.

Definition cmdreq_encode (c : cmdreq) : option (list pkt) :=
  match cr_command c with
  | [] => Some [PFlush]
  | cmd =>
    match cargs_encode (cr_args c) with
    | None => None
    | Some al => Some (PData (B "command=" ++ cmd ++ [NL]) :: caps2_encode (cr_caps c) ++ [PDelim] ++ al ++ [PFlush])
    end
  end.

(* kind: which Args decoder the caller installed (CANone = nil); its content is the zero value *)
Definition cmdreq_decode (kind : cargs) (ls : lines) : (cmdreq * lines) + v2err :=
  let (d, r) := rl_next ls in
  match rd_err d with
  | Some PEeof => inl (mkcmdreq [] [] kind, r)
  | Some e => inr (V2Pkt e)
  | None =>
    if (rd_len d =? 0)%Z then inl (mkcmdreq [] [] kind, r)
    else
      let line := trim_eol (rd_payload d) in
      if negb (has_prefix (B "command=") line) then inr V2Other
      else
        let cmd := skipn 8 line in
        match caps2_decode r [] with
        | inr e => inr e
        | inl (len, l, r1) =>
          if negb (len =? 1)%Z then inr V2Other
          else match kind with
          | CANone =>
            let (d2, r2) := rl_next r1 in
            match rd_err d2 with
            | Some e => inr (V2Pkt e)
            | None => if (rd_len d2 =? 0)%Z then inl (mkcmdreq cmd l CANone, r2) else inr V2Other
            end
          | CALs a0 =>
            match lsargs_decode r1 a0 with
            | inl (a, r2) => inl (mkcmdreq cmd l (CALs a), r2)
            | inr e => inr e
            end
          | CAFetch a0 =>
            match fetchargs_decode r1 a0 with
            | inl (a, r2) => inl (mkcmdreq cmd l (CAFetch a), r2)
            | inr e => inr e
            end
          end
        end
  end.

(* ---------- LsRefsOutput ---------- *)
Inductive refval := RHash (h : hash) | RSym (target : bytes).
Definition lsref := (bytes * refval)%type.

(* hashByName[name]: the last hash reference of that name *)
Fixpoint hash_by_name (refs : list lsref) (name : bytes) (found : option hash) : option hash :=
  match refs with
  | [] => found
  | (n, RHash h) :: r => if beq n name then hash_by_name r name (Some h) else hash_by_name r name found
  | (_, RSym _) :: r => hash_by_name r name found
  end.

Definition UNBORN : bytes := B "unborn".

Definition lsout_line (refs : list lsref) (x : lsref) : list pkt :=
  let (name, v) := x in
  if is_peeled name then []
  else match v with
  | RSym target =>
    let oid := match hash_by_name refs target None with
               | Some h => if hash_is_zero h then UNBORN else hash_str h
               | None => UNBORN
               end in
    [PData (oid ++ [SP] ++ name ++ [SP] ++ B "symref-target:" ++ target ++ [NL])]
  | RHash h =>
    let base := hash_str h ++ [SP] ++ name in
    match hash_by_name refs (name ++ peeled_suffix) None with
    | Some ph => [PData (base ++ [SP] ++ B "peeled:" ++ hash_str ph ++ [NL])]
    | None => [PData (base ++ [NL])]
    end
  end.

Definition lsout_encode (refs : list lsref) : list pkt := flat_map (lsout_line refs) refs.

(* the attribute loop of parseLsRefsLine: (symref target, peeled hash); None = malformed peeled hash *)
Fixpoint lsout_attrs (attrs : list bytes) (sym : bytes) (peeled : option hash) : option (bytes * option hash) :=
  match attrs with
  | [] => Some (sym, peeled)
  | a :: r =>
    if has_prefix (B "symref-target:") a then lsout_attrs r (skipn 14 a) peeled
    else if has_prefix (B "peeled:") a then
      match parse_full_hash (skipn 7 a) with
      | Some h => lsout_attrs r sym (Some h)
      | None => None
      end
    else lsout_attrs r sym peeled
  end.

Definition parse_lsrefs_line (line : bytes) : option (list lsref) :=
  match fields_u line with
  | oid :: name :: attrs =>
    match lsout_attrs attrs [] None with
    | None => None
    | Some (sym, peeled) =>
      if beq oid UNBORN then
        match sym with [] => None | _ => Some [(name, RSym sym)] end
      else match parse_full_hash oid with
      | None => None
      | Some h =>
        Some ((name, match sym with [] => RHash h | _ => RSym sym end) ::
              match peeled with Some ph => [(name ++ peeled_suffix, RHash ph)] | None => [] end)
      end
    end
  | _ => None
  end.

Fixpoint lsout_decode (ls : lines) (acc : list lsref) : (list lsref * lines) + v2err :=
  match ls with
  | [] => inl (acc, [])
  | d :: r =>
    match rd_err d with
    | Some PEeof => inl (acc, r)
    | Some e => inr (V2Pkt e)
    | None =>
      if (rd_len d =? 0)%Z then inl (acc, r)
      else
        let line := trim_eol (rd_payload d) in
        match line with
        | [] => lsout_decode r acc
        | _ => match parse_lsrefs_line line with
               | Some refs => lsout_decode r (acc ++ refs)
               | None => inr V2Other
               end
        end
    end
  end.

(* ---------- FetchOutput ---------- *)
Record fetchout := mkfetchout {
  fo_acks : option (list hash * bool);                 (* ACKs, Ready *)
  fo_shallow : option (list hash * list hash);         (* Shallows, Unshallows *)
  fo_wanted : option (list (bytes * hash));            (* (name, hash) *)
  fo_uris : option (list bytes);
  fo_packfile : bool }.
Definition fetchout_zero : fetchout := mkfetchout None None None None false.

Definition acks_encode (a : list hash * bool) : list pkt :=
  map (fun h => PData (B "ACK " ++ hash_str h ++ [NL])) (fst a) ++
  (if snd a then [PData (B "ready" ++ [NL])]
   else match fst a with [] => [PData (B "NAK" ++ [NL])] | _ => [] end).

Definition shinfo_encode (s : list hash * list hash) : list pkt :=
  map (fun h => PData (B "shallow " ++ hash_str h ++ [NL])) (fst s) ++
  map (fun h => PData (B "unshallow " ++ hash_str h ++ [NL])) (snd s).

Definition wanted_encode (w : list (bytes * hash)) : list pkt :=
  map (fun r => PData (hash_str (snd r) ++ [SP] ++ fst r ++ [NL])) w.

Definition uris_encode (u : list bytes) : list pkt := map (fun x => PData (x ++ [NL])) u.

Definition section {A} (hdr : string) (enc : A -> list pkt) (o : option A) : list pkt :=
  match o with Some x => PData (B hdr ++ [NL]) :: enc x ++ [PDelim] | None => [] end.

Definition fetchout_encode (o : fetchout) : option (list pkt) :=
  if fo_packfile o then
    Some (section "acknowledgments" acks_encode (fo_acks o) ++ section "shallow-info" shinfo_encode (fo_shallow o) ++
          section "wanted-refs" wanted_encode (fo_wanted o) ++ section "packfile-uris" uris_encode (fo_uris o) ++
          [PData (B "packfile" ++ [NL])])
  else
    match fo_acks o with
    | None => None
    | Some a =>
      if snd a then None
      else match fo_shallow o, fo_wanted o, fo_uris o with
      | None, None, None => Some (PData (B "acknowledgments" ++ [NL]) :: acks_encode a ++ [PFlush])
      | _, _, _ => None
      end
    end.

(* the section body decoders: -> (terminating length, value, unread lines); ReadLine errors (io.EOF too) are returned *)
Fixpoint acks_decode (ls : lines) (a : list hash * bool) : (Z * (list hash * bool) * lines) + v2err :=
  match ls with
  | [] => inr (V2Pkt PEeof)
  | d :: r =>
    match rd_err d with
    | Some e => inr (V2Pkt e)
    | None =>
      if is_special (rd_len d) then inl (rd_len d, a, r)
      else
        let line := trim_space_u (rd_payload d) in
        if has_prefix (B "ACK ") line then
          match parse_full_hash (trim_space_u (skipn 4 line)) with
          | Some h => acks_decode r (fst a ++ [h], snd a)
          | None => inr V2Malformed
          end
        else if beq line (B "NAK") then acks_decode r a
        else if beq line (B "ready") then acks_decode r (fst a, true)
        else inr V2Malformed
    end
  end.

Fixpoint shinfo_decode (ls : lines) (s : list hash * list hash) : (Z * (list hash * list hash) * lines) + v2err :=
  match ls with
  | [] => inr (V2Pkt PEeof)
  | d :: r =>
    match rd_err d with
    | Some e => inr (V2Pkt e)
    | None =>
      if is_special (rd_len d) then inl (rd_len d, s, r)
      else
        let line := trim_space_u (rd_payload d) in
        if has_prefix (B "shallow ") line then
          match parse_full_hash (skipn 8 line) with
          | Some h => shinfo_decode r (fst s ++ [h], snd s)
          | None => inr V2Malformed
          end
        else if has_prefix (B "unshallow ") line then
          match parse_full_hash (skipn 10 line) with
          | Some h => shinfo_decode r (fst s, snd s ++ [h])
          | None => inr V2Malformed
          end
        else inr V2Malformed
    end
  end.

Fixpoint wanted_decode (ls : lines) (w : list (bytes * hash)) : (Z * list (bytes * hash) * lines) + v2err :=
  match ls with
  | [] => inr (V2Pkt PEeof)
  | d :: r =>
    match rd_err d with
    | Some e => inr (V2Pkt e)
    | None =>
      if is_special (rd_len d) then inl (rd_len d, w, r)
      else
        let line := trim_space_u (rd_payload d) in
        match cut SP line with
        | None => inr V2Malformed
        | Some (hs, name) =>
          match parse_full_hash hs with
          | Some h => wanted_decode r (w ++ [(name, h)])
          | None => inr V2Malformed
          end
        end
    end
  end.

Fixpoint uris_decode (ls : lines) (u : list bytes) : (Z * list bytes * lines) + v2err :=
  match ls with
  | [] => inr (V2Pkt PEeof)
  | d :: r =>
    match rd_err d with
    | Some e => inr (V2Pkt e)
    | None =>
      if is_special (rd_len d) then inl (rd_len d, u, r)
      else uris_decode r (u ++ [trim_eol (rd_payload d)])
    end
  end.

Definition section_rank (hdr : bytes) : nat :=
  if beq hdr (B "acknowledgments") then 1
  else if beq hdr (B "shallow-info") then 2
  else if beq hdr (B "wanted-refs") then 3
  else if beq hdr (B "packfile-uris") then 4
  else if beq hdr (B "packfile") then 5
  else 0.

(* the section loop of FetchOutput.Decode; fuel: at most five section headers can be accepted *)
Fixpoint fetchout_decode_go (fuel : nat) (ls : lines) (last : nat) (expect : bool) (o : fetchout) : (fetchout * lines) + v2err :=
  match fuel with
  | O => inr V2Malformed                      (* unreachable: the rank grows with every iteration *)
  | S f =>
    let (d, r) := rl_next ls in
    match rd_err d with
    | Some PEeof => if expect then inr V2Malformed else inl (o, r)
    | Some e => inr (V2Pkt e)
    | None =>
      if (rd_len d =? 0)%Z || (rd_len d =? 2)%Z then (if expect then inr V2Malformed else inl (o, r))
      else
        let hdr := trim_space_u (rd_payload d) in
        let rank := section_rank hdr in
        if Nat.eqb rank 0 then inr V2Malformed
        else if Nat.leb rank last then inr V2Malformed
        else if Nat.eqb rank 5 then inl (mkfetchout (fo_acks o) (fo_shallow o) (fo_wanted o) (fo_uris o) true, r)
        else if Nat.eqb rank 1 then
          match acks_decode r ([], false) with
          | inr e => inr e
          | inl (term, a, r') =>
            let o' := mkfetchout (Some a) (fo_shallow o) (fo_wanted o) (fo_uris o) (fo_packfile o) in
            if snd a then (if (term =? 1)%Z then fetchout_decode_go f r' rank true o' else inr V2Malformed)
            else (if (term =? 1)%Z then inr V2Malformed else inl (o', r'))
          end
        else if Nat.eqb rank 2 then
          match shinfo_decode r ([], []) with
          | inr e => inr e
          | inl (term, s, r') =>
            if (term =? 1)%Z
            then fetchout_decode_go f r' rank true (mkfetchout (fo_acks o) (Some s) (fo_wanted o) (fo_uris o) (fo_packfile o))
            else inr V2Malformed
          end
        else if Nat.eqb rank 3 then
          match wanted_decode r [] with
          | inr e => inr e
          | inl (term, w, r') =>
            if (term =? 1)%Z
            then fetchout_decode_go f r' rank true (mkfetchout (fo_acks o) (fo_shallow o) (Some w) (fo_uris o) (fo_packfile o))
            else inr V2Malformed
          end
        else
          match uris_decode r [] with
          | inr e => inr e
          | inl (term, u, r') =>
            if (term =? 1)%Z
            then fetchout_decode_go f r' rank true (mkfetchout (fo_acks o) (fo_shallow o) (fo_wanted o) (Some u) (fo_packfile o))
            else inr V2Malformed
          end
    end
  end.
Definition fetchout_decode (ls : lines) : (fetchout * lines) + v2err := fetchout_decode_go 6 ls 0 false fetchout_zero.

(* ---------- observables ---------- *)
Definition o_v2err (e : v2err) : out :=
  match e with
  | V2Pkt PEunexpected => OErr "unexpected_eof"
  | V2Pkt PEinvalid => OErr "invalid_pktlen"
  | V2Pkt (PEerrline _) => OErr "errline"
  | V2Pkt PEeof => OErr "eof"
  | V2Pkt PEbuffull => OErr "buffer_full"
  | V2Other => OErr "other"
  | V2Malformed => OErr "malformed"
  end.

Definition o_lsargs (a : lsargs) : out :=
  OList [OBool (la_peel a); OBool (la_symrefs a); OBool (la_unborn a); OList (map OBytes (la_prefixes a))].
Definition o_fetchargs (a : fetchargs) : out :=
  OList [OList (map o_hash (fa_wants a)); OList (map o_hash (fa_haves a));
         OList [OBool (fa_done a); OBool (fa_thin a); OBool (fa_noprogress a); OBool (fa_includetag a);
                OBool (fa_ofsdelta a); OBool (fa_deepenrel a); OBool (fa_waitdone a)];
         OList (map o_hash (fa_shallows a)); ONum (fa_deepen a); OOpt ONum (fa_since a);
         OList (map OBytes (fa_not a)); OBytes (fa_filter a)].
Definition o_cargs (a : cargs) : out :=
  match a with CANone => OSym "nil" | CALs x => o_lsargs x | CAFetch x => o_fetchargs x end.
Definition o_lsref (x : lsref) : out :=
  match snd x with
  | RHash h => OList [OBytes (fst x); OSym "hash"; o_hash h]
  | RSym t => OList [OBytes (fst x); OSym "sym"; OBytes t]
  end.
Definition o_fetchout (o : fetchout) : out :=
  OList [OOpt (fun a : list hash * bool => OList [OList (map o_hash (fst a)); OBool (snd a)]) (fo_acks o);
         OOpt (fun s : list hash * list hash => OList [OList (map o_hash (fst s)); OList (map o_hash (snd s))]) (fo_shallow o);
         OOpt (fun w : list (bytes * hash) => OList (map (fun r => OList [OBytes (fst r); o_hash (snd r)]) w)) (fo_wanted o);
         OOpt (fun u : list bytes => OList (map OBytes u)) (fo_uris o);
         OBool (fo_packfile o)].

(* ( ok value rest ) with rest = bytes left unread in the reader *)
Definition o_dec {A} (f : A -> out) (total : nat) (ls : list (rd * nat)) (r : (A * lines) + v2err) : out :=
  match r with
  | inl (a, ls') => OOk [f a; ONat (rl_rest total ls ls')]
  | inr e => o_v2err e
  end.

(* ---------- correspondence entry points ---------- *)
Definition kind_of (k : string) : cargs :=
  if String.eqb k "lsrefs" then CALs lsargs_zero else if String.eqb k "fetch" then CAFetch fetchargs_zero else CANone.

Definition v2_decode (msg : string) (r : reader) : out :=
  let rls := rl_all r in
  let ls := map fst rls in
  let total := rlen r in
  if String.eqb msg "capadv" then
    o_dec (fun x : Z * caps => OList [ONum (fst x); o_caps (snd x)]) total rls
          (match capadv_decode ls with inl (v, l, r') => inl ((v, l), r') | inr e => inr e end)
  else if String.eqb msg "cmd-nil" || String.eqb msg "cmd-lsrefs" || String.eqb msg "cmd-fetch" then
    o_dec (fun c => OList [OBytes (cr_command c); o_caps (cr_caps c); o_cargs (cr_args c)]) total rls
          (cmdreq_decode (kind_of (if String.eqb msg "cmd-lsrefs" then "lsrefs" else if String.eqb msg "cmd-fetch" then "fetch" else "nil")) ls)
  else if String.eqb msg "lsargs" then o_dec o_lsargs total rls (lsargs_decode ls lsargs_zero)
  else if String.eqb msg "fetchargs" then o_dec o_fetchargs total rls (fetchargs_decode ls fetchargs_zero)
  else if String.eqb msg "lsout" then o_dec (fun l => OList (map o_lsref l)) total rls (lsout_decode ls [])
  else if String.eqb msg "fetchout" then o_dec o_fetchout total rls (fetchout_decode ls)
  else OErr "kind".

Definition c35v2_dec (msg : string) (hex : string) (chunks : list N) : out :=
  v2_decode msg (chunk_by (nats chunks) (unhex hex)).

(* encode, then decode the encoding again (chunked): ( enc dec ) *)
Definition rt2 (enc : option (list pkt)) (msg : string) (chunks : list N) : out :=
  match enc with
  | None => OList [OErr "encode"]
  | Some l =>
    match enc_pkts l with
    | None => OList [OErr "too_long"]
    | Some s => OList [OOk [o_bytes s]; v2_decode msg (chunk_by (nats chunks) s)]
    end
  end.

Definition mk_lsargs (peel symrefs unborn : bool) (prefixes : list string) : lsargs :=
  mklsargs peel symrefs unborn (map unhex prefixes).
Definition mk_since (s : option Z) : option Z := match s with Some t => since_of t | None => None end.
Definition mk_fetchargs (wants haves : list string) (flags : list bool) (shallows : list string) (deepen : Z)
           (since : option Z) (nots : list string) (filter : string) : fetchargs :=
  mkfetchargs (map hx wants) (map hx haves) (nth 0 flags false) (nth 1 flags false) (nth 2 flags false)
              (nth 3 flags false) (nth 4 flags false) (map hx shallows) deepen (nth 5 flags false)
              (mk_since since) (map unhex nots) (unhex filter) (nth 6 flags false).

Definition c35v2_capadv (version : Z) (cp : list (string * list string)) (chunks : list N) : out :=
  rt2 (capadv_encode version (capsv cp)) "capadv" chunks.
Definition c35v2_cmd_nil (cmd : string) (cp : list (string * list string)) (chunks : list N) : out :=
  rt2 (cmdreq_encode (mkcmdreq (unhex cmd) (capsv cp) CANone)) "cmd-nil" chunks.
Definition c35v2_cmd_lsrefs (cmd : string) (cp : list (string * list string)) (a : lsargs) (chunks : list N) : out :=
  rt2 (cmdreq_encode (mkcmdreq (unhex cmd) (capsv cp) (CALs a))) "cmd-lsrefs" chunks.
Definition c35v2_cmd_fetch (cmd : string) (cp : list (string * list string)) (a : fetchargs) (chunks : list N) : out :=
  rt2 (cmdreq_encode (mkcmdreq (unhex cmd) (capsv cp) (CAFetch a))) "cmd-fetch" chunks.
Definition c35v2_lsargs (a : lsargs) (chunks : list N) : out := rt2 (lsargs_encode a) "lsargs" chunks.
Definition c35v2_fetchargs (a : fetchargs) (chunks : list N) : out := rt2 (fetchargs_encode a) "fetchargs" chunks.

(* references as (name, is-symbolic, hash-or-target) *)
Definition mk_lsref (x : string * bool * string) : lsref :=
  let '(n, sym, v) := x in (unhex n, if sym then RSym (unhex v) else RHash (hx v)).
Definition c35v2_lsout (refs : list (string * bool * string)) (chunks : list N) : out :=
  rt2 (Some (lsout_encode (map mk_lsref refs))) "lsout" chunks.

Definition mk_fetchout (acks : option (list string * bool)) (sh : option (list string * list string))
           (wanted : option (list (string * string))) (uris : option (list string)) (packfile : bool) : fetchout :=
  mkfetchout (option_map (fun a : list string * bool => (map hx (fst a), snd a)) acks)
             (option_map (fun s : list string * list string => (map hx (fst s), map hx (snd s))) sh)
             (option_map (map (fun r : string * string => (unhex (fst r), hx (snd r)))) wanted)
             (option_map (map unhex) uris) packfile.
Definition c35v2_fetchout (o : fetchout) (chunks : list N) : out := rt2 (fetchout_encode o) "fetchout" chunks.

(* the digest of the IsGraphic interval table (kind "unitab") *)
Definition c35_unitab : out :=
  let '(n, x, y) := ranges_digest C35UniTable.graphic_ranges in OList [ON n; ON x; ON y].
