(* Model/WtRoute.v — G for C33: storage/filesystem/dotgit/repository_filesystem.go
   mapToRepositoryFsByPath (relative, clean paths), the dual filesystem it
   induces, and the files x/plumbing/worktree Add lays down.
   Executable definitions only, the code AS IT IS. *)
From Coq Require Import List NArith Bool String.
From GoGit Require Import Base.Out.
Import ListNotations.
Local Open Scope N_scope.

Definition SL : N := 47.

Fixpoint beqb (a b : bytes) : bool :=
  match a, b with
  | [], [] => true
  | x :: a', y :: b' => (x =? y) && beqb a' b'
  | _, _ => false
  end.

(* strings.Split(p, "/")[0] *)
Fixpoint first_comp (p : bytes) : bytes :=
  match p with
  | [] => []
  | c :: r => if c =? SL then [] else c :: first_comp r
  end.

Definition s (x : string) : bytes := bytes_of_string x.

(* the path elements that always live in the common directory *)
Definition common_roots : list bytes :=
  [s "objects"; s "refs"; s "packed-refs"; s "config"; s "branches"; s "hooks"; s "info"; s "remotes";
   s "logs"; s "shallow"; s "worktrees"].
(* the exceptions, compared with the WHOLE path *)
Definition private_exact : list bytes :=
  [s "logs/HEAD"; s "refs/bisect"; s "refs/rewritten"; s "refs/worktree"].

(* mapToRepositoryFsByPath with a commondir: true = commonDotGitFs *)
Definition go_common (p : bytes) : bool :=
  if existsb (beqb p) private_exact then false
  else existsb (beqb (first_comp p)) common_roots.

(* ------------------------------------------------------------ the dual filesystem *)

(* worktrees are numbered; each has a private directory, all share the common one *)
Record dualfs := mkFS { fs_common : list (bytes * bytes); fs_priv : list (N * list (bytes * bytes)) }.

Fixpoint fget (l : list (bytes * bytes)) (p : bytes) : option bytes :=
  match l with [] => None | (q, d) :: r => if beqb q p then Some d else fget r p end.
Fixpoint fput (l : list (bytes * bytes)) (p d : bytes) : list (bytes * bytes) :=
  match l with
  | [] => [(p, d)]
  | (q, x) :: r => if beqb q p then (q, d) :: r else (q, x) :: fput r p d
  end.
Fixpoint pget (l : list (N * list (bytes * bytes))) (w : N) : list (bytes * bytes) :=
  match l with [] => [] | (v, m) :: r => if v =? w then m else pget r w end.
Fixpoint pput (l : list (N * list (bytes * bytes))) (w : N) (m : list (bytes * bytes)) :=
  match l with
  | [] => [(w, m)]
  | (v, x) :: r => if v =? w then (v, m) :: r else (v, x) :: pput r w m
  end.

(* what worktree w reads / writes at the relative path p of its repository filesystem *)
Definition fs_read (f : dualfs) (w : N) (p : bytes) : option bytes :=
  if go_common p then fget (fs_common f) p else fget (pget (fs_priv f) w) p.
Definition fs_write (f : dualfs) (w : N) (p d : bytes) : dualfs :=
  if go_common p then mkFS (fput (fs_common f) p d) (fs_priv f)
  else mkFS (fs_common f) (pput (fs_priv f) w (fput (pget (fs_priv f) w) p d)).

(* ------------------------------------------------------------ worktree.Add *)

Definition LFb : N := 10.
(* the four files (relative to the common dir, except the last which is <wt>/.git):
   commondir, gitdir, HEAD, and the worktree's .git file; HEAD is first written
   with the commit and then rewritten by the checkout of the new branch *)
Definition add_files (name wtroot commonroot commit : bytes) (detached : bool) : list bytes :=
  [ s "../.." ++ [LFb];
    wtroot ++ s "/.git" ++ [LFb];
    (if detached then commit else s "ref: refs/heads/" ++ name) ++ [LFb];
    s "gitdir: " ++ commonroot ++ s "/worktrees/" ++ name ++ [LFb] ].

(* worktreeNameRE ^[a-zA-Z0-9\-]+$ *)
Definition name_char (c : N) : bool :=
  ((48 <=? c) && (c <=? 57)) || ((65 <=? c) && (c <=? 90)) || ((97 <=? c) && (c <=? 122)) || (c =? 45).
Definition valid_name (n : bytes) : bool := negb (beqb n []) && forallb name_char n.

(* ------------------------------------------------------------ correspondence entry points *)

Definition c33_route (p : string) : out := OSym (if go_common (unhex p) then "common" else "private").
(* Add validates the name, writes the files, then checks out the new branch
   refs/heads/<name>: a leading '-' passes the name rule but not the reference name rule (C13) *)
Definition add_ok (name : bytes) (detached : bool) : bool :=
  valid_name name && (detached || negb (match name with c :: _ => c =? 45 | [] => false end)).

Definition c33_layout (name wtroot commonroot : string) (detached : bool) : out :=
  if add_ok (unhex name) detached
  then OOk (map OBytes (add_files (unhex name) (unhex wtroot) (unhex commonroot) (s "$C") detached))
  else OErr "add".

(* ------------------------------------------------------------ worktree.Open: which storage *)

(* getDualFS reads at most 1024 bytes of <wt>/.git: fewer than 9 bytes, or not
   starting with "gitdir", is "not a linked worktree"; otherwise the pointer is
   strings.TrimSpace(data[8:]) *)
Definition is_space (c : N) : bool := (c =? 32) || ((9 <=? c) && (c <=? 13)).
Fixpoint trim_left (l : bytes) : bytes :=
  match l with c :: r => if is_space c then trim_left r else l | [] => [] end.
Definition trim (l : bytes) : bytes := rev (trim_left (rev (trim_left l))).

Definition parse_dotgit (file : bytes) : option bytes :=
  let data := firstn 1024 file in
  if Nat.ltb (List.length data) 9 then None
  else if beqb (firstn 6 data) (s "gitdir") then Some (trim (skipn 8 data))
  else None.

Definition is_abs (p : bytes) : bool := match p with c :: _ => c =? SL | [] => false end.
(* a relative pointer is taken relative to the worktree root *)
Definition resolve (wtroot p : bytes) : bytes := if is_abs p then p else wtroot ++ [SL] ++ p.

Inductive open_res := OpenErr | OpenMain | OpenDual.

(* Worktree.Open(wt): dotgit = the bytes of <wt>/.git if it can be read;
   admin_ok d = the directory d holds a repository's HEAD (git.Open succeeds on
   the dual filesystem rooted there).  Only a directory that is NOT a linked
   worktree (no gitdir file) is served from the main storage. *)
Definition go_open (wtroot : bytes) (dotgit : option bytes) (admin_ok : bytes -> bool) : open_res :=
  match dotgit with
  | None => OpenMain
  | Some file =>
    match parse_dotgit file with
    | None => OpenMain
    | Some p => if admin_ok (resolve wtroot p) then OpenDual else OpenErr
    end
  end.

Definition c33_open (wtroot : string) (dotgit : option string) (ok : bool) : out :=
  OSym (match go_open (unhex wtroot) (option_map unhex dotgit) (fun _ => ok) with
        | OpenErr => "err" | OpenMain => "main" | OpenDual => "dual" end).
