(* Model/HashWiring.v — G for C05: which SHA-1 constructor every hashing entry
   point of go-git reaches.  The call lists are REGENERATED from the Go sources
   on every run (Gen/C05.v, gotrans "calls"); this file only interprets them.

   Constructors a call list can name:
     crypto.SHA1.New, <crypto.Hash value>.New  -> Go's crypto registry.  sha1cd
         v0.6.0 does not register itself there any more, so this is the
         standard library's SHA-1 (checked by behaviour on every run).
     sha1.New                                  -> crypto/sha1 directly
     hash.New / gogithash.New / plumbhash.New  -> go-git's plumbing/hash registry
         (documented extension point; default sha1cd, collision detecting)
     sha1cd.New                                -> the detecting implementation directly
   and calls to other listed entry points are followed (fuel = table size). *)
From Coq Require Import List String Bool NArith.
From GoGit Require Import Base.Out Spec.SHA Gen.C05.
Import ListNotations.
Local Open Scope string_scope.

Inductive ctor :=
| KGoRegistry      (* crypto.SHA1.New(): whatever Go's crypto registry holds = stdlib SHA-1 *)
| KStdlib          (* crypto/sha1.New() *)
| KRegistry        (* plumbing/hash.New(crypto.SHA1) *)
| KLookup          (* the registry's own table lookup, inside plumbing/hash.New *)
| KSha1cd          (* sha1cd.New() *)
| KSha256.

Definition ctor_eqb (a b : ctor) : bool :=
  match a, b with
  | KGoRegistry, KGoRegistry | KStdlib, KStdlib | KRegistry, KRegistry
  | KLookup, KLookup | KSha1cd, KSha1cd | KSha256, KSha256 => true
  | _, _ => false
  end.

Record entry := mkE { e_pkg : string; e_name : string; e_calls : list string }.
Definition e_key (e : entry) : string := e_pkg e ++ "." ++ e_name e.

Definition table : list entry := [
  mkE "plumbing" "NewHasher" plumbing_NewHasher_calls;
  mkE "plumbing" "FromObjectFormat" plumbing_FromObjectFormat_calls;
  mkE "plumbing" "FromHash" plumbing_FromHash_calls;
  mkE "plumbing" "MemoryObject.Hash" plumbing_MemoryObject_Hash_calls;
  mkE "phash" "New" phash_New_calls;
  mkE "phash" "FromObjectFormat" phash_FromObjectFormat_calls;
  mkE "packfile" "NewScanner" packfile_NewScanner_calls;
  mkE "packfile" "NewEncoder" packfile_NewEncoder_calls;
  mkE "packfile" "NewParser" packfile_NewParser_calls;
  mkE "packfile" "patchDeltaWriter" packfile_patchDeltaWriter_calls;
  mkE "packfile" "Packfile.getMemoryObject" packfile_Packfile_getMemoryObject_calls;
  mkE "objfile" "Writer.prepareForWrite" objfile_Writer_prepareForWrite_calls;
  mkE "objfile" "Reader.prepareForRead" objfile_Reader_prepareForRead_calls;
  mkE "commitgraph" "NewEncoder" commitgraph_NewEncoder_calls;
  mkE "revfile" "readHashFunction" revfile_readHashFunction_calls;
  mkE "dotgit" "PackWriter.save" dotgit_PackWriter_save_calls;
  mkE "dotgit" "DotGit.generateInMemoryRev" dotgit_DotGit_generateInMemoryRev_calls;
  mkE "fsstorage" "NewStorageWithOptions" fsstorage_NewStorageWithOptions_calls;
  mkE "fsstorage" "Storage.SetObjectFormat" fsstorage_Storage_SetObjectFormat_calls;
  mkE "fsstorage" "NewObjectStorageWithOptions" fsstorage_NewObjectStorageWithOptions_calls;
  mkE "fsstorage" "ObjectStorage.loadMemoryIndexValue" fsstorage_ObjectStorage_loadMemoryIndexValue_calls;
  mkE "fsstorage" "NewPackfileIter" fsstorage_NewPackfileIter_calls;
  mkE "memstorage" "NewStorage" memstorage_NewStorage_calls;
  mkE "memstorage" "Storage.SetObjectFormat" memstorage_Storage_SetObjectFormat_calls;
  mkE "httpdumb" "fetchWalker.fetch" httpdumb_fetchWalker_fetch_calls;
  mkE "fsnoder" "node.doCalculateHashForRegular" fsnoder_node_doCalculateHashForRegular_calls;
  mkE "fsnoder" "node.doCalculateHashForSymlink" fsnoder_node_doCalculateHashForSymlink_calls
].

(* the SHA-1 entry points the property names: everything in the table *)
Definition entry_points : list string := map e_key table.

Inductive item := ICtor (k : ctor) | IDeleg (key : string) | INone.

Definition one_of (s : string) (l : list string) : bool := existsb (String.eqb s) l.

(* what one call expression means inside package [pkg] *)
Definition classify (pkg call : string) : item :=
  if one_of call ["crypto.SHA1.New"; "d.hasher.New"] then ICtor KGoRegistry
  else if one_of call ["sha1.New"] then ICtor KStdlib
  else if one_of call ["sha1cd.New"] then ICtor KSha1cd
  else if one_of call ["crypto.SHA256.New"; "sha256.New"] then ICtor KSha256
  else if one_of call ["hash.New"; "gogithash.New"; "plumbhash.New"; "githash.New"] then ICtor KRegistry
  else if String.eqb pkg "phash" && String.eqb call "New" then ICtor KRegistry
  else if String.eqb pkg "phash" && String.eqb call "hh" then ICtor KLookup
  else if one_of call ["plumbing.NewHasher"] || (String.eqb pkg "plumbing" && String.eqb call "NewHasher")
    then IDeleg "plumbing.NewHasher"
  else if one_of call ["plumbing.FromObjectFormat"] || (String.eqb pkg "plumbing" && String.eqb call "FromObjectFormat")
    then IDeleg "plumbing.FromObjectFormat"
  else if one_of call ["hash.FromObjectFormat"; "gogithash.FromObjectFormat"; "plumbhash.FromObjectFormat"]
    then IDeleg "phash.FromObjectFormat"
  else if String.eqb pkg "packfile" && String.eqb call "NewScanner" then IDeleg "packfile.NewScanner"
  else if one_of call ["packfile.NewScanner"] then IDeleg "packfile.NewScanner"
  else if one_of call ["packfile.NewParser"] then IDeleg "packfile.NewParser"
  else if one_of call ["packfile.NewEncoder"] then IDeleg "packfile.NewEncoder"
  else if String.eqb pkg "fsstorage" && String.eqb call "NewObjectStorageWithOptions"
    then IDeleg "fsstorage.NewObjectStorageWithOptions"
  else INone.

Fixpoint find_entry (tbl : list entry) (key : string) : option entry :=
  match tbl with
  | [] => None
  | e :: r => if String.eqb (e_key e) key then Some e else find_entry r key
  end.

(* constructors reachable from an entry point, following delegations *)
Fixpoint resolve (fuel : nat) (tbl : list entry) (key : string) : list ctor :=
  match fuel with
  | O => []
  | S f =>
    match find_entry tbl key with
    | None => []
    | Some e =>
      flat_map (fun call =>
        match classify (e_pkg e) call with
        | ICtor k => [k]
        | IDeleg k' => resolve f tbl k'
        | INone => []
        end) (e_calls e)
    end
  end.

Definition sha1_ctors (tbl : list entry) (key : string) : list ctor :=
  filter (fun k => negb (ctor_eqb k KSha256)) (resolve 6 tbl key).

(* collision detecting: only the go-git registry (default sha1cd) or sha1cd itself *)
Definition detecting (k : ctor) : bool :=
  match k with KRegistry | KLookup | KSha1cd => true | _ => false end.

Definition safe (tbl : list entry) (key : string) : bool :=
  match sha1_ctors tbl key with
  | [] => false                      (* an entry point that reaches no SHA-1 at all is a table error *)
  | ks => forallb detecting ks
  end.

Definition has (k : ctor) (ks : list ctor) : bool := existsb (ctor_eqb k) ks.
Definition has_plain (ks : list ctor) : bool := has KGoRegistry ks || has KStdlib ks.

(* ---------- observables ---------- *)
(* where the digests of an entry point come from, as the instrumented harness
   sees it: "plain" = Go's crypto registry, "registry" = go-git's registry,
   "unknown" = an implementation constructed directly *)
Definition wiring_sym (ks : list ctor) : string :=
  let p := has KGoRegistry ks in
  let r := has KRegistry ks || has KLookup ks in
  let u := has KStdlib ks || has KSha1cd ks in
  let parts := List.app (if p then ["plain"] else []) (List.app (if r then ["registry"] else []) (if u then ["unknown"] else [])) in
  String.concat "_" parts.

Definition strip_variant (s : string) : string :=
  match index 0 "/" s with
  | Some i => substring 0 i s
  | None => s
  end.

Definition c05_wiring (entry : string) : out :=
  match sha1_ctors table (strip_variant entry) with
  | [] => OErr "nodigest"
  | ks => OOk [OSym (wiring_sym ks)]
  end.

Fixpoint bytes_eqb (a b : bytes) : bool :=
  match a, b with
  | [], [] => true
  | x :: a', y :: b' => N.eqb x y && bytes_eqb a' b'
  | _, _ => false
  end.

(* two messages through the SHA-1 an entry point uses.  Plain SHA-1 is
   computed; for a detecting implementation the model only says what the
   property demands on a known attack pair ("distinct" — sha1cd's detector is
   not modelled, see TRUSTED) *)
Definition pair_out (ks : list ctor) (attack : bool) (a b : bytes) : out :=
  if has_plain ks || negb attack
  then OOk [OSym (if bytes_eqb (sha1 a) (sha1 b) then "collides" else "distinct")]
  else OOk [OSym "distinct"].

Definition kinds_of (entry : string) : list ctor :=
  if String.eqb entry "stdlib" then [KStdlib] else sha1_ctors table (strip_variant entry).

Definition c05_pair (entry : string) (attack : bool) (m1 m2 : string) : out :=
  pair_out (kinds_of entry) attack (unhex m1) (unhex m2).

(* a non-attack message: every implementation is SHA-1 *)
Definition c05_raw (m : string) : out := OBytes (sha1 (unhex m)).
