(* Model/PorcelainOps.v — G for the C29 extension: the porcelain operations
   OTHER than Checkout / Reset, at the same flattened level as
   Model/Porcelain.v (whose finite maps, tree diffs, resetIndex /
   resetWorktree / checkoutChange folds are reused by import):

     Worktree.Restore        worktree.go  (RestoreOptions.Validate, Reset{Files, Hard|Mixed})
     Worktree.Add / AddWithOptions{All} / AddOptions.Validate
                             worktree_status.go doAdd, doAddDirectory, doAddFile
     Worktree.Commit         worktree_commit.go (CommitOptions.Validate, loadConfigAuthorAndCommitter,
                             autoAddModifiedAndDeleted, the two ErrEmptyCommit tests, Amend, updateHEAD)
     Repository.Merge        repository.go (FastForwardMerge only) with remote.go isFastForward
     Worktree.Pull           worktree.go PullContext: fetch (refs/remotes/origin/* forced update),
                             ResolveReference on the advertised refs, the two isFastForward tests,
                             updateHEAD, Reset{MergeReset}

   The state is this file's own record (commits carry their parents; the
   repository knows whether user.name / user.email are configured), so that the
   file does not depend on the shape of Porcelain.state.  The code is modelled
   AS IT IS; Pull is modelled in the order of the repaired code (fix: decide the
   unstaged-changes refusal of Pull before the branch is moved) with the
   unrepaired order kept as [pull_unrepaired].  Executable definitions only. *)
From Coq Require Import List NArith ZArith Bool String.
From GoGit Require Import Base.Out Model.Porcelain.
Import ListNotations.
Local Open Scope N_scope.

(* ---------- state *)

Record cmt := mkCmt { c_tree : fmap; c_parents : list Z }.

Record rstate := mkR {
  r_commits : list cmt;       (* commit number n |-> tree and parents (parents have smaller numbers) *)
  r_refs : amap Z;            (* full reference name |-> commit number (may dangle) *)
  r_head : headref;
  r_idx : fmap;
  r_wt : fmap;
  r_user : bool }.            (* user.name and user.email are configured *)

Definition w_commits (s : rstate) (c : list cmt) := mkR c (r_refs s) (r_head s) (r_idx s) (r_wt s) (r_user s).
Definition w_refs (s : rstate) (r : amap Z) := mkR (r_commits s) r (r_head s) (r_idx s) (r_wt s) (r_user s).
Definition w_head (s : rstate) (h : headref) := mkR (r_commits s) (r_refs s) h (r_idx s) (r_wt s) (r_user s).
Definition w_idx (s : rstate) (i : fmap) := mkR (r_commits s) (r_refs s) (r_head s) i (r_wt s) (r_user s).
Definition w_wt (s : rstate) (w : fmap) := mkR (r_commits s) (r_refs s) (r_head s) (r_idx s) w (r_user s).

Inductive xerr :=
| XNoRestorePaths | XWorktreeOnly | XRefNotFound | XObjectNotFound | XEntryNotFound | XBadOptions
| XMissingAuthor | XEmptyCommit | XUnsupportedStrategy | XMergeNotPossible
| XRemoteNotFound | XTransport | XEmptyRemote | XAlreadyUpToDate | XNonFastForward | XUnstaged | XOther.

(* an operation returns the state it leaves behind, with or without an error *)
Definition xres := (option xerr * rstate)%type.

Definition is_some {A} (o : option A) : bool := match o with Some _ => true | None => false end.
Definition is_nil {A} (l : list A) : bool := match l with [] => true | _ => false end.

Definition rcommit (s : rstate) (c : Z) : option cmt :=
  if (c <? 0)%Z then None else nth_error (r_commits s) (Z.to_nat c).
Definition rtree_of (s : rstate) (c : Z) : option fmap := option_map c_tree (rcommit s c).

(* Repository.Head(): HEAD resolved through one symbolic level *)
Definition rhead_commit (s : rstate) : option Z :=
  match r_head s with
  | HDet c => Some c
  | HSym b => lookup b (r_refs s)
  end.

(* the tree of HEAD's commit: empty for an unborn HEAD, an error for a dangling one *)
Definition rhead_tree (s : rstate) : htree :=
  match rhead_commit s with
  | None => HTNone
  | Some c => match rtree_of s c with Some t => HTTree t | None => HTErr end
  end.

(* containsUnstagedChanges: some Delete or Modify in index -> worktree *)
Definition runstaged (s : rstate) : bool :=
  existsb (fun qe => negb (ofent_eqb (lookup (fst qe) (r_wt s)) (Some (snd qe)))) (r_idx s).

(* setHEADCommit *)
Definition rset_head_commit (c : Z) (s : rstate) : xres :=
  match r_head s with
  | HDet _ => (None, w_head s (HDet c))
  | HSym b =>
    match lookup b (r_refs s) with
    | None => (Some XRefNotFound, s)
    | Some _ =>
      if is_branch b then (None, w_refs s (insert b c (r_refs s)))
      else (Some XOther, s)
    end
  end.

(* Worktree.updateHEAD (Commit, Pull): the reference HEAD names — or HEAD itself
   when it is detached — is set, whatever kind of name it is and whether or not
   it exists yet *)
Definition rupdate_head (c : Z) (s : rstate) : rstate :=
  match r_head s with
  | HDet _ => w_head s (HDet c)
  | HSym b => w_refs s (insert b c (r_refs s))
  end.

Definition xof (e : err) : xerr :=
  match e with
  | ERefNotFound => XRefNotFound
  | EObjectNotFound => XObjectNotFound
  | EUnstaged => XUnstaged
  | _ => XOther
  end.

(* ---------- Restore *)

(* inFiles: exact match against the (cleaned) path list *)
Definition in_files (files : list bytes) (p : bytes) : bool := existsb (beqb p) files.

(* Reset{Files: files, Mode: Hard | Mixed, Commit: zero}:
   Validate (HEAD must resolve), getTreeFromCommitHash, headTree (Hard; the same
   commit), setHEADCommit (to the commit HEAD already has), resetIndex restricted
   to [files], and for Hard resetWorktreeToTree (step 1 is empty: prevTree = t;
   step 2 restricted to [files]) *)
Definition restore (staged worktree : bool) (files : list bytes) (s : rstate) : xres :=
  match files with
  | [] => (Some XNoRestorePaths, s)
  | _ =>
    if negb staged then (Some XWorktreeOnly, s)
    else
    match rhead_commit s with
    | None => (Some XRefNotFound, s)
    | Some c =>
      match rtree_of s c with
      | None => (Some XObjectNotFound, s)
      | Some t =>
        match rset_head_commit c s with
        | (Some e, s1) => (Some e, s1)
        | (None, s1) =>
          let ch := filter (in_files files) (changed_paths (r_idx s1) t) in
          let ix := fold_left (reset_index_step t) ch (r_idx s1) in
          if worktree then
            let wch := filter (fun p => in_files files p && is_some (lookup p ix))
                              (changed_paths (r_wt s1) ix) in
            let r := fold_left (checkout_change t) wch (None, (ix, r_wt s1)) in
            (option_map xof (fst r), w_wt (w_idx s1 (fst (snd r))) (snd (snd r)))
          else (None, w_idx s1 ix)
        end
      end
    end
  end.

(* ---------- Add *)

Definition SLASH : N := 47.
Definition DOT : bytes := [46].

(* isPathInDirectory(name, dir) *)
Definition under (d p : bytes) : bool := beqb d DOT || is_prefix (d ++ [SLASH]) p.

(* Lstat(p) answers "directory": some worktree file lies below p *)
Definition is_dir_wt (s : rstate) (p : bytes) : bool :=
  beqb p DOT || existsb (fun q => is_prefix (p ++ [SLASH]) q) (keys (r_wt s)).

(* doAddFile for one name, given the Status computed beforehand *)
Inductive add1 := ASkip | ASet (e : fent) | ADel | AErr.

(* s.File(p).Worktree == Unmodified: p is in the Status map through the
   HEAD-vs-index diff only (a path outside the map reads Untracked) *)
Definition wt_unmodified (hd : fmap) (s : rstate) (p : bytes) : bool :=
  ofent_eqb (lookup p (r_idx s)) (lookup p (r_wt s)) && differs hd (r_idx s) p.

Definition add_file1 (hd : fmap) (s : rstate) (p : bytes) : add1 :=
  if wt_unmodified hd s p then ASkip
  else match lookup p (r_wt s) with
       | Some e => ASet e                       (* copyFileToStorage + addOrUpdateFileToIndex *)
       | None =>
         match lookup p (r_idx s) with
         | Some _ => ADel                        (* os.IsNotExist: deleteFromIndex *)
         | None => AErr                          (* index.ErrEntryNotFound *)
         end
       end.

Definition apply_add1 (i : fmap) (p : bytes) (a : add1) : fmap :=
  match a with
  | ASkip | AErr => i
  | ASet e => insert p e i
  | ADel => remove p i
  end.

Definition is_aerr (a : add1) : bool := match a with AErr => true | _ => false end.

(* the keys of the Status map: the paths with a change in either diff *)
Definition status_keys (hd : fmap) (s : rstate) : list bytes :=
  filter (fun p => differs hd (r_idx s) p || differs (r_idx s) (r_wt s) p)
         (union_keys (keys hd) (union_keys (keys (r_idx s)) (keys (r_wt s)))).

(* the in-memory index is only stored when no name failed *)
Definition add_names (hd : fmap) (s : rstate) (names : list bytes) : xres :=
  if existsb (fun p => is_aerr (add_file1 hd s p)) names then (Some XEntryNotFound, s)
  else (None, w_idx s (fold_left (fun i p => apply_add1 i p (add_file1 hd s p)) names (r_idx s))).

(* doAdd(path): Status first (fails on a dangling HEAD); a directory adds every
   name of the Status map below it *)
Definition add_path (p : bytes) (s : rstate) : xres :=
  match rhead_tree s with
  | HTErr => (Some XObjectNotFound, s)
  | h =>
    let hd := tree_or_empty h in
    if is_dir_wt s p && negb (is_some (lookup p (r_wt s)))
    then add_names hd s (filter (under p) (status_keys hd s))
    else add_names hd s [p]
  end.

(* AddWithOptions{All: true} = doAdd(".") *)
Definition add_all (s : rstate) : xres := add_path DOT s.

(* AddOptions.Validate: Path and Glob are mutually exclusive *)
Definition add_bad_options (s : rstate) : xres := (Some XBadOptions, s).

(* ---------- Commit *)

Record copt := mkCO { cm_all : bool; cm_allow_empty : bool; cm_author : bool; cm_amend : bool }.

(* autoAddModifiedAndDeleted: every index path that is Modified or Deleted in
   the worktree is re-added / dropped, then the index is STORED *)
Definition auto_add (s : rstate) : fmap :=
  fold_left (fun i p => match lookup p (r_wt s) with Some e => insert p e i | None => remove p i end)
            (filter (differs (r_idx s) (r_wt s)) (keys (r_idx s)))
            (r_idx s).

Definition fmap_eqb (a b : fmap) : bool := is_nil (changed_paths a b).

(* buildCommitObject + updateHEAD *)
Definition commit_finish (parents : list Z) (s : rstate) : xres :=
  let n := Z.of_nat (List.length (r_commits s)) in
  (None, rupdate_head n (w_commits s (r_commits s ++ [mkCmt (r_idx s) parents]))).

(* Commit after the option checks and the All step: Amend, the two
   ErrEmptyCommit tests, the parent's tree, the commit object, updateHEAD *)
Definition commit_tail (o : copt) (parents0 : list Z) (s1 : rstate) : xres :=
  match (if cm_amend o
         then match rhead_commit s1 with
              | None => inl XRefNotFound
              | Some h => match rcommit s1 h with None => inl XObjectNotFound | Some c => inr (c_parents c) end
              end
         else inr parents0) with
  | inl e => (Some e, s1)
  | inr parents =>
    if is_nil parents && is_nil (r_idx s1) && negb (cm_allow_empty o) then (Some XEmptyCommit, s1)
    else
    match parents with
    | [] => commit_finish parents s1
    | p0 :: _ =>
      match rtree_of s1 p0 with
      | None => (Some XObjectNotFound, s1)
      | Some pt =>
        if fmap_eqb (r_idx s1) pt && negb (cm_allow_empty o) then (Some XEmptyCommit, s1)
        else commit_finish parents s1
      end
    end
  end.

Definition commit (o : copt) (s : rstate) : xres :=
  (* CommitOptions.Validate *)
  if cm_all o && cm_amend o then (Some XBadOptions, s)
  else if negb (cm_author o) && negb (r_user s) then (Some XMissingAuthor, s)
  else
  let parents0 := match rhead_commit s with Some h => [h] | None => [] end in
  if cm_all o
  then match rhead_tree s with
       | HTErr => (Some XObjectNotFound, s)          (* Status() inside autoAddModifiedAndDeleted *)
       | _ => commit_tail o parents0 (w_idx s (auto_add s))
       end
  else commit_tail o parents0 s.

(* ---------- ancestry (remote.go isFastForward, without shallow boundaries) *)

(* anc_tab cs old: entry n says whether [old] is reachable from commit n
   (parents have smaller numbers, so one pass in commit order computes it) *)
Definition anc_tab (cs : list cmt) (old : Z) : list bool :=
  fold_left (fun tab c =>
               tab ++ [ (Z.of_nat (List.length tab) =? old)%Z
                        || existsb (fun p => (0 <=? p)%Z && nth (Z.to_nat p) tab false) (c_parents c) ])
            cs [].

Definition is_anc (cs : list cmt) (old new : Z) : bool :=
  (0 <=? new)%Z && nth (Z.to_nat new) (anc_tab cs old) false.

(* ---------- Merge (Repository.Merge, FastForwardMerge only) *)

Definition merge (target : Z) (ff_strategy : bool) (s : rstate) : xres :=
  if negb ff_strategy then (Some XUnsupportedStrategy, s)
  else
  match rhead_commit s with
  | None => (Some XRefNotFound, s)
  | Some h =>
    match rcommit s target with
    | None => (Some XObjectNotFound, s)
    | Some _ =>
      if negb (is_anc (r_commits s) h target) then (Some XMergeNotPossible, s)
      else (None, rupdate_head target s)    (* SetReference(head.Name(), target) *)
    end
  end.

(* ---------- Pull *)

Definition refs_remotes_origin : bytes :=
  [114; 101; 102; 115; 47; 114; 101; 109; 111; 116; 101; 115; 47; 111; 114; 105; 103; 105; 110; 47].

Definition is_remote_ref (n : bytes) : bool := is_prefix refs_remotes_origin n.

(* the remote-tracking name of a remote branch refs/heads/X *)
Definition tracking_name (n : bytes) : bytes := refs_remotes_origin ++ skipn 11 n.

(* what Pull finds outside the repository *)
Record penv := mkPE {
  pe_conf : bool;              (* a remote named "origin" is configured *)
  pe_reach : bool;             (* the repository at its URL can be opened *)
  pe_refs : amap Z;            (* its branches, full names refs/heads/X *)
  pe_head : option bytes;      (* the branch its HEAD names *)
  pe_refname : bytes }.        (* PullOptions.ReferenceName; empty = HEAD *)

(* updateLocalReferenceStorage for +refs/heads/*:refs/remotes/origin/*: every
   advertised branch is (force-)stored under its tracking name; [updated] when
   some reference changed *)
Definition fetch_refs (adv : amap Z) (refs : amap Z) : amap Z * bool :=
  fold_left (fun (acc : amap Z * bool) (nc : bytes * Z) =>
               let ln := tracking_name (fst nc) in
               (insert ln (snd nc) (fst acc),
                snd acc || negb (match lookup ln (fst acc) with Some c => (c =? snd nc)%Z | None => false end)))
            adv (refs, false).

Definition HEADNAME : bytes := [72; 69; 65; 68].

(* storer.ResolveReference(fetchHead, o.ReferenceName) *)
Definition resolve_remote (e : penv) : option Z :=
  if is_nil (pe_refname e) || beqb (pe_refname e) HEADNAME
  then match pe_head e with Some b => lookup b (pe_refs e) | None => None end
  else lookup (pe_refname e) (pe_refs e).

(* Reset{Mode: MergeReset, Commit: c} *)
Definition reset_merge (c : Z) (s : rstate) : xres :=
  match rtree_of s c with
  | None => (Some XObjectNotFound, s)
  | Some t =>
    if runstaged s then (Some XUnstaged, s)
    else
    match rset_head_commit c s with
    | (Some e, s1) => (Some e, s1)
    | (None, s1) =>
      let ri := reset_index t (r_idx s1) in
      match snd ri with
      | [] => (None, w_idx s1 (fst ri))
      | _ =>
        let r := reset_worktree t (snd ri) (fst ri) (r_wt s1) in
        (option_map xof (fst r), w_wt (w_idx s1 (fst (snd r))) (snd (snd r)))
      end
    end
  end.

(* PullContext up to the point where the branch is moved: remote lookup, fetch,
   reference resolution, already-up-to-date and fast-forward tests.  Returns the
   commit to move to and the state after the fetch. *)
Definition pull_pre (e : penv) (s : rstate) : option xerr * (Z * rstate) :=
  if negb (pe_conf e) then (Some XRemoteNotFound, (0%Z, s))
  else if negb (pe_reach e) then (Some XTransport, (0%Z, s))
  else if is_nil (pe_refs e) then (Some XEmptyRemote, (0%Z, s))
  else
  let fr := fetch_refs (pe_refs e) (r_refs s) in
  let s1 := w_refs s (fst fr) in
  match resolve_remote e with
  | None => (Some XRefNotFound, (0%Z, s1))
  | Some rc =>
    match rhead_commit s1 with
    | None => (None, (rc, s1))                                        (* unborn HEAD: no test *)
    | Some h =>
      match rcommit s1 h with
      | None => (Some XObjectNotFound, (rc, s1))                      (* isFastForward: GetCommit(head) *)
      | Some _ =>
        if negb (snd fr) && is_anc (r_commits s1) rc h then (Some XAlreadyUpToDate, (rc, s1))
        else if negb (is_anc (r_commits s1) h rc) then (Some XNonFastForward, (rc, s1))
        else (None, (rc, s1))
      end
    end
  end.

(* the repaired order: the unstaged-changes refusal of the final Reset is decided
   before updateHEAD moves the branch *)
Definition pull (e : penv) (s : rstate) : xres :=
  match pull_pre e s with
  | (Some x, (_, s1)) => (Some x, s1)
  | (None, (rc, s1)) =>
    if runstaged s1 then (Some XUnstaged, s1)
    else reset_merge rc (rupdate_head rc s1)
  end.

(* the order of the code before the repair: updateHEAD, then Reset (which refuses
   unstaged changes after the branch has moved) *)
Definition pull_unrepaired (e : penv) (s : rstate) : xres :=
  match pull_pre e s with
  | (Some x, (_, s1)) => (Some x, s1)
  | (None, (rc, s1)) => reset_merge rc (rupdate_head rc s1)
  end.

(* ---------- operations of a case *)

Inductive xop :=
| XRestore (staged worktree : bool) (files : list bytes)
| XAdd (p : bytes)
| XAddAll
| XAddBad
| XCommit (o : copt)
| XMerge (target : Z) (ff_strategy : bool)
| XPull (e : penv)
| XWrite (p : bytes) (e : fent)
| XRm (p : bytes).

Definition xstep (o : xop) (s : rstate) : xres :=
  match o with
  | XRestore st wk files => restore st wk files s
  | XAdd p => add_path p s
  | XAddAll => add_all s
  | XAddBad => add_bad_options s
  | XCommit c => commit c s
  | XMerge t ff => merge t ff s
  | XPull e => pull e s
  | XWrite p e => (None, w_wt s (insert p e (r_wt s)))
  | XRm p => (None, w_wt s (remove p (r_wt s)))
  end.

Definition is_porcelain (o : xop) : bool :=
  match o with XWrite _ _ | XRm _ => false | _ => true end.

(* ---------- what "changes nothing" is about: HEAD, every reference that is not
   a remote-tracking one (the fetch half of a refused Pull keeps what it
   fetched, as git's does), the index and the worktree files *)
Definition local_refs (r : amap Z) : amap Z := filter (fun qc => negb (is_remote_ref (fst qc))) r.

Definition observable (s : rstate) : headref * amap Z * fmap * fmap :=
  (r_head s, local_refs (r_refs s), r_idx s, r_wt s).

(* ---------- effect-level view for injected faults: the stores an operation
   performs, in the order of the code (object-store writes are not observable
   and are left out).  A filesystem fault between two stores leaves the prefix. *)
Inductive eff :=
| FSetRef (n : bytes) (c : Z)     (* Storer.SetReference of a hash reference *)
| FSetHead (c : Z)                (* HEAD itself (detached) *)
| FSetIndex (i : fmap)            (* Storer.SetIndex *)
| FWrite (p : bytes) (e : fent)   (* worktree file written *)
| FRemove (p : bytes)             (* worktree file removed *)
| FAddCommit (c : cmt).           (* object store: a new commit (not observable) *)

Definition apply_eff (s : rstate) (f : eff) : rstate :=
  match f with
  | FSetRef n c => w_refs s (insert n c (r_refs s))
  | FSetHead c => w_head s (HDet c)
  | FSetIndex i => w_idx s i
  | FWrite p e => w_wt s (insert p e (remove p (r_wt s)))
  | FRemove p => w_wt s (remove p (r_wt s))
  | FAddCommit c => w_commits s (r_commits s ++ [c])
  end.

Definition apply_effs (l : list eff) (s : rstate) : rstate := fold_left apply_eff l s.

Definition eff_update_head (c : Z) (s : rstate) : list eff :=
  match r_head s with HDet _ => [FSetHead c] | HSym b => [FSetRef b c] end.

(* the stores of the checkoutChange fold, path by path, in the order of the
   fold: an existing file is removed before it is rewritten; the fold stops
   where checkoutChange fails *)
Fixpoint eff_checkout_fold (t : fmap) (l : list bytes) (ix w : fmap) : list eff :=
  match l with
  | [] => []
  | p :: r =>
    match lookup p ix with
    | None => FRemove p :: eff_checkout_fold t r ix (remove p w)
    | Some _ =>
      match lookup p t with
      | None => []
      | Some e =>
        (if is_some (lookup p w) then [FRemove p] else [])
        ++ FWrite p e :: eff_checkout_fold t r (insert p e (remove p ix)) (insert p e (remove p w))
      end
    end
  end.

(* resetWorktree / step 2 of resetWorktreeToTree: the files, then the index
   rebuilt by the index builder is stored again *)
Definition eff_worktree (t : fmap) (l : list bytes) (ix w : fmap) : list eff :=
  eff_checkout_fold t l ix w
  ++ [FSetIndex (fst (snd (fold_left (checkout_change t) l (None, (ix, w)))))].

Definition eff_restore (wk : bool) (files : list bytes) (s : rstate) : list eff :=
  match rhead_commit s with
  | None => []
  | Some c =>
    match rtree_of s c with
    | None => []
    | Some t =>
      let ix := fold_left (reset_index_step t) (filter (in_files files) (changed_paths (r_idx s) t)) (r_idx s) in
      eff_update_head c s ++ FSetIndex ix
      :: (if wk
          then eff_worktree t (filter (fun p => in_files files p && is_some (lookup p ix)) (changed_paths (r_wt s) ix))
                            ix (r_wt s)
          else [])
    end
  end.

(* Commit{All} has stored the index when it reaches its later tests *)
Definition commit_stores_index (o : copt) (s : rstate) : bool :=
  negb (cm_all o && cm_amend o) && negb (negb (cm_author o) && negb (r_user s)) && cm_all o
  && negb (match rhead_tree s with HTErr => true | _ => false end).

Definition eff_commit (o : copt) (s s' : rstate) (ok : bool) : list eff :=
  (if commit_stores_index o s then [FSetIndex (auto_add s)] else [])
  ++ (if ok
      then FAddCommit (last (r_commits s') (mkCmt [] []))
           :: eff_update_head (Z.of_nat (List.length (r_commits s))) s
      else []).

(* the reference half of the fetch *)
Definition eff_fetch (e : penv) : list eff :=
  if negb (pe_conf e) || negb (pe_reach e) || is_nil (pe_refs e) then []
  else map (fun nc => FSetRef (tracking_name (fst nc)) (snd nc)) (pe_refs e).

(* the stores of Pull after the fetch: updateHEAD, then those of Reset{MergeReset} *)
Definition eff_pull_tail (e : penv) (s : rstate) : list eff :=
     match pull_pre e s with
     | (None, (rc, s1)) =>
       if runstaged s1 then []
       else
       eff_update_head rc s1
       ++ match reset_merge rc (rupdate_head rc s1), rtree_of s1 rc with
          | (None, _), Some t =>
            let ri := reset_index t (r_idx s1) in
            eff_update_head rc s1
            ++ FSetIndex (fst ri)
            :: match snd ri with
               | [] => []
               | _ => eff_worktree t (filter (fun p => existsb (beqb p) (snd ri)) (changed_paths (r_wt s1) (fst ri)))
                                   (fst ri) (r_wt s1)
               end
          | _, _ => []
          end
     | _ => []
     end.

Definition eff_pull (e : penv) (s : rstate) : list eff := eff_fetch e ++ eff_pull_tail e s.

(* the stores an operation performs, in program order, whether it then
   succeeds or refuses *)
Definition effects (o : xop) (s : rstate) : list eff :=
  let r := xstep o s in
  match o with
  | XMerge t _ => match fst r with None => eff_update_head t s | Some _ => [] end
  | XAdd _ | XAddAll => match fst r with None => [FSetIndex (r_idx (snd r))] | Some _ => [] end
  | XCommit c => eff_commit c s (snd r) (negb (is_some (fst r)))
  | XRestore _ wk files => match fst r with None => eff_restore wk files s | Some _ => [] end
  | XPull e => eff_pull e s
  | XAddBad | XWrite _ _ | XRm _ => []
  end.

(* the repository after a fault that lets the first j stores through *)
Definition after_fault (j : nat) (o : xop) (s : rstate) : rstate := apply_effs (firstn j (effects o s)) s.

(* ---------- observables of the correspondence *)

Definition rcommit_no (s : rstate) (c : Z) : Z :=
  match rcommit s c with Some _ => c | None => (-2)%Z end.

Definition xsnap (s : rstate) : out :=
  OList [ match r_head s with
          | HSym b => OList [OSym "sym"; OBytes b]
          | HDet c => OList [OSym "det"; ONum (rcommit_no s c)]
          end;
          OList (map (fun qc => OList [OBytes (fst qc); ONum (rcommit_no s (snd qc))]) (r_refs s));
          ofmap (r_idx s); ofmap (r_wt s) ].

Definition oxerr (e : xerr) : out :=
  OErr (match e with
        | XNoRestorePaths => "no_restore_paths"
        | XWorktreeOnly => "worktree_only"
        | XRefNotFound => "ref_not_found"
        | XObjectNotFound => "object_not_found"
        | XEntryNotFound => "entry_not_found"
        | XBadOptions => "bad_options"
        | XMissingAuthor => "missing_author"
        | XEmptyCommit => "empty_commit"
        | XUnsupportedStrategy => "unsupported_strategy"
        | XMergeNotPossible => "merge_not_possible"
        | XRemoteNotFound => "remote_not_found"
        | XTransport => "transport"
        | XEmptyRemote => "empty_remote"
        | XAlreadyUpToDate => "already_up_to_date"
        | XNonFastForward => "non_fast_forward"
        | XUnstaged => "unstaged"
        | XOther => "other"
        end).

Fixpoint xrun_ops (ops : list xop) (s : rstate) : list out :=
  match ops with
  | [] => []
  | o :: r =>
    let (e, s') := xstep o s in
    OList [match e with None => OOk [] | Some x => oxerr x end; xsnap s'] :: xrun_ops r s'
  end.

Definition xnorm (s : rstate) : rstate :=
  mkR (map (fun c => mkCmt (of_list (c_tree c)) (c_parents c)) (r_commits s))
      (of_list (r_refs s)) (r_head s) (of_list (r_idx s)) (of_list (r_wt s)) (r_user s).

Definition xnorm_op (o : xop) : xop :=
  match o with
  | XPull e => XPull (mkPE (pe_conf e) (pe_reach e) (of_list (pe_refs e)) (pe_head e) (pe_refname e))
  | o => o
  end.

(* fault suite: the state before the last op, its result and its stores (commit
   numbers as the harness sees them: a commit the op itself creates is unknown, -2) *)
Definition oeff (s : rstate) (f : eff) : out :=
  match f with
  | FSetRef n c => OList [OSym "setref"; OBytes n; ONum (rcommit_no s c)]
  | FSetHead c => OList [OSym "sethead"; ONum (rcommit_no s c)]
  | FSetIndex i => OList [OSym "setindex"; ofmap i]
  | FWrite p e => OList [OSym "write"; OBytes p; okind (fst e); OBytes (snd e)]
  | FRemove p => OList [OSym "remove"; OBytes p]
  | FAddCommit _ => OList [OSym "addcommit"]
  end.

Definition c29ops_effects (s : rstate) (ops : list xop) (o : xop) : out :=
  let s0 := xnorm s in
  let s1 := fold_left (fun st op => snd (xstep op st)) (map xnorm_op ops) s0 in
  let o1 := xnorm_op o in
  OList [xsnap s1;
         match fst (xstep o1 s1) with None => OOk [] | Some x => oxerr x end;
         OList (map (oeff s1) (effects o1 s1))].

(* fault suite, the undisturbed run of the last op: result, state before, state after *)
Definition c29ops_fault_base (s : rstate) (ops : list xop) (o : xop) : out :=
  let s0 := xnorm s in
  let s1 := fold_left (fun st op => snd (xstep op st)) (map xnorm_op ops) s0 in
  let r := xstep (xnorm_op o) s1 in
  OList [OSym "faults"; match fst r with None => OOk [] | Some x => oxerr x end; xsnap s1; xsnap (snd r)].

(* correspondence entry point *)
Definition c29ops_run (s : rstate) (ops : list xop) : out :=
  let s0 := xnorm s in
  OList (xsnap s0 :: xrun_ops (map xnorm_op ops) s0).
