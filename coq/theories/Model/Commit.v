(* Model/Commit.v — G for plumbing/object/commit_scanner.go (the stateFn
   decoder: scanTree .. scanMessage, push-back, first-wins flags, gpgsig
   accumulation, multi-line extras with finaliseExtra) and commit.go
   (parseExtraHeader, ExtraHeader.Format, Commit.encode).
   Input of the decoder is [split_lines raw] (bufio ReadBytes('\n')).
   Executable definitions only. *)
From Coq Require Import List NArith ZArith Bool String.
From GoGit Require Import Base.Out Model.ObjLines Model.Ident.
Import ListNotations.
Local Open Scope N_scope.

Inductive derr := Malformed | InvalidType.
Inductive result (A : Type) := Ok (a : A) | Err (e : derr).
Arguments Ok {A} a.  Arguments Err {A} e.

Record commit := mk_commit {
  c_tree : bytes;                 (* raw id: 20 or 32 bytes *)
  c_parents : list bytes;
  c_author : ident;
  c_committer : ident;
  c_enc : bytes;
  c_extra : list (bytes * bytes);
  c_sig : bytes;
  c_sig256 : bytes;
  c_msg : bytes }.

Definition k_tree := str "tree".        Definition k_parent := str "parent".
Definition k_author := str "author".    Definition k_committer := str "committer".
Definition k_encoding := str "encoding".
Definition k_gpgsig := str "gpgsig".    Definition k_gpgsig256 := str "gpgsig-sha256".
Definition utf8 := str "UTF-8".

(* Commit.reset + TreeHash *)
Definition commit_init (tree : bytes) : commit :=
  mk_commit tree [] ident_zero ident_zero utf8 [] [] [] [].

Definition set_parents c v := mk_commit (c_tree c) v (c_author c) (c_committer c) (c_enc c) (c_extra c) (c_sig c) (c_sig256 c) (c_msg c).
Definition set_author c v := mk_commit (c_tree c) (c_parents c) v (c_committer c) (c_enc c) (c_extra c) (c_sig c) (c_sig256 c) (c_msg c).
Definition set_committer c v := mk_commit (c_tree c) (c_parents c) (c_author c) v (c_enc c) (c_extra c) (c_sig c) (c_sig256 c) (c_msg c).
Definition set_enc c v := mk_commit (c_tree c) (c_parents c) (c_author c) (c_committer c) v (c_extra c) (c_sig c) (c_sig256 c) (c_msg c).
Definition set_extra c v := mk_commit (c_tree c) (c_parents c) (c_author c) (c_committer c) (c_enc c) v (c_sig c) (c_sig256 c) (c_msg c).
Definition set_sig c v := mk_commit (c_tree c) (c_parents c) (c_author c) (c_committer c) (c_enc c) (c_extra c) v (c_sig256 c) (c_msg c).
Definition set_sig256 c v := mk_commit (c_tree c) (c_parents c) (c_author c) (c_committer c) (c_enc c) (c_extra c) (c_sig c) v (c_msg c).
Definition set_msg c v := mk_commit (c_tree c) (c_parents c) (c_author c) (c_committer c) (c_enc c) (c_extra c) (c_sig c) (c_sig256 c) v.

(* splitHeader: key before the first space of TrimRight(line,"\n"), value after *)
Definition split_header (line : bytes) : bytes * bytes :=
  let '(k, v, _) := cut_at SPC (trim_right LF line) in (k, v).

(* parseExtraHeader: SplitN(line," ",2); key TrimRight "\n"; the value keeps its LF *)
Definition parse_extra_header (line : bytes) : bytes * bytes * bool :=
  let '(k, v, f) := cut_at SPC line in
  if f then (trim_right LF k, v, true) else (trim_right LF line, [], false).

Inductive cstate :=
| SParents | SAuthor | SCommitter | SHeaders | SPgp | SPgp256
| SExtra (k v : bytes) | SMessage.

(* finaliseExtra *)
Definition finalise_extra (c : commit) (k v : bytes) : commit :=
  set_extra c (c_extra c ++ [(k, trim_right LF v)]).

(* scanHeaders on a non-empty line; [se] = sawEncoding *)
Definition on_headers (c : commit) (se : bool) (line : bytes) : commit * bool * cstate :=
  if is_blank line then (c, se, SMessage)
  else
    let '(key, data) := split_header line in
    if beqb key k_tree || beqb key k_parent || beqb key k_author || beqb key k_committer
    then (c, se, SHeaders)
    else if beqb key k_encoding then
      (if se then c else set_enc c data, true, SHeaders)
    else if beqb key k_gpgsig then (set_sig c (c_sig c ++ data ++ [LF]), se, SPgp)
    else if beqb key k_gpgsig256 then (set_sig256 c (c_sig256 c ++ data ++ [LF]), se, SPgp256)
    else
      let '(k, v, multi) := parse_extra_header line in
      if multi then (c, se, SExtra k v)
      else (set_extra c (c_extra c ++ [(k, v)]), se, SHeaders).

(* scanCommitter; anything else is pushed back to scanHeaders *)
Definition on_committer (c : commit) (se : bool) (line : bytes) : commit * bool * cstate :=
  if is_blank line then (c, se, SMessage)
  else
    let '(key, data) := split_header line in
    if beqb key k_committer then (set_committer c (decode_ident data), se, SHeaders)
    else on_headers c se line.

(* scanAuthor; anything else is pushed back to scanCommitter *)
Definition on_author (c : commit) (se : bool) (line : bytes) : commit * bool * cstate :=
  if is_blank line then (c, se, SMessage)
  else
    let '(key, data) := split_header line in
    if beqb key k_author then (set_author c (decode_ident data), se, SCommitter)
    else on_committer c se line.

(* one state function applied to one non-empty line; [eof] = the line came
   with io.EOF (no terminator): the caller stops afterwards *)
Definition cstep (st : cstate) (c : commit) (se : bool) (eof : bool) (line : bytes)
  : result (commit * bool * cstate) :=
  match st with
  | SParents =>
    if is_blank line then Ok (c, se, SMessage)
    else
      let '(key, data) := split_header line in
      if beqb key k_parent then
        match parse_oid data with
        | Some h => Ok (set_parents c (c_parents c ++ [h]), se, SParents)
        | None => Err Malformed
        end
      else Ok (on_author c se line)
  | SAuthor => Ok (on_author c se line)
  | SCommitter => Ok (on_committer c se line)
  | SHeaders => Ok (on_headers c se line)
  | SPgp =>
    if first_is SPC line then Ok (set_sig c (c_sig c ++ tl line), se, SPgp)
    else Ok (on_headers c se line)
  | SPgp256 =>
    if first_is SPC line then Ok (set_sig256 c (c_sig256 c ++ tl line), se, SPgp256)
    else Ok (on_headers c se line)
  | SExtra k v =>
    if first_is SPC line then
      (if eof then Ok (finalise_extra c k (v ++ tl line), se, SHeaders)
       else Ok (c, se, SExtra k (v ++ tl line)))
    else Ok (on_headers (finalise_extra c k v) se line)
  | SMessage => Ok (set_msg c (c_msg c ++ line), se, SMessage)
  end.

(* a read that returns (empty, io.EOF) *)
Definition cfinish (st : cstate) (c : commit) : commit :=
  match st with SExtra k v => finalise_extra c k v | _ => c end.

Fixpoint crun (st : cstate) (c : commit) (se : bool) (ls : list bytes) : result commit :=
  match ls with
  | [] => Ok (cfinish st c)
  | l :: r =>
    let eof := negb (ends_nl l) in
    match cstep st c se eof l with
    | Err e => Err e
    | Ok (c', se', st') => if eof then Ok c' else crun st' c' se' r
    end
  end.

(* scanTree + the loop of Commit.Decode *)
Definition decode_commit_lines (ls : list bytes) : result commit :=
  match ls with
  | [] => Err Malformed
  | l :: r =>
    if is_blank l then Err Malformed
    else
      let '(key, data) := split_header l in
      if negb (beqb key k_tree) then Err Malformed
      else match parse_oid data with
           | None => Err Malformed
           | Some h => if ends_nl l then crun SParents (commit_init h) false r
                       else Ok (commit_init h)
           end
  end.

Definition decode_commit (raw : bytes) : result commit := decode_commit_lines (split_lines raw).

(* ---------------------------------------------------------------- encode *)

(* ExtraHeader.Format 's' *)
Definition fmt_extra (kv : bytes * bytes) : bytes :=
  let '(k, v) := kv in
  match v with
  | [] => k
  | _ => k ++ [SPC] ++ indent_nl (trim_suffix_lf v)
  end.

Definition is_standard_header (k : bytes) : bool :=
  beqb k k_tree || beqb k k_parent || beqb k k_author || beqb k k_committer ||
  beqb k k_encoding || beqb k k_gpgsig || beqb k k_gpgsig256.

Definition enc_sig_header (key sig : bytes) : bytes :=
  match sig with
  | [] => []
  | _ => [LF] ++ key ++ [SPC] ++ indent_nl (trim_suffix_lf sig)
  end.

(* Commit.encode(o, includeSig) *)
Definition encode_commit (c : commit) (include_sig : bool) : bytes :=
  k_tree ++ [SPC] ++ hex_encode (c_tree c) ++ [LF] ++
  flat_map (fun p => k_parent ++ [SPC] ++ hex_encode p ++ [LF]) (c_parents c) ++
  k_author ++ [SPC] ++ encode_ident (c_author c) ++
  [LF] ++ k_committer ++ [SPC] ++ encode_ident (c_committer c) ++
  (match c_enc c with
   | [] => []
   | e => if beqb e utf8 then [] else [LF] ++ k_encoding ++ [SPC] ++ e
   end) ++
  flat_map (fun kv => if is_standard_header (fst kv) then [] else [LF] ++ fmt_extra kv) (c_extra c) ++
  (if include_sig then enc_sig_header k_gpgsig (c_sig c) ++ enc_sig_header k_gpgsig256 (c_sig256 c) else []) ++
  [LF; LF] ++ c_msg c.

(* ---------------------------------------------------------------- observables *)

Definition out_commit (c : commit) : out :=
  OList [OBytes (c_tree c); OList (map OBytes (c_parents c)); out_ident (c_author c); out_ident (c_committer c);
         OBytes (c_enc c); OList (map (fun kv => OList [OBytes (fst kv); OBytes (snd kv)]) (c_extra c));
         OBytes (c_sig c); OBytes (c_sig256 c); OBytes (c_msg c)].

Definition out_derr (e : derr) : out :=
  match e with Malformed => OErr "malformed" | InvalidType => OErr "invalid_type" end.

(* op=cdec: decoded fields and re-encoded bytes *)
Definition c02_cdec (raw : string) : out :=
  match decode_commit (unhex raw) with
  | Ok c => OOk [out_commit c; OBytes (encode_commit c true)]
  | Err e => out_derr e
  end.

(* op=cenc: encoded bytes of a struct and the fields decoded from them *)
Definition c02_cenc (c : commit) : out :=
  let b := encode_commit c true in
  OOk [OBytes b; match decode_commit b with Ok d => OOk [out_commit d] | Err e => out_derr e end].
