(* Model/Status.v — G for C27: worktree_status.go Worktree.status (two
   merkletrie diffs folded into a Status map), the noder hashes that decide
   equality (utils/merkletrie/index/node.go Hash, utils/merkletrie/filesystem/
   node.go calculateHash / metadataMatches / shouldSkipIgnored), at the level of
   flattened path maps (merkletrie.DiffTree only reports file-like noders).
   Executable definitions only, the code AS IT IS. *)
From Coq Require Import List NArith Bool String.
From GoGit Require Import Base.Out.
Import ListNotations.
Local Open Scope N_scope.

Definition path := bytes.

Fixpoint bytes_eqb (a b : bytes) : bool :=
  match a, b with
  | [], [] => true
  | x :: a', y :: b' => (x =? y) && bytes_eqb a' b'
  | _, _ => false
  end.

(* filemode.FileMode of the entries this model covers *)
Inductive fmode := MReg | MExec | MLink.
Definition fmode_eqb (a b : fmode) : bool :=
  match a, b with MReg, MReg | MExec, MExec | MLink, MLink => true | _, _ => false end.

(* an object id: the hash function that produced it and the identity of the
   hashed content (distinct contents have distinct ids: both functions are
   treated as injective) *)
Record hash := mkHash { h_fmt : N (* 0 SHA-1, 1 SHA-256 *); h_cid : N }.
Definition hash_eqb (a b : hash) : bool := (h_fmt a =? h_fmt b) && (h_cid a =? h_cid b).

(* noder.Hash(): object id ++ mode bytes; compared by diffTreeIsEquals *)
Definition nhash := (hash * fmode)%type.
Definition nhash_eqb (a b : nhash) : bool := hash_eqb (fst a) (fst b) && fmode_eqb (snd a) (snd b).

Record tentry := mkT { te_path : path; te_mode : fmode; te_hash : hash }.
Record ientry := mkI { ie_path : path; ie_mode : fmode; ie_hash : hash;
                       ie_size : N; ie_mtime : N; ie_ita : bool }.
(* a file of the working tree as the filesystem noder sees it.  wf_ignored:
   excluded by the .gitignore files in effect (gitignore semantics, C49) — the
   scope go-git builds: Worktree.ignoreScope reads .git/info/exclude through
   the worktree filesystem, which refuses every path under .git, so that file
   never contributes; wf_ignored_git: the verdict with .git/info/exclude too *)
Record wfile := mkW { wf_path : path; wf_mode : fmode; wf_cid : N; wf_size : N; wf_mtime : N;
                      wf_ignored : bool; wf_ignored_git : bool }.

Record state := mkState {
  st_fmt : N;              (* object format of the repository *)
  st_filemode : bool;      (* core.fileMode *)
  st_idxtime : N;          (* mtime of .git/index; 0 = unknown *)
  st_head : list tentry;
  st_index : list ientry;
  st_wt : list wfile }.

Fixpoint find_t (l : list tentry) (p : path) : option tentry :=
  match l with [] => None | e :: r => if bytes_eqb (te_path e) p then Some e else find_t r p end.
Fixpoint find_i (l : list ientry) (p : path) : option ientry :=
  match l with [] => None | e :: r => if bytes_eqb (ie_path e) p then Some e else find_i r p end.
Fixpoint find_w (l : list wfile) (p : path) : option wfile :=
  match l with [] => None | e :: r => if bytes_eqb (wf_path e) p then Some e else find_w r p end.

(* ------------------------------------------------------------ noder hashes *)

(* index noder, Hash(): Executable degrades to Regular unless upholdExecutableBit *)
Definition inode_hash (uphold : bool) (e : ientry) : nhash :=
  (ie_hash e, match ie_mode e with MExec => if uphold then MExec else MReg | m => m end).

Definition tnode_hash (e : tentry) : nhash := (te_hash e, te_mode e).

(* filesystem noder, metadataMatches *)
Definition metadata_matches (s : state) (e : ientry) (f : wfile) : bool :=
  (wf_size f mod 2 ^ 32 =? ie_size e) &&
  ((wf_mtime f =? 0) || (wf_mtime f =? ie_mtime e)) &&
  fmode_eqb (wf_mode f) (ie_mode e) &&
  negb ((negb (st_idxtime s =? 0)) && negb (wf_mtime f =? 0) && negb (wf_mtime f <? st_idxtime s)) &&
  negb (st_idxtime s =? 0).

(* filesystem noder, calculateHash: the staged id when the metadata shortcut
   applies, otherwise the content hashed with format.SHA1 whatever the repository uses *)
Definition wnode_hash (s : state) (f : wfile) : nhash :=
  match find_i (st_index s) (wf_path f) with
  | Some e => if metadata_matches s e f then (ie_hash e, wf_mode f) else (mkHash 0 (wf_cid f), wf_mode f)
  | None => (mkHash 0 (wf_cid f), wf_mode f)
  end.

(* shouldSkipIgnored at the level of files: an ignored entry is dropped from
   the walk unless its path is in the index *)
Definition wt_visible (s : state) (f : wfile) : bool :=
  match find_i (st_index s) (wf_path f) with
  | Some _ => true
  | None => negb (wf_ignored f)
  end.

(* ------------------------------------------------------------ the two diffs *)

Inductive action := Ins | Del | Mod.

Fixpoint mem_path (p : path) (l : list path) : bool :=
  match l with [] => false | q :: r => bytes_eqb q p || mem_path p r end.
Fixpoint dedup (l : list path) : list path :=
  match l with [] => [] | p :: r => if mem_path p r then dedup r else p :: dedup r end.

Definition all_paths (s : state) : list path :=
  dedup (map te_path (st_head s) ++ map ie_path (st_index s) ++ map wf_path (st_wt s)).

Definition change1 (a b : option nhash) : option action :=
  match a, b with
  | None, None => None
  | Some _, None => Some Del
  | None, Some _ => Some Ins
  | Some x, Some y => if nhash_eqb x y then None else Some Mod
  end.

(* diffCommitWithStaging: tree noder against mindex.NewRootNode (uphold = true) *)
Definition left_change (s : state) (p : path) : option action :=
  change1 (option_map tnode_hash (find_t (st_head s) p))
          (option_map (inode_hash true) (find_i (st_index s) p)).

(* diffStagingWithWorktree: index noder (uphold = core.fileMode) against the filesystem noder *)
Definition right_change (s : state) (p : path) : option action :=
  change1 (option_map (inode_hash (st_filemode s)) (find_i (st_index s) p))
          (match find_w (st_wt s) p with
           | Some f => if wt_visible s f then Some (wnode_hash s f) else None
           | None => None
           end).

Definition changes (f : path -> option action) (ps : list path) : list (path * action) :=
  flat_map (fun p => match f p with Some a => [(p, a)] | None => [] end) ps.

(* ------------------------------------------------------------ Worktree.status *)

Inductive code := CUnmod | CUntracked | CMod | CAdd | CDel | CType.
Definition code_eqb (a b : code) : bool :=
  match a, b with
  | CUnmod, CUnmod | CUntracked, CUntracked | CMod, CMod | CAdd, CAdd | CDel, CDel | CType, CType => true
  | _, _ => false
  end.

Definition smap := list (path * (code * code)).   (* path -> (Staging, Worktree) *)

Fixpoint sget (m : smap) (p : path) : option (code * code) :=
  match m with [] => None | (q, v) :: r => if bytes_eqb q p then Some v else sget r p end.
(* Status.File: the entry, created as Untracked/Untracked when missing *)
Definition sfile (m : smap) (p : path) : code * code :=
  match sget m p with Some v => v | None => (CUntracked, CUntracked) end.
Fixpoint sset (m : smap) (p : path) (v : code * code) : smap :=
  match m with
  | [] => [(p, v)]
  | (q, w) :: r => if bytes_eqb q p then (q, v) :: r else (q, w) :: sset r p v
  end.

Definition left_apply (m : smap) (ch : path * action) : smap :=
  let '(p, a) := ch in
  let '(st, _) := sfile m p in
  (* fs.Worktree = Unmodified; then the Staging code of the action *)
  sset m p (match a with Del => CDel | Ins => CAdd | Mod => CMod end, CUnmod).

Definition right_apply (m : smap) (ch : path * action) : smap :=
  let '(p, a) := ch in
  let '(st, wt) := sfile m p in
  let st := if code_eqb st CUntracked then CUnmod else st in
  match a with
  | Del => sset m p (st, CDel)
  | Ins => sset m p (CUntracked, CUntracked)
  | Mod => sset m p (st, CMod)
  end.

Definition status_map (s : state) : smap :=
  let ps := all_paths s in
  fold_left right_apply (changes (right_change s) ps)
    (fold_left left_apply (changes (left_change s) ps) []).

(* canonical listing: paths in the order given, entries that are not
   Unmodified/Unmodified (Status.String skips those too) *)
Definition listing (m : smap) (ps : list path) : list (path * code * code) :=
  flat_map (fun p => match sget m p with
                     | Some (x, y) => if code_eqb x CUnmod && code_eqb y CUnmod then [] else [(p, x, y)]
                     | None => []
                     end) ps.

Definition status (s : state) (ps : list path) : list (path * code * code) := listing (status_map s) ps.

(* ------------------------------------------------------------ correspondence entry point *)

Fixpoint bytes_ltb (a b : bytes) : bool :=
  match a, b with
  | _, [] => false
  | [], _ :: _ => true
  | x :: a', y :: b' => (x <? y) || ((x =? y) && bytes_ltb a' b')
  end.
Fixpoint insert_path (p : path) (l : list path) : list path :=
  match l with [] => [p] | q :: r => if bytes_ltb q p then q :: insert_path p r else p :: l end.
Definition sort_paths (l : list path) : list path := fold_right insert_path [] l.

Definition mode_of (n : N) : fmode := if n =? 1 then MExec else if n =? 2 then MLink else MReg.

Definition out_code (c : code) : out :=
  OSym (match c with CUnmod => "unmod" | CUntracked => "untracked" | CMod => "M" | CAdd => "A"
                   | CDel => "D" | CType => "T" end).
Definition out_rec (r : path * code * code) : out :=
  let '(p, x, y) := r in OList [OBytes p; out_code x; out_code y].

(* tuples as the python side writes them *)
Definition mk_head (l : list (string * N * N)) (fmt : N) : list tentry :=
  map (fun '(p, m, c) => mkT (unhex p) (mode_of m) (mkHash fmt c)) l.
Definition mk_index (l : list (string * N * N * N * N * bool)) (fmt : N) : list ientry :=
  map (fun '(p, m, c, sz, mt, ita) => mkI (unhex p) (mode_of m) (mkHash fmt c) sz mt ita) l.
Definition mk_wt (l : list (string * N * N * N * N * bool * bool)) : list wfile :=
  map (fun '(p, m, c, sz, mt, ig, igg) => mkW (unhex p) (mode_of m) c sz mt ig igg) l.

Definition mk_state (fmt : N) (filemode : bool) (idxtime : N)
  (h : list (string * N * N)) (i : list (string * N * N * N * N * bool))
  (w : list (string * N * N * N * N * bool * bool)) : state :=
  mkState fmt filemode idxtime (mk_head h fmt) (mk_index i fmt) (mk_wt w).

Definition c27_run (s : state) : out :=
  OOk (map out_rec (status s (sort_paths (all_paths s)))).

(* ------------------------------------------------------------ the metadata shortcut over time *)

(* one tracked file and the index file, under a clock of arbitrary granularity:
   a write stamps the file with the current time; staging records the file's
   (content, size, mtime) and rewrites the index now; TouchIndex rewrites the
   index for some other path and copies this entry unchanged (go-git's index
   writer; git would "smudge" a racily clean entry here) *)
Inductive tl_event := TTick | TWrite (cid size : N) | TStage | TTouchIndex.

Record tl_state := mkTL {
  tl_clock : N;
  tl_file : N * N * N;               (* content id, size, mtime *)
  tl_entry : option (N * N * N);     (* staged content id, size, mtime *)
  tl_idxtime : N }.

Definition tl_step (s : tl_state) (e : tl_event) : tl_state :=
  match e with
  | TTick => mkTL (tl_clock s + 1) (tl_file s) (tl_entry s) (tl_idxtime s)
  | TWrite c sz => mkTL (tl_clock s) (c, sz, tl_clock s) (tl_entry s) (tl_idxtime s)
  | TStage => mkTL (tl_clock s) (tl_file s) (Some (tl_file s)) (tl_clock s)
  | TTouchIndex => mkTL (tl_clock s) (tl_file s) (tl_entry s) (tl_clock s)
  end.

Definition tl_run (s : tl_state) (h : list tl_event) : tl_state := fold_left tl_step h s.

(* metadataMatches on this state (mode left aside): size, mtime, racy check *)
Definition tl_matches (s : tl_state) : bool :=
  match tl_entry s with
  | Some (_, esz, emt) =>
    let '(_, sz, mt) := tl_file s in (sz =? esz) && (mt =? emt) && (mt <? tl_idxtime s)
  | None => false
  end.

Definition tl_same_content (s : tl_state) : bool :=
  match tl_entry s with
  | Some (ec, _, _) => let '(c, _, _) := tl_file s in c =? ec
  | None => false
  end.

Definition tl_no_touch (h : list tl_event) : bool :=
  forallb (fun e => match e with TTouchIndex => false | _ => true end) h.
