(* Model/RefCAS.v — G for C16: storage/filesystem/dotgit/dotgit_setref.go
   (setRefRwfs), dotgit.go (checkReferenceAndTruncate, readReferenceFrom,
   Ref/readReferenceFile, packedRef/findPackedRefs, PackRefs) on ONE reference
   name, as a small-step interleaving semantics.

   One step = one filesystem call that touches shared state (these are exactly
   the calls at which the harness wrapper parks a goroutine):
     writer  SetRef(new, old):   open(O_CREATE[,O_TRUNC if old=nil]) ; flock ;
                                 [read ; [open packed-refs ; read it]] ; truncate ;
                                 write ; close(=unlock)
     reader  Ref(name):          stat ; open ; read ; [open packed-refs ; read it]
     packer  PackRefs():         open packed-refs(O_CREATE) ; flock it ; readdir ;
                                 stat loose ; open loose ; read loose ; read packed ;
                                 rename tmp over packed-refs ; remove loose ; close(=unlock)
   Files are inodes: a path binding can be removed while descriptors stay
   valid (the packer unlinks the loose file under a writer).  flock is a
   per-inode mutex (its contract); the packed-refs lock is one mutex (contract
   of openAndLockPackedRefs).  A descriptor of packed-refs opened for reading
   sees the content at open time (the file is only ever replaced by rename).
   Threads are one-shot and unbounded in number.
   Values: the comparison in checkReferenceAndTruncate is ref.Hash() !=
   old.Hash(), and Hash() of a symbolic reference is the zero hash: [same].
   Ghost state: [reg] (the abstract register, updated at a writer's write
   step), [log] (successful CAS: register before, expected, new), [win] (a
   CAS writer is between truncate and write), [rexp] (register and window at
   a reader's decisive step).
   Executable definitions only. *)
From Coq Require Import List Arith Bool String.
From GoGit Require Import Base.Out.
Import ListNotations.

(* VGarb: a file whose text is a short (symbolic) line followed by the tail of
   a longer (hash) line written earlier without truncation; readReferenceFrom
   parses it as a symbolic reference with a nonsense target, Hash() = zero *)
Inductive value := VHash (n : nat) | VSym (n : nat) | VGarb.

Definition vhash (v : value) : nat := match v with VHash n => n | VSym _ => 0 | VGarb => 0 end.

(* length of the line SetRef writes: 40 hex digits + LF, or "ref: refs/heads/tN" + LF
   (one-digit N in the correspondence: 19 bytes) *)
Definition vlen (v : value) : nat := match v with VHash _ => 41 | VSym _ => 19 | VGarb => 41 end.

(* f.Write(content) at offset 0 of a file that was NOT truncated under the lock *)
Definition overwrite (new : value) (c : option value) : option value :=
  match c with
  | None => Some new
  | Some v => if Nat.leb (vlen v) (vlen new) then Some new else Some VGarb
  end.
(* ref.Hash() == old.Hash() *)
Definition same (a b : value) : bool := Nat.eqb (vhash a) (vhash b).

Definition value_eqb (a b : value) : bool :=
  match a, b with
  | VHash x, VHash y => Nat.eqb x y
  | VSym x, VSym y => Nat.eqb x y
  | VGarb, VGarb => true
  | _, _ => false
  end.

Definition ovalue_eqb (a b : option value) : bool :=
  match a, b with
  | Some x, Some y => value_eqb x y
  | None, None => true
  | _, _ => false
  end.

Inductive kind :=
| KCas (old new : value)      (* SetRef(new, old), old != nil *)
| KSet (new : value)          (* SetRef(new, nil) *)
| KRead                       (* Ref(name) *)
| KPack.                      (* PackRefs() *)

Inductive res :=
| ROk
| RChanged                    (* storage.ErrReferenceHasChanged *)
| RNotFound                   (* plumbing.ErrReferenceNotFound *)
| RFound (v : value)
| REmpty.                     (* ErrEmptyRefFile out of PackRefs *)

Inductive pc :=
| W0                                  (* before OpenFile *)
| W1 (fd : nat)                       (* before Lock *)
| W2 (fd : nat)                       (* before the first Read *)
| W3 (fd : nat)                       (* file was empty: before Open(packed-refs) *)
| W4 (fd : nat) (pv : option value)   (* before reading packed-refs (content fixed at open) *)
| W5 (fd : nat)                       (* compare passed: before Truncate *)
| W6 (fd : nat)                       (* before Write *)
| W7 (fd : nat) (r : res)             (* before Close (unlock) *)
| R0                                  (* before Stat *)
| R1                                  (* before Open *)
| R2 (fd : nat)                       (* before Read *)
| R3                                  (* before Open(packed-refs) *)
| R4 (pv : option value)              (* before reading packed-refs *)
| P0                                  (* before OpenFile(packed-refs, O_CREATE) *)
| P1                                  (* before Lock(packed-refs) *)
| P2                                  (* before ReadDir *)
| P3                                  (* before Stat(loose) *)
| P4                                  (* before Open(loose) *)
| P5 (fd : nat)                       (* before Read(loose) *)
| P6 (lv : value)                     (* before reading packed-refs through the locked descriptor *)
| P7 (lv : value)                     (* before Rename(tmp, packed-refs) *)
| P8                                  (* before Remove(loose) *)
| P9 (r : res)                        (* before Close(packed-refs) (unlock) *)
| Done (r : res).

Definition start (k : kind) : pc :=
  match k with KCas _ _ | KSet _ => W0 | KRead => R0 | KPack => P0 end.

Record st := mkSt {
  inode : nat -> option value;          (* content of inode i; None = empty file *)
  loose : option nat;                   (* path refs/heads/<name> -> inode *)
  pfile : option (option value);        (* packed-refs: None = no file; Some pv = pv is the line of <name> *)
  nexti : nat;
  lockh : nat -> option nat;            (* flock holder of inode i *)
  plock : option nat;                   (* holder of the packed-refs lock *)
  pcs : nat -> option pc;               (* None = thread has not started (pc = start of its kind) *)
  reg : option value;                   (* ghost *)
  log : list (option value * value * value);  (* ghost: (register before, expected, new) per successful CAS *)
  win : bool;                           (* ghost: a CAS writer is between truncate and write *)
  rexp : nat -> option (option value * bool)  (* ghost: (reg, win) at reader t's decisive step *)
}.

Definition upd {A} (m : nat -> A) (k : nat) (v : A) : nat -> A :=
  fun x => if Nat.eqb x k then v else m x.

(* logical value of the reference as a sequential reader computes it *)
Definition packed_val (s : st) : option value :=
  match pfile s with Some pv => pv | None => None end.

Definition logical (s : st) : option value :=
  match loose s with
  | Some i => match inode s i with Some v => Some v | None => packed_val s end
  | None => packed_val s
  end.

Definition mk_init (lo : option (option value)) (pk : option (option value)) : st :=
  let s0 := mkSt (fun _ => None) None pk 0 (fun _ => None) None (fun _ => None) None [] false (fun _ => None) in
  let s1 := match lo with
            | None => s0
            | Some c => mkSt (upd (inode s0) 0 c) (Some 0) pk 1 (lockh s0) None (pcs s0) None [] false (rexp s0)
            end in
  mkSt (inode s1) (loose s1) (pfile s1) (nexti s1) (lockh s1) (plock s1) (pcs s1) (logical s1) [] false (rexp s1).

Definition pc_of (kinds : nat -> kind) (s : st) (t : nat) : pc :=
  match pcs s t with Some p => p | None => start (kinds t) end.

Definition set_pc (s : st) (t : nat) (p : pc) : st :=
  mkSt (inode s) (loose s) (pfile s) (nexti s) (lockh s) (plock s) (upd (pcs s) t (Some p)) (reg s) (log s) (win s) (rexp s).
Definition set_inode (s : st) (i : nat) (c : option value) : st :=
  mkSt (upd (inode s) i c) (loose s) (pfile s) (nexti s) (lockh s) (plock s) (pcs s) (reg s) (log s) (win s) (rexp s).
Definition set_loose (s : st) (l : option nat) (n : nat) : st :=
  mkSt (inode s) l (pfile s) n (lockh s) (plock s) (pcs s) (reg s) (log s) (win s) (rexp s).
Definition set_pfile (s : st) (p : option (option value)) : st :=
  mkSt (inode s) (loose s) p (nexti s) (lockh s) (plock s) (pcs s) (reg s) (log s) (win s) (rexp s).
Definition set_lock (s : st) (i : nat) (h : option nat) : st :=
  mkSt (inode s) (loose s) (pfile s) (nexti s) (upd (lockh s) i h) (plock s) (pcs s) (reg s) (log s) (win s) (rexp s).
Definition set_plock (s : st) (h : option nat) : st :=
  mkSt (inode s) (loose s) (pfile s) (nexti s) (lockh s) h (pcs s) (reg s) (log s) (win s) (rexp s).
Definition set_ghost (s : st) (r : option value) (l : list (option value * value * value)) (w : bool) : st :=
  mkSt (inode s) (loose s) (pfile s) (nexti s) (lockh s) (plock s) (pcs s) r l w (rexp s).
Definition set_rexp (s : st) (t : nat) : st :=
  mkSt (inode s) (loose s) (pfile s) (nexti s) (lockh s) (plock s) (pcs s) (reg s) (log s) (win s)
       (upd (rexp s) t (Some (reg s, win s))).

Definition is_cas (k : kind) : bool := match k with KCas _ _ => true | _ => false end.

(* what a writer does after it has the current value [cur] in hand
   (checkReferenceAndTruncate after the read / packed-refs fallback) *)
Definition after_compare (fd : nat) (old : value) (cur : option value) : pc :=
  match cur with
  | None => W7 fd RNotFound
  | Some v => if same v old then W5 fd else W7 fd RChanged
  end.

(* one step of thread t; None = not enabled (finished, or blocked on a lock) *)
Definition step (kinds : nat -> kind) (s : st) (t : nat) : option st :=
  let k := kinds t in
  match pc_of kinds s t with
  (* ---- writer ---- *)
  | W0 =>
    let '(s1, fd) := match loose s with
                     | Some i => (s, i)
                     | None => (set_loose (set_inode s (nexti s) None) (Some (nexti s)) (S (nexti s)), nexti s)
                     end in
    let s2 := match k with KSet _ => set_inode s1 fd None | _ => s1 end in   (* O_TRUNC *)
    Some (set_pc s2 t (W1 fd))
  | W1 fd =>
    match lockh s fd with
    | Some _ => None
    | None =>
      let s1 := set_lock s fd (Some t) in
      Some (set_pc s1 t (match k with KCas _ _ => W2 fd | _ => W6 fd end))
    end
  | W2 fd =>
    match k with
    | KCas old _ =>
      match inode s fd with
      | Some v => Some (set_pc s t (after_compare fd old (Some v)))
      | None => Some (set_pc s t (W3 fd))
      end
    | _ => None
    end
  | W3 fd =>
    match k with
    | KCas old _ =>
      match pfile s with
      | None => Some (set_pc s t (W7 fd RNotFound))
      | Some pv => Some (set_pc s t (W4 fd pv))
      end
    | _ => None
    end
  | W4 fd pv =>
    match k with
    | KCas old _ => Some (set_pc s t (after_compare fd old pv))
    | _ => None
    end
  | W5 fd =>
    Some (set_pc (set_ghost (set_inode s fd None) (reg s) (log s) true) t (W6 fd))
  | W6 fd =>
    match k with
    | KCas old new =>
      Some (set_pc (set_ghost (set_inode s fd (overwrite new (inode s fd))) (overwrite new (inode s fd)) (log s ++ [(reg s, old, new)]) false) t (W7 fd ROk))
    | KSet new =>
      Some (set_pc (set_ghost (set_inode s fd (overwrite new (inode s fd))) (overwrite new (inode s fd)) (log s) (win s)) t (W7 fd ROk))
    | _ => None
    end
  | W7 fd r =>
    let s1 := match lockh s fd with
              | Some h => if Nat.eqb h t then set_lock s fd None else s
              | None => s
              end in
    Some (set_pc s1 t (Done r))
  (* ---- reader ---- *)
  | R0 =>
    match loose s with
    | Some _ => Some (set_pc s t R1)
    | None => Some (set_pc (set_rexp s t) t R3)
    end
  | R1 =>
    match loose s with
    | Some i => Some (set_pc s t (R2 i))
    | None => Some (set_pc (set_rexp s t) t R3)
    end
  | R2 fd =>
    match inode s fd with
    | Some v => Some (set_pc (set_rexp s t) t (Done (RFound v)))
    | None => Some (set_pc (set_rexp s t) t R3)
    end
  | R3 =>
    match pfile s with
    | None => Some (set_pc s t (Done RNotFound))
    | Some pv => Some (set_pc s t (R4 pv))
    end
  | R4 pv =>
    Some (set_pc s t (Done (match pv with Some v => RFound v | None => RNotFound end)))
  (* ---- packer ---- *)
  | P0 =>
    let s1 := match pfile s with None => set_pfile s (Some None) | Some _ => s end in
    Some (set_pc s1 t P1)
  | P1 =>
    match plock s with
    | Some _ => None
    | None => Some (set_pc (set_plock s (Some t)) t P2)
    end
  | P2 =>
    match loose s with
    | Some _ => Some (set_pc s t P3)
    | None => Some (set_pc s t (P9 ROk))
    end
  | P3 =>
    match loose s with
    | Some _ => Some (set_pc s t P4)
    | None => Some (set_pc s t (P9 ROk))
    end
  | P4 =>
    match loose s with
    | Some i => Some (set_pc s t (P5 i))
    | None => Some (set_pc s t (P9 ROk))
    end
  | P5 fd =>
    match inode s fd with
    | Some v => Some (set_pc s t (P6 v))
    | None => Some (set_pc s t (P9 REmpty))
    end
  | P6 lv => Some (set_pc s t (P7 lv))
  | P7 lv => Some (set_pc (set_pfile s (Some (Some lv))) t P8)
  | P8 => Some (set_pc (set_loose s None (nexti s)) t (P9 ROk))
  | P9 r =>
    let s1 := match plock s with
              | Some h => if Nat.eqb h t then set_plock s None else s
              | None => s
              end in
    Some (set_pc s1 t (Done r))
  | Done _ => None
  end.

Fixpoint run (kinds : nat -> kind) (s : st) (sched : list nat) : st :=
  match sched with
  | [] => s
  | t :: r => match step kinds s t with Some s' => run kinds s' r | None => run kinds s r end
  end.

Definition result (kinds : nat -> kind) (s : st) (t : nat) : option res :=
  match pc_of kinds s t with Done r => Some r | _ => None end.

(* ======================================================================= *)
(* Correspondence *)

Definition ovalue (v : value) : out :=
  match v with VHash n => OList [OSym "h"; ONat n] | VSym n => OList [OSym "s"; ONat n] | VGarb => OSym "garbage" end.

Definition ores (r : option res) : out :=
  match r with
  | None => OSym "running"
  | Some ROk => OSym "ok"
  | Some RChanged => OErr "changed"
  | Some RNotFound => OErr "notfound"
  | Some (RFound v) => OList [OSym "found"; ovalue v]
  | Some REmpty => OErr "empty"
  end.

(* what is on disk: the loose path and the packed-refs line *)
Definition disk (s : st) : out :=
  OList [match loose s with
         | None => OSym "absent"
         | Some i => match inode s i with None => OSym "empty" | Some v => ovalue v end
         end;
         match pfile s with
         | None => OSym "nofile"
         | Some None => OSym "noline"
         | Some (Some v) => ovalue v
         end].

Definition disk_eqb (a b : st) : bool :=
  ovalue_eqb (match loose a with Some i => inode a i | None => None end)
             (match loose b with Some i => inode b i | None => None end)
  && Bool.eqb (match loose a with Some _ => true | None => false end) (match loose b with Some _ => true | None => false end)
  && match pfile a, pfile b with
     | None, None => true
     | Some x, Some y => ovalue_eqb x y
     | _, _ => false
     end.

Fixpoint exec (kinds : nat -> kind) (s : st) (sched : list nat) : st * list out :=
  match sched with
  | [] => (s, [])
  | t :: r =>
    match step kinds s t with
    | None => let '(s2, os) := exec kinds s r in (s2, OSym "skip" :: os)
    | Some s1 =>
      let o := if disk_eqb s s1 then OSym "ok" else OList [OSym "ok"; disk s1] in
      let '(s2, os) := exec kinds s1 r in (s2, o :: os)
    end
  end.

(* after the schedule every thread runs to completion, round robin *)
Fixpoint drain (kinds : nat -> kind) (fuel : nat) (nt : nat) (s : st) : st :=
  match fuel with
  | O => s
  | S f => drain kinds f nt (run kinds s (seq 0 nt))
  end.

Definition kinds_of (ks : list kind) : nat -> kind := fun t => nth t ks KRead.

Definition c16_run (lo pk : option (option value)) (ks : list kind) (sched : list nat) : out :=
  let kinds := kinds_of ks in
  let nt := List.length ks in
  let '(s1, os) := exec kinds (mk_init lo pk) sched in
  let s2 := drain kinds 40 nt s1 in
  OList [OList os;
         OList (map (fun t => ores (result kinds s2 t)) (seq 0 nt));
         disk s2;
         ores (Some (match logical s2 with Some v => RFound v | None => RNotFound end))].
