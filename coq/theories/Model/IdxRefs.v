(* Model/IdxRefs.v — G for the reference-accounting part of C23: one .idx
   SharedFile (internal/sharedfile: refs, open descriptor, Release ignored at
   zero references, ReleaseNow latching an immediate close) under an fd pool
   that evicts unpinned members, shared by goroutines that are
     readers     Acquire; ReadAt …; Release            (FindOffset, entryAt, …)
     iterators   lazyPrefixIter of plumbing/format/idxfile/lazy_index.go, as
                 HashesWithPrefix drives it: EntriesWithPrefix (Acquire, binary
                 search, possibly Release at once), Next … until EOF — with the
                 EAGER release when the first entry without the prefix is read
                 (Close(): Release and idx := nil) — then the caller's Close(),
                 which may come early and may be repeated
     evictors    the pool closing the descriptor of an unpinned member, or
                 latching an immediate close on a pinned one (ReleaseNow)
   Interleaving model: every SharedFile method runs under s.mu, so it is one
   atomic step.  [clears] = the eager release goes through Close() (idx :=
   nil) as the code does; [clears = false] is the variant that releases
   directly and leaves idx set — kept to show what the invariant excludes.
   Executable definitions only. *)
From Coq Require Import List NArith Bool String.
From GoGit Require Import Base.Out.
Import ListNotations.

Inductive tail :=
| TMismatch      (* after the matches the bucket holds a larger hash without the prefix *)
| TEnd           (* the bucket ends with the matches *)
| TBeyond.       (* no hash >= prefix in the bucket: reference released by EntriesWithPrefix itself *)

Inductive ithread :=
| RdStart (n : nat)                 (* a reader that will ReadAt n times *)
| RdHold (n : nat)
| RdDone
| ItStart (m : nat) (tl : tail)     (* EntriesWithPrefix not called yet; m entries carry the prefix *)
| ItSearch (m : nat) (tl : tail)    (* reference acquired, binary search reading names *)
| ItHold (m : nat) (tl : tail)      (* it.idx <> nil, m matching entries still to come *)
| ItEnd                             (* it.idx <> nil, pos >= end: Next = EOF, reference still held *)
| ItNil                             (* it.idx = nil: Next = EOF, Close does nothing *)
| ItStale                           (* only with clears = false: released, but it.idx still set *)
| ItClosed (extra : nat)            (* the caller's Close() ran; [extra] further Close() calls to come *)
| Evictor (n : nat).

Inductive act := Adv | CloseNow.    (* CloseNow: the caller gives up and calls Close() right away *)

Record ishared := IShared {
  refs : nat;
  fopen : bool;          (* s.file <> nil *)
  latch : bool;          (* immediateClose *)
  n_acq : nat; n_rel : nat;
  n_ignored : nat;       (* Release calls that found refs = 0 *)
  bad : bool             (* a ReadAt on a descriptor that the pool had closed *)
}.

Definition acquire (s : ishared) : ishared :=
  IShared (S (refs s)) true (latch s) (S (n_acq s)) (n_rel s) (n_ignored s) (bad s).

Definition release (s : ishared) : ishared :=
  match refs s with
  | O => IShared O (fopen s) (latch s) (n_acq s) (n_rel s) (S (n_ignored s)) (bad s)
  | S r =>
    match r with
    | O => if latch s then IShared O false false (n_acq s) (S (n_rel s)) (n_ignored s) (bad s)
           else IShared O (fopen s) false (n_acq s) (S (n_rel s)) (n_ignored s) (bad s)
    | _ => IShared r (fopen s) (latch s) (n_acq s) (S (n_rel s)) (n_ignored s) (bad s)
    end
  end.

Definition read (s : ishared) : ishared :=
  if fopen s then s else IShared (refs s) (fopen s) (latch s) (n_acq s) (n_rel s) (n_ignored s) true.

(* fdpool eviction of this member: ReleaseNow *)
Definition evict (s : ishared) : ishared :=
  match refs s with
  | O => IShared O false false (n_acq s) (n_rel s) (n_ignored s) (bad s)
  | _ => IShared (refs s) (fopen s) true (n_acq s) (n_rel s) (n_ignored s) (bad s)
  end.

Definition istep (clears : bool) (s : ishared) (t : ithread) (a : act) : ishared * ithread :=
  match t, a with
  | RdStart n, _ => (acquire s, RdHold n)
  | RdHold (S n), Adv => (read s, RdHold n)
  | RdHold _, _ => (release s, RdDone)
  | RdDone, _ => (s, RdDone)
  | ItStart m tl, _ => (acquire s, ItSearch m tl)
  | ItSearch m tl, Adv =>
    let s1 := read s in
    match m, tl with
    | O, TBeyond => (release s1, ItNil)
    | _, _ => (s1, ItHold m tl)
    end
  | ItSearch _ _, CloseNow => (s, t)                       (* the iterator is not handed out yet *)
  | ItHold (S m) tl, Adv => (read s, ItHold m tl)
  | ItHold O TMismatch, Adv =>
    let s1 := release (read s) in
    (s1, if clears then ItNil else ItStale)
  | ItHold O _, Adv => (s, ItEnd)
  | ItHold _ _, CloseNow => (release s, ItClosed 1)
  | ItEnd, _ => (release s, ItClosed 1)
  | ItNil, _ => (s, ItClosed 1)
  | ItStale, _ => (release s, ItClosed 1)
  | ItClosed (S e), _ => (s, ItClosed e)                    (* Close() again: idx = nil, nothing happens *)
  | ItClosed O, _ => (s, t)
  | Evictor (S n), _ => (evict s, Evictor n)
  | Evictor O, _ => (s, t)
  end.

Record istate := IState { ish : ishared; ithreads : list ithread }.

Fixpoint iupd {A} (l : list A) (i : nat) (x : A) : list A :=
  match l, i with
  | [], _ => []
  | _ :: r, O => x :: r
  | y :: r, S j => y :: iupd r j x
  end.

Definition isched_step (clears : bool) (st : istate) (ia : nat * act) : istate :=
  match nth_error (ithreads st) (fst ia) with
  | None => st
  | Some t => let '(s', t') := istep clears (ish st) t (snd ia) in IState s' (iupd (ithreads st) (fst ia) t')
  end.

Definition irun (clears : bool) (st : istate) (sched : list (nat * act)) : istate :=
  fold_left (isched_step clears) sched st.

Definition iinit (ts : list ithread) : istate := IState (IShared O false false O O O false) ts.

(* ---- correspondence entry point: ONE goroutine drives an iterator step by step
   while the harness holds [pins] references; observable after every step =
   (what Next / Close answered, the reference count) ---- *)
Inductive iop := INext | IClose.

Definition answer (t t' : ithread) (o : iop) : string :=
  match o with
  | IClose => "closed"
  | INext =>
    match t, t' with
    | ItHold (S _) _, _ => "entry"
    | _, _ => "eof"
    end
  end%string.

(* one caller-visible operation on the iterator (Next on an exhausted or closed iterator is EOF) *)
Definition iop_step (clears : bool) (s : ishared) (t : ithread) (o : iop) : ishared * ithread :=
  match o, t with
  | INext, ItHold _ _ => istep clears s t Adv
  | INext, _ => (s, t)
  | IClose, ItClosed _ => (s, t)
  | IClose, _ => istep clears s t CloseNow
  end.

Fixpoint iops (clears : bool) (s : ishared) (t : ithread) (ops : list iop) : list out :=
  match ops with
  | [] => []
  | o :: r =>
    let '(s', t') := iop_step clears s t o in
    OList [OSym (answer t t' o); ONat (refs s')] :: iops clears s' t' r
  end.

Fixpoint pin (n : nat) (s : ishared) : ishared :=
  match n with O => s | S k => pin k (acquire s) end.

(* EntriesWithPrefix: [acq] = false when the fanout bucket is empty (no Acquire at all) *)
Definition c23_iter_run (pins m : nat) (tl : tail) (acq : bool) (ops : list iop) : out :=
  let s0 := pin pins (IShared O false false O O O false) in
  let '(s1, t1) :=
    if acq then
      let '(sa, ta) := istep true s0 (ItStart m tl) Adv in istep true sa ta Adv
    else (s0, ItNil) in
  OList (OList [OSym "made"; ONat (refs s1)] :: iops true s1 t1 ops).
