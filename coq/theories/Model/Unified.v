(* Model/Unified.v — G for C45.
   plumbing/format/diff/unified_encoder.go: UnifiedEncoder.Encode, writeFilePatchHeader, appendPathLines,
     hunksGenerator (Generate, processHunk, addLineNumbers, processEqualsLines), splitLines,
     hunk.writeTo, hunk.AddOp, op.writeTo   (no colours)
   plumbing/object/patch.go: getFileStatsFromFilePatches
   The chunk list (the line-diff oracle's answer) is an input.  Executable definitions only. *)
From Coq Require Import List NArith ZArith Bool String.
From GoGit Require Import Base.Out.
Import ListNotations.
Local Open Scope N_scope.

Inductive dop := Equal | Add | Delete.
Definition dop_eqb (a b : dop) : bool :=
  match a, b with Equal, Equal | Add, Add | Delete, Delete => true | _, _ => false end.
Definition chunk := (dop * bytes)%type.
Definition line := bytes.

Definition LF : N := 10.

(* splitLines: strings.SplitAfter(s, "\n") without the empty tail *)
Fixpoint split_lines (s : bytes) : list line :=
  match s with
  | [] => []
  | c :: r =>
    if c =? LF then [c] :: split_lines r
    else match split_lines r with
         | [] => [[c]]
         | l :: ls => (c :: l) :: ls
         end
  end.

Record hunk := {
  h_from : Z; h_to : Z;             (* fromLine, toLine *)
  h_fromc : Z; h_toc : Z;           (* fromCount, toCount *)
  h_prefix : bytes;                 (* ctxPrefix *)
  h_ops : list (dop * line)
}.

Definition zlen {A} (l : list A) : Z := Z.of_nat (List.length l).

(* hunk.AddOp *)
Definition add_op (h : hunk) (t : dop) (ls : list line) : hunk :=
  let n := zlen ls in
  {| h_from := h.(h_from); h_to := h.(h_to);
     h_fromc := match t with Add => h.(h_fromc) | _ => h.(h_fromc) + n end%Z;
     h_toc := match t with Delete => h.(h_toc) | _ => h.(h_toc) + n end%Z;
     h_prefix := h.(h_prefix);
     h_ops := h.(h_ops) ++ map (fun l => (t, l)) ls |}.

Record gstate := {
  g_from : Z; g_to : Z;
  g_cur : option hunk;
  g_hunks : list hunk;
  g_before : list line
}.

Definition trim_lf (s : bytes) : bytes :=
  match rev s with
  | c :: r => if c =? LF then rev r else s
  | [] => s
  end.

(* addLineNumbers; [next] = type of chunks[i+1] when i is not the last index *)
Definition add_line_numbers (ctx : nat) (la lb : Z) (lines_before : nat) (next : option dop) (op : dop) : Z * Z :=
  let cla := (la - Z.of_nat lines_before)%Z in
  let clb :=
    if negb (Nat.eqb lines_before 0) && negb (Nat.eqb ctx 0) then
      (if (lb >? Z.of_nat ctx)%Z then lb - Z.of_nat ctx + 1 else 1)%Z
    else if Nat.eqb ctx 0 then lb
    else match next with
         | Some t => if dop_eqb t op || dop_eqb t Equal then (lb + 1)%Z else 0%Z
         | None => 0%Z
         end in
  (cla, clb).

(* processHunk *)
Definition process_hunk (ctx : nat) (st : gstate) (next : option dop) (op : dop) : gstate :=
  match st.(g_cur) with
  | Some _ => st
  | None =>
    let lb := List.length st.(g_before) in
    let '(prefix, before, lines_before) :=
      if Nat.ltb ctx lb
      then (nth (lb - ctx - 1) st.(g_before) [], skipn (lb - ctx) st.(g_before), ctx)
      else ([], st.(g_before), lb) in
    let h0 := {| h_from := 0; h_to := 0; h_fromc := 0; h_toc := 0; h_prefix := trim_lf prefix; h_ops := [] |} in
    let h1 := add_op h0 Equal before in
    let h2 :=
      match op with
      | Delete =>
        let '(f, t) := add_line_numbers ctx st.(g_from) st.(g_to) lines_before next Add in
        {| h_from := f; h_to := t; h_fromc := h1.(h_fromc); h_toc := h1.(h_toc); h_prefix := h1.(h_prefix); h_ops := h1.(h_ops) |}
      | Add =>
        let '(t, f) := add_line_numbers ctx st.(g_to) st.(g_from) lines_before next Delete in
        {| h_from := f; h_to := t; h_fromc := h1.(h_fromc); h_toc := h1.(h_toc); h_prefix := h1.(h_prefix); h_ops := h1.(h_ops) |}
      | Equal => h1
      end in
    {| g_from := st.(g_from); g_to := st.(g_to); g_cur := Some h2; g_hunks := st.(g_hunks); g_before := [] |}
  end.

(* processEqualsLines *)
Definition process_equals (ctx : nat) (st : gstate) (ls : list line) (is_last : bool) : gstate :=
  match st.(g_cur) with
  | None => {| g_from := st.(g_from); g_to := st.(g_to); g_cur := None; g_hunks := st.(g_hunks);
               g_before := st.(g_before) ++ ls |}
  | Some h =>
    if Nat.leb (List.length ls) (ctx * 2) && negb is_last
    then {| g_from := st.(g_from); g_to := st.(g_to); g_cur := Some (add_op h Equal ls); g_hunks := st.(g_hunks);
            g_before := st.(g_before) |}
    else
      let k := Nat.min ctx (List.length ls) in
      {| g_from := st.(g_from); g_to := st.(g_to); g_cur := None;
         g_hunks := st.(g_hunks) ++ [add_op h Equal (firstn k ls)];
         g_before := skipn k ls |}
  end.

Definition set_lines (st : gstate) (f t : Z) : gstate :=
  {| g_from := f; g_to := t; g_cur := st.(g_cur); g_hunks := st.(g_hunks); g_before := st.(g_before) |}.

Definition cur_add (st : gstate) (t : dop) (ls : list line) : gstate :=
  match st.(g_cur) with
  | Some h => {| g_from := st.(g_from); g_to := st.(g_to); g_cur := Some (add_op h t ls); g_hunks := st.(g_hunks);
                 g_before := st.(g_before) |}
  | None => st
  end.

(* one iteration of the Generate loop *)
Definition gen_step (ctx : nat) (st : gstate) (c : chunk) (next : option dop) : gstate :=
  let ls := split_lines (snd c) in
  let n := zlen ls in
  let is_last := match next with None => true | Some _ => false end in
  let st1 :=
    match fst c with
    | Equal => process_equals ctx (set_lines st (st.(g_from) + n) (st.(g_to) + n))%Z ls is_last
    | Delete =>
      let s1 := set_lines st (if (n =? 0)%Z then st.(g_from) else st.(g_from) + 1)%Z st.(g_to) in
      let s2 := process_hunk ctx s1 next Delete in
      cur_add (set_lines s2 (s2.(g_from) + (n - 1))%Z s2.(g_to)) Delete ls
    | Add =>
      let s1 := set_lines st st.(g_from) (if (n =? 0)%Z then st.(g_to) else st.(g_to) + 1)%Z in
      let s2 := process_hunk ctx s1 next Add in
      cur_add (set_lines s2 s2.(g_from) (s2.(g_to) + (n - 1))%Z) Add ls
    end in
  if is_last then
    match st1.(g_cur) with
    | Some h => {| g_from := st1.(g_from); g_to := st1.(g_to); g_cur := st1.(g_cur);
                   g_hunks := st1.(g_hunks) ++ [h]; g_before := st1.(g_before) |}
    | None => st1
    end
  else st1.

Fixpoint gen_loop (ctx : nat) (st : gstate) (cs : list chunk) : gstate :=
  match cs with
  | [] => st
  | c :: r => gen_loop ctx (gen_step ctx st c (match r with [] => None | d :: _ => Some (fst d) end)) r
  end.

Definition g_init : gstate := {| g_from := 0; g_to := 0; g_cur := None; g_hunks := []; g_before := [] |}.
Definition generate (ctx : nat) (cs : list chunk) : list hunk := (gen_loop ctx g_init cs).(g_hunks).

(* ---------- text *)
Definition B (s : string) : bytes := bytes_of_string s.
Definition itoa (z : Z) : bytes := bytes_of_string (dec_of_Z z).

Fixpoint oct_digits (fuel : nat) (n : N) (acc : bytes) : bytes :=
  match fuel with
  | O => acc
  | S f => let acc' := (48 + n mod 8) :: acc in if n / 8 =? 0 then acc' else oct_digits f (n / 8) acc'
  end.
Definition oct_of_N (n : N) : bytes := oct_digits (S (N.to_nat (N.size n))) n [].

Definition op_char (t : dop) : N := match t with Add => 43 | Delete => 45 | Equal => 32 end.

(* op.writeTo *)
Definition write_op (o : dop * line) : bytes :=
  let t := snd o in
  op_char (fst o) ::
  (match rev t with
   | c :: r => if c =? LF then rev r else t ++ B "
\ No newline at end of file"
   | [] => t ++ B "
\ No newline at end of file"
   end) ++ [LF].

Definition write_range (start count : Z) : bytes :=
  if (count =? 1)%Z then itoa start else itoa start ++ B "," ++ itoa count.

(* hunk.writeTo *)
Definition write_hunk (h : hunk) : bytes :=
  B "@@ -" ++ write_range h.(h_from) h.(h_fromc) ++ B " +" ++ write_range h.(h_to) h.(h_toc) ++ B " @@"
  ++ (match h.(h_prefix) with [] => [] | p => 32 :: p end) ++ [LF]
  ++ flat_map write_op h.(h_ops).

(* diff.File *)
Record dfile := { f_path : bytes; f_mode : N; f_hash : bytes }.
Definition hexs (b : bytes) : bytes := bytes_of_string (hex_of_bytes b).
Definition zero_hash : bytes := repeat 48 40.
Definition bytes_eqb (a b : bytes) : bool :=
  (fix go (a b : bytes) : bool :=
     match a, b with
     | [], [] => true
     | x :: a', y :: b' => (x =? y) && go a' b'
     | _, _ => false
     end) a b.

Definition path_lines (fromp top : bytes) (binary : bool) : list bytes :=
  if binary then [B "Binary files " ++ fromp ++ B " and " ++ top ++ B " differ"]
  else [B "--- " ++ fromp; B "+++ " ++ top].

Definition A_PREFIX := B "a/".
Definition B_PREFIX := B "b/".
Definition DEVNULL := B "/dev/null".

Fixpoint join_lf (ls : list bytes) : bytes :=
  match ls with
  | [] => []
  | [l] => l
  | l :: r => l ++ LF :: join_lf r
  end.

(* writeFilePatchHeader *)
Definition write_header (from to : option dfile) (binary : bool) : bytes :=
  match from, to with
  | None, None => []
  | Some f, Some t =>
    let heq := bytes_eqb f.(f_hash) t.(f_hash) in
    let l1 := [B "diff --git " ++ A_PREFIX ++ f.(f_path) ++ B " " ++ B_PREFIX ++ t.(f_path)] in
    let l2 := if negb (f.(f_mode) =? t.(f_mode))
              then [B "old mode " ++ oct_of_N f.(f_mode); B "new mode " ++ oct_of_N t.(f_mode)] else [] in
    let l3 := if negb (bytes_eqb f.(f_path) t.(f_path))
              then [B "rename from " ++ f.(f_path); B "rename to " ++ t.(f_path)] else [] in
    let l4 := if negb (f.(f_mode) =? t.(f_mode)) && negb heq
              then [B "index " ++ hexs f.(f_hash) ++ B ".." ++ hexs t.(f_hash)]
              else if negb heq
              then [B "index " ++ hexs f.(f_hash) ++ B ".." ++ hexs t.(f_hash) ++ B " " ++ oct_of_N f.(f_mode)]
              else [] in
    let l5 := if negb heq then path_lines (A_PREFIX ++ f.(f_path)) (B_PREFIX ++ t.(f_path)) binary else [] in
    join_lf (l1 ++ l2 ++ l3 ++ l4 ++ l5) ++ [LF]
  | None, Some t =>
    join_lf ([B "diff --git " ++ A_PREFIX ++ t.(f_path) ++ B " " ++ B_PREFIX ++ t.(f_path);
              B "new file mode " ++ oct_of_N t.(f_mode);
              B "index " ++ zero_hash ++ B ".." ++ hexs t.(f_hash)]
             ++ path_lines DEVNULL (B_PREFIX ++ t.(f_path)) binary) ++ [LF]
  | Some f, None =>
    join_lf ([B "diff --git " ++ A_PREFIX ++ f.(f_path) ++ B " " ++ B_PREFIX ++ f.(f_path);
              B "deleted file mode " ++ oct_of_N f.(f_mode);
              B "index " ++ hexs f.(f_hash) ++ B ".." ++ zero_hash]
             ++ path_lines (A_PREFIX ++ f.(f_path)) DEVNULL binary) ++ [LF]
  end.

Record fpatch := { p_from : option dfile; p_to : option dfile; p_binary : bool; p_chunks : list chunk }.

Definition has_suffix_lf (s : bytes) : bool := match rev s with c :: _ => c =? LF | [] => false end.

(* UnifiedEncoder.Encode *)
Definition encode (ctx : nat) (msg : bytes) (fps : list fpatch) : bytes :=
  (match msg with [] => [] | _ => if has_suffix_lf msg then msg else msg ++ [LF] end)
  ++ flat_map (fun fp => write_header fp.(p_from) fp.(p_to) fp.(p_binary)
                         ++ flat_map write_hunk (generate ctx fp.(p_chunks))) fps.

(* getFileStatsFromFilePatches (after the repair: binary patches are skipped, not chunk-less ones) *)
Definition count_lines (s : bytes) : nat := List.length (split_lines s).
Definition stat_of (t : dop) (cs : list chunk) : nat :=
  fold_left (fun a c => if dop_eqb (fst c) t then (a + count_lines (snd c))%nat else a) cs O.
Definition stat_name (fp : fpatch) : bytes :=
  match fp.(p_from), fp.(p_to) with
  | None, Some t => t.(f_path)
  | Some f, None => f.(f_path)
  | Some f, Some t => if bytes_eqb f.(f_path) t.(f_path) then f.(f_path) else f.(f_path) ++ B " => " ++ t.(f_path)
  | None, None => []
  end.
Definition file_stats (fps : list fpatch) : list (bytes * nat * nat) :=
  flat_map (fun fp => if fp.(p_binary) then []
                      else [(stat_name fp, stat_of Add fp.(p_chunks), stat_of Delete fp.(p_chunks))]) fps.

(* ---------- correspondence entry point *)
Definition dop_of_N (n : N) : dop := if n =? 1 then Add else if n =? 2 then Delete else Equal.
Definition mk_file (p : string) (m : N) (h : string) : dfile := {| f_path := unhex p; f_mode := m; f_hash := unhex h |}.
Definition mk_fp (f t : option dfile) (binary : bool) (cs : list (N * string)) : fpatch :=
  {| p_from := f; p_to := t; p_binary := binary; p_chunks := map (fun c => (dop_of_N (fst c), unhex (snd c))) cs |}.

Definition c45_run (ctx : N) (msg : string) (fps : list fpatch) : out :=
  OOk [OBytes (encode (N.to_nat ctx) (unhex msg) fps);
       OList (map (fun s => OList [OBytes (fst (fst s)); ONat (snd (fst s)); ONat (snd s)]) (file_stats fps))].
