(* Model/RefName.v — G for C13 (and the IsSafe half of C14):
   plumbing/reference.go ReferenceName.Validate, IsBranch, IsTag, IsSafe,
   as they are in the repository (defect included: rule 9, "the single
   character @", is applied to every component).  Executable definitions only.
   Prefix constants come from Gen/C13.v (regenerated from the Go source). *)
From Coq Require Import List Arith NArith ZArith Bool String.
From GoGit Require Import Base.Out Model.RefStrings Gen.C13.
Import ListNotations.
Local Open Scope N_scope.

Definition refPrefix : bytes := Zs plumbing_refPrefix.
Definition refHeadPrefix : bytes := Zs plumbing_refHeadPrefix.
Definition refTagPrefix : bytes := Zs plumbing_refTagPrefix.
Definition HEADname : bytes := Zs plumbing_HEAD.

Definition SLASH : N := 47.  Definition DOT : N := 46.  Definition DASH : N := 45.
Definition BSLASH : N := 92. Definition AT : N := 64.   Definition LBRACE : N := 123.

Definition is_branch (s : bytes) : bool := has_prefix refHeadPrefix s.
Definition is_tag (s : bytes) : bool := has_prefix refTagPrefix s.

(* ctrlSeqs = regexp `[\000-\037\177]`; MatchString on a Go string decodes
   UTF-8, and every code point of the class is a one-byte ASCII character that
   never occurs inside a multi-byte sequence, so the match is byte-wise *)
Definition is_ctrl (c : N) : bool := (c <=? 31) || (c =? 127).
(* the literal "~^:?*[ \t\n" of rule 4 & 5 *)
Definition rule_chars : bytes := [126; 94; 58; 63; 42; 91; 32; 9; 10].
Definition DOTLOCK : bytes := [46; 108; 111; 99; 107].

(* the big disjunction inside the loop of Validate: true = reject the part *)
Definition part_bad (part : bytes) : bool :=
  has_prefix [DOT] part            (* rule 1 *)
  || contains [DOT; DOT] part      (* rule 3 *)
  || existsb is_ctrl part          (* rule 4 *)
  || contains_any rule_chars part  (* rule 4 & 5 *)
  || contains [AT; LBRACE] part    (* rule 8 *)
  || beqb part [AT]                (* rule 9, per component *)
  || contains [BSLASH] part        (* rule 10 *)
  || has_suffix DOTLOCK part.      (* rule 1 *)

(* the range loop over parts, i = index of the part; true = all parts accepted *)
Fixpoint parts_ok (isBT : bool) (i : nat) (parts : list bytes) : bool :=
  match parts with
  | [] => true
  | part :: r =>
    if match part with [] => true | _ => false end then false          (* rule 6 *)
    else if part_bad part then false
    else if isBT && has_prefix [DASH] part && Nat.eqb i 2 then false   (* leading dash *)
    else parts_ok isBT (S i) r
  end.

(* ReferenceName.Validate: true = nil error *)
Definition validate (s : bytes) : bool :=
  match s with
  | [] => false
  | _ =>
    if beqb s HEADname then true
    else if has_suffix [DOT] s then false                               (* rule 7 *)
    else
      let parts := split_on SLASH s in
      if (List.length parts <? 2)%nat then false                        (* rule 2 *)
      else parts_ok (is_branch s || is_tag s) 0 parts
  end.

(* ReferenceName.IsSafe *)
Definition is_caps (c : N) : bool := ((65 <=? c) && (c <=? 90)) || (c =? 95).
Definition is_safe (s : bytes) : bool :=
  match s with
  | [] => false
  | _ =>
    match cut_prefix refPrefix s with
    | Some rest =>
      match rest with
      | [] => false
      | _ =>
        if contains [BSLASH] rest then false
        else forallb (fun part => negb (beqb part [] || beqb part [DOT] || beqb part [DOT; DOT]))
                     (split_on SLASH rest)
      end
    | None => forallb is_caps s
    end
  end.

(* correspondence entry points: a batch of names (hex) -> one verdict byte each *)
Definition c13_run (names : list string) : out :=
  OBytes (map (fun h => if validate (unhex h) then 1 else 0) names).
