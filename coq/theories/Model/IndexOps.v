(* Model/IndexOps.v — G for C28: worktree_status.go doAdd / doAddDirectory /
   doAddFile (AddWithOptions{All}), Remove / doRemoveDirectory, Move;
   worktree.go Clean / doClean; worktree_commit.go buildTreeHelper.BuildTree
   (commitIndexEntry, doBuildTree, sortName), on the flattened state of
   Model/Status.v (the operations consult Worktree.Status, modelled there).
   Executable definitions only, the code AS IT IS. *)
From Coq Require Import List NArith Bool String.
From GoGit Require Import Base.Out Model.Status.
Import ListNotations.
Local Open Scope N_scope.

Definition SLASH : N := 47.

Definition is_some {A} (o : option A) : bool := match o with Some _ => true | None => false end.

Fixpoint is_prefix (a b : bytes) : bool :=
  match a, b with
  | [], _ => true
  | x :: a', y :: b' => (x =? y) && is_prefix a' b'
  | _ :: _, [] => false
  end.
(* strings.HasPrefix(p, d + "/") *)
Definition under (d p : path) : bool := is_prefix (d ++ [SLASH]) p.

(* some file of the worktree lies below p: Lstat(p) answers "directory" *)
Definition is_dir_wt (s : state) (p : path) : bool := existsb (fun f => under p (wf_path f)) (st_wt s).

(* ------------------------------------------------------------ index edits *)

Fixpoint idx_remove (l : list ientry) (p : path) : list ientry :=
  match l with
  | [] => []
  | e :: r => if bytes_eqb (ie_path e) p then idx_remove r p else e :: idx_remove r p
  end.
(* idx.Entry(name) / idx.Add(name) then overwrite the fields *)
Fixpoint idx_set (l : list ientry) (n : ientry) : list ientry :=
  match l with
  | [] => [n]
  | e :: r => if bytes_eqb (ie_path e) (ie_path n) then n :: r else e :: idx_set r n
  end.
Fixpoint wt_remove (l : list wfile) (p : path) : list wfile :=
  match l with
  | [] => []
  | f :: r => if bytes_eqb (wf_path f) p then wt_remove r p else f :: wt_remove r p
  end.

Definition with_index (s : state) (i : list ientry) : state :=
  mkState (st_fmt s) (st_filemode s) (st_idxtime s) (st_head s) i (st_wt s).
Definition with_both (s : state) (i : list ientry) (w : list wfile) : state :=
  mkState (st_fmt s) (st_filemode s) (st_idxtime s) (st_head s) i w.

Inductive res := ROk (s : state) | RErr (s : state).

(* ------------------------------------------------------------ add *)

(* doAddFile for one name, given the Status computed beforehand *)
Inductive add1 := ASkip | ASet (e : ientry) | ADel | AErr.

(* doUpdateFileToIndex: hash of the stored blob, ModifiedAt, Mode from the
   file found on disk (whatever core.fileMode says), Size = uint32(size) *)
Definition entry_of_file (s : state) (f : wfile) : ientry :=
  mkI (wf_path f) (wf_mode f) (mkHash (st_fmt s) (wf_cid f)) (wf_size f mod 2 ^ 32) (wf_mtime f) false.

Definition add_file1 (s : state) (sm : smap) (p : path) : add1 :=
  if code_eqb (snd (sfile sm p)) CUnmod then ASkip
  else match find_w (st_wt s) p with
       | Some f => ASet (entry_of_file s f)
       | None =>
         (* Lstat below a file ("not a directory") or a symlink (refused by the worktree filesystem) *)
         if existsb (fun f => under (wf_path f) p) (st_wt s) then AErr
         else if is_dir_wt s p then AErr     (* copy of a directory: "is a directory" *)
         else match find_i (st_index s) p with
              | Some _ => ADel               (* os.IsNotExist: deleteFromIndex *)
              | None => AErr                 (* index.ErrEntryNotFound *)
              end
       end.

Definition apply_add1 (i : list ientry) (p : path) (a : add1) : list ientry :=
  match a with
  | ASkip | AErr => i
  | ASet e => idx_set i e
  | ADel => idx_remove i p
  end.

Definition is_aerr (a : add1) : bool := match a with AErr => true | _ => false end.

(* the in-memory index is only saved when no name failed *)
Definition add_names (s : state) (names : list path) : res :=
  let sm := status_map s in
  if existsb (fun p => is_aerr (add_file1 s sm p)) names then RErr s
  else ROk (with_index s (fold_left (fun i p => apply_add1 i p (add_file1 s sm p)) names (st_index s))).

(* the keys of the Status map: the paths with some change *)
Definition status_keys (s : state) : list path := map fst (status_map s).

Definition has_file (s : state) (p : path) : bool :=
  match find_w (st_wt s) p with Some _ => true | None => false end.

(* doAdd(path): a directory adds every name of the Status map below it *)
Definition g_add (s : state) (p : path) : res :=
  if is_dir_wt s p && negb (has_file s p)
  then add_names s (filter (under p) (status_keys s))
  else add_names s [p].

(* AddWithOptions{All: true} = doAdd("."): isPathInDirectory(name, ".") holds for every name *)
Definition g_add_all (s : state) : res := add_names s (status_keys s).

(* ------------------------------------------------------------ remove *)

(* Remove(path): a file (or a missing path) must be in the index; a directory
   removes the tracked files FOUND IN THE WORKTREE below it, nothing else *)
Definition g_rm (s : state) (p : path) : res :=
  (* below a file ("not a directory") or a symlink (refused by the worktree filesystem): the
     entry is dropped in memory, deleting the file fails, the index is not saved *)
  if existsb (fun f => under (wf_path f) p) (st_wt s) then RErr s
  else if is_dir_wt s p && negb (has_file s p) then
    let victims := filter (fun q => under p q && is_some (find_i (st_index s) q)) (map wf_path (st_wt s)) in
    ROk (with_both s (fold_left idx_remove victims (st_index s)) (fold_left wt_remove victims (st_wt s)))
  else match find_i (st_index s) p with
       | None => RErr s
       | Some _ => ROk (with_both s (idx_remove (st_index s) p) (wt_remove (st_wt s) p))
       end.

(* ------------------------------------------------------------ move *)

(* Move(from, to): the entry keeps its object id but takes mode, size and
   mtime from the file as it is now (addOrUpdateFileToIndex -> doUpdateFileToIndex) *)
Definition g_mv (s : state) (from to : path) : res :=
  match find_w (st_wt s) from with
  | None => RErr s                                     (* Lstat(from) fails, or from is a directory: not in the index *)
  | Some f =>
    if has_file s to || is_dir_wt s to then RErr s     (* ErrDestinationExists *)
    else match find_i (st_index s) from with
         | None => RErr s
         | Some e =>
           let f' := mkW to (wf_mode f) (wf_cid f) (wf_size f) (wf_mtime f) (wf_ignored f) (wf_ignored_git f) in
           let e' := mkI to (wf_mode f) (ie_hash e) (wf_size f mod 2 ^ 32) (wf_mtime f) false in
           ROk (with_both s (idx_set (idx_remove (st_index s) from) e') (f' :: wt_remove (st_wt s) from))
         end
  end.

(* ------------------------------------------------------------ clean *)

Definition at_root (p : path) : bool := negb (existsb (fun c => c =? SLASH) p).

(* Clean: files whose Status is Untracked; without Dir no directory is entered *)
Definition g_clean (s : state) (dir : bool) : res :=
  let sm := status_map s in
  let victims := filter (fun q => code_eqb (snd (sfile sm q)) CUntracked && is_some (sget sm q) && (dir || at_root q))
                        (map wf_path (st_wt s)) in
  ROk (with_both s (st_index s) (fold_left wt_remove victims (st_wt s))).

(* ------------------------------------------------------------ commit: BuildTree *)

(* h.trees: directory path -> entries appended so far (name, Some (mode, id) | None = sub-tree) *)
Definition tent := (bytes * option (fmode * hash))%type.
Definition trees := list (path * list tent).

Fixpoint trees_get (t : trees) (d : path) : option (list tent) :=
  match t with [] => None | (q, es) :: r => if bytes_eqb q d then Some es else trees_get r d end.
Fixpoint trees_append (t : trees) (d : path) (e : tent) : trees :=
  match t with
  | [] => []      (* h.trees[parent] is nil: Go would panic; the parent is always created first *)
  | (q, es) :: r => if bytes_eqb q d then (q, es ++ [e]) :: r else (q, es) :: trees_append r d e
  end.

(* the path components joined so far: [(parent, fullpath, basename)] for a/b/c *)
Fixpoint split_slash (p : bytes) (cur : bytes) : list bytes :=
  match p with
  | [] => [cur]
  | c :: r => if c =? SLASH then cur :: split_slash r [] else split_slash r (cur ++ [c])
  end.
(* path.Join(d, n): empty elements are ignored ("." and ".." elements, which path.Join also
   rewrites, cannot occur in an index and are not modelled) *)
Definition join (d n : bytes) : bytes :=
  match n with [] => d | _ => match d with [] => n | _ => d ++ [SLASH] ++ n end end.

Fixpoint walk_parts (parent : path) (parts : list bytes) : list (path * path * bytes) :=
  match parts with
  | [] => []
  | n :: r => let full := join parent n in (parent, full, n) :: walk_parts full r
  end.

Definition zero_cid : N := 2 ^ 64 - 1.    (* stands for the all-zero object id *)

(* doBuildTree; h.entries is never written, so only existing sub-trees are skipped *)
Definition do_build (e : ientry) (t : trees) (x : path * path * bytes) : trees :=
  let '(parent, full, name) := x in
  match trees_get t full with
  | Some _ => t
  | None =>
    if bytes_eqb full (ie_path e)
    then trees_append t parent (name, Some (ie_mode e, ie_hash e))
    else trees_append t parent (name, None) ++ [(full, [])]
  end.

Definition commit_entry (t : trees) (e : ientry) : trees :=
  if h_cid (ie_hash e) =? zero_cid then t
  else fold_left (do_build e) (walk_parts [] (split_slash (ie_path e) [])) t.

Definition build_trees (i : list ientry) : trees := fold_left commit_entry i [([], [])].

(* the files recorded in all trees, with their full paths *)
Definition tree_files (t : trees) : list (path * fmode * hash) :=
  flat_map (fun '(d, es) => flat_map (fun '(n, k) => match k with Some (m, h) => [(join d n, m, h)] | None => [] end) es) t.

(* sortableEntries.sortName: a sub-tree sorts as name + "/" *)
Definition sort_name (e : tent) : bytes := match snd e with None => fst e ++ [SLASH] | Some _ => fst e end.

(* Commit: the tree recorded is BuildTree of the index as it is *)
Definition g_commit_files (s : state) : list (path * fmode * hash) := tree_files (build_trees (st_index s)).

(* Tree.Encode runs Tree.Validate first: a symbolic link named like one of git's
   metadata files makes BuildTree, hence Commit, fail (the HFS+/NTFS disguises
   of these names are not modelled; duplicate / unsorted entries cannot arise
   from an index without directory/file conflicts) *)
Definition dot_meta : list bytes :=
  map bytes_of_string [".gitmodules"; ".gitattributes"; ".gitignore"; ".mailmap"]%string.
Definition base_name (p : path) : bytes := last (split_slash p []) [].
Definition symlink_meta (e : ientry) : bool :=
  match ie_mode e with
  | MLink => negb (h_cid (ie_hash e) =? zero_cid) && existsb (bytes_eqb (base_name (ie_path e))) dot_meta
  | _ => false
  end.
Definition g_commit (s : state) : option (list (path * fmode * hash)) :=
  if existsb symlink_meta (st_index s) then None else Some (g_commit_files s).

(* ------------------------------------------------------------ correspondence entry points *)

Definition out_mode (m : fmode) : out := OSym (match m with MReg => "f" | MExec => "x" | MLink => "l" end).

Fixpoint insert_by {A} (key : A -> bytes) (x : A) (l : list A) : list A :=
  match l with [] => [x] | y :: r => if bytes_ltb (key y) (key x) then y :: insert_by key x r else x :: l end.
Definition sort_by {A} (key : A -> bytes) (l : list A) : list A := fold_right (insert_by key) [] l.

(* contents: the table content id -> bytes of this case *)
Definition content_of (tbl : list bytes) (c : N) : bytes := nth (N.to_nat c) tbl [].

Definition out_index (tbl : list bytes) (i : list ientry) : out :=
  OList (map (fun e => OList [OBytes (ie_path e); out_mode (ie_mode e); OBytes (content_of tbl (h_cid (ie_hash e)))])
             (sort_by ie_path i)).
Definition out_wt (tbl : list bytes) (w : list wfile) : out :=
  OList (map (fun f => OList [OBytes (wf_path f); out_mode (wf_mode f); OBytes (content_of tbl (wf_cid f))])
             (sort_by wf_path w)).

Definition out_res (tbl : list string) (r : res) : out :=
  let t := map unhex tbl in
  match r with
  | ROk s => OList [OSym "ok"; out_index t (st_index s); out_wt t (st_wt s)]
  | RErr s => OList [OSym "err"; out_index t (st_index s); out_wt t (st_wt s)]
  end.

Definition c28_add (tbl : list string) (s : state) (p : string) : out := out_res tbl (g_add s (unhex p)).
Definition c28_addall (tbl : list string) (s : state) : out := out_res tbl (g_add_all s).
Definition c28_rm (tbl : list string) (s : state) (p : string) : out := out_res tbl (g_rm s (unhex p)).
Definition c28_mv (tbl : list string) (s : state) (a b : string) : out := out_res tbl (g_mv s (unhex a) (unhex b)).
Definition c28_clean (tbl : list string) (s : state) (dir : bool) : out := out_res tbl (g_clean s dir).
Definition c28_commit (tbl : list string) (s : state) : out :=
  let t := map unhex tbl in
  match g_commit s with
  | None => OList [OSym "err"; OList []]
  | Some files =>
    OList [OSym "ok";
           OList (map (fun '(p, m, h) => OList [OBytes p; out_mode m; OBytes (content_of t (h_cid h))])
                      (sort_by (fun x => fst (fst x)) files))]
  end.

(* ------------------------------------------------------------ clean: empty directories *)

(* doClean with Dir: removeDirIfEmpty on every directory visited, whatever the
   ignore rules say; input = the empty directories of the worktree with their
   ignore verdict, output = those that remain *)
Definition g_clean_empty_dirs (dirs : list (path * bool)) : list path := [].
