(* Model/Idx.v — G for C10: the pack index (.idx v2) and reverse index (.rev)
   codecs and the three index readers of go-git, as they are (after the three
   `fix:` commits of this batch, see findings/C10.json):

     plumbing/format/idxfile/writer.go    Writer.Add, createIndex, addOffset64
     plumbing/format/idxfile/encoder.go   Encode
     plumbing/format/idxfile/decoder.go   Decoder.Decode, validateIdxV2Size (mulInt64/addInt64 from Gen)
     plumbing/format/idxfile/idxfile.go   MemoryIndex: findHashIndex, getOffset, FindOffset (+ offset cache),
                                          FindCRC32, FindHash/genOffsetHash, Count, Entries,
                                          EntriesWithPrefix, EntriesByOffset, MayContain
     plumbing/format/idxfile/lazy_index.go LazyIndex: init, findHashPos, offset, crc32, hashAtPos,
                                          findHashViaRev, Entries, EntriesWithPrefix, EntriesByOffset
     storage/filesystem/mmap/{idxfile,revfile,scan}.go  PackScanner: load, FindOffset, FindHash
     plumbing/format/revfile/{encoder,decoder}.go       Encode, Decode

   Executable definitions only.  Files are byte lists; ReadAt = [read_at];
   io.ReadFull on the sequential reader = [take].  Loops are structural or
   carry explicit fuel ([OutOfFuel]/[EFuel] results are excluded by the theorems).
   Not modelled: uint32 wrap of `buckets*idSize` in readObjectNames and of the
   entry counter in createIndex (needs >= 2^26 objects), slice-bound panics of
   MemoryIndex on hand-built structs (Decode and createIndex only build
   consistent ones), descriptor sharing (sharedfile, C24). *)
From Coq Require Import List NArith ZArith Bool String.
From GoGit Require Import Base.Out Base.GoInt Model.PackBytes Gen.C10 Spec.PackHash.
Import ListNotations.
Local Open Scope N_scope.

(* ---- constants regenerated from the Go sources (Gen/C10.v) ---- *)
Definition O64MASK : N := Z.to_N idxfile_isO64Mask.
Definition IDX_MAGIC : bytes := map Z.to_N idxfile_idxHeader.
Definition IDX_VERSION : N := Z.to_N idxfile_VersionSupported.
Definition NFANOUT : nat := Z.to_nat idxfile_fanout.
Definition MAXINT32 : N := 2147483647.                    (* math.MaxInt32 *)
Definition L_HDR : N := Z.to_N idxfile_idxHeaderSize.     (* LazyIndex layout constants *)
Definition L_FANOUT : N := Z.to_N idxfile_idxFanoutSize.
Definition L_OFF32 : N := Z.to_N idxfile_off32Size.
Definition L_OFF64 : N := Z.to_N idxfile_off64Size.
Definition L_REVHDR : N := Z.to_N idxfile_revHeaderSize.
Definition L_MASK : N := Z.to_N idxfile_is64bitsMask.
Definition S_HDR : N := Z.to_N mmap_idxHeaderSize.        (* mmap.PackScanner layout constants *)
Definition S_FANOUT : N := Z.to_N mmap_idxFanoutSize.
Definition S_CRC : N := Z.to_N mmap_idxCrcSize.
Definition S_OFF32 : N := Z.to_N mmap_off32Size.
Definition S_OFF64 : N := Z.to_N mmap_off64Size.
Definition S_MASK : N := Z.to_N mmap_is64bitsMask.
Definition S_REVHDR : N := Z.to_N mmap_revHeader.
Definition S_IDXMIN : N := Z.to_N mmap_idxMinLen.
Definition S_REVMIN : N := Z.to_N mmap_revMinLen.
Definition S_IDXSIG : bytes := map Z.to_N mmap_idxSignature.
Definition S_REVSIG : bytes := map Z.to_N mmap_revSignature.
Definition S_IDXVER : N := Z.to_N mmap_idxSupported.
Definition S_REVVER : N := Z.to_N mmap_revSupported.
Definition REV_MAGIC : bytes := map Z.to_N revfile_revHeader.
Definition REV_VERSION : N := Z.to_N revfile_VersionSupported.
Definition REV_SHA1 : N := Z.to_N revfile_sha1Hash.
Definition REV_SHA256 : N := Z.to_N revfile_sha256Hash.

Inductive ierr := ENotFound | EMalformed | EReject | EFuel | EPanic | ECreate.
Inductive res (A : Type) := Ok (a : A) | Err (e : ierr).
Arguments Ok {A} a.
Arguments Err {A} e.

Record entry := mkE { e_hash : bytes; e_off : N; e_crc : N }.
(* Names[k], Offset32[k], CRC32[k] of one non-empty fanout bucket *)
Record bucket := mkB { b_names : bytes; b_off32 : bytes; b_crc32 : bytes }.
Definition emptyB := mkB [] [] [].
Record memidx := mkM {
  m_fanout : list N;            (* Fanout [256]uint32 *)
  m_fmap : list (option N);     (* FanoutMapping [256]int, noMapping = None *)
  m_bk : list bucket;
  m_off64 : bytes;
  m_pack : bytes;
  m_sum : bytes }.

(* results of the binary searches *)
Inductive sres := Found (i : N) | NotFound | SErr | OutOfFuel.

(* `for lo < hi { mid := (lo+hi)>>1; switch cmp(target, elem[mid]) ... }`;
   the probe answers the comparison of the target with element mid *)
Fixpoint bs_while (fuel : nat) (probe : N -> option comparison) (lo hi : N) : sres :=
  match fuel with
  | O => OutOfFuel
  | S f =>
    if lo <? hi then
      let mid := (lo + hi) / 2 in
      match probe mid with
      | None => SErr
      | Some Lt => bs_while f probe lo mid
      | Some Gt => bs_while f probe (mid + 1) hi
      | Some Eq => Found mid
      end
    else NotFound
  end.

(* MemoryIndex.findHashIndex: `for { ...; if low >= high { break } }` *)
Fixpoint bs_do (fuel : nat) (probe : N -> option comparison) (lo hi : N) : sres :=
  match fuel with
  | O => OutOfFuel
  | S f =>
    let mid := (lo + hi) / 2 in
    match probe mid with
    | None => SErr
    | Some Lt => if lo <? mid then bs_do f probe lo mid else NotFound
    | Some Eq => Found mid
    | Some Gt => if mid + 1 <? hi then bs_do f probe (mid + 1) hi else NotFound
    end
  end.

(* leftmost position in [lo,hi) whose element is not below the target
   (EntriesWithPrefix, sort.Search); [below mid] = elem[mid] < target *)
Fixpoint lower_bound (fuel : nat) (below : N -> option bool) (lo hi : N) : sres :=
  match fuel with
  | O => OutOfFuel
  | S f =>
    if lo <? hi then
      let mid := (lo + hi) / 2 in
      match below mid with
      | None => SErr
      | Some true => lower_bound f below (mid + 1) hi
      | Some false => lower_bound f below lo mid
      end
    else Found lo
  end.

(* PackScanner.lookupOffset: `for left <= right { mid := (left+right)/2 ... right = mid-1 }` *)
Fixpoint bs_closed (fuel : nat) (probe : Z -> option comparison) (left right : Z) : sres :=
  match fuel with
  | O => OutOfFuel
  | S f =>
    if (left <=? right)%Z then
      let mid := ((left + right) / 2)%Z in
      match probe mid with
      | None => NotFound
      | Some Eq => Found (Z.to_N mid)
      | Some Gt => bs_closed f probe (mid + 1)%Z right
      | Some Lt => bs_closed f probe left (mid - 1)%Z
      end
    else NotFound
  end.

Definition bs_fuel (lo hi : N) : nat := S (N.to_nat (N.size (hi - lo))).

Section Idx.
Variable hs : nat.                         (* object id size: 20 (SHA-1) or 32 (SHA-256) *)
Variable Hsz : nat -> bytes -> bytes.      (* digest of the hash with the given output size *)
Let H := Hsz hs.
Let HS : N := N.of_nat hs.

(* ------------------------------------------------------------- Writer *)

Definition is_zero_hash (h : bytes) : bool := forallb (N.eqb 0) h.
Definition mem_hash (h : bytes) (l : list bytes) : bool := existsb (bytes_eqb h) l.

(* Writer.Add over the observed objects: zero IDs and repeated IDs are skipped *)
Fixpoint writer_add (es : list entry) (seen : list bytes) (acc : list entry) : list entry :=
  match es with
  | [] => rev acc
  | e :: r =>
    if is_zero_hash (e_hash e) || mem_hash (e_hash e) seen then writer_add r seen acc
    else writer_add r (e_hash e :: seen) (e :: acc)
  end.

(* sort.Sort(w.objects) with Less = Hash.Compare < 0 (IDs are distinct after Add) *)
Fixpoint insert_by_hash (e : entry) (l : list entry) : list entry :=
  match l with
  | [] => [e]
  | x :: r =>
    match bytes_cmp (e_hash e) (e_hash x) with
    | Gt => x :: insert_by_hash e r
    | _ => e :: l
    end
  end.
Definition sort_entries (l : list entry) : list entry := fold_right insert_by_hash [] l.

Record cstate := mkC {
  c_fan : nat -> N;             (* idx.Fanout as an array *)
  c_fmap : nat -> option N;     (* idx.FanoutMapping *)
  c_bk : list bucket;           (* buckets, most recent first *)
  c_off64 : bytes;
  c_n64 : N;                    (* w.offset64 *)
  c_last : Z }.

Definition cinit : cstate := mkC (fun _ => 0) (fun _ => None) [] [] 0 (-1)%Z.

Definition first_byte (h : bytes) : nat := N.to_nat (hd 0 h).

(* one iteration of the loop of createIndex: object number i (0-based) *)
Definition cstep (s : cstate) (i : N) (o : entry) : cstate :=
  let fan := first_byte (e_hash o) in
  let fz := Z.of_nat fan in
  let fanout' := fun j =>
    if Nat.eqb j fan then i + 1
    else if (c_last s <? Z.of_nat j)%Z && (Z.of_nat j <? fz)%Z then i
    else c_fan s j in
  let newb := negb (c_last s =? fz)%Z in
  let bk0 := if newb then emptyB :: c_bk s else c_bk s in
  let fmap' := if newb then (fun j => if Nat.eqb j fan then Some (N.of_nat (List.length (c_bk s))) else c_fmap s j)
               else c_fmap s in
  let big := MAXINT32 <? e_off o in
  let off64' := if big then c_off64 s ++ be64 (e_off o) else c_off64 s in
  let offv := if big then N.lor (c_n64 s) O64MASK else e_off o in
  let n64' := if big then (c_n64 s + 1) mod 4294967296 else c_n64 s in
  let bk' := match bk0 with
             | [] => []
             | b :: r => mkB (b_names b ++ e_hash o) (b_off32 b ++ be32 offv) (b_crc32 b ++ be32 (e_crc o)) :: r
             end in
  mkC fanout' fmap' bk' off64' n64' fz.

Fixpoint cloop (s : cstate) (i : N) (os : list entry) : cstate :=
  match os with
  | [] => s
  | o :: r => cloop (cstep s i o) (i + 1) r
  end.

(* Writer.createIndex (after OnFooter(pack)); the hash-size check is done first for every object *)
Definition create_index (added : list entry) (pack : bytes) : res memidx :=
  let os := sort_entries added in
  if negb (forallb (fun o => Nat.eqb (List.length (e_hash o)) hs) os) then Err ECreate else
  let s := cloop cinit 0 os in
  let n := N.of_nat (List.length os) in
  let fan := fun j => if (c_last s <? Z.of_nat j)%Z then n else c_fan s j in
  Ok (mkM (map fan (seq 0 NFANOUT)) (map (c_fmap s) (seq 0 NFANOUT)) (rev (c_bk s)) (c_off64 s) pack
          (repeat 0 hs)).

(* ------------------------------------------------------------- Encode *)

(* the per-bucket tables in fanout order, through FanoutMapping *)
Fixpoint enc_tables (sel : bucket -> bytes) (m : memidx) (fm : list (option N)) : option bytes :=
  match fm with
  | [] => Some []
  | None :: r => enc_tables sel m r
  | Some pos :: r =>
    if N.of_nat (List.length (m_bk m)) <=? pos then None
    else match enc_tables sel m r with
         | None => None
         | Some t => Some (sel (nthN (m_bk m) pos emptyB) ++ t)
         end
  end.

Definition encode_body (m : memidx) : option bytes :=
  match enc_tables b_names m (m_fmap m), enc_tables b_crc32 m (m_fmap m), enc_tables b_off32 m (m_fmap m) with
  | Some nm, Some cr, Some of32 =>
    Some (IDX_MAGIC ++ be32 IDX_VERSION ++ flat_map be32 (m_fanout m) ++ nm ++ cr ++ of32 ++ m_off64 m ++ m_pack m)
  | _, _, _ => None
  end.

Definition encode (m : memidx) : res bytes :=
  match encode_body m with
  | Some b => Ok (b ++ H b)
  | None => Err EMalformed
  end.

(* ------------------------------------------------------------- Decode *)

Fixpoint read_fanout (n : nat) (r : bytes) (prev : N) (acc : list N) : option (list N * bytes) :=
  match n with
  | O => Some (rev acc, r)
  | S n' =>
    match take 4 r with
    | None => None
    | Some (w, r') =>
      let v := get32 w in
      if v <? prev then None else read_fanout n' r' v (v :: acc)
    end
  end.

(* validateIdxV2Size through the regenerated overflow-checked leaves *)
Definition min_idx_size (nr hashsz : Z) : Z :=
  let perObject := (hashsz + idxfile_crc32Len + idxfile_offset32Len)%Z in
  let fixed := (idxfile_headerLen + idxfile_fanoutLen + idxfile_trailerHashes * hashsz)%Z in
  let '(objects, ok) := idxfile_mulInt64 nr perObject in
  if negb ok then (-1)%Z else
  let '(sum, ok2) := idxfile_addInt64 fixed objects in
  if negb ok2 then (-1)%Z else sum.

Definition max_idx_size (nr hashsz : Z) : Z :=
  let mn := min_idx_size nr hashsz in
  if (mn <? 0)%Z then (-1)%Z else
  if (nr =? 0)%Z then mn else
  let '(ov, ok) := idxfile_mulInt64 (nr - 1)%Z idxfile_offset64Len in
  if negb ok then (-1)%Z else
  let '(sum, ok2) := idxfile_addInt64 mn ov in
  if negb ok2 then (-1)%Z else sum.

Definition size_ok (nr : N) (size : N) : bool :=
  let mn := min_idx_size (Z.of_N nr) (Z.of_nat hs) in
  let mx := max_idx_size (Z.of_N nr) (Z.of_nat hs) in
  if (mn <? 0)%Z || (mx <? 0)%Z then false
  else negb ((Z.of_N size <? mn)%Z || (Z.of_N size >? mx)%Z).

(* per-bucket object counts: Fanout[k] - Fanout[k-1] *)
Fixpoint bucket_counts (fo : list N) (prev : N) : list N :=
  match fo with
  | [] => []
  | f :: r => (f - prev) :: bucket_counts r f
  end.

(* FanoutMapping as readObjectNames fills it *)
Fixpoint fmap_of_counts (cs : list N) (next : N) : list (option N) :=
  match cs with
  | [] => []
  | c :: r => if c =? 0 then None :: fmap_of_counts r next else Some next :: fmap_of_counts r (next + 1)
  end.

(* consecutive io.ReadFull of the given sizes *)
Fixpoint read_seq (sizes : list N) (r : bytes) : option (list bytes * bytes) :=
  match sizes with
  | [] => Some ([], r)
  | n :: rest =>
    match take n r with
    | None => None
    | Some (b, r') =>
      match read_seq rest r' with
      | None => None
      | Some (bs, r'') => Some (b :: bs, r'')
      end
    end
  end.

(* number of 32-bit offsets of a bucket whose first byte has the top bit set *)
Fixpoint count_msb (n : nat) (b : bytes) : N :=
  match n with
  | O => 0
  | S n' => (if 128 <=? hd 0 b then 1 else 0) + count_msb n' (skipn 4 b)
  end.

Fixpoint zip_buckets (ns cs os : list bytes) : list bucket :=
  match ns, cs, os with
  | n :: ns', c :: cs', o :: os' => mkB n o c :: zip_buckets ns' cs' os'
  | _, _, _ => []
  end.

Definition decode (file : bytes) : res memidx :=
  let size := blen file in
  match take 4 file with None => Err EReject | Some (mg, r1) =>
  if negb (bytes_eqb mg IDX_MAGIC) then Err EReject else
  match take 4 r1 with None => Err EReject | Some (vb, r2) =>
  if negb (get32 vb =? IDX_VERSION) then Err EReject else
  match read_fanout NFANOUT r2 0 [] with None => Err EReject | Some (fo, r3) =>
  if negb (size_ok (last fo 0) size) then Err EReject else
  let cs := bucket_counts fo 0 in
  let nz := filter (fun c => negb (c =? 0)) cs in
  match read_seq (map (fun c => c * HS) nz) r3 with None => Err EReject | Some (names, r4) =>
  match read_seq (map (fun c => c * 4) nz) r4 with None => Err EReject | Some (crcs, r5) =>
  match read_seq (map (fun c => c * 4) nz) r5 with None => Err EReject | Some (offs, r6) =>
  let o64cnt := fold_right N.add 0 (map (fun o => count_msb (N.to_nat (blen o / 4)) o) offs) in
  match take (o64cnt * 8) r6 with None => Err EReject | Some (off64, r7) =>
  match take HS r7 with None => Err EReject | Some (pack, r8) =>
  let actual := H (firstn (List.length file - List.length r8) file) in
  match take HS r8 with None => Err EReject | Some (sum, _) =>
  if negb (bytes_eqb sum actual) then Err EReject else
  Ok (mkM fo (fmap_of_counts cs 0) (zip_buckets names crcs offs) off64 pack sum)
  end end end end end end end end end.

(* ------------------------------------------------------- MemoryIndex *)

Definition bucket_n (b : bucket) : N := blen (b_off32 b) / 4.     (* len(Offset32[k]) >> 2 *)
Definition name_at (b : bucket) (i : N) : bytes := slice (b_names b) (i * HS) HS.

Definition fmap_at (m : memidx) (k : nat) : option N := nth k (m_fmap m) None.
Definition fan_at (m : memidx) (k : nat) : N := nth k (m_fanout m) 0.

(* findHashIndex: (bucket position, index inside the bucket) *)
Definition mem_find (m : memidx) (h : bytes) : sres * N :=
  match fmap_at m (first_byte h) with
  | None => (NotFound, 0)
  | Some k =>
    if N.of_nat (List.length (m_bk m)) <=? k then (NotFound, k) else
    let b := nthN (m_bk m) k emptyB in
    let high := bucket_n b in
    if high =? 0 then (NotFound, k)
    else (bs_do (bs_fuel 0 high) (fun mid => Some (bytes_cmp h (name_at b mid))) 0 high, k)
  end.

(* getOffset / idxfilePrefixIter.bucketOffset *)
Definition mem_get_offset (m : memidx) (b : bucket) (i : N) : res N :=
  let ofs := get32 (slice (b_off32 b) (4 * i) 4) in
  if N.land ofs O64MASK =? 0 then Ok ofs
  else
    let o := 8 * N.ldiff ofs O64MASK in
    let l := blen (m_off64 m) in
    if (l <? 8) || (l - 8 <? o) then Err EMalformed
    else Ok (get64 (slice (m_off64 m) o 8)).

Definition mem_get_crc (b : bucket) (i : N) : N := get32 (slice (b_crc32 b) (4 * i) 4).

Definition mem_entry_at (m : memidx) (b : bucket) (i : N) : res entry :=
  match mem_get_offset m b i with
  | Err e => Err e
  | Ok o => Ok (mkE (name_at b i) o (mem_get_crc b i))
  end.

(* an iterator drained to the end: the entries yielded, then EOF (None) or an error *)
Definition iter := (list entry * option ierr)%type.

Fixpoint mem_bucket_entries (m : memidx) (b : bucket) (second : N) (n : nat) : iter :=
  match n with
  | O => ([], None)
  | S n' =>
    match mem_entry_at m b second with
    | Err e => ([], Some e)
    | Ok en => let '(l, t) := mem_bucket_entries m b (second + 1) n' in (en :: l, t)
    end
  end.

(* idxfileEntryIter.Next until EOF (also the traversal of genOffsetHash) *)
Fixpoint mem_entries_from (m : memidx) (ks : list nat) (total : N) : iter :=
  match ks with
  | [] => ([], None)
  | k :: r =>
    let fk := fan_at m k in
    if fk <=? total then mem_entries_from m r total
    else match fmap_at m k with
         | None => ([], Some EPanic)
         | Some pos =>
           let '(l, t) := mem_bucket_entries m (nthN (m_bk m) pos emptyB) 0 (N.to_nat (fk - total)) in
           match t with
           | Some e => (l, Some e)
           | None => let '(l2, t2) := mem_entries_from m r fk in (l ++ l2, t2)
           end
         end
  end.

Definition mem_entries (m : memidx) : iter := mem_entries_from m (seq 0 NFANOUT) 0.

Definition mem_count (m : memidx) : N := fan_at m (NFANOUT - 1).

(* int64(uint64) conversions of Go *)
Definition to_i64 (n : N) : Z := wraps 64 (Z.of_N n).

(* offsetHash map: association list, most recent binding first *)
Definition omap := list (Z * bytes).
Fixpoint omap_get (mp : omap) (o : Z) : option bytes :=
  match mp with
  | [] => None
  | (k, v) :: r => if (k =? o)%Z then Some v else omap_get r o
  end.

Record mstate := mkS { ms_map : option omap; ms_once : bool }.
Definition ms_init := mkS None false.

Definition mem_find_offset (m : memidx) (st : mstate) (h : bytes) : res Z * mstate :=
  match mem_find m h with
  | (Found i, k) =>
    match mem_get_offset m (nthN (m_bk m) k emptyB) i with
    | Err e => (Err e, st)
    | Ok o =>
      let mp := match ms_map st with None => [] | Some mp => mp end in
      (Ok (to_i64 o), mkS (Some ((to_i64 o, h) :: mp)) (ms_once st))
    end
  | (OutOfFuel, _) => (Err EFuel, st)
  | _ => (Err ENotFound, st)
  end.

Definition mem_find_crc (m : memidx) (h : bytes) : res N :=
  match mem_find m h with
  | (Found i, k) => Ok (mem_get_crc (nthN (m_bk m) k emptyB) i)
  | (OutOfFuel, _) => Err EFuel
  | _ => Err ENotFound
  end.

Definition mem_contains (m : memidx) (h : bytes) : res bool :=
  match mem_find m h with
  | (Found _, _) => Ok true
  | (OutOfFuel, _) => Err EFuel
  | _ => Ok false
  end.

Definition mem_may_contain (m : memidx) (h : bytes) : bool :=
  match fmap_at m (first_byte h) with None => false | Some _ => true end.

(* genOffsetHash *)
Definition mem_gen (m : memidx) : res omap :=
  match mem_entries m with
  | (l, None) => Ok (fold_left (fun mp e => (to_i64 (e_off e), e_hash e) :: mp) l [])
  | (_, Some e) => Err e
  end.

Definition mem_find_hash (m : memidx) (st : mstate) (o : Z) : res bytes * mstate :=
  match (match ms_map st with Some mp => omap_get mp o | None => None end) with
  | Some h => (Ok h, st)
  | None =>
    if ms_once st then (Err ENotFound, st)      (* the map was already searched above *)
    else
      match mem_gen m with
      | Err e => (Err e, mkS (ms_map st) true)
      | Ok mp =>
        (match omap_get mp o with Some h => Ok h | None => Err ENotFound end, mkS (Some mp) true)
      end
  end.

(* EntriesWithPrefix *)
Fixpoint mem_prefix_walk (m : memidx) (b : bucket) (prefix : bytes) (pos : N) (n : nat) : iter :=
  match n with
  | O => ([], None)
  | S n' =>
    if blen (b_names b) <? pos * HS + HS then ([], None) else
    if negb (has_prefix (name_at b pos) prefix) then ([], None) else
    match mem_entry_at m b pos with
    | Err e => ([], Some e)
    | Ok en => let '(l, t) := mem_prefix_walk m b prefix (pos + 1) n' in (en :: l, t)
    end
  end.

Definition is_lt (c : comparison) : bool := match c with Lt => true | _ => false end.

Definition mem_prefix (m : memidx) (prefix : bytes) : iter :=
  match prefix with
  | [] => mem_entries m
  | p0 :: _ =>
    match fmap_at m (N.to_nat p0) with
    | None => ([], None)
    | Some k =>
      let b := nthN (m_bk m) k emptyB in
      let n := blen (b_names b) / HS in
      let target := pad_to hs prefix in
      match lower_bound (bs_fuel 0 n) (fun mid => Some (is_lt (bytes_cmp (name_at b mid) target))) 0 n with
      | Found lo => mem_prefix_walk m b prefix lo (S (N.to_nat (n - lo)))
      | _ => ([], Some EFuel)
      end
    end
  end.

(* sort.Sort(entriesByOffset) made canonical: ties (corrupt files only) ordered by ID *)
Definition off_le (a b : entry) : bool :=
  if e_off a <? e_off b then true
  else if e_off b <? e_off a then false
  else negb (match bytes_cmp (e_hash a) (e_hash b) with Gt => true | _ => false end).
Fixpoint insert_by_off (e : entry) (l : list entry) : list entry :=
  match l with
  | [] => [e]
  | x :: r => if off_le e x then e :: l else x :: insert_by_off e r
  end.
Definition sort_by_off (l : list entry) : list entry := fold_right insert_by_off [] l.

Definition mem_by_offset (m : memidx) : iter :=
  match mem_entries m with
  | (l, None) => (sort_by_off l, None)
  | (_, Some e) => ([], Some e)
  end.

(* ---------------------------------------------------------- LazyIndex *)

Record lazyidx := mkL {
  l_file : bytes; l_rev : bytes; l_fanout : list N; l_count : N; l_count64 : N;
  l_names : N; l_crc : N; l_off32 : N; l_off64 : N }.

Fixpoint parse_fanout (n : nat) (b : bytes) (prev : N) : option (list N) :=
  match n with
  | O => Some []
  | S n' =>
    let v := get32 b in
    if v <? prev then None
    else match parse_fanout n' (skipn 4 b) v with
         | None => None
         | Some l => Some (v :: l)
         end
  end.

Fixpoint count_msb32 (n : nat) (b : bytes) : N :=
  match n with
  | O => 0
  | S n' => (if N.land (get32 b) L_MASK =? 0 then 0 else 1) + count_msb32 n' (skipn 4 b)
  end.

Definition lazy_init (file rev pack : bytes) : res lazyidx :=
  match read_at file 0 L_HDR with None => Err EReject | Some hdr =>
  if negb (bytes_eqb (firstn 4 hdr) IDX_MAGIC) then Err EReject else
  if negb (get32 (skipn 4 hdr) =? IDX_VERSION) then Err EReject else
  match read_at rev 0 L_REVHDR with None => Err EReject | Some rh =>
  if negb (bytes_eqb (firstn 4 rh) [82; 73; 68; 88]) then Err EReject else
  if negb (get32 (skipn 4 rh) =? 1) then Err EReject else
  match read_at file L_HDR L_FANOUT with None => Err EReject | Some fb =>
  match parse_fanout 256 fb 0 with None => Err EReject | Some fo =>
  let count := nth 255 fo 0 in
  let namesStart := L_HDR + L_FANOUT in
  let crcStart := namesStart + count * HS in
  let off32Start := crcStart + count * 4 in
  let off64Start := off32Start + count * L_OFF32 in
  match (if count =? 0 then Some 0
         else match read_at file off32Start (count * L_OFF32) with
              | None => None
              | Some tbl => Some (count_msb32 (N.to_nat count) tbl)
              end) with
  | None => Err EReject
  | Some n64 =>
    match read_at file (off64Start + n64 * L_OFF64) HS with None => Err EReject | Some pk =>
    if negb (bytes_eqb pack pk) then Err EReject else
    Ok (mkL file rev fo count n64 namesStart crcStart off32Start off64Start)
    end
  end end end end end.

Definition lazy_bounds (s : lazyidx) (first : nat) : N * N :=
  ((if Nat.eqb first 0 then 0 else nth (first - 1) (l_fanout s) 0), nth first (l_fanout s) 0).

Definition lazy_name (s : lazyidx) (pos : N) : option bytes :=
  read_at (l_file s) (l_names s + pos * HS) HS.

(* findHashPos *)
Definition lazy_find_pos (s : lazyidx) (h : bytes) : sres :=
  let '(lo, hi) := lazy_bounds s (first_byte h) in
  if hi <=? lo then NotFound
  else bs_while (bs_fuel lo hi)
         (fun mid => match lazy_name s mid with None => None | Some nm => Some (bytes_cmp h nm) end) lo hi.

Definition lazy_offset (s : lazyidx) (pos : N) : res N :=
  match read_at (l_file s) (l_off32 s + pos * L_OFF32) L_OFF32 with
  | None => Err EMalformed
  | Some b =>
    let off32 := get32 b in
    if N.land off32 L_MASK =? 0 then Ok off32
    else
      let loIndex := N.ldiff off32 L_MASK in
      if l_count64 s <=? loIndex then Err EMalformed
      else match read_at (l_file s) (l_off64 s + loIndex * L_OFF64) L_OFF64 with
           | None => Err EMalformed
           | Some b64 => Ok (get64 b64)
           end
  end.

Definition lazy_crc (s : lazyidx) (pos : N) : res N :=
  match read_at (l_file s) (l_crc s + pos * 4) 4 with
  | None => Err EMalformed
  | Some b => Ok (get32 b)
  end.

Definition lazy_entry_at (s : lazyidx) (pos : N) : res entry :=
  match lazy_name s pos with
  | None => Err EMalformed
  | Some h =>
    match lazy_offset s pos with
    | Err e => Err e
    | Ok o => match lazy_crc s pos with Err e => Err e | Ok c => Ok (mkE h o c) end
    end
  end.

Definition lazy_contains (s : lazyidx) (h : bytes) : res bool :=
  match lazy_find_pos s h with
  | Found _ => Ok true
  | NotFound => Ok false
  | SErr => Err EMalformed
  | OutOfFuel => Err EFuel
  end.

Definition lazy_may_contain (s : lazyidx) (h : bytes) : bool :=
  let '(lo, hi) := lazy_bounds s (first_byte h) in lo <? hi.

Definition lazy_find_offset (s : lazyidx) (h : bytes) : res Z :=
  match lazy_find_pos s h with
  | Found pos => match lazy_offset s pos with Err e => Err e | Ok o => Ok (to_i64 o) end
  | NotFound => Err ENotFound
  | SErr => Err EMalformed
  | OutOfFuel => Err EFuel
  end.

Definition lazy_find_crc (s : lazyidx) (h : bytes) : res N :=
  match lazy_find_pos s h with
  | Found pos => lazy_crc s pos
  | NotFound => Err ENotFound
  | SErr => Err EMalformed
  | OutOfFuel => Err EFuel
  end.

Definition lazy_rev_at (s : lazyidx) (i : N) : res N :=
  match read_at (l_rev s) (L_REVHDR + i * 4) 4 with
  | None => Err EMalformed
  | Some b => let p := get32 b in if l_count s <=? p then Err EMalformed else Ok p
  end.

(* findHashViaRev; the comparison is on int64 values *)
Definition lazy_find_hash (s : lazyidx) (want : Z) : res bytes :=
  let probe := fun mid =>
    match lazy_rev_at s mid with
    | Err _ => None
    | Ok p => match lazy_offset s p with
              | Err _ => None
              | Ok got => Some (Z.compare want (to_i64 got))
              end
    end in
  match bs_while (bs_fuel 0 (l_count s)) probe 0 (l_count s) with
  | Found mid =>
    match lazy_rev_at s mid with
    | Err e => Err e
    | Ok p => match lazy_name s p with None => Err EMalformed | Some h => Ok h end
    end
  | NotFound => Err ENotFound
  | SErr => Err EMalformed
  | OutOfFuel => Err EFuel
  end.

Fixpoint lazy_walk (s : lazyidx) (pos : N) (n : nat) : iter :=
  match n with
  | O => ([], None)
  | S n' =>
    match lazy_entry_at s pos with
    | Err e => ([], Some e)
    | Ok en => let '(l, t) := lazy_walk s (pos + 1) n' in (en :: l, t)
    end
  end.

Definition lazy_entries (s : lazyidx) : iter := lazy_walk s 0 (N.to_nat (l_count s)).

Fixpoint lazy_prefix_walk (s : lazyidx) (prefix : bytes) (pos : N) (n : nat) : iter :=
  match n with
  | O => ([], None)
  | S n' =>
    match lazy_entry_at s pos with
    | Err e => ([], Some e)
    | Ok en =>
      if negb (has_prefix (e_hash en) prefix) then ([], None)
      else let '(l, t) := lazy_prefix_walk s prefix (pos + 1) n' in (en :: l, t)
    end
  end.

Definition lazy_prefix (s : lazyidx) (prefix : bytes) : iter :=
  match prefix with
  | [] => lazy_entries s
  | p0 :: _ =>
    let '(lo, hi) := lazy_bounds s (N.to_nat p0) in
    if hi <=? lo then ([], None) else
    let target := pad_to hs prefix in
    match lower_bound (bs_fuel lo hi)
            (fun mid => match lazy_name s mid with
                        | None => None
                        | Some nm => Some (is_lt (bytes_cmp nm target))
                        end) lo hi with
    | Found bsLo => if hi <=? bsLo then ([], None) else lazy_prefix_walk s prefix bsLo (N.to_nat (hi - bsLo))
    | SErr => ([], Some EMalformed)
    | _ => ([], Some EFuel)
    end
  end.

Fixpoint lazy_rev_walk (s : lazyidx) (pos : N) (n : nat) : iter :=
  match n with
  | O => ([], None)
  | S n' =>
    match lazy_rev_at s pos with
    | Err e => ([], Some e)
    | Ok p =>
      match lazy_entry_at s p with
      | Err e => ([], Some e)
      | Ok en => let '(l, t) := lazy_rev_walk s (pos + 1) n' in (en :: l, t)
      end
    end
  end.

Definition lazy_by_offset (s : lazyidx) : iter := lazy_rev_walk s 0 (N.to_nat (l_count s)).

(* ------------------------------------------------------ mmap.PackScanner *)

Record scanner := mkSc {
  s_idx : bytes; s_rev : bytes; s_count : N;
  s_names : N; s_crcs : N; s_off32 : N; s_off64 : N; s_trailer : N }.

(* validateFile *)
Definition valid_file (f : bytes) (ver : N) (sig : bytes) (minLen : N) : bool :=
  (minLen <=? blen f) && bytes_eqb sig (firstn (List.length sig) f)
  && (get32 (skipn (List.length sig) f) =? ver).

Definition scan_load (idx rev : bytes) : res scanner :=
  if negb (valid_file rev S_REVVER S_REVSIG S_REVMIN) then Err EReject else
  if negb (valid_file idx S_IDXVER S_IDXSIG S_IDXMIN) then Err EReject else
  let count := get32 (skipn (N.to_nat (S_HDR + S_FANOUT - 4)) idx) in
  let namesStart := S_HDR + S_FANOUT in
  let crcStart := namesStart + count * HS in
  let off32Start := crcStart + count * S_CRC in
  let off64Start := off32Start + count * S_OFF32 in
  let trailerStart := blen idx - 2 * HS in
  if trailerStart <? off64Start then Err EReject
  else Ok (mkSc idx rev count namesStart crcStart off32Start off64Start trailerStart).

Definition scan_fanout (s : scanner) (i : nat) : N :=
  if Nat.ltb i 256 then get32 (slice (s_idx s) (S_HDR + 4 * N.of_nat i) 4) else 0.

Definition scan_offset (s : scanner) (pos : N) : res N :=
  let start := s_off32 s + pos * S_OFF32 in
  if blen (s_idx s) <? start + S_OFF32 then Err EMalformed else
  let off32 := get32 (slice (s_idx s) start S_OFF32) in
  if N.land off32 S_MASK =? 0 then Ok off32
  else
    let loIndex := N.ldiff off32 S_MASK in
    let st := s_off64 s + loIndex * S_OFF64 in
    if s_trailer s <? st + S_OFF64 then Err EMalformed
    else Ok (get64 (slice (s_idx s) st S_OFF64)).

(* compareObjectID(names, idx, want) < 0 *)
Definition scan_name_below (s : scanner) (want : bytes) (i : N) : bool :=
  let wl := blen want in
  let nlen := s_crcs s - s_names s in
  if nlen <? i * wl + wl then true
  else is_lt (bytes_cmp (slice (s_idx s) (s_names s + i * wl) wl) want).
Definition scan_name_eq (s : scanner) (want : bytes) (i : N) : bool :=
  let wl := blen want in
  let nlen := s_crcs s - s_names s in
  if nlen <? i * wl + wl then false
  else bytes_eqb (slice (s_idx s) (s_names s + i * wl) wl) want.

Definition scan_find_offset (s : scanner) (h : bytes) : res N :=
  let first := first_byte h in
  let lo := if Nat.eqb first 0 then 0 else scan_fanout s (first - 1) in
  let hi := scan_fanout s first in
  if s_crcs s - s_names s <? blen h then Err ENotFound else
  let r := if lo <? hi then lower_bound (bs_fuel lo hi) (fun i => Some (scan_name_below s h i)) lo hi
           else Found lo in
  match r with
  | Found i => if (i <? hi) && scan_name_eq s h i then scan_offset s i else Err ENotFound
  | _ => Err EFuel
  end.

Definition scan_find_hash (s : scanner) (want : N) : res bytes :=
  let datasz := (Z.of_N (blen (s_rev s)) - Z.of_N S_REVHDR - 2 * Z.of_nat hs)%Z in
  let num := Z.quot datasz 4 in
  let probe := fun mid : Z =>
    match read_at (s_rev s) (S_REVHDR + Z.to_N mid * 4) 4 with
    | None => None
    | Some b => match scan_offset s (get32 b) with
                | Err _ => None
                | Ok got => Some (N.compare want got)
                end
    end in
  match bs_closed (bs_fuel 0 (Z.to_N num) + 1) probe 0%Z (num - 1)%Z with
  | Found mid =>
    let p := get32 (slice (s_rev s) (S_REVHDR + mid * 4) 4) in
    let start := s_names s + p * HS in
    if s_crcs s <? start + HS then Err ENotFound
    else Ok (slice (s_idx s) start HS)
  | OutOfFuel => Err EFuel
  | _ => Err ENotFound
  end.

(* ------------------------------------------------------------ revfile *)

Definition rev_hf : N := if Nat.eqb hs 32 then REV_SHA256 else REV_SHA1.

Fixpoint pos_of_offset (l : list entry) (i : N) (acc : list (N * N)) : list (N * N) :=
  match l with
  | [] => acc
  | e :: r => pos_of_offset r (i + 1) ((e_off e, i) :: acc)
  end.
Fixpoint assoc_get (mp : list (N * N)) (k : N) : N :=
  match mp with
  | [] => 0
  | (k', v) :: r => if k' =? k then v else assoc_get r k
  end.

(* revfile.Encode from a MemoryIndex *)
Definition rev_encode (m : memidx) : res bytes :=
  match mem_entries m with
  | (_, Some e) => Err e
  | (l, None) =>
    let mp := pos_of_offset l 0 [] in
    let body := REV_MAGIC ++ be32 REV_VERSION ++ be32 rev_hf
                ++ flat_map (fun e => be32 (assoc_get mp (e_off e))) (sort_by_off l) ++ m_pack m in
    Ok (body ++ H body)
  end.

Fixpoint read_u32s (n : nat) (r : bytes) : option (list N * bytes) :=
  match n with
  | O => Some ([], r)
  | S n' =>
    match take 4 r with
    | None => None
    | Some (w, r') =>
      match read_u32s n' r' with
      | None => None
      | Some (l, r'') => Some (get32 w :: l, r'')
      end
    end
  end.

(* revfile.Decode(r, objCount, packChecksum) *)
Definition rev_decode (file : bytes) (count : N) (pack : bytes) : res (list N) :=
  match take 4 file with None => Err EReject | Some (mg, r1) =>
  if negb (bytes_eqb mg REV_MAGIC) then Err EReject else
  match take 4 r1 with None => Err EReject | Some (vb, r2) =>
  if negb (get32 vb =? REV_VERSION) then Err EReject else
  match take 4 r2 with None => Err EReject | Some (hb, r3) =>
  let hf := get32 hb in
  if negb ((hf =? REV_SHA1) || (hf =? REV_SHA256)) then Err EReject else
  let sz := if hf =? REV_SHA256 then 32%nat else 20%nat in
  if count =? 0 then Err EReject else
  match read_u32s (N.to_nat count) r3 with None => Err EReject | Some (es, r4) =>
  match take (N.of_nat sz) r4 with None => Err EReject | Some (pk, r5) =>
  if negb (bytes_eqb pk pack) then Err EReject else
  match take (N.of_nat sz) r5 with None => Err EReject | Some (sum, r6) =>
  if negb (bytes_eqb sum (Hsz sz (firstn (List.length file - List.length r5) file))) then Err EReject else
  match r6 with [] => Ok es | _ => Err EReject end
  end end end end end end.

(* ------------------------------------------------- queries and rendering *)

Inductive query :=
| QContains (h : bytes) | QMay (h : bytes) | QOffset (h : bytes) | QCrc (h : bytes)
| QFindHash (o : N) | QCount | QEntries | QByOffset | QPrefix (p : bytes).

Definition err_name (e : ierr) : string :=
  match e with
  | ENotFound => "notfound" | EMalformed => "malformed" | EReject => "reject"
  | EFuel => "fuel" | EPanic => "panic" | ECreate => "create"
  end%string.
Definition oerr (e : ierr) : out := OErr (err_name e).

Definition entry_out (e : entry) : out := OList [OBytes (e_hash e); ON (e_off e); ON (e_crc e)].
(* long listings are compared through a SHA-1 digest of the (id, offset, crc) triples *)
Definition MAXLISTED : nat := 12.
Definition iter_out (it : iter) : out :=
  let '(l, t) := it in
  let e := match t with None => OSym "eof" | Some e => oerr e end in
  if Nat.ltb MAXLISTED (List.length l) then
    OList [ONat (List.length l);
           OBytes (sha1 (flat_map (fun e => e_hash e ++ be64 (e_off e) ++ be32 (e_crc e)) l)); e]
  else OList (map entry_out l ++ [e]).

Definition res_out {A} (f : A -> out) (r : res A) : out :=
  match r with Ok a => f a | Err e => oerr e end.

Definition mem_answer (m : memidx) (st : mstate) (q : query) : out * mstate :=
  match q with
  | QContains h => (res_out OBool (mem_contains m h), st)
  | QMay h => (OBool (mem_may_contain m h), st)
  | QOffset h => let '(r, st') := mem_find_offset m st h in (res_out (fun z => OOk [ONum z]) r, st')
  | QCrc h => (res_out (fun c => OOk [ON c]) (mem_find_crc m h), st)
  | QFindHash o => let '(r, st') := mem_find_hash m st (to_i64 o) in (res_out (fun h => OOk [OBytes h]) r, st')
  | QCount => (OOk [ONum (to_i64 (mem_count m))], st)
  | QEntries => (iter_out (mem_entries m), st)
  | QByOffset => (iter_out (mem_by_offset m), st)
  | QPrefix p => (iter_out (mem_prefix m p), st)
  end.

Fixpoint mem_answers (m : memidx) (st : mstate) (qs : list query) : list out :=
  match qs with
  | [] => []
  | q :: r => let '(o, st') := mem_answer m st q in o :: mem_answers m st' r
  end.

Definition lazy_answer (s : lazyidx) (q : query) : out :=
  match q with
  | QContains h => res_out OBool (lazy_contains s h)
  | QMay h => OBool (lazy_may_contain s h)
  | QOffset h => res_out (fun z => OOk [ONum z]) (lazy_find_offset s h)
  | QCrc h => res_out (fun c => OOk [ON c]) (lazy_find_crc s h)
  | QFindHash o => res_out (fun h => OOk [OBytes h]) (lazy_find_hash s (to_i64 o))
  | QCount => OOk [ONum (to_i64 (l_count s))]
  | QEntries => iter_out (lazy_entries s)
  | QByOffset => iter_out (lazy_by_offset s)
  | QPrefix p => iter_out (lazy_prefix s p)
  end.

Definition scan_answer (s : scanner) (q : query) : out :=
  match q with
  | QOffset h => res_out (fun o => OOk [ONum (to_i64 o)]) (scan_find_offset s h)
  | QFindHash o => res_out (fun h => OOk [OBytes h]) (scan_find_hash s o)
  | _ => OSym "na"
  end.

(* the three readers on (idx, rev) bytes, as harness/cmd/c10 runs them *)
Definition readers_out (idx rev pack : bytes) (qs : list query) : list out :=
  [ match decode idx with
    | Err e => oerr e
    | Ok m =>
      OList [OSym "ok"; OOk (mem_answers m ms_init qs);
             match encode m with
             | Ok b => OBool (bytes_eqb b idx)
             | Err _ => OSym "reencode_err"
             end]
    end;
    match lazy_init idx rev pack with
    | Err e => oerr e
    | Ok s => OOk (map (lazy_answer s) qs)
    end;
    match scan_load idx rev with
    | Err e => oerr e
    | Ok s => OOk (map (scan_answer s) qs)
    end ].

Definition run_build (es : list entry) (pack : bytes) (qs : list query) : out :=
  match create_index (writer_add es [] []) pack with
  | Err e => oerr e
  | Ok m =>
    match encode m, rev_encode m with
    | Ok ib, Ok rb =>
      OOk ([OBytes (skipn (List.length ib - hs) ib); OBytes (skipn (List.length rb - hs) rb);
            OOk (mem_answers m ms_init qs)] ++ readers_out ib rb pack qs)
    | Err _, _ => OErr "encode"
    | _, Err _ => OErr "revencode"
    end
  end.

Definition run_file (idx rev pack : bytes) (qs : list query) : out :=
  OOk (readers_out idx rev pack qs).

Definition run_rev (rev : bytes) (count : N) (pack : bytes) : out :=
  match rev_decode rev count pack with
  | Err e => oerr e
  | Ok l => OOk (map ON l)
  end.

End Idx.

(* correspondence entry points: the digest is SHA-1 / SHA-256 selected by the id size *)
Definition E (h : string) (o c : N) : entry := mkE (unhex h) o c.
Definition c10_build (hs : nat) (es : list entry) (pack : string) (qs : list query) : out :=
  run_build hs hash_by_size es (unhex pack) qs.
Definition c10_file (hs : nat) (idx rev pack : string) (qs : list query) : out :=
  run_file hs hash_by_size (unhex idx) (unhex rev) (unhex pack) qs.
Definition c10_rev (hs : nat) (rev : string) (count : N) (pack : string) : out :=
  run_rev hash_by_size (unhex rev) count (unhex pack).
