(* Model/ReceivePack.v — G for C39: plumbing/transport/receive_pack.go
     ReceivePack (command decoding outcome, packfile need, report-status gate,
     unpack-error path, PreReceive rejection, PostReceive `applied` list),
     updateReferences, setStatus, referenceExists, sendReportStatus
   over the abstract store of Spec/AStore.v (references + object set).
   Executable definitions only. *)
From Coq Require Import List NArith Bool String Ascii.
From GoGit Require Import Base.Out Spec.AStore.
Import ListNotations.
Local Open Scope N_scope.

(* a command of the update request; None = the zero object id *)
Record cmd := mkCmd { c_name : N; c_old : option N; c_new : option N }.

Inductive action := ACreate | AUpdate | ADelete | AInvalid.

(* packp.Command.Action *)
Definition action_of (c : cmd) : action :=
  match c_old c, c_new c with
  | None, None => AInvalid
  | None, Some _ => ACreate
  | Some _, None => ADelete
  | Some _, Some _ => AUpdate
  end.

Definition is_delete (c : cmd) : bool :=
  match action_of c with ADelete => true | _ => false end.
Definition is_invalid (c : cmd) : bool :=
  match action_of c with AInvalid => true | _ => false end.

(* cmdStatus: map name -> error (true = nil) *)
Definition statuses := fmap bool.

Definition set_ref (s : store) (n h : N) : store :=
  st_with_refs s (fm_set n (RHash h) (s_refs s)).
Definition del_ref (s : store) (n : N) : store :=
  st_with_refs s (fm_del n (s_refs s)).

(* state of the updateReferences loop: store, cmdStatus, firstErr <> nil *)
Record ustate := mkU3 { u_store : store; u_status : statuses; u_failed : bool }.

(* setStatus *)
Definition u_fail (x : ustate) (n : N) : ustate :=
  mkU3 (u_store x) (fm_set n false (u_status x)) true.
Definition u_done (x : ustate) (s : store) (n : N) : ustate :=
  mkU3 s (fm_set n true (u_status x)) (u_failed x).

(* what one iteration of updateReferences does to the store: Some s' when the
   command is applied, None when it is refused.
     cur := Reference(name)
     exists && action != Create && cur.Hash() != cmd.Old        -> refused
     action != Delete && HasEncodedObject(cmd.New) != nil       -> refused
     Create: exists -> refused, else SetReference
     Delete: !exists -> refused, else RemoveReference
     Update: !exists -> refused, else CheckAndSetReference(new, old) *)
Definition g_apply (s : store) (c : cmd) : option store :=
  let n := c_name c in
  let cur := fm_get n (s_refs s) in
  let stale := match cur, c_old c with
               | Some v, Some o => negb (optN_eqb (rv_hash v) (Some o))
               | _, _ => false
               end in
  if stale then None
  else
    let missing := match c_new c with Some h => negb (fm_has h (s_objs s)) | None => false end in
    if missing then None
    else
      match c_old c, c_new c with
      | None, None => None
      | None, Some h => match cur with Some _ => None | None => Some (set_ref s n h) end
      | Some _, None => match cur with Some _ => Some (del_ref s n) | None => None end
      | Some _, Some h => match cur with Some _ => Some (set_ref s n h) | None => None end
      end.

Definition g_update1 (x : ustate) (c : cmd) : ustate :=
  if is_invalid c then x
  else match g_apply (u_store x) c with
       | Some s' => u_done x s' (c_name c)
       | None => u_fail x (c_name c)
       end.

Definition g_update (s : store) (cmds : list cmd) : ustate :=
  fold_left g_update1 cmds (mkU3 s [] false).

(* the request names a reference twice *)
Fixpoint has_dup (l : list N) : bool :=
  match l with
  | [] => false
  | x :: r => nmem x r || has_dup r
  end.

Record request := mkReq {
  r_report : bool;                  (* report-status / report-status-v2 negotiated *)
  r_cmds : list cmd;
  r_pack : option (list N);         (* objects of the packfile; None = no parsable pack follows *)
  r_reject : bool                   (* a PreReceive hook that refuses the push *)
}.

Record outcome := mkOutcome {
  o_ok : bool;                                      (* ReceivePack returned nil *)
  o_report : option (bool * list (N * bool));       (* unpack ok?, command statuses *)
  o_post : option (list cmd);                       (* PostReceiveInfo.Commands *)
  o_store : store
}.

Definition add_objs (s : store) (l : list N) : store :=
  st_with_objs s (fold_right (fun k m => fm_set k tt m) (s_objs s) l).

Definition status_ok (st : statuses) (c : cmd) : bool :=
  match fm_get (c_name c) st with Some true => true | _ => false end.

Definition g_receive (s : store) (r : request) : outcome :=
  match r_cmds r with
  | [] => mkOutcome true None None s                 (* flush: nothing to do *)
  | _ =>
    if existsb is_invalid (r_cmds r) then mkOutcome false None None s   (* Decode: malformed command *)
    else if has_dup (map c_name (r_cmds r)) then mkOutcome false None None s   (* multiple updates for one ref *)
    else
      let need := existsb (fun c => negb (is_delete c)) (r_cmds r) in
      let unpack_ok := negb need || match r_pack r with Some _ => true | None => false end in
      let s1 := if need then match r_pack r with Some l => add_objs s l | None => s end else s in
      if negb (r_report r) then mkOutcome unpack_ok None None s1
      else if negb unpack_ok then mkOutcome true (Some (false, [])) None s1
      else if r_reject r then
        mkOutcome false
          (Some (true, fold_left (fun st c => fm_set (c_name c) false st) (r_cmds r) [])) None s1
      else
        let x := g_update s1 (r_cmds r) in
        (* sendReportStatus(w, firstErr, cmdStatus): the unpack line carries the first command error *)
        mkOutcome (negb (u_failed x)) (Some (negb (u_failed x), u_status x))
                  (Some (filter (status_ok (u_status x)) (r_cmds r))) (u_store x)
  end.

(* ---------------------------------------------------------------- rendering *)
(* compact observables (one symbol each):
     report   none | R<k|g>(_<name><k|g>)*      unpack line ok / not ok, then the statuses
     post     none | ( c<name>_<old|z>_<new|z> ... ) *)
Definition s_optN (o : option N) : string :=
  match o with Some k => sN k | None => "z"%string end.
Definition o_cmd (c : cmd) : out :=
  OSym (String "c"%char (String.append (sN (c_name c))
         (String "_"%char (String.append (s_optN (c_old c)) (String "_"%char (s_optN (c_new c))))))).
Definition s_kg (b : bool) : string := (if b then "k" else "g")%string.

Definition o_outcome (o : outcome) : out :=
  OList [ OSym (if o_ok o then "ok" else "err");
          match o_report o with
          | None => OSym "none"
          | Some (u, l) =>
            OSym (String "R"%char (String.append (s_kg u)
                   (s_join (map (fun p => String.append (sN (fst p)) (s_kg (snd p))) l))))
          end;
          match o_post o with
          | None => OSym "none"
          | Some l => OList (map o_cmd l)
          end;
          o_res (RRefs (s_refs (o_store o)));
          o_res (RIds (fm_keys (s_objs (o_store o)))) ].

Definition c39_run (u : list (N * N)) (init : list op) (report : bool) (cmds : list cmd)
           (pack : option (list N)) (reject : bool) : out :=
  o_outcome (g_receive (st_init (mkU u) init) (mkReq report cmds pack reject)).
