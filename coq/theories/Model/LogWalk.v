(* Model/LogWalk.v — G: Repository.Log (repository.go: log, logAll,
   logWithLimit, commitIterFunc) composed from the iterators of
   Model/CommitWalk.v, and the commit-graph CTime node walker
   (plumbing/object/commitgraph/commitnode_walker_ctime.go, the same algorithm
   over CommitNode).  Entry points of the C43 correspondence. *)
From Coq Require Import List Arith ZArith Bool String.
From GoGit Require Import Base.Out Spec.Dag Model.CommitWalk.
Import ListNotations.

Definition passes (g : dag) (since until : option Z) (c : node) : bool :=
  negb (match since with Some s => (ctime g c <? s)%Z | None => false end) &&
  negb (match until with Some u => (u <? ctime g c)%Z | None => false end).

Definition out_nodes (l : list node) : out := OList (map ONat l).

Definition out_walk (l : list node) (e : wend) : out :=
  match e with
  | WEof | WStop => OOk [out_nodes l]
  | WFail => OList [OSym "err"; OSym "missing"; out_nodes l]
  | WFuel => OErr "fuel"
  end.

(* Log(From, Order, Since, Until, To): the limit iterator pulls from the walker
   lazily and stops it at the tail commit (when that commit passes the time
   filters) *)
Definition log_from (g : dag) (order : nat) (from : node) (since until : option Z) (tail : option node) : list node * wend :=
  let stop c := passes g since until c && match tail with Some t => t =? c | None => false end in
  let '(l, e) := walk_by_order order g stop (walk_fuel g) from [] in
  (limit_list g since until tail l, e).

Definition c43_log (par : list (list node)) (times : list Z) (order : nat) (from : node)
           (since until : option Z) (tail : option node) : out :=
  let '(l, e) := log_from (mkDag par times) order from since until tail in out_walk l e.

(* Log(All): HEAD's commit first, then every reference in iteration order *)
Definition c43_all (par : list (list node)) (times : list Z) (order : nat) (tips : list node)
           (since until : option Z) (tail : option node) : out :=
  let g := mkDag par times in
  match all_walk order g [] tips with
  | None => OErr "fuel"
  | Some path => OOk [out_nodes (limit_list g since until tail path)]
  end.

(* NewCommitNodeIterCTime over an object-backed and over a commit-graph-backed
   index: the same heap walk; the graph supplies the same parents and times *)
Definition c43_node_ctime (par : list (list node)) (times : list Z) (from : node) : out :=
  let g := mkDag par times in
  let '(l, e) := ctime_walk g nostop (walk_fuel g) from [] in
  OList [out_walk l e; out_walk l e].
