(* Model/PackEnc.v — G for C07: plumbing/format/packfile/encoder.go
   (Encoder.encode / entry / writeBaseIfDelta / entryHead / writeOfsDeltaHeader),
   object_pack.go (the Offset encoding 0 = untouched, 1 = want-write, > 1 =
   written; BackToOriginal) and utils/binary.WriteVariableWidthInt.
   Executable definitions only.

   The ObjectToPack graph handed to the encoder is a list of nodes, node i with
   an optional base pointer base(i) (an index into the same list; ANY function,
   cyclic or not).  Every entry written to the pack occupies a positive number of
   bytes given by an arbitrary function [esize] (header + deflated payload), so
   offsets are 12 + the sizes of the entries written before. *)
From Coq Require Import List NArith Arith Bool String.
From GoGit Require Import Base.Out.
Import ListNotations.

(* ---- object_pack.go: Offset *)
Inductive status := Untouched | WantWrite | Written (offset : N).

Record state := {
  base_of : nat -> option nat;      (* ObjectToPack.Base (nil after BackToOriginal) *)
  st_of : nat -> status;            (* ObjectToPack.Offset *)
  next_off : N;                     (* offsetWriter.offset *)
  emitted : list (nat * option nat * N)   (* entries written so far, newest first: node, base, offset *)
}.

Definition upd {A} (f : nat -> A) (k : nat) (v : A) : nat -> A :=
  fun x => if Nat.eqb x k then v else f x.

Definition is_written (s : state) (o : nat) : bool :=
  match st_of s o with Written _ => true | _ => false end.
Definition is_want (s : state) (o : nat) : bool :=
  match st_of s o with WantWrite => true | _ => false end.

(* restoreOriginal + BackToOriginal: a delta becomes a whole object again *)
Definition back_to_original (s : state) (o : nat) : state :=
  {| base_of := upd (base_of s) o None; st_of := st_of s; next_off := next_off s; emitted := emitted s |}.
Definition mark_want (s : state) (o : nat) : state :=
  {| base_of := base_of s; st_of := upd (st_of s) o WantWrite; next_off := next_off s; emitted := emitted s |}.
(* o.Offset = e.w.Offset(); header; deflated body *)
Definition write_entry (esize : nat -> N) (s : state) (o : nat) : state :=
  {| base_of := base_of s;
     st_of := upd (st_of s) o (Written (next_off s));
     next_off := (next_off s + esize o)%N;
     emitted := (o, base_of s o, next_off s) :: emitted s |}.

(* Encoder.entry; None = fuel exhausted (excluded by C07_fuel_sufficient) *)
Fixpoint entry (fuel : nat) (esize : nat -> N) (s : state) (o : nat) : option state :=
  match fuel with
  | O => None
  | S f =>
    let s1 := if is_want s o then back_to_original s o else s in      (* a cycle came back to o *)
    if is_written s1 o then Some s1
    else
      let s2 := mark_want s1 o in
      let r :=                                                          (* writeBaseIfDelta *)
        match base_of s2 o with
        | Some b => if is_written s2 b then Some s2 else entry f esize s2 b
        | None => Some s2
        end in
      match r with
      | None => None
      | Some s3 => if is_written s3 o then Some s3 else Some (write_entry esize s3 o)
      end
  end.

Fixpoint encode_loop (fuel : nat) (esize : nat -> N) (s : state) (objs : list nat) : option state :=
  match objs with
  | [] => Some s
  | o :: rest =>
    match entry fuel esize s o with
    | None => None
    | Some s' => encode_loop fuel esize s' rest
    end
  end.

Definition pack_header_len : N := 12.

Definition init_state (base : nat -> option nat) : state :=
  {| base_of := base; st_of := fun _ => Untouched; next_off := pack_header_len; emitted := [] |}.

(* Encoder.encode over the object list 0..n-1: the entries in pack order *)
Definition encode (n : nat) (base : nat -> option nat) (esize : nat -> N) : option (list (nat * option nat * N)) :=
  match encode_loop (n + 2) esize (init_state base) (seq 0 n) with
  | Some s => Some (rev (emitted s))
  | None => None
  end.

(* ---- entryHead: type and size varint *)
Local Open Scope N_scope.

Fixpoint entry_head_go (fuel : nat) (c size : N) : bytes :=
  match fuel with
  | O => [c]
  | S f => if size =? 0 then [c]
           else N.lor c 128 :: entry_head_go f (N.land size 127) (N.shiftr size 7)
  end.
Definition entry_head (typ size : N) : bytes :=
  entry_head_go (N.to_nat (N.size size)) (N.lor (N.shiftl typ 4) (N.land size 15)) (N.shiftr size 4).

(* git's unpack_object_header_buffer *)
Fixpoint parse_head_go (b : bytes) (shift size : N) : option (N * bytes) :=
  match b with
  | [] => None
  | c :: r =>
    let size' := N.lor size (N.shiftl (N.land c 127) shift) in
    if N.land c 128 =? 0 then Some (size', r) else parse_head_go r (shift + 7) size'
  end.
Definition parse_head (b : bytes) : option (N * N * bytes) :=
  match b with
  | [] => None
  | c :: r =>
    let typ := N.land (N.shiftr c 4) 7 in
    let size := N.land c 15 in
    if N.land c 128 =? 0 then Some (typ, size, r)
    else match parse_head_go r 4 size with
         | Some (sz, r') => Some (typ, sz, r')
         | None => None
         end
  end.

(* ---- binary.WriteVariableWidthInt (the OFS_DELTA distance) *)
Fixpoint ofs_go (fuel : nat) (n : N) (acc : bytes) : bytes :=
  match fuel with
  | O => acc
  | S f => if n =? 0 then acc
           else let n1 := n - 1 in ofs_go f (N.shiftr n1 7) (N.lor 128 (N.land n1 127) :: acc)
  end.
Definition ofs_encode (n : N) : bytes := ofs_go (N.to_nat (N.size n)) (N.shiftr n 7) [N.land n 127].

(* git: c = *p++; ofs = c & 127; while (c & 128) { ofs += 1; c = *p++; ofs = (ofs << 7) + (c & 127); } *)
Fixpoint ofs_decode_go (b : bytes) (acc : N) : option (N * bytes) :=
  match b with
  | [] => None
  | c :: r =>
    let acc' := N.shiftl (acc + 1) 7 + N.land c 127 in
    if N.land c 128 =? 0 then Some (acc', r) else ofs_decode_go r acc'
  end.
Definition ofs_decode (b : bytes) : option (N * bytes) :=
  match b with
  | [] => None
  | c :: r => if N.land c 128 =? 0 then Some (N.land c 127, r) else ofs_decode_go r (N.land c 127)
  end.

(* ---- correspondence entry point: nodes = (object key, base node or none);
   observable = header count, the entries in pack order named by object key,
   and whether every base lies at a smaller offset than its delta *)
Definition base_fun (nodes : list (N * option N)) (i : nat) : option nat :=
  match nth_error nodes i with
  | Some (_, Some b) => Some (N.to_nat b)
  | _ => None
  end.
Definition key_of (nodes : list (N * option N)) (i : nat) : N :=
  match nth_error nodes i with Some (k, _) => k | None => 0 end.

Definition c07_run (nodes : list (N * option N)) : out :=
  let n := List.length nodes in
  match encode n (base_fun nodes) (fun _ => 1) with
  | None => OErr "fuel"
  | Some es =>
    OOk [OList [OSym "count"; ONat (List.length es)];
         OList (map (fun '(o, b, _) =>
                       match b with
                       | None => OList [ON (key_of nodes o); OSym "full"]
                       | Some b => OList [ON (key_of nodes o); OSym "delta"; ON (key_of nodes b)]
                       end) es);
         OList [OSym "trailer"; OSym "true"]]
  end.
