(* Model/Gitignore.v — G for C49: plumbing/format/gitignore
     pattern.go : ParsePattern, pattern.Match, simpleNameMatch, globMatch,
                  wildmatch, dowild (the port of wildmatch.c, abort codes
                  included), isGlobSpecial, matchPOSIXClass
     matcher.go : matcher.Match (last match wins)
     scope.go   : NewScope, Scope.Descend, Scope.Match, RootPatterns, DirPatterns
     dir.go     : readIgnoreFile (bufio.ScanLines, comment / blank filter)
   Executable definitions only; the code is modelled AS IT IS.
   Strings are byte lists; a path is a list of components. *)
From Coq Require Import List NArith Bool.
From GoGit Require Import Base.Out.
Import ListNotations.
Local Open Scope N_scope.

Definition cSLASH : N := 47.  Definition cSTAR : N := 42.  Definition cQM : N := 63.
Definition cLB : N := 91.     Definition cRB : N := 93.    Definition cBSL : N := 92.
Definition cBANG : N := 33.   Definition cCARET : N := 94. Definition cDASH : N := 45.
Definition cCOLON : N := 58.  Definition cSP : N := 32.    Definition cHASH : N := 35.
Definition cLF : N := 10.     Definition cCR : N := 13.

Fixpoint beq (a b : bytes) : bool :=
  match a, b with
  | [], [] => true
  | x :: a', y :: b' => (x =? y) && beq a' b'
  | _, _ => false
  end.

(* ------------------------------------------------------------------ *)
(* wildmatch                                                           *)

(* WFuel is not a Go value: it is the model's out-of-fuel error, excluded by
   C49_dowild_total *)
Inductive wm := WMatch | WNoMatch | WAbortAll | WAbortStarStar | WFuel.

Definition wm_eqb (a b : wm) : bool :=
  match a, b with
  | WMatch, WMatch | WNoMatch, WNoMatch | WAbortAll, WAbortAll
  | WAbortStarStar, WAbortStarStar | WFuel, WFuel => true
  | _, _ => false
  end.

Definition is_upper (c : N) : bool := (65 <=? c) && (c <=? 90).
Definition is_lower (c : N) : bool := (97 <=? c) && (c <=? 122).
Definition is_alpha (c : N) : bool := is_upper c || is_lower c.
Definition is_digit (c : N) : bool := (48 <=? c) && (c <=? 57).
Definition is_punct (c : N) : bool :=
  ((33 <=? c) && (c <=? 47)) || ((58 <=? c) && (c <=? 64)) ||
  ((91 <=? c) && (c <=? 96)) || ((123 <=? c) && (c <=? 126)).

(* flags&wmCasefold, flags&wmPathname *)
Definition fl_casefold (flags : N) : bool := N.testbit flags 0.
Definition fl_pathname (flags : N) : bool := N.testbit flags 1.

Definition fold (cf : bool) (c : N) : N := if cf && is_upper c then c + 32 else c.

Definition is_glob_special (c : N) : bool :=
  (c =? cSTAR) || (c =? cQM) || (c =? cLB) || (c =? cBSL).

(* matchPOSIXClass: Some matched, or None when the class name is unknown *)
Definition posix_class (name : bytes) (ch : N) (cf : bool) : option bool :=
  if beq name [97;108;110;117;109] then Some (is_alpha ch || is_digit ch)            (* alnum *)
  else if beq name [97;108;112;104;97] then Some (is_alpha ch)                         (* alpha *)
  else if beq name [98;108;97;110;107] then Some ((ch =? 32) || (ch =? 9))             (* blank *)
  else if beq name [99;110;116;114;108] then Some ((ch <? 32) || (ch =? 127))          (* cntrl *)
  else if beq name [100;105;103;105;116] then Some (is_digit ch)                       (* digit *)
  else if beq name [103;114;97;112;104] then Some ((32 <? ch) && (ch <? 127))          (* graph *)
  else if beq name [108;111;119;101;114] then Some (is_lower ch)                       (* lower *)
  else if beq name [112;114;105;110;116] then Some ((32 <=? ch) && (ch <? 127))        (* print *)
  else if beq name [112;117;110;99;116] then Some (is_punct ch)                        (* punct *)
  else if beq name [115;112;97;99;101] then
    Some ((ch =? 32) || (ch =? 9) || (ch =? 10) || (ch =? 13))  (* space: sane-ctype's isspace, no VT / FF *)
  else if beq name [117;112;112;101;114] then Some (is_upper ch || (cf && is_lower ch)) (* upper *)
  else if beq name [120;100;105;103;105;116] then
    Some (is_digit ch || ((97 <=? ch) && (ch <=? 102)) || ((65 <=? ch) && (ch <=? 70))) (* xdigit *)
  else None.

(* split at the first ']' : (before, after) *)
Fixpoint split_rb (s : bytes) : option (bytes * bytes) :=
  match s with
  | [] => None
  | c :: r => if c =? cRB then Some ([], r)
              else match split_rb r with Some (a, b) => Some (c :: a, b) | None => None end
  end.

Inductive cls_res :=
| CAbort                      (* return wmAbortAll *)
| CFuel
| CDone (matched : bool) (rest : bytes).   (* rest = pattern after the closing ']' *)

(* the bracket loop: pch = pCh, rest = p[pi+1:] *)
Fixpoint cls_loop (fuel : nat) (cf : bool) (tch : N) (prev : N) (matched : bool)
                  (pch : N) (rest : bytes) : cls_res :=
  match fuel with O => CFuel | S f =>
  let tail (pch' : N) (matched' : bool) (rest' : bytes) : cls_res :=
      match rest' with
      | [] => CAbort
      | c :: r => if c =? cRB then CDone matched' r else cls_loop f cf tch pch' matched' c r
      end in
  if pch =? cBSL then
    match rest with
    | [] => CAbort
    | e :: r => tail e (matched || (tch =? e)) r
    end
  else if (pch =? cDASH) && negb (prev =? 0) &&
          match rest with [] => false | c :: _ => negb (c =? cRB) end then
    match rest with
    | [] => CAbort
    | e :: r =>
      let range (hi : N) (r' : bytes) :=
          let m := ((tch <=? hi) && (prev <=? tch)) ||
                   (cf && is_lower tch && ((tch - 32 <=? hi) && (prev <=? tch - 32))) in
          tail 0 (matched || m) r' in
      if e =? cBSL then
        match r with [] => CAbort | e2 :: r2 => range e2 r2 end
      else range e r
    end
  else if (pch =? cLB) && match rest with c :: _ => c =? cCOLON | [] => false end then
    match rest with
    | [] => CAbort
    | _ :: r =>                                  (* r = p[s:] *)
      match split_rb r with
      | None => CAbort
      | Some (name', after) =>
        match rev name' with
        | [] => tail cLB (matched || (tch =? cLB)) rest          (* nameLen < 0 *)
        | lastc :: rname =>
          if negb (lastc =? cCOLON) then tail cLB (matched || (tch =? cLB)) rest
          else match posix_class (rev rname) tch cf with
               | None => CAbort
               | Some m => (* pi is left on the ']' closing the class; the tail steps over it *)
                 tail 0 (matched || m) after
               end
        end
      end
    end
  else tail pch (matched || (tch =? pch)) rest
  end.

(* case '[' : q = p[pi+1:] *)
Definition bracket (cf : bool) (tch : N) (q : bytes) : cls_res * bool :=
  match q with
  | [] => (CAbort, false)
  | c :: q1 =>
    let c' := if c =? cCARET then cBANG else c in
    if c' =? cBANG then
      match q1 with
      | [] => (CAbort, true)
      | c2 :: q2 => (cls_loop (S (List.length q2)) cf tch 0 false c2 q2, true)
      end
    else (cls_loop (S (List.length q1)) cf tch 0 false c' q1, false)
  end.

Fixpoint drop_stars (p : bytes) : bytes :=
  match p with
  | c :: r => if c =? cSTAR then drop_stars r else p
  | [] => []
  end.

Fixpoint has_slash (t : bytes) : bool :=
  match t with [] => false | c :: r => (c =? cSLASH) || has_slash r end.

(* text after the first '/' *)
Fixpoint after_slash (t : bytes) : option bytes :=
  match t with [] => None | c :: r => if c =? cSLASH then Some r else after_slash r end.

(* the loop of case '*' that tries the rest of the pattern at successive text
   positions: rec = dowild(p[pi:], -, flags); lit, pcf: the rest starts with the
   literal byte pcf; litfail: what is returned when that literal cannot be
   found ahead; skipped: the previous step was a fast-forward over a byte *)
Fixpoint star_loop (rec : bytes -> wm) (match_slash lit cf : bool) (pcf : N) (litfail : wm)
                   (skipped : bool) (t : bytes) {struct t} : wm :=
  match t with
  | [] => if skipped then litfail else WAbortAll
  | c :: t' =>
    let try (tch : N) : wm :=
        let m := rec t in
        if negb (wm_eqb m WNoMatch) then
          if negb match_slash || negb (wm_eqb m WAbortStarStar) then m
          else star_loop rec match_slash lit cf pcf litfail false t'
        else if negb match_slash && (tch =? cSLASH) then WAbortStarStar
        else star_loop rec match_slash lit cf pcf litfail false t' in
    if lit then
      if negb match_slash && (c =? cSLASH) then litfail
      else if fold cf c =? pcf then try (fold cf c)
      else star_loop rec match_slash lit cf pcf litfail true t'
    else try c
  end.

(* case '*' of dowild; p1 = pattern after the first star, t = text[ti:].
   rec = dowild(-, -, flags) on a shorter pattern (first argument: the look-behind
   byte).  The three codes are what the Go port returns on its abort paths:
   c_trail (trailing single star, a slash remains), c_noslash ("<star>/" and no
   slash remains), c_lit ms (the literal after the star does not occur ahead). *)
Definition star_case (rec : option N -> bytes -> bytes -> wm) (pn cf : bool)
           (c_trail c_noslash : wm) (c_lit : bool -> wm)
           (prev : option N) (p1 t : bytes) : wm :=
  let p2 := drop_stars p1 in
  let double := match p1 with c :: _ => c =? cSTAR | [] => false end in
  let boundary :=
      match prev with None => true | Some c => c =? cSLASH end &&
      match p2 with
      | [] => true
      | c :: r => (c =? cSLASH) ||
                  ((c =? cBSL) && match r with d :: _ => d =? cSLASH | [] => false end)
      end in
  (* the "<star><star>/" shortcut: try to match the rest after the slash against
     the whole remaining text (WNoMatch here = shortcut not taken) *)
  let shortcut : wm :=
      if double && pn && boundary then
        match p2 with
        | c :: p3 => if c =? cSLASH then rec None p3 t else WNoMatch
        | [] => WNoMatch
        end
      else WNoMatch in
  match shortcut with
  | WMatch => WMatch
  | WFuel => WFuel
  | _ =>
    let match_slash := if double then negb pn || boundary else negb pn in
    match p2 with
    | [] => if negb match_slash && has_slash t then c_trail else WMatch
    | q0 :: q1 =>
      if negb match_slash && (q0 =? cSLASH) then
        match after_slash t with
        | None => c_noslash
        | Some t' => rec (Some cSLASH) q1 t'
        end
      else
        star_loop (rec None p2) match_slash (negb (is_glob_special q0)) cf (fold cf q0)
                  (c_lit match_slash) false t
    end
  end.

(* dowild.  [prev] is the pattern byte consumed just before p within the
   current Go invocation (None at its start): it stands for p[prevPi-2]. *)
Fixpoint dowild (fuel : nat) (flags : N) (prev : option N) (p t : bytes) : wm :=
  match fuel with O => WFuel | S f =>
  let cf := fl_casefold flags in
  let pn := fl_pathname flags in
  match p with
  | [] => match t with [] => WMatch | _ => WNoMatch end
  | pc0 :: p1 =>
    let at_end := match t with [] => true | _ => false end in
    let tc0 := match t with [] => 0 | c :: _ => c end in
    let t1 := match t with [] => [] | _ :: r => r end in
    if at_end && negb (pc0 =? cSTAR) then WAbortAll else
    let tc := fold cf tc0 in
    let pc := fold cf pc0 in
    if pc =? cBSL then
      match p1 with
      | [] => WNoMatch
      | e :: p2 => if negb (tc =? e) then WNoMatch else dowild f flags (Some e) p2 t1
      end
    else if pc =? cQM then
      if pn && (tc =? cSLASH) then WNoMatch else dowild f flags (Some pc0) p1 t1
    else if pc =? cSTAR then
      star_case (dowild f flags) pn cf WAbortStarStar WAbortAll
                (fun ms : bool => if ms then WAbortAll else WAbortStarStar) prev p1 t
    else if pc =? cLB then
      match bracket cf tc p1 with
      | (CAbort, _) => WAbortAll
      | (CFuel, _) => WFuel
      | (CDone matched rest, negated) =>
        if Bool.eqb matched negated || (pn && (tc =? cSLASH)) then WNoMatch
        else dowild f flags (Some cRB) rest t1
      end
    else
      if negb (tc =? pc) then WNoMatch else dowild f flags (Some pc0) p1 t1
  end
  end.

Definition wm_fuel (p : bytes) : nat := S (List.length p).

(* wildmatch(pattern, text) *)
Definition wildmatch (p t : bytes) : bool := wm_eqb (dowild (wm_fuel p) 0 None p t) WMatch.

(* ------------------------------------------------------------------ *)
(* ParsePattern                                                        *)

Record pat := mkPat { p_dom : list bytes; p_segs : list bytes;
                      p_incl : bool; p_dironly : bool; p_isglob : bool }.

(* trimTrailingSpaces: the loop over i with lastSpace; the result is the cut
   position (Some k: return p[:k]) or None (return p unchanged) *)
Fixpoint tts_loop (s : bytes) (i : nat) (last : option nat) : option nat :=
  match s with
  | [] => last
  | c :: r =>
    if c =? cSP then tts_loop r (S i) (match last with None => Some i | Some _ => last end)
    else if c =? cBSL then
      match r with
      | [] => None                                  (* i++; i >= len(p): return p *)
      | _ :: r' => tts_loop r' (S (S i)) None
      end
    else tts_loop r (S i) None
  end.
Definition trim_trailing_spaces (p : bytes) : bytes :=
  match tts_loop p O None with Some k => firstn k p | None => p end.

(* strings.Split(s, "/") *)
Fixpoint split_slash (s : bytes) (cur : bytes) : list bytes :=
  match s with
  | [] => [rev cur]
  | c :: r => if c =? cSLASH then rev cur :: split_slash r [] else split_slash r (c :: cur)
  end.

Definition parse_pattern (line : bytes) (domain : list bytes) : pat :=
  let (incl, p0) := match line with
                    | c :: r => if c =? cBANG then (true, r) else (false, line)
                    | [] => (false, line) end in
  let r1 := rev (trim_trailing_spaces p0) in
  let (dironly, r2) := match r1 with
                       | c :: r' => if c =? cSLASH then (true, r') else (false, r1)
                       | [] => (false, r1) end in
  let p := rev r2 in
  mkPat domain (split_slash p []) incl dironly (has_slash p).

(* ------------------------------------------------------------------ *)
(* pattern.Match                                                       *)

Inductive mres := NoMatch | Exclude | Include.

Fixpoint simple_name_match (g : bytes) (dironly isdir : bool) (path : list bytes) : bool :=
  match path with
  | [] => false
  | n :: rest =>
    if wildmatch g n then negb (dironly && negb isdir && match rest with [] => true | _ => false end)
    else simple_name_match g dironly isdir rest
  end.

Definition is_nil {A} (l : list A) : bool := match l with [] => true | _ => false end.

(* the canTraverse scan: consume components up to and including the first one matching *)
Fixpoint traverse (s : bytes) (path : list bytes) : option (list bytes) :=
  match path with
  | [] => None
  | e :: rest => if wildmatch s e then Some rest else traverse s rest
  end.

Definition dstar : bytes := [cSTAR; cSTAR].

Fixpoint glob_loop (segs : list bytes) (dironly isdir : bool) (path : list bytes)
                   (matched can_traverse : bool) : bool :=
  let finish (path : list bytes) (matched trailing : bool) :=
      if matched && dironly && negb isdir && (is_nil path || trailing) then false else matched in
  match segs with
  | [] => finish path matched false
  | s :: rest =>
    if is_nil s then glob_loop rest dironly isdir path matched false
    else if beq s dstar then
      if is_nil rest then
        let m := negb (is_nil path) || isdir in finish path m m
      else glob_loop rest dironly isdir path matched true
    else
      match path with
      | [] => false
      | e :: path' =>
        if can_traverse then
          match traverse s path with
          | None => false
          | Some path'' => glob_loop rest dironly isdir path'' true false
          end
        else if negb (wildmatch s e) then false
        else glob_loop rest dironly isdir path'
                       (negb (is_nil path' && negb (is_nil rest))) false
      end
  end.

Definition glob_match (p : pat) (path : list bytes) (isdir : bool) : bool :=
  glob_loop (p_segs p) (p_dironly p) isdir path false false.

(* strip the domain: None when path does not start with it or is not longer *)
Fixpoint strip_domain (dom path : list bytes) : option (list bytes) :=
  match dom, path with
  | [], _ => Some path
  | d :: dom', e :: path' => if beq d e then strip_domain dom' path' else None
  | _ :: _, [] => None
  end.

Definition pat_match (p : pat) (path : list bytes) (isdir : bool) : mres :=
  if Nat.leb (List.length path) (List.length (p_dom p)) then NoMatch else
  match strip_domain (p_dom p) path with
  | None => NoMatch
  | Some path' =>
    let m := if p_isglob p then glob_match p path' isdir
             else simple_name_match (hd [] (p_segs p)) (p_dironly p) isdir path' in
    if m then (if p_incl p then Include else Exclude) else NoMatch
  end.

(* matcher.Match: patterns in ascending priority, the last one that matches decides *)
Fixpoint matcher_rev (ps : list pat) (path : list bytes) (isdir : bool) : bool :=
  match ps with
  | [] => false
  | p :: r => match pat_match p path isdir with
              | NoMatch => matcher_rev r path isdir
              | Exclude => true
              | Include => false
              end
  end.
Definition matcher_match (ps : list pat) (path : list bytes) (isdir : bool) : bool :=
  matcher_rev (rev ps) path isdir.

(* ------------------------------------------------------------------ *)
(* readIgnoreFile                                                      *)

(* bufio.ScanLines: split at LF, drop one trailing CR, a final unterminated
   non-empty line counts *)
Definition drop_cr_rev (r : bytes) : bytes :=
  match r with c :: r' => if c =? cCR then r' else r | [] => [] end.
Fixpoint scan_lines (s : bytes) (cur : bytes) : list bytes :=
  match s with
  | [] => match cur with [] => [] | _ => [rev (drop_cr_rev cur)] end
  | c :: r => if c =? cLF then rev (drop_cr_rev cur) :: scan_lines r [] else scan_lines r (c :: cur)
  end.

(* unicode.IsSpace restricted to single bytes (ASCII); the multi-byte spaces
   U+0085 U+00A0 U+1680 U+2000.. are not modelled (not generated) *)
Definition is_space (c : N) : bool :=
  (c =? 32) || (c =? 9) || (c =? 10) || (c =? 11) || (c =? 12) || (c =? 13).

Definition keep_line (s : bytes) : bool :=
  negb (match s with c :: _ => c =? cHASH | [] => false end) && negb (forallb is_space s).

(* the first line loses a leading UTF-8 byte order mark (strings.TrimPrefix on the first token) *)
Definition strip_bom (s : bytes) : bytes :=
  match s with
  | a :: b :: c :: r => if (a =? 239) && (b =? 187) && (c =? 191) then r else s
  | _ => s
  end.
Definition strip_bom_first (ls : list bytes) : list bytes :=
  match ls with l :: r => strip_bom l :: r | [] => [] end.

Definition read_ignore (content : bytes) (dir : list bytes) : list pat :=
  map (fun l => parse_pattern l dir) (filter keep_line (strip_bom_first (scan_lines content []))).

(* ------------------------------------------------------------------ *)
(* Scope                                                               *)

Fixpoint path_eqb (a b : list bytes) : bool :=
  match a, b with
  | [], [] => true
  | x :: a', y :: b' => beq x y && path_eqb a' b'
  | _, _ => false
  end.

Definition files := list (list bytes * bytes).     (* (directory, content of its .gitignore) *)

Fixpoint file_at (fs : files) (dir : list bytes) : option bytes :=
  match fs with
  | [] => None
  | (d, c) :: r => if path_eqb d dir then Some c else file_at r dir
  end.

Record scope := mkScope { sc_pats : list pat; sc_excluded : bool }.

(* Scope.Descend(dir, readOwn) where readOwn = DirPatterns when dir holds a .gitignore *)
Definition descend (fs : files) (s : scope) (dir : list bytes) : scope :=
  if sc_excluded s || matcher_match (sc_pats s) dir true then mkScope (sc_pats s) true
  else match file_at fs dir with
       | None => s
       | Some c => mkScope (sc_pats s ++ read_ignore c dir) false
       end.

Definition scope_match (s : scope) (path : list bytes) (isdir : bool) : bool :=
  sc_excluded s || matcher_match (sc_pats s) path isdir.

(* descend through path[:0], path[:1], … path[:len-1] *)
Fixpoint walk (fs : files) (s : scope) (pre : list bytes) (rest : list bytes) : scope :=
  match rest with
  | [] => s
  | e :: rest' => walk fs (descend fs s pre) (pre ++ [e]) rest'
  end.

(* RootPatterns: .git/info/exclude then the root .gitignore *)
Definition root_patterns (excl : option bytes) (fs : files) : list pat :=
  match excl with Some c => read_ignore c [] | None => [] end ++
  match file_at fs [] with Some c => read_ignore c [] | None => [] end.

Definition ignored (excl : option bytes) (fs : files) (path : list bytes) (isdir : bool) : bool :=
  scope_match (walk fs (mkScope (root_patterns excl fs) false) [] path) path isdir.

(* ------------------------------------------------------------------ *)
(* correspondence entry points                                         *)

From Coq Require Import String.
Local Open Scope string_scope.
Definition wm_out (w : wm) : out :=
  match w with
  | WMatch => OOk [OSym "match"] | WNoMatch => OOk [OSym "nomatch"]
  | WAbortAll => OOk [OSym "abort_all"] | WAbortStarStar => OOk [OSym "abort_starstar"]
  | WFuel => OErr "fuel"
  end.

Definition c49_dowild (p t : String.string) (flags : N) : out :=
  let p := unhex p in wm_out (dowild (wm_fuel p) flags None p (unhex t)).

Definition c49_parse (line : String.string) (domain : list String.string) : out :=
  let p := parse_pattern (unhex line) (map unhex domain) in
  OOk [OList (map OBytes (p_dom p)); OList (map OBytes (p_segs p));
       OBool (p_incl p); OBool (p_dironly p); OBool (p_isglob p)].

Definition c49_pmatch (line : String.string) (domain path : list String.string) (isdir : bool) : out :=
  match pat_match (parse_pattern (unhex line) (map unhex domain)) (map unhex path) isdir with
  | NoMatch => OSym "nomatch" | Exclude => OSym "exclude" | Include => OSym "include"
  end.

Definition c49_ignore (excl : option String.string)
           (fs : list (list String.string * String.string))
           (qs : list (list String.string * bool)) : out :=
  let fs' := map (fun f => (map unhex (fst f), unhex (snd f))) fs in
  let ex := match excl with Some e => Some (unhex e) | None => None end in
  OOk (map (fun q => OBool (ignored ex fs' (map unhex (fst q)) (snd q))) qs).
