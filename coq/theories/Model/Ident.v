(* Model/Ident.v — G for plumbing/object/object.go: Signature.Decode,
   decodeTimeAndTimeZone, Signature.Encode, encodeTimeAndTimeZone.
   A time.Time is modelled by what the codecs can observe: Unix seconds
   (When.Unix()) and the fixed zone offset in minutes (When.Format("-0700")).
   The zero time.Time has Unix() = -62135596800 and zone +0000. *)
From Coq Require Import List NArith ZArith Bool.
From GoGit Require Import Base.Out Model.ObjLines.
Import ListNotations.
Local Open Scope N_scope.

Record ident := mk_ident { id_name : bytes; id_email : bytes; id_ts : Z; id_tz : Z }.

Definition zero_ts : Z := (-62135596800)%Z.
Definition ident_zero : ident := mk_ident [] [] zero_ts 0.

Definition LT : N := 60.   (* '<' *)
Definition GT : N := 62.   (* '>' *)

(* b[i:j] *)
Definition slice (i j : nat) (b : bytes) : bytes := firstn (j - i) (skipn i b).

(* decodeTimeAndTimeZone on b = line[closeBracket+2:], receiver already holding name/email *)
Definition decode_time (nm em : bytes) (b : bytes) : ident :=
  let space := match index_of SPC b with Some i => i | None => List.length b end in
  match parse_int64 (firstn space b) with
  | None => mk_ident nm em zero_ts 0
  | Some ts =>
    let tz_start := S space in
    if (Nat.leb (List.length b) tz_start || Nat.ltb (List.length b) (tz_start + 5))%bool
    then mk_ident nm em ts 0
    else
      let tz := slice tz_start (tz_start + 5) b in
      match parse_int64 (firstn 3 tz), parse_int64 (skipn 3 tz) with
      | Some h, Some m =>
        let m' := if (h <? 0)%Z then (- m)%Z else m in
        mk_ident nm em ts (h * 60 + m')%Z
      | _, _ => mk_ident nm em ts 0
      end
  end.

(* Signature.Decode on a zero receiver *)
Definition decode_ident (b : bytes) : ident :=
  match last_index_of LT b, last_index_of GT b with
  | Some op, Some cl =>
    if Nat.ltb cl op then ident_zero
    else
      let nm := trim_both SPC (firstn op b) in
      let em := slice (S op) cl b in
      if Nat.ltb (cl + 2) (List.length b) then decode_time nm em (skipn (cl + 2) b)
      else mk_ident nm em zero_ts 0
  | _, _ => ident_zero
  end.

(* time.Format("-0700") of a fixed zone of [tz] minutes *)
Definition fmt_zone (tz : Z) : bytes :=
  let a := Z.to_N (Z.abs tz) in
  (if (tz <? 0)%Z then 45 else 43) :: pad2 (a / 60) ++ pad2 (a mod 60).

(* encodeTimeAndTimeZone: max(Unix, 0) *)
Definition encode_time (i : ident) : bytes :=
  print_dec (Z.to_N (Z.max (id_ts i) 0)) ++ [SPC] ++ fmt_zone (id_tz i).

(* Signature.Encode: "%s <%s> " ++ time *)
Definition encode_ident (i : ident) : bytes :=
  id_name i ++ [SPC; LT] ++ id_email i ++ [GT; SPC] ++ encode_time i.

(* isZeroSignature *)
Definition ident_is_zero (i : ident) : bool :=
  match id_name i, id_email i with
  | [], [] => (id_ts i =? zero_ts)%Z
  | _, _ => false
  end.

(* signatureEqual *)
Definition ident_eqb (a b : ident) : bool :=
  beqb (id_name a) (id_name b) && beqb (id_email a) (id_email b) &&
  (id_ts a =? id_ts b)%Z && beqb (fmt_zone (id_tz a)) (fmt_zone (id_tz b)).

Definition out_ident (i : ident) : out :=
  OList [OBytes (id_name i); OBytes (id_email i); ONum (id_ts i); OBytes (fmt_zone (id_tz i))].

(* correspondence entry point: Signature.Decode of raw bytes *)
Definition c02_ident (raw : String.string) : out := out_ident (decode_ident (unhex raw)).
