(* Model/ConfigOpts.v — G for C48 (read-modify-write): plumbing/format/config/option.go
   Option.IsKey, Options.Get / GetAll / Has, withoutOption, withAddedOption,
   withSettedOption — the operations behind Section/Subsection.SetOption,
   AddOption, RemoveOption, which every Config.Marshal field goes through.
   Keys are matched case-insensitively (strings.EqualFold; modelled for ASCII,
   which is all a git config key can hold).  Executable definitions only. *)
From Coq Require Import List NArith Bool.
From GoGit Require Import Base.Out.
Import ListNotations.
Local Open Scope N_scope.

Definition opt := (bytes * bytes)%type.          (* Option{Key, Value} *)

Definition lower (c : N) : N := if (65 <=? c) && (c <=? 90) then c + 32 else c.

Fixpoint bytes_eqb (a b : bytes) : bool :=
  match a, b with
  | [], [] => true
  | x :: a', y :: b' => (x =? y) && bytes_eqb a' b'
  | _, _ => false
  end.

(* Option.IsKey: strings.EqualFold(o.Key, key) *)
Definition key_eq (a b : bytes) : bool := bytes_eqb (map lower a) (map lower b).

Definition mem (v : bytes) (l : list bytes) : bool := existsb (bytes_eqb v) l.   (* slices.Contains *)

(* Options.Get: the last option with the key, "" when there is none *)
Fixpoint opt_get_rev (ro : list opt) (key : bytes) : bytes :=
  match ro with
  | [] => []
  | o :: r => if key_eq (fst o) key then snd o else opt_get_rev r key
  end.
Definition opt_get (os : list opt) (key : bytes) : bytes := opt_get_rev (rev os) key.

Definition opt_get_all (os : list opt) (key : bytes) : list bytes :=
  map snd (filter (fun o => key_eq (fst o) key) os).

Definition has (os : list opt) (key : bytes) : bool := existsb (fun o => key_eq (fst o) key) os.

Definition without_option (os : list opt) (key : bytes) : list opt :=
  filter (fun o => negb (key_eq (fst o) key)) os.

Definition with_added (os : list opt) (key value : bytes) : list opt := os ++ [(key, value)].

(* withSettedOption, first loop: options with another key are kept; options with
   the key are kept (and their value noted in [added]) when the value is one of
   the new ones, dropped otherwise *)
Fixpoint ws_scan (os : list opt) (key : bytes) (values : list bytes) : list opt * list bytes :=
  match os with
  | [] => ([], [])
  | o :: r =>
    let (res, added) := ws_scan r key values in
    if negb (key_eq (fst o) key) then (o :: res, added)
    else if mem (snd o) values then (o :: res, snd o :: added)
    else (res, added)
  end.
(* second loop: the new values not kept above are appended under the given spelling *)
Definition with_setted (os : list opt) (key : bytes) (values : list bytes) : list opt :=
  let (res, added) := ws_scan os key values in
  res ++ map (fun v => (key, v)) (filter (fun v => negb (mem v added)) values).

(* ---------------- correspondence entry point ---------------- *)
Inductive oop := OSet (k : bytes) (vs : list bytes) | OAdd (k v : bytes) | ORemove (k : bytes).

Definition apply_op (os : list opt) (o : oop) : list opt :=
  match o with
  | OSet k vs => with_setted os k vs
  | OAdd k v => with_added os k v
  | ORemove k => without_option os k
  end.

From Coq Require Import String.
Local Open Scope string_scope.
Definition mk_op (o : string * string * list string) : oop :=
  let '(kind, k, vs) := o in
  if String.eqb kind "set" then OSet (unhex k) (map unhex vs)
  else if String.eqb kind "add" then OAdd (unhex k) (unhex (hd "" vs))
  else ORemove (unhex k).

(* options, operations, keys to read back -> final options, Get and GetAll of each key *)
Definition c48_opts (os : list (string * string)) (ops : list (string * string * list string))
           (reads : list string) : out :=
  let fin := fold_left apply_op (map mk_op ops) (map (fun o => (unhex (fst o), unhex (snd o))) os) in
  OOk [OList (map (fun o => OList [OBytes (fst o); OBytes (snd o)]) fin);
       OList (map (fun k => OList [OBytes (opt_get fin (unhex k)); OList (map OBytes (opt_get_all fin (unhex k)))]) reads)].
