(* Model/Gc.v — G for C22: object_walker.go (objectWalker.walkAllRefs,
   walkObjectTree, walkIndex, present), prune.go (Repository.Prune with
   DeleteObject as handler), repository.go (RepackObjects,
   createNewObjectPack) and dotgit.DeleteOldObjectPackAndIndex, over an
   abstract object store: objects are numbered, the table [objs] says what a
   number denotes, [loose]/[packs] say where it is stored.  Pack encoding,
   zlib and deltas are not modelled (a pack is the set of objects it holds).
   Executable definitions only. *)
From Coq Require Import List NArith ZArith Bool String.
From GoGit Require Import Base.Out Gen.C22.
Import ListNotations.
Local Open Scope N_scope.

Definition oid := N.

Inductive obj :=
| OBlob
| OTree (entries : list (Z * oid))          (* (mode, object) *)
| OCommit (tree : oid) (parents : list oid)
| OTag (target : oid).

(* A pack file is content addressed: its name is the checksum of its bytes, which
   the encoder determines from the set of objects and from how it encodes them
   (window, delta reuse, ref deltas).  The model's name is that pair: the sorted
   object set and an opaque encoding variant.  Equal names imply equal object
   sets by construction (wf_names below). *)
Definition pname := (list oid * N)%type.
Record pack := { p_name : pname; p_old : bool; p_promisor : bool; p_objs : list oid }.

Record repo := {
  objs : list (oid * obj);        (* what an id denotes *)
  loose : list (oid * bool);      (* loose objects, flag: modified before the age limit *)
  packs : list pack;
  roots : list oid;               (* hash references, detached HEAD included (symbolic refs are skipped) *)
  shallow : list oid;
  index : list (bool * oid)       (* index entries: (mode is Submodule, object) *)
}.

Definition mem (h : oid) (l : list oid) : bool := existsb (N.eqb h) l.

Fixpoint assoc {A} (l : list (oid * A)) (h : oid) : option A :=
  match l with
  | [] => None
  | (k, v) :: r => if k =? h then Some v else assoc r h
  end.

Definition stored (r : repo) (h : oid) : bool :=
  mem h (map fst r.(loose)) || existsb (fun p => mem h p.(p_objs)) r.(packs).

(* object.GetObject / EncodedObject *)
Definition get (r : repo) (h : oid) : option obj :=
  if stored r h then assoc r.(objs) h else None.

Definition has (r : repo) (h : oid) : bool :=
  match get r h with Some _ => true | None => false end.

(* isPartialClone *)
Definition promisor (r : repo) : bool := existsb p_promisor r.(packs).

Inductive gerr := EFuel | EWalk | EEncode.
Inductive res (A : Type) := Ok (a : A) | Err (e : gerr).
Arguments Ok {A}. Arguments Err {A}.

Record wst := { seen : list oid; missing : list oid }.

Definition add_seen (h : oid) (st : wst) : wst :=
  if mem h st.(seen) then st else {| seen := h :: st.(seen); missing := st.(missing) |}.
Definition add_missing (h : oid) (st : wst) : wst :=
  if mem h st.(missing) then st else {| seen := st.(seen); missing := h :: st.(missing) |}.

Fixpoint fold_res {A} (f : wst -> A -> res wst) (l : list A) (st : wst) : res wst :=
  match l with
  | [] => Ok st
  | a :: l' => match f st a with Ok st' => fold_res f l' st' | Err e => Err e end
  end.

(* Tree.Decode stores canonicalTreeMode(mode); the walker's blob shortcut is
   Mode|0o755 == filemode.Executable *)
Definition is_file_mode (m : Z) : bool :=
  Z.eqb (Z.lor (object_canonicalTreeMode m) 493) filemode_Executable.

(* objectWalker.walkObjectTree *)
Fixpoint walk (fuel : nat) (r : repo) (st : wst) (h : oid) : res wst :=
  if mem h st.(seen) then Ok st else
  match fuel with
  | O => Err EFuel
  | S f =>
    let st1 := add_seen h st in
    match get r h with
    | None => if promisor r then Ok (add_missing h st1) else Err EWalk   (* object not found *)
    | Some OBlob => Err EWalk                                            (* "unknown object" *)
    | Some (OCommit t ps) =>
      match walk f r st1 t with
      | Err e => Err e
      | Ok st2 => if mem h r.(shallow) then Ok st2 else fold_res (walk f r) ps st2
      end
    | Some (OTree es) =>
      fold_res (fun st e =>
        if is_file_mode (fst e) then
          let st' := add_seen (snd e) st in
          Ok (if promisor r && negb (has r (snd e)) then add_missing (snd e) st' else st')
        else walk f r st (snd e)) es st1
    | Some (OTag t) => walk f r st1 t
    end
  end.

(* objectWalker.walkIndex *)
Definition walk_index (r : repo) (st : wst) : wst :=
  fold_left (fun st e =>
    if fst e || mem (snd e) st.(seen) then st
    else if has r (snd e) then add_seen (snd e) st else st) r.(index) st.

(* objectWalker.walkAllRefs *)
Definition walk_all (fuel : nat) (r : repo) : res wst :=
  match fold_res (walk fuel r) r.(roots) {| seen := []; missing := [] |} with
  | Err e => Err e
  | Ok st => Ok (walk_index r st)
  end.

(* the ids the walker can ever visit, and the fuel that is always enough
   (Proofs/C22Fuel.v: one unit per id, plus one) *)
Definition children (o : obj) : list oid :=
  match o with
  | OBlob => []
  | OTree es => map snd es
  | OCommit t ps => t :: ps
  | OTag t => [t]
  end.
Definition universe (r : repo) : list oid :=
  nodup N.eq_dec (r.(roots) ++ flat_map (fun e => fst e :: children (snd e)) r.(objs)).
Definition gc_fuel (r : repo) : nat := S (List.length (universe r)).

(* objectWalker.present *)
Definition present (st : wst) : list oid := filter (fun h => negb (mem h st.(missing))) st.(seen).

Definition set_store (r : repo) (l : list (oid * bool)) (p : list pack) : repo :=
  {| objs := r.(objs); loose := l; packs := p; roots := r.(roots); shallow := r.(shallow); index := r.(index) |}.

(* Repository.Prune with Handler = Repository.DeleteObject;
   use_limit: OnlyObjectsOlderThan is set *)
Definition prune (fuel : nat) (r : repo) (use_limit : bool) : res repo :=
  match walk_all fuel r with
  | Err e => Err e
  | Ok st =>
    Ok (set_store r (filter (fun l => mem (fst l) st.(seen) || (use_limit && negb (snd l))) r.(loose)) r.(packs))
  end.

Fixpoint insert_n (x : N) (l : list N) : list N :=
  match l with
  | [] => [x]
  | y :: r => if x =? y then l else if x <? y then x :: l else y :: insert_n x r
  end.
Definition sort_n (l : list N) : list N := fold_right insert_n [] l.

Fixpoint ids_eqb (a b : list oid) : bool :=
  match a, b with
  | [], [] => true
  | x :: a', y :: b' => (x =? y) && ids_eqb a' b'
  | _, _ => false
  end.
Definition name_eqb (a b : pname) : bool := ids_eqb (fst a) (fst b) && (snd a =? snd b).

(* Repository.RepackObjects; use_limit: OnlyDeletePacksOlderThan is set;
   variant: whatever else the encoder's output depends on.
   PackWriter.save keeps a pack that is already there under the new name;
   the old-packs loop skips the name just written (`if h == nh { continue }`)
   and hands every other pre-existing pack to DeleteOldObjectPackAndIndex. *)
Definition repack (fuel : nat) (r : repo) (use_limit : bool) (variant : N) : res repo :=
  match walk_all fuel r with
  | Err e => Err e
  | Ok st =>
    let objs := present st in
    if forallb (has r) objs then
      let nm : pname := (sort_n objs, variant) in
      let packs1 :=
        if existsb (fun p => name_eqb p.(p_name) nm) r.(packs) then r.(packs)
        else {| p_name := nm; p_old := false; p_promisor := promisor r; p_objs := objs |} :: r.(packs) in
      Ok (set_store r
            (filter (fun l => negb (mem (fst l) st.(seen))) r.(loose))
            (filter (fun p => name_eqb p.(p_name) nm || (use_limit && negb p.(p_old))) packs1))
    else Err EEncode
  end.

(* ---- histories: garbage collection rounds on a repository that may gain
   loose objects and staged entries in between ---- *)

Inductive gcop :=
| GPrune (use_limit : bool)
| GRepack (use_limit : bool) (variant : N)
| GAddLoose (o : oid)          (* SetEncodedObject of an object of the table *)
| GStage (o : oid).            (* the index gains an entry for o *)

Definition gc_step (op : gcop) (r : repo) : res repo :=
  match op with
  | GPrune lim => prune (gc_fuel r) r lim
  | GRepack lim v => repack (gc_fuel r) r lim v
  | GAddLoose o =>
    Ok (if mem o (map fst r.(loose)) then r else set_store r ((o, false) :: r.(loose)) r.(packs))
  | GStage o =>
    Ok {| objs := r.(objs); loose := r.(loose); packs := r.(packs); roots := r.(roots);
          shallow := r.(shallow); index := (false, o) :: r.(index) |}
  end.

(* a failed round changes nothing *)
Definition gc_apply (op : gcop) (r : repo) : repo :=
  match gc_step op r with Ok r' => r' | Err _ => r end.
Definition run_seq (ops : list gcop) (r : repo) : repo := fold_left (fun s op => gc_apply op s) ops r.

(* ---- correspondence entry point ---- *)

Definition err_name (e : gerr) : string :=
  match e with EFuel => "fuel" | EWalk => "walk" | EEncode => "encode" end%string.

Definition render_round (x : res repo) : out :=
  match x with
  | Err e => OErr (err_name e)
  | Ok r' =>
    OOk [OList (map ON (sort_n (map fst r'.(loose))));
         OList (map ON (sort_n (flat_map p_objs r'.(packs))))]
  end.

(* one observable per prune / repack round *)
Fixpoint c22_rounds (ops : list gcop) (r : repo) : list out :=
  match ops with
  | [] => []
  | op :: rest =>
    match op with
    | GPrune _ | GRepack _ _ => render_round (gc_step op r) :: c22_rounds rest (gc_apply op r)
    | _ => c22_rounds rest (gc_apply op r)
    end
  end.

Definition c22_run (ops : list gcop) (r : repo) : out := OList (c22_rounds ops r).
