(* Model/ObjVis.v — G for C18: the object / pack list caches of
   storage/filesystem/dotgit (objectList/objectMap, packList/packMap,
   clean…/gen…/has… gates under ExclusiveAccess, the packHandles catalog),
   the writers of dotgit/writers.go (temp file -> rename at Close) and the
   pack index of storage/filesystem/object.go (requireIndex, Reindex,
   PackfileWriter's Notify), as a sequential state machine.

   Objects are numbered k = 0,1,2,…; a SET of objects is an N bit mask (bit k
   = object k); a pack is identified by the set of objects it holds.
   Executable definitions only. *)
From Coq Require Import List NArith Bool String.
From GoGit Require Import Base.Out.
Import ListNotations.
Local Open Scope N_scope.

Definition oid := N.
Definition oset := N.            (* bit mask *)
Definition pid := N.             (* a pack = the set of its objects *)

Definition mem (k : oid) (s : oset) : bool := N.testbit s k.
Definition memp (p : pid) (l : list pid) : bool := existsb (N.eqb p) l.
Definition addp (p : pid) (l : list pid) : list pid := if memp p l then l else l ++ [p].
Definition union_all (l : list pid) : oset := fold_right N.lor 0 l.

(* object types of the fixed universe of the correspondence harness
   (objects 0-3 are blobs, 4-5 trees); only used to filter typed lookups *)
Inductive oty := TAny | TBlob | TTree | TCommit.
Definition tmask (t : oty) (s : oset) : oset :=
  match t with TAny => s | TBlob => N.land s 15 | TTree => N.land s 48 | TCommit => 0 end.
Definition has_type (t : oty) (k : oid) : bool :=
  match t with TAny => true | _ => mem k (tmask t (N.setbit 0 k)) end.

Inductive err := ENotFound | EPackNotFound | ENotExist | EBadSlot | EOther.

Record cfg := Cfg {
  excl : bool;      (* Options.ExclusiveAccess *)
  fixd : bool       (* writers invalidate the cached lists at Close (the repair);
                       false = the tree before the repair *)
}.

Record st := St {
  loose : oset;                 (* objects/xx/… on disk *)
  packs : list pid;             (* objects/pack/pack-*.pack on disk, ReadDir order *)
  olist : option oset;          (* DotGit.objectList / objectMap (nil = None) *)
  plist : option (list pid);    (* DotGit.packList / packMap *)
  index : option (list pid);    (* ObjectStorage.index / packs *)
  handles : list pid;           (* DotGit.packHandles catalog *)
  ow : list (nat * oid);        (* open ObjectWriters: slot -> object being written *)
  pw : list (nat * pid)         (* open PackWriters *)
}.

Definition init_st (l : oset) (ps : list pid) : st :=
  St l ps None None None [] [] [].

Definition set_olist (s : st) (v : option oset) : st :=
  St (loose s) (packs s) v (plist s) (index s) (handles s) (ow s) (pw s).
Definition set_plist (s : st) (v : option (list pid)) : st :=
  St (loose s) (packs s) (olist s) v (index s) (handles s) (ow s) (pw s).
Definition set_index (s : st) (v : option (list pid)) : st :=
  St (loose s) (packs s) (olist s) (plist s) v (handles s) (ow s) (pw s).
Definition set_handles (s : st) (v : list pid) : st :=
  St (loose s) (packs s) (olist s) (plist s) (index s) v (ow s) (pw s).
Definition set_loose (s : st) (v : oset) : st :=
  St v (packs s) (olist s) (plist s) (index s) (handles s) (ow s) (pw s).
Definition set_packs (s : st) (v : list pid) : st :=
  St (loose s) v (olist s) (plist s) (index s) (handles s) (ow s) (pw s).
Definition set_ow (s : st) (v : list (nat * oid)) : st :=
  St (loose s) (packs s) (olist s) (plist s) (index s) (handles s) v (pw s).
Definition set_pw (s : st) (v : list (nat * pid)) : st :=
  St (loose s) (packs s) (olist s) (plist s) (index s) (handles s) (ow s) v.

Fixpoint slot_get {A} (w : nat) (l : list (nat * A)) : option A :=
  match l with
  | [] => None
  | (w', x) :: r => if Nat.eqb w w' then Some x else slot_get w r
  end.
Definition slot_del {A} (w : nat) (l : list (nat * A)) : list (nat * A) :=
  filter (fun e => negb (Nat.eqb w (fst e))) l.

(* ---- dotgit.go ---- *)

(* cleanObjectList / genObjectList *)
Definition clean_olist (s : st) : st := set_olist s None.
Definition gen_olist (s : st) : st :=
  match olist s with Some _ => s | None => set_olist s (Some (loose s)) end.
Definition olist_val (s : st) : oset := match olist s with Some l => l | None => 0 end.

(* genPackList; NewObjectPack forgets the cached list only (forgetPackList): the
   cached PackHandles stay — dropping them failed concurrent reads (C23) *)
Definition clean_plist (s : st) : st := set_plist s None.
Definition gen_plist (s : st) : st :=
  match plist s with Some _ => s | None => set_plist s (Some (packs s)) end.
Definition plist_val (s : st) : list pid := match plist s with Some l => l | None => [] end.

(* hasObject: nil when not exclusive; otherwise membership in the cached map.
   [true] = the gate lets the caller go on to the file system *)
Definition has_object (c : cfg) (s : st) (k : oid) : st * bool :=
  if excl c then let s' := gen_olist s in (s', mem k (olist_val s')) else (s, true).

Definition has_pack (c : cfg) (s : st) (p : pid) : st * bool :=
  if excl c then let s' := gen_plist s in (s', memp p (plist_val s')) else (s, true).

(* ObjectPacks *)
Definition object_packs (c : cfg) (s : st) : st * list pid :=
  if excl c then let s' := gen_plist s in (s', plist_val s') else (s, packs s).

(* Objects (the loose listing) *)
Definition objects (c : cfg) (s : st) : st * oset :=
  if excl c then let s' := gen_olist s in (s', olist_val s') else (s, loose s).

(* Object / ObjectStat of a loose object: gate, then the file itself *)
Definition loose_lookup (c : cfg) (s : st) (k : oid) : st * bool :=
  let '(s', g) := has_object c s k in (s', g && mem k (loose s')).

(* packHandle: catalog hit, or the hasPack gate and (lazily) the files *)
Definition pack_handle (c : cfg) (s : st) (p : pid) : st * bool :=
  if memp p (handles s) then (s, true)
  else let '(s', g) := has_pack c s p in
       if g && memp p (packs s') then (set_handles s' (handles s' ++ [p]), true) else (s', false).

(* ---- object.go ---- *)

(* requireIndex / populateIndex: the pack list, each idx opened through the gate *)
Definition populate (c : cfg) (s : st) : st * list pid := object_packs c s.
Definition require_index (c : cfg) (s : st) : st :=
  match index s with
  | Some _ => s
  | None => let '(s', ps) := populate c s in set_index s' (Some ps)
  end.
Definition index_val (s : st) : list pid := match index s with Some l => l | None => [] end.

(* findObjectInPackfile: some pack of s.packs whose idx holds k (first in slice
   order here; the MRU hint of the real code may pick another one — see
   Properties/C18.v C18_gate_open for why that cannot matter) *)
Definition find_pack (s : st) (k : oid) : option pid := find (fun p => mem k p) (index_val s).

Inductive res :=
| ROk
| RErr (e : err)
| RBool (b : bool)
| RSet (m : oset)
| RPacks (l : list pid)
| RNum (n : N).

Inductive op :=
| NewObj (w : nat) (k : oid)     (* RawObjectWriter + Write *)
| CloseObj (w : nat)
| FailObj                        (* RawObjectWriter whose WriteHeader fails (negative size, invalid type):
                                    NewObject ran, the writer is abandoned — never closed *)
| SetObj (k : oid)               (* SetEncodedObject *)
| NewPack (w : nat) (p : pid)    (* PackfileWriter + Write of a whole pack (p = 0: nothing written) *)
| ClosePack (w : nat)
| Has (k : oid)                  (* HasEncodedObject *)
| Size (k : oid)                 (* EncodedObjectSize *)
| Get (k : oid) (t : oty)        (* EncodedObject + Reader + ReadAll *)
| Iter (t : oty)                 (* IterEncodedObjects + ForEach *)
| Prefix (k : oid) (n : N)       (* HashesWithPrefix(first n bytes of k's id): occurrences of k *)
| Packs                          (* ObjectPacks *)
| Del (k : oid)                  (* DeleteLooseObject *)
| Reindex.

(* the writers' Close: rename into place, then (repaired tree) drop the cached list *)
Definition obj_saved (c : cfg) (s : st) (k : oid) : st :=
  let s1 := set_loose s (N.setbit (loose s) k) in
  if fixd c then clean_olist s1 else s1.

Definition pack_saved (c : cfg) (s : st) (p : pid) : st :=
  let s1 := set_packs s (addp p (packs s)) in
  (* Notify: publish the idx (copy-on-grow append unless already present) *)
  let s2 := set_index s1 (Some (addp p (index_val s1))) in
  if fixd c then set_plist s2 None else s2.

(* open every pack of the listing for iteration (OpenPackForReading) *)
Fixpoint open_all (c : cfg) (s : st) (ps : list pid) : st * bool :=
  match ps with
  | [] => (s, true)
  | p :: r =>
    let '(s1, ok) := pack_handle c s p in
    if ok && memp p (index_val s1) then open_all c s1 r else (s1, false)
  end.

Definition step (c : cfg) (s : st) (o : op) : st * res :=
  match o with
  | NewObj w k =>
    match slot_get w (ow s) with
    | Some _ => (s, RErr EBadSlot)
    | None => let s1 := clean_olist s in (set_ow s1 ((w, k) :: ow s1), ROk)
    end
  | CloseObj w =>
    match slot_get w (ow s) with
    | None => (s, RErr EBadSlot)
    | Some k => let s1 := set_ow s (slot_del w (ow s)) in (obj_saved c s1 k, ROk)
    end
  | FailObj => (clean_olist s, RErr EOther)
  | SetObj k => (obj_saved c (clean_olist s) k, ROk)
  | NewPack w p =>
    match slot_get w (pw s) with
    | Some _ => (s, RErr EBadSlot)
    | None =>
      let s1 := clean_plist (require_index c s) in
      (set_pw s1 ((w, p) :: pw s1), ROk)
    end
  | ClosePack w =>
    match slot_get w (pw s) with
    | None => (s, RErr EBadSlot)
    | Some p =>
      let s1 := set_pw s (slot_del w (pw s)) in
      if p =? 0 then (if fixd c then set_plist s1 None else s1, ROk)
      else (pack_saved c s1 p, ROk)
    end
  | Has k =>
    let s1 := require_index c s in
    match find_pack s1 k with
    | Some _ => (s1, RBool true)
    | None => let '(s2, b) := loose_lookup c s1 k in (s2, RBool b)
    end
  | Size k =>
    let s1 := require_index c s in
    match find_pack s1 k with
    | Some p => let '(s2, ok) := pack_handle c s1 p in (s2, if ok then ROk else RErr EPackNotFound)
    | None => let '(s2, b) := loose_lookup c s1 k in (s2, if b then ROk else RErr ENotFound)
    end
  | Get k t =>
    let s1 := require_index c s in
    match find_pack s1 k with
    | Some p =>
      let '(s2, ok) := pack_handle c s1 p in
      (s2, if ok then (if has_type t k then ROk else RErr ENotFound) else RErr EPackNotFound)
    | None =>
      let '(s2, b) := loose_lookup c s1 k in
      (s2, if b && has_type t k then ROk else RErr ENotFound)
    end
  | Iter t =>
    let '(s1, lo) := objects c s in
    let s2 := require_index c s1 in
    let '(s3, ps) := object_packs c s2 in
    let '(s4, ok) := open_all c s3 ps in
    (s4, if ok then RSet (tmask t (N.lor lo (union_all ps))) else RErr EOther)
  | Prefix k n =>
    let '(s1, lo) := objects c s in
    let s2 := require_index c s1 in
    (s2, RNum (if mem k (N.lor lo (union_all (index_val s2))) then 1 else 0))
  | Packs => let '(s1, ps) := object_packs c s in (s1, RPacks ps)
  | Del k =>
    let s1 := clean_olist s in
    if mem k (loose s1) then (set_loose s1 (N.clearbit (loose s1) k), ROk) else (s1, RErr ENotExist)
  | Reindex => let '(s1, ps) := populate c s in (set_index s1 (Some ps), ROk)
  end.

Fixpoint run (c : cfg) (s : st) (ops : list op) : st * list res :=
  match ops with
  | [] => (s, [])
  | o :: r => let '(s1, x) := step c s o in let '(s2, xs) := run c s1 r in (s2, x :: xs)
  end.

(* ---- rendering (correspondence entry point) ---- *)

Fixpoint insert_sorted (x : N) (l : list N) : list N :=
  match l with
  | [] => [x]
  | y :: r => if x <=? y then x :: l else y :: insert_sorted x r
  end.
Definition sort_N (l : list N) : list N := fold_right insert_sorted [] l.

Definition err_name (e : err) : string :=
  match e with
  | ENotFound => "notfound" | EPackNotFound => "packnotfound" | ENotExist => "notexist"
  | EBadSlot => "badslot" | EOther => "other"
  end%string.

Definition render_res (r : res) : out :=
  match r with
  | ROk => OSym "ok"
  | RErr e => OErr (err_name e)
  | RBool b => OBool b
  | RSet m => OOk [ON m]
  | RPacks l => OOk [OList (map ON (sort_N l))]
  | RNum n => ON n
  end.

Definition c18_run (ex fx : bool) (l0 : oset) (p0 : list pid) (ops : list op) : out :=
  OList (map render_res (snd (run (Cfg ex fx) (init_st l0 p0) ops))).
