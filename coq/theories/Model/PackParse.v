(* Model/PackParse.v — G for C08 and C09: go-git's pack reader as it is (after the `fix:` commits
   of this batch: short inflate, truncated literal, walk below thin-pack deltas; see findings/).

     plumbing/format/packfile/scanner.go   packHeaderSignature, packVersion, packObjectsQty, objectEntry
                                           (entry header varint, OFS varint + ValidateOFSDeltaBase, REF id,
                                           bounded inflate, CRC, object id), packFooter
     plumbing/format/packfile/util         VariableLengthSize, DecodeLEB128FromReader
     utils/binary                          ReadVariableWidthInt
     plumbing/format/packfile/parser.go    Parse, resolveDeltas (depth-first walk, first reach wins, external
                                           placeholder), processDelta, checkDeltaChainDepth, ensureContent
     plumbing/format/packfile/patch_delta.go  patchDeltaWriter (the applier the parser uses)
     plumbing/format/idxfile/writer.go     the Observer that collects (id, offset, crc) -> Model/Idx.v

   zlib is a Section variable [inflate]: applied to the input that starts at an
   entry's content offset it answers the inflated bytes and the number of input
   bytes consumed, or None.  The digest [Hsz] and [crc32] are Section variables
   too.  Executable definitions only; every error is [Reject] (the Go errors are
   only compared as a class).  Not modelled: where the content of a base is
   found (memory, re-inflation, storage) — the options differ in cost, not in
   result; bufio chunking; observers other than the idx writer. *)
From Coq Require Import List NArith ZArith Bool String.
From GoGit Require Import Base.Out Base.GoInt Model.PackBytes Model.Idx Gen.C08.
Import ListNotations.
Local Open Scope N_scope.

Definition PACK_SIG : bytes := map Z.to_N packfile_signature.
Definition PACK_VERSION : N := Z.to_N packfile_VersionSupported.
Definition MAX_DEPTH : N := Z.to_N packfile_maxDeltaChainDepth.
Definition MAX_COPY : N := Z.to_N packfile_maxCopySize.

Inductive otype := TCommit | TTree | TBlob | TTag | TOfs | TRef.

Definition otype_of_num (n : N) : option otype :=
  match n with
  | 1 => Some TCommit | 2 => Some TTree | 3 => Some TBlob | 4 => Some TTag
  | 6 => Some TOfs | 7 => Some TRef | _ => None
  end.
Definition is_delta (t : otype) : bool := match t with TOfs | TRef => true | _ => false end.
Definition type_name (t : otype) : string :=
  match t with
  | TCommit => "commit" | TTree => "tree" | TBlob => "blob" | TTag => "tag"
  | TOfs => "ofs-delta" | TRef => "ref-delta"
  end%string.

(* ---- variable-length integers (ByteReader style: bytes are consumed from the input) ---- *)

(* packutil.VariableLengthSize after the first byte: continuation bytes at shift 4, 11, ...;
   a continuation byte at shift > 57 is an overflow *)
Fixpoint size_cont (fuel : nat) (r : bytes) (size shift : N) : option (N * bytes) :=
  match fuel with
  | O => None
  | S f =>
    if 57 <? shift then None else
    match r with
    | [] => None
    | b :: r' =>
      let size' := N.lor size (N.shiftl (N.land b 127) shift) in
      if N.land b 128 =? 0 then Some (size', r') else size_cont f r' size' (shift + 7)
    end
  end.

Definition entry_size (first : N) (r : bytes) : option (N * bytes) :=
  let size := N.land first 15 in
  if N.land first 128 =? 0 then Some (size, r) else size_cont 11 r size 4.

(* binary.ReadVariableWidthInt (the OFS-delta distance); the guard is the int64 overflow check *)
Definition VW_LIMIT : N := (9223372036854775807 - 127) / 128.
Fixpoint vwint_cont (fuel : nat) (r : bytes) (v : N) : option (N * bytes) :=
  match fuel with
  | O => None
  | S f =>
    if VW_LIMIT <=? v then None else
    match r with
    | [] => None
    | c :: r' =>
      let v' := (v + 1) * 128 + N.land c 127 in
      if N.land c 128 =? 0 then Some (v', r') else vwint_cont f r' v'
    end
  end.
Definition vwint (r : bytes) : option (N * bytes) :=
  match r with
  | [] => None
  | c :: r' => if N.land c 128 =? 0 then Some (N.land c 127, r') else vwint_cont 10 r' (N.land c 127)
  end.

(* packutil.DecodeLEB128FromReader (uint = 64 bits): at most ten bytes *)
Fixpoint leb128 (fuel : nat) (r : bytes) (num sz : N) : option (N * bytes) :=
  match fuel with
  | O => None
  | S f =>
    if 57 <? sz * 7 then None else
    match r with
    | [] => None
    | b :: r' =>
      let num' := N.lor num (N.shiftl (N.land b 127) (sz * 7) mod 18446744073709551616) in
      if N.land b 128 =? 0 then Some (num', r') else leb128 f r' num' (sz + 1)
    end
  end.

Section PackParse.
Variable hs : nat.
Variable Hsz : nat -> bytes -> bytes.
Variable inflate : bytes -> option (bytes * N).
Variable crc32 : bytes -> N.
Let H := Hsz hs.
Let HS : N := N.of_nat hs.

(* plumbing.Hasher: digest of "<type> <size>\0<content>" — the size is the one given to Reset *)
Definition obj_id (t : otype) (size : N) (content : bytes) : bytes :=
  H (bytes_of_string (type_name t) ++ [32] ++ bytes_of_string (dec_of_N size) ++ [0] ++ content).

(* ------------------------------------------------------------- Scanner *)

Record ohdr := mkOH {
  oh_off : N;            (* Offset *)
  oh_type : otype;       (* type on disk *)
  oh_size : N;           (* declared size *)
  oh_base_off : N;       (* OffsetReference *)
  oh_base_id : bytes;    (* Reference *)
  oh_data : bytes;       (* inflated content (delta instructions for deltas) *)
  oh_crc : N;
  oh_id : bytes }.       (* non-delta: the id the scanner computed *)

(* objectEntry at absolute offset [off]; [r] is the input from there on *)
Definition scan_entry (pack : bytes) (off : N) (r : bytes) : option (ohdr * N) :=
  match r with
  | [] => None
  | b :: r1 =>
    match otype_of_num (N.land (N.shiftr b 4) 7) with
    | None => None
    | Some t =>
      match entry_size b r1 with
      | None => None
      | Some (size, r2) =>
        let base :=
          match t with
          | TOfs =>
            match vwint r2 with
            | None => None
            | Some (no, r3) =>
              if packfile_ValidateOFSDeltaBase (Z.of_N off) (Z.of_N no) then None
              else Some (off - no, [], r3)
            end
          | TRef =>
            match take HS r2 with
            | None => None
            | Some (id, r3) => Some (0, id, r3)
            end
          | _ => Some (0, [], r2)
          end in
        match base with
        | None => None
        | Some (boff, bid, r3) =>
          match inflate r3 with
          | None => None
          | Some (data, consumed) =>
            (* boundedWriter: more inflated bytes than declared is an error; so is fewer (after the fix) *)
            if negb (blen data =? size) then None else
            let next := blen pack - blen r3 + consumed in
            let raw := slice pack off (next - off) in
            Some (mkOH off t size boff bid data (crc32 raw)
                       (if is_delta t then [] else obj_id t size data), next)
          end
        end
      end
    end
  end.

Fixpoint scan_entries (fuel : nat) (pack : bytes) (count idx pos : N) (acc : list ohdr) : option (list ohdr * N) :=
  match fuel with
  | O => None
  | S f =>
    if count <=? idx then Some (rev acc, pos)
    else match scan_entry pack pos (skipn (N.to_nat pos) pack) with
         | None => None
         | Some (oh, next) =>
           if next <=? pos then None   (* cannot happen: an entry has at least one byte *)
           else scan_entries f pack count (idx + 1) next (oh :: acc)
         end
  end.

(* the whole forward scan: header, entries, footer -> (entries, pack checksum) *)
Definition scan_pack (pack : bytes) : option (list ohdr * bytes) :=
  match take 4 pack with None => None | Some (sg, r1) =>
  if negb (bytes_eqb sg PACK_SIG) then None else
  match take 4 r1 with None => None | Some (vb, r2) =>
  if negb (get32 vb =? PACK_VERSION) then None else
  match take 4 r2 with None => None | Some (qb, _) =>
  match scan_entries (S (List.length pack)) pack (get32 qb) 0 12 [] with
  | None => None
  | Some (es, pos) =>
    match take HS (skipn (N.to_nat pos) pack) with
    | None => None
    | Some (sum, _) =>
      if bytes_eqb sum (H (firstn (N.to_nat pos) pack)) then Some (es, sum) else None
    end
  end end end end.

(* ------------------------------------------------------- patchDeltaWriter *)

(* decodeOffsetByteReader / decodeSizeByteReader: one byte per mask bit set in cmd *)
Fixpoint masked_bytes (masks : list (N * N)) (cmd : N) (r : bytes) (acc : N) : option (N * bytes) :=
  match masks with
  | [] => Some (acc, r)
  | (mask, shift) :: ms =>
    if N.land cmd mask =? 0 then masked_bytes ms cmd r acc
    else match r with
         | [] => None
         | b :: r' => masked_bytes ms cmd r' (N.lor acc (N.shiftl b shift) mod 18446744073709551616)  (* uint *)
         end
  end.
Definition OFFSET_MASKS : list (N * N) := [(1, 0); (2, 8); (4, 16); (8, 24)].
Definition SIZE_MASKS : list (N * N) := [(16, 0); (32, 8); (64, 16)].

(* the command loop; [remaining] = remainingTargetSz.  A copy-from-delta whose
   bytes are cut short by the end of the delta is an error (after the fix: the
   byte count of io.CopyBuffer is checked) *)
Fixpoint delta_loop (fuel : nat) (src : bytes) (d : bytes) (remaining : N) (out : bytes) : option bytes :=
  match fuel with
  | O => None
  | S f =>
    if remaining =? 0 then
      match d with [] => Some out | _ => None end
    else
      match d with
      | [] => None
      | cmd :: d1 =>
        if packfile_isCopyFromSrc (Z.of_N cmd) then
          match masked_bytes OFFSET_MASKS cmd d1 0 with
          | None => None
          | Some (offset, d2) =>
            match masked_bytes SIZE_MASKS cmd d2 0 with
            | None => None
            | Some (sz0, d3) =>
              let sz := if sz0 =? 0 then MAX_COPY else sz0 in
              if packfile_invalidSize (Z.of_N sz) (Z.of_N remaining)
                 || packfile_invalidOffsetSize (Z.of_N offset) (Z.of_N sz) (Z.of_N (blen src)) then None
              else delta_loop f src d3 (remaining - sz) (out ++ slice src offset sz)
            end
          end
        else if packfile_isCopyFromDelta (Z.of_N cmd) then
          if packfile_invalidSize (Z.of_N cmd) (Z.of_N remaining) then None
          else if blen d1 <? cmd then None
          else delta_loop f src (skipn (N.to_nat cmd) d1) (remaining - cmd) (out ++ firstn (N.to_nat cmd) d1)
        else None
      end
  end.

(* -> (target size announced by the delta, bytes written) *)
Definition apply_delta (src delta : bytes) : option (N * bytes) :=
  match leb128 10 delta 0 0 with
  | None => None
  | Some (srcSz, d1) =>
    if negb (srcSz =? blen src) then None else
    match leb128 10 d1 0 0 with
    | None => None
    | Some (tgtSz, d2) =>
      match delta_loop (S (List.length d2)) src d2 tgtSz [] with
      | None => None
      | Some out => Some (tgtSz, out)
      end
    end
  end.

(* --------------------------------------------------------------- Parser *)

(* an entry of parserCache (resolved object) *)
Record robj := mkR {
  r_off : N; r_type : otype; r_size : N; r_id : bytes; r_content : bytes; r_crc : N;
  r_depth : N }.       (* chainDepth: 0 for objects stored whole *)

(* external bases: the storage the parser was given *)
Definition store := list (bytes * (otype * bytes)).
Fixpoint store_get (st : store) (id : bytes) : option (otype * bytes) :=
  match st with
  | [] => None
  | (k, v) :: r => if bytes_eqb k id then Some v else store_get r id
  end.

(* parser state: cache.oi most recent first (so that oiByHash = first match), the offsets of the
   deltas already given a parent, and the external placeholders registered in oiByHash *)
Record pstate := mkP { p_oi : list robj; p_done : list N; p_ext : list (bytes * (otype * bytes)) }.

Definition by_hash (s : pstate) (id : bytes) : option robj :=
  find (fun o => bytes_eqb (r_id o) id) (p_oi s).
Definition by_offset (s : pstate) (off : N) : option robj :=
  find (fun o => r_off o =? off) (p_oi s).
Definition is_done (s : pstate) (off : N) : bool := existsb (N.eqb off) (p_done s).

(* checkDeltaChainDepth(oh) for a delta not yet given a depth (oh.chainDepth = 0), [pd] = parent.chainDepth.
   The walk first counts oh itself on the uncached path (`depth++; if depth > maxDeltaChainDepth`), then
   meets the parent.  Parents come from the cache, which holds resolved objects only: a resolved delta is
   a delta on disk and carries its cached chainDepth > 0, so the walk takes the cached path
   (`depth += current.chainDepth; if depth > maxDeltaChainDepth`; break); a whole object or a thin-pack
   placeholder is not a delta on disk (chainDepth 0) and ends the walk.  Both comparisons are against the
   constant regenerated from the source (Gen/C08.v). *)
Definition chain_depth (pd : N) : option N :=
  let depth := 1 in
  if MAX_DEPTH <? depth then None                    (* uncached path *)
  else if 0 <? pd then
    let depth := depth + pd in
    if MAX_DEPTH <? depth then None else Some depth  (* cached path *)
  else Some depth.

(* processDelta: find the parent, check the chain depth, apply, add to the cache.
   parent = (type, content, depth). *)
Definition process_delta (ext : store) (s : pstate) (d : ohdr) : option pstate :=
  let parent :=
    match oh_type d with
    | TOfs => match by_offset s (oh_base_off d) with
              | Some p => Some (r_type p, r_content p, r_depth p, s)
              | None => None
              end
    | _ =>
      match by_hash s (oh_base_id d) with
      | Some p => Some (r_type p, r_content p, r_depth p, s)
      | None =>
        (* thin pack: placeholder parent, content from the storage *)
        match store_get (p_ext s) (oh_base_id d) with
        | Some (t, c) => Some (t, c, 0, s)
        | None =>
          match store_get ext (oh_base_id d) with
          | Some (t, c) => Some (t, c, 0, mkP (p_oi s) (p_done s) ((oh_base_id d, (t, c)) :: p_ext s))
          | None => None
          end
        end
      end
    end in
  match parent with
  | None => None
  | Some (pt, pc, pd, s1) =>
    match chain_depth pd with
    | None => None
    | Some depth =>
    match oh_data d with
    | [] => None                                 (* an empty delta cannot be applied *)
    | _ =>
      match apply_delta pc (oh_data d) with
      | None => None
      | Some (tsz, out) =>
        let o := mkR (oh_off d) pt tsz (obj_id pt tsz out) out (oh_crc d) depth in
        Some (mkP (o :: p_oi s1) (oh_off d :: p_done s1) (p_ext s1))
      end
    end
    end
  end.

(* visit(parent): REF children of parent.Hash first, then OFS children of parent.Offset, depth first;
   a child that already has a parent is skipped *)
Fixpoint visit (fuel : nat) (ext : store) (refs ofss : list ohdr) (pid : bytes) (poff : N) (s : pstate) : option pstate :=
  match fuel with
  | O => None
  | S f =>
    let step := fun (acc : option pstate) (c : ohdr) =>
      match acc with
      | None => None
      | Some s0 =>
        if is_done s0 (oh_off c) then Some s0 else
        match process_delta ext s0 c with
        | None => None
        | Some s1 =>
          match by_offset s1 (oh_off c) with
          | None => None
          | Some o => visit f ext refs ofss (r_id o) (r_off o) s1
          end
        end
      end in
    let rc := filter (fun c => bytes_eqb (oh_base_id c) pid) refs in
    let oc := filter (fun c => oh_base_off c =? poff) ofss in
    fold_left step oc (fold_left step rc (Some s))
  end.

Definition resolve (ext : store) (es : list ohdr) : option pstate :=
  let bases := filter (fun e => negb (is_delta (oh_type e))) es in
  let refs := filter (fun e => match oh_type e with TRef => true | _ => false end) es in
  let ofss := filter (fun e => match oh_type e with TOfs => true | _ => false end) es in
  (* the scan added the whole objects to the cache in pack order *)
  let s0 := mkP (rev (map (fun e => mkR (oh_off e) (oh_type e) (oh_size e) (oh_id e) (oh_data e) (oh_crc e) 0) bases)) [] [] in
  let fuel := S (List.length es) in
  let s1 := fold_left (fun acc b => match acc with
                                    | None => None
                                    | Some s => visit fuel ext refs ofss (oh_id b) (oh_off b) s
                                    end) bases (Some s0) in
  (* REF deltas not reached: external bases, in pack order; after the fix the walk continues below them *)
  let s2 := fold_left (fun acc d => match acc with
                                    | None => None
                                    | Some s =>
                                      if is_done s (oh_off d) then Some s else
                                      match process_delta ext s d with
                                      | None => None
                                      | Some s' =>
                                        match by_offset s' (oh_off d) with
                                        | None => None
                                        | Some o => visit fuel ext refs ofss (r_id o) (r_off o) s'
                                        end
                                      end
                                    end) refs s1 in
  match s2 with
  | None => None
  | Some s => if forallb (fun d => is_done s (oh_off d)) ofss then Some s else None
  end.

(* Parser.Parse with the idx writer as observer: objects in the order they were added to the cache *)
Definition parse (ext : store) (pack : bytes) : option (list robj * bytes) :=
  match scan_pack pack with
  | None => None
  | Some (es, sum) =>
    match resolve ext es with
    | None => None
    | Some s => Some (rev (p_oi s), sum)
    end
  end.

End PackParse.

(* ---------------------------------------------------------------- correspondence entry points *)
From GoGit Require Import Spec.PackHash.

(* a chain of [n] delta links on a whole object, resolved link by link as the walk does (each link sees its
   parent's cached depth): the depth rule alone.  Used for the boundary cases, whose packs hold thousands of
   objects: the reply is the number of objects indexed. *)
Fixpoint chain_walk (n : nat) (pd : N) : option N :=
  match n with
  | O => Some pd
  | S k => match chain_depth pd with None => None | Some d => chain_walk k d end
  end.
Definition c08_chain (links : N) : out :=
  match chain_walk (N.to_nat links) 0 with
  | Some _ => OOk [ON (links + 1)]
  | None => OErr "reject"
  end.

(* the inflate variable instantiated by a table computed with Go's compress/zlib at every offset of
   the case's pack: position = total length - remaining length *)
Definition ztable := list (N * (bytes * N)).
Definition Z3 (pos : N) (data : string) (consumed : N) : N * (bytes * N) := (pos, (unhex data, consumed)).
Fixpoint ztable_get (t : ztable) (pos : N) : option (bytes * N) :=
  match t with
  | [] => None
  | (p, v) :: r => if p =? pos then Some v else ztable_get r pos
  end.
Definition inflate_tbl (t : ztable) (total : N) (r : bytes) : option (bytes * N) :=
  ztable_get t (total - blen r).

Definition otype_of_name (s : string) : otype :=
  if String.eqb s "commit" then TCommit else if String.eqb s "tree" then TTree
  else if String.eqb s "tag" then TTag else TBlob.

Definition X (t : string) (c : string) : otype * bytes := (otype_of_name t, unhex c).

Definition c08_parse (hs : nat) (pack : string) (zt : ztable) (ext : list (otype * bytes)) : out :=
  let p := unhex pack in
  let st := map (fun tc => (obj_id hs hash_by_size (fst tc) (blen (snd tc)) (snd tc), tc)) ext in
  match parse hs hash_by_size (inflate_tbl zt (blen p)) crc32 st p with
  | None => OErr "reject"
  | Some (objs, sum) =>
    let added := writer_add (map (fun o => mkE (r_id o) (r_off o) (r_crc o)) objs) [] [] in
    match create_index hs added sum with
    | Err _ => OErr "index"
    | Ok m =>
      match encode hs hash_by_size m, rev_encode hs hash_by_size m with
      | Ok ib, Ok rb =>
        let rows := map (fun e =>
          match find (fun o => r_off o =? e_off e) objs with
          | Some o => OList [ON (e_off e); OSym (type_name (r_type o)); ON (r_size o); OBytes (e_hash e); ON (e_crc e)]
          | None => OSym "missing"
          end) (fst (mem_by_offset hs m)) in
        OOk [OBytes sum; OList rows; OBytes (skipn (List.length ib - hs) ib); OBytes (skipn (List.length rb - hs) rb)]
      | _, _ => OErr "encode"
      end
    end
  end.
