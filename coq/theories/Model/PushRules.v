(* Model/PushRules.v — G for C38: remote.go PushOptions.Validate (refspec part),
   Remote.sendPack (delete detection, Force rewriting, command construction,
   object selection), addReferencesToUpdate, addOrUpdateReferences,
   addReferenceIfRefSpecMatches, addObject, deleteReferences (explicit and
   prune), checkForceWithLease, checkTagUpdate, checkFastForwardUpdate,
   isFastForward (object.NewCommitPreorderIter walk), objectsToPush,
   referencesToHashes.  Executable definitions only.

   Reference names and refspecs are byte strings, hashes are abstract ids
   (0 = the zero hash), the local object store is Model/RevList's store. *)
From Coq Require Import List NArith ZArith Bool String.
From GoGit Require Import Base.Out Model.RefSpec Model.RevList.
Import ListNotations.
Local Open Scope N_scope.

Inductive rtarget := RHash (h : oid) | RSym (t : bytes).
Definition refs := list (bytes * rtarget).

Fixpoint ref_get (rs : refs) (n : bytes) : option rtarget :=
  match rs with
  | [] => None
  | (k, v) :: r => if beq_bytes k n then Some v else ref_get r n
  end.

(* storer.ResolveReference; fuel stands for MaxResolveRecursion (a chain longer
   than the store has references is a cycle) *)
Fixpoint resolve_ref (fuel : nat) (rs : refs) (n : bytes) : option oid :=
  match fuel with
  | O => None
  | S f => match ref_get rs n with
           | None => None
           | Some (RHash h) => Some h
           | Some (RSym t) => resolve_ref f rs t
           end
  end.

Record lease := mkLease { l_ref : bytes; l_hash : oid }.
Record popts := mkPO { po_specs : list bytes; po_force : bool; po_prune : bool;
                       po_lease : option lease; po_delcap : bool }.
Record cmd := mkCmd { k_name : bytes; k_old : oid; k_new : oid }.

Inductive perr := PInvalid | PDeleteUnsupported | PRejected | PUpToDate | PRevlist.
Inductive pres (A : Type) := POk (a : A) | PErr (e : perr).
Arguments POk {A} _.  Arguments PErr {A} _.

Definition s2b (s : string) : bytes := bytes_of_string s.
Definition HEADS : bytes := s2b "refs/heads/".
Definition TAGS : bytes := s2b "refs/tags/".
Definition REMOTES_ORIGIN : bytes := s2b "refs/remotes/origin/".
Definition DEFAULT_PUSH : bytes := s2b "refs/heads/*:refs/heads/*".

(* strings.ReplaceAll(s, pat, "") for a non-empty pat *)
Fixpoint remove_all (pat : bytes) (skip : nat) (s : bytes) : bytes :=
  match s with
  | [] => []
  | c :: r =>
    match skip with
    | S k => remove_all pat k r
    | O => if has_prefix pat s then remove_all pat (List.length pat - 1) r
           else c :: remove_all pat O r
    end
  end.

(* ---- isFastForward: pre-order walk from the new commit looking for old ---- *)
Fixpoint filter_unseen (ps seen : list oid) : list oid :=
  match ps with [] => [] | p :: r => if mem p seen then filter_unseen r seen else p :: filter_unseen r seen end.

(* stack of the remaining parent hashes of the commits being expanded.
   result: (found, boundedByShallow); None = a commit on the way is missing *)
Fixpoint ff_walk (fuel : nat) (st : store) (sh : list oid) (old : oid)
         (stack : list (list oid)) (seen : list oid) (bounded : bool) : res (bool * bool) :=
  match fuel with
  | O => Err EFuel
  | S f =>
    match stack with
    | [] => Ok (false, bounded)
    | [] :: rest => ff_walk f st sh old rest seen bounded
    | (h :: hs) :: rest =>
      match get_commit st h with
      | None => Err EParent
      | Some (_, ps, _) =>
        if mem h seen then ff_walk f st sh old (hs :: rest) seen bounded else
        let seen' := h :: seen in
        let stack' := match ps with [] => hs :: rest | _ => filter_unseen ps seen' :: hs :: rest end in
        let bounded' := bounded || mem h sh in
        if h =? old then Ok (true, bounded') else ff_walk f st sh old stack' seen' bounded'
      end
    end
  end.

(* parents of the stored shallow commits: never visited *)
Fixpoint shallow_parents (st : store) (sh : list oid) : list oid :=
  match sh with
  | [] => []
  | s :: r => match get_commit st s with
              | Some (_, ps, _) => ps ++ shallow_parents st r
              | None => shallow_parents st r
              end
  end.

(* every step pops a hash or an exhausted list: at most one list per stored
   commit plus the initial one, and at most all parent hashes of the store *)
Fixpoint parent_count (st : store) : nat :=
  match st with
  | [] => O
  | (_, Commit _ ps _) :: r => (List.length ps + parent_count r)%nat
  | _ :: r => parent_count r
  end.
Definition ff_fuel (st : store) : nat := S (parent_count st + 2 * List.length st + 3).

Definition is_ff (st : store) (sh : list oid) (old new : oid) : res bool :=
  match get_commit st new with
  | None => Err EParent
  | Some _ =>
    match ff_walk (ff_fuel st) st sh old [[new]] (shallow_parents st sh) false with
    | Err e => Err e
    | Ok (found, bounded) => Ok (found || bounded)
    end
  end.

(* ---- the per-command checks: true = allowed ---- *)
Definition check_tag (c : cmd) : bool := negb (has_prefix TAGS (k_name c) && negb (k_old c =? 0)).

Definition check_ff (st : store) (sh : list oid) (remote : refs) (c : cmd) : bool :=
  if k_old c =? 0 then
    match ref_get remote (k_name c) with None => true | Some _ => false end
  else match is_ff st sh (k_old c) (k_new c) with Ok b => b | Err _ => false end.

Definition check_lease (local : refs) (lname : bytes) (c : cmd) (l : lease) : bool :=
  match resolve_ref (S (List.length local)) local (REMOTES_ORIGIN ++ remove_all HEADS O lname) with
  | None => false
  | Some tracked =>
    if beq_bytes (l_ref l) [] || beq_bytes (l_ref l) (k_name c) then
      k_old c =? (if l_hash l =? 0 then tracked else l_hash l)
    else true
  end.

(* addReferenceIfRefSpecMatches: None = refused (an error aborts the push) *)
Definition add_ref_if_match (st : store) (sh : list oid) (rs : bytes) (remote local : refs)
           (lr : bytes * rtarget) (ls : option lease) (cmds : list cmd) : option (list cmd) :=
  match snd lr with
  | RSym _ => Some cmds
  | RHash h =>
    if negb (rs_match rs (fst lr)) then Some cmds else
    let name := rs_dst rs (fst lr) in
    match ref_get remote name with
    | Some (RSym _) => Some cmds
    | other =>
      let old := match other with Some (RHash o) => o | _ => 0 end in
      let c := mkCmd name old h in
      if old =? h then Some cmds else
      let leased := match ls with
                    | Some l => beq_bytes (l_ref l) [] || beq_bytes (l_ref l) name
                    | None => false end in
      let ok := if leased then match ls with Some l => check_lease local (fst lr) c l | None => true end
                else if rs_force rs then true
                else check_tag c && check_ff st sh remote c in
      if ok then Some (cmds ++ [c]) else None
    end
  end.

(* addObject: a non-wildcard refspec whose source is the hash of a stored object *)
Definition add_object (st : store) (sh : list oid) (rs : bytes) (remote : refs) (h : oid)
           (cmds : list cmd) : option (list cmd) :=
  let name := rs_dst rs [] in
  match ref_get remote name with
  | Some (RSym _) => Some cmds
  | other =>
    let old := match other with Some (RHash o) => o | _ => 0 end in
    let c := mkCmd name old h in
    if old =? h then Some cmds else
    if rs_force rs || (check_tag c && check_ff st sh remote c) then Some (cmds ++ [c]) else None
  end.

(* deleteReferences *)
Fixpoint delete_refs (rs : bytes) (remote_iter : refs) (local : refs) (prune : bool) (cmds : list cmd) : list cmd :=
  match remote_iter with
  | [] => cmds
  | (name, RSym _) :: r => delete_refs rs r local prune cmds
  | (name, RHash h) :: r =>
    let skip :=
      if prune then
        let rv := rs_reverse rs in
        negb (rs_match rv name) || match ref_get local (rs_dst rv name) with Some _ => true | None => false end
      else negb (beq_bytes (rs_dst rs []) name) in
    delete_refs rs r local prune (if skip then cmds else cmds ++ [mkCmd name h 0])
  end.

Fixpoint add_each (st : store) (sh : list oid) (rs : bytes) (remote local : refs) (iter : refs)
         (ls : option lease) (cmds : list cmd) : option (list cmd) :=
  match iter with
  | [] => Some cmds
  | lr :: r => match add_ref_if_match st sh rs remote local lr ls cmds with
               | Some cmds' => add_each st sh rs remote local r ls cmds'
               | None => None
               end
  end.

(* hexes: the hash texts the case knows, with their ids (plumbing.NewHash) *)
Fixpoint hex_lookup (hexes : list (bytes * oid)) (s : bytes) : option oid :=
  match hexes with
  | [] => None
  | (k, v) :: r => if beq_bytes k s then Some v else hex_lookup r s
  end.

Definition add_or_update (st : store) (sh : list oid) (hexes : list (bytes * oid)) (rs : bytes)
           (remote local : refs) (ls : option lease) (cmds : list cmd) : option (list cmd) :=
  if rs_wild rs then add_each st sh rs remote local local ls cmds
  else match ref_get local (rs_src rs) with
       | Some t => add_ref_if_match st sh rs remote local (rs_src rs, t) ls cmds
       | None =>
         match hex_lookup hexes (rs_src rs) with
         | Some h => match get st h with
                     | Some _ => add_object st sh rs remote h cmds
                     | None => Some cmds
                     end
         | None => Some cmds
         end
       end.

Fixpoint add_refs_to_update (st : store) (sh : list oid) (hexes : list (bytes * oid)) (specs : list bytes)
         (remote local : refs) (prune : bool) (ls : option lease) (cmds : list cmd) : option (list cmd) :=
  match specs with
  | [] => Some cmds
  | rs :: r =>
    if rs_delete rs then
      add_refs_to_update st sh hexes r remote local prune ls (delete_refs rs remote local false cmds)
    else
      match add_or_update st sh hexes rs remote local ls cmds with
      | None => None
      | Some cmds' =>
        add_refs_to_update st sh hexes r remote local prune ls
          (if prune then delete_refs rs remote local true cmds' else cmds')
      end
  end.

Definition force_specs (specs : list bytes) : list bytes :=
  map (fun rs => if rs_force rs || rs_delete rs then rs else PLUS :: rs) specs.

Fixpoint remote_hashes (remote : refs) : list oid :=
  match remote with
  | [] => []
  | (_, RHash h) :: r => h :: remote_hashes r
  | _ :: r => remote_hashes r
  end.

Fixpoint cmd_news (cmds : list cmd) : list oid :=
  match cmds with [] => [] | c :: r => if k_new c =? 0 then cmd_news r else k_new c :: cmd_news r end.

(* PushContext (refspec validation) + sendPack up to the request handed to the
   transport: the commands and the objects packed *)
Definition push (st : store) (sh : list oid) (hexes : list (bytes * oid)) (local remote : refs) (o : popts)
  : pres (list cmd * list oid) :=
  let specs0 := match po_specs o with [] => [DEFAULT_PUSH] | l => l end in
  if negb (forallb rs_valid specs0) then PErr PInvalid else
  let is_delete := existsb rs_delete specs0 in
  let all_delete := forallb rs_delete specs0 in
  if is_delete && negb (po_delcap o) then PErr PDeleteUnsupported else
  let specs := if po_force o then force_specs specs0 else specs0 in
  match add_refs_to_update st sh hexes specs remote local (po_prune o) (po_lease o) [] with
  | None => PErr PRejected
  | Some [] => PErr PUpToDate
  | Some cmds =>
    if all_delete then POk (cmds, []) else
    match objects st sh (cmd_news cmds) (remote_hashes remote ++ sh) with
    | Err _ => PErr PRevlist
    | Ok hs => POk (cmds, hs)
    end
  end.

(* ---- correspondence entry point ---- *)
Fixpoint ble_bytes (a b : bytes) : bool :=
  match a, b with
  | [], _ => true
  | _ :: _, [] => false
  | x :: a', y :: b' => if x <? y then true else if y <? x then false else ble_bytes a' b'
  end.

Definition cmd_le (a b : cmd) : bool :=
  if beq_bytes (k_name a) (k_name b) then
    if k_old a =? k_old b then k_new a <=? k_new b else k_old a <? k_old b
  else ble_bytes (k_name a) (k_name b).

Fixpoint ins_cmd (x : cmd) (l : list cmd) : list cmd :=
  match l with [] => [x] | y :: r => if cmd_le x y then x :: l else y :: ins_cmd x r end.
Definition sort_cmds (l : list cmd) : list cmd := fold_right ins_cmd [] l.

Definition perr_name (e : perr) : string :=
  match e with PInvalid => "invalid" | PDeleteUnsupported => "delete_unsupported" | PRejected => "rejected"
             | PUpToDate => "uptodate" | PRevlist => "revlist" end.

Definition c38_run (st : store) (sh : list oid) (hexes : list (bytes * oid)) (local remote : refs) (o : popts) : out :=
  match push st sh hexes local remote o with
  | PErr e => OErr (perr_name e)
  | POk (cmds, hs) =>
    OOk [OList (map (fun c => OList [OBytes (k_name c); ON (k_old c); ON (k_new c)]) (sort_cmds cmds));
         OList (map ON (sort_N hs))]
  end.

(* isFastForward alone *)
Definition c38_ff (st : store) (sh : list oid) (old new : oid) : out :=
  match is_ff st sh old new with
  | Ok b => OOk [OBool b]
  | Err _ => OErr "walk"
  end.
