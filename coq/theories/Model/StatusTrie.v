(* Model/StatusTrie.v — G for C27, from (HEAD tree, index, worktree) rather than
   from two given change lists:
     worktree_status.go        status / diffCommitWithStaging / diffStagingWithWorktree
     utils/merkletrie          DiffTree — (1) the recursive merge of Model/DiffTree.v (C44),
                               (2) the two-iterator loop of difftree.go / doubleiter.go /
                               iter.go with the Skip() rules (skip-worktree entries)
     utils/merkletrie/index    NewRootNode (directory nodes inferred from the entry paths,
                               skip = every entry below is skip-worktree)
     utils/merkletrie/filesystem  shouldSkipIgnored through the ignore scope, whose verdict is
                               computed by the gitignore model of C49 (Model/Gitignore.v)
   Trees are Model/DiffTree.v trees; a leaf carries the entry's data:
     HEAD      (mode, [fmt; cid])                      — already the tree noder's hash
     index     (mode, [fmt; cid; size; mtime; ita])
     worktree  (mode, [cid; size; mtime])
   Executable definitions only, the code AS IT IS. *)
From Coq Require Import List NArith ZArith Bool String.
From GoGit Require Import Base.Out Model.Status.
From GoGit Require Model.DiffTree Model.Gitignore.
Import ListNotations.
Local Open Scope N_scope.

Notation dpath := DiffTree.path.
Notation dtree := DiffTree.tree.
Notation dleaf := DiffTree.leaf.

Definition M_REG : N := DiffTree.mode_regular.
Definition M_EXEC : N := 33261.     (* 0100755 *)
Definition M_LINK : N := 40960.     (* 0120000 *)

Definition mode_num (m : fmode) : N := match m with MReg => M_REG | MExec => M_EXEC | MLink => M_LINK end.
Definition dec_mode (n : N) : fmode := if n =? M_EXEC then MExec else if n =? M_LINK then MLink else MReg.

(* noder.Hash(): object id ++ mode *)
Definition enc (h : nhash) : dleaf := (mode_num (snd h), [h_fmt (fst h); h_cid (fst h)]).

Definition nth0 (l : bytes) (i : nat) : N := nth i l 0.

Record tstate := mkTS {
  ts_fmt : N; ts_filemode : bool; ts_idxtime : N;
  ts_head : dtree; ts_index : dtree; ts_wt : dtree;
  ts_skip : list path;                  (* entries flagged skip-worktree *)
  ts_ign : Gitignore.files;             (* (directory, content) of the .gitignore files of the worktree *)
  ts_ign_idx : Gitignore.files;         (* .gitignore ENTRIES flagged skip-worktree whose file is absent: git reads
                                           them from the index (dir.c read_skip_worktree_file_from_index), go-git does not *)
  ts_excl : option bytes }.             (* .git/info/exclude (never read by go-git, see finding info-exclude) *)

Definition jpath (p : dpath) : path := DiffTree.join_path p.

(* the flattened maps *)
Definition dec_t (pl : dpath * dleaf) : tentry :=
  mkT (jpath (fst pl)) (dec_mode (fst (snd pl))) (mkHash (nth0 (snd (snd pl)) 0) (nth0 (snd (snd pl)) 1)).
Definition dec_i (pl : dpath * dleaf) : ientry :=
  let d := snd (snd pl) in
  mkI (jpath (fst pl)) (dec_mode (fst (snd pl))) (mkHash (nth0 d 0) (nth0 d 1)) (nth0 d 2) (nth0 d 3) (nth0 d 4 =? 1).
(* the verdict of the ignore scope go-git builds: the .gitignore files along the path *)
Definition ign_go (ts : tstate) (p : dpath) : bool := Gitignore.ignored None (ts_ign ts) p false.
Definition dec_w (ts : tstate) (ign_git : dpath -> bool) (pl : dpath * dleaf) : wfile :=
  let d := snd (snd pl) in
  mkW (jpath (fst pl)) (dec_mode (fst (snd pl))) (nth0 d 0) (nth0 d 1) (nth0 d 2) (ign_go ts (fst pl)) (ign_git (fst pl)).

Definition fl (t : dtree) : list (dpath * dleaf) := DiffTree.files_l t.

(* [ign_git]: git's verdict (Spec/GitIgnore.v), only stored in the files for the spec's use *)
Definition flat_of (ts : tstate) (ign_git : dpath -> bool) : state :=
  mkState (ts_fmt ts) (ts_filemode ts) (ts_idxtime ts)
          (map dec_t (fl (ts_head ts))) (map dec_i (fl (ts_index ts))) (map (dec_w ts ign_git) (fl (ts_wt ts))).

(* ------------------------------------------------------------ the noder trees *)

(* map / filter the leaves of a tree, the path of each leaf at hand *)
Fixpoint nfm (f : dpath -> dleaf -> option dleaf) (pre : dpath) (x : DiffTree.node) {struct x} : option DiffTree.node :=
  match x with
  | DiffTree.File l => option_map DiffTree.File (f pre l)
  | DiffTree.Dir cs =>
    Some (DiffTree.Dir
      ((fix go (cs : list (DiffTree.name * DiffTree.node)) : list (DiffTree.name * DiffTree.node) :=
          match cs with
          | [] => []
          | c :: r => match nfm f (pre ++ [fst c]) (snd c) with
                      | Some c' => (fst c, c') :: go r
                      | None => go r
                      end
          end) cs))
  end.
Fixpoint tfm (f : dpath -> dleaf -> option dleaf) (pre : dpath) (t : dtree) : dtree :=
  match t with
  | [] => []
  | c :: r => match nfm f (pre ++ [fst c]) (snd c) with
              | Some c' => (fst c, c') :: tfm f pre r
              | None => tfm f pre r
              end
  end.

(* mindex.NewRootNodeWithOptions: Hash() of an entry node *)
Definition f_index (uphold : bool) (p : dpath) (l : dleaf) : option dleaf :=
  Some (enc (inode_hash uphold (dec_i (p, l)))).
(* filesystem noder: an ignored child that is not tracked is left out; Hash() of the others *)
Definition f_wt (ts : tstate) (s : state) (p : dpath) (l : dleaf) : option dleaf :=
  let f := dec_w ts (fun _ => false) (p, l) in
  if wt_visible s f then Some (enc (wnode_hash s f)) else None.

Definition index_tree (ts : tstate) (uphold : bool) : dtree := tfm (f_index uphold) [] (ts_index ts).
Definition fs_tree (ts : tstate) : dtree := tfm (f_wt ts (flat_of ts (fun _ => false))) [] (ts_wt ts).

(* ------------------------------------------------------------ Worktree.status over the recursive merge *)

Definition change_of (c : DiffTree.mchange) : path * action :=
  match c with
  | DiffTree.MIns p _ => (jpath p, Ins)
  | DiffTree.MDel p _ => (jpath p, Del)
  | DiffTree.MMod p _ _ => (jpath p, Mod)
  end.

Definition fold_status (l r : list DiffTree.mchange) : smap :=
  fold_left right_apply (map change_of r) (fold_left left_apply (map change_of l) []).

(* None = the walk ran out of fuel *)
Definition status_rec (ts : tstate) (ps : list path) : option (list (path * code * code)) :=
  match DiffTree.difftree (ts_head ts) (index_tree ts true),
        DiffTree.difftree (index_tree ts (ts_filemode ts)) (fs_tree ts) with
  | Some l, Some r => Some (listing (fold_status l r) ps)
  | _, _ => None
  end.

(* ------------------------------------------------------------ the two-iterator loop with Skip() *)

Definition frame := dtree.                (* the siblings not yet visited, sorted by name; the first is current *)
Definition iter := list frame.            (* innermost frame first *)

(* Iter.drop: forget the current node; an emptied frame is popped and its parent's current node dropped *)
Fixpoint drop (it : iter) : iter :=
  match it with
  | [] => []
  | f :: rest => match f with
                 | _ :: (c :: f') => (c :: f') :: rest
                 | _ => drop rest
                 end
  end.
Definition cur (it : iter) : option (DiffTree.name * DiffTree.node) :=
  match it with (c :: _) :: _ => Some c | _ => None end.
Definition cur_path (it : iter) : dpath :=
  rev (map (fun f => match f with c :: _ => fst c | [] => [] end) it).
(* Iter.Step: into a directory that has children, else Next *)
Definition step (it : iter) : iter :=
  match cur it with
  | Some (_, DiffTree.Dir (c :: cs)) => (c :: cs) :: it
  | _ => drop it
  end.
Definition start (t : dtree) : iter := match t with [] => [] | _ => [t] end.

(* noder.Path.Compare *)
Fixpoint path_cmp (a b : dpath) : comparison :=
  match a, b with
  | [], [] => Eq
  | [], _ :: _ => Lt
  | _ :: _, [] => Gt
  | x :: a', y :: b' => match DiffTree.bytes_cmp x y with Eq => path_cmp a' b' | c => c end
  end.

(* Changes.addRecursive: the file-like noders below (and including) the current one that are not Skip() *)
Definition rec_files (skip : dpath -> bool) (p : dpath) (x : DiffTree.node) : list (dpath * dleaf) :=
  filter (fun pl => negb (skip (fst pl))) (map (fun pl => (p ++ fst pl, snd pl)) (DiffTree.files x)).

(* diffTreeIsEquals on the noders of a status walk: a directory's hash is 24 zero bytes (index,
   filesystem) or is compared with such a hash (tree against index): never equal *)
Definition same_hash (x y : DiffTree.node) : bool :=
  match x, y with DiffTree.File a, DiffTree.File b => DiffTree.leaf_eqb a b | _, _ => false end.

(* [bypath] = true: the code since "fix: pass over a skip-worktree noder by path order in
   DiffTree": a skipped noder hides the noder at the same PATH, is dropped when it sorts first,
   and waits while the other side sorts first (that noder is reported as usual);
   false: the code before: the noder with the same NAME was dropped with it wherever the other
   iterator stood, and the skipped noder was dropped otherwise *)
Fixpoint fwalk (bypath : bool) (fuel : nat) (skf skt : dpath -> bool) (F T : iter) (acc : list DiffTree.mchange)
  : option (list DiffTree.mchange) :=
  match fuel with
  | O => None
  | S k =>
    let fwalk := fwalk bypath in
    let pf := cur_path F in let pt := cur_path T in
    let dels x := map (fun pl => DiffTree.MDel (fst pl) (snd pl)) (rec_files skf pf x) in
    let inss y := map (fun pl => DiffTree.MIns (fst pl) (snd pl)) (rec_files skt pt y) in
    match cur F, cur T with
    | None, None => Some acc
    | Some (_, x), None => fwalk k skf skt (drop F) T (if skf pf then acc else acc ++ dels x)
    | None, Some (_, y) => fwalk k skf skt F (drop T) (if skt pt then acc else acc ++ inss y)
    | Some (n1, x), Some (n2, y) =>
      if skf pf then
        if bypath then
          match path_cmp pf pt with
          | Eq => fwalk k skf skt (drop F) (drop T) acc
          | Lt => fwalk k skf skt (drop F) T acc
          | Gt => fwalk k skf skt F (drop T) (acc ++ inss y)
          end
        else if DiffTree.bytes_eqb n1 n2 then fwalk k skf skt (drop F) (drop T) acc else fwalk k skf skt (drop F) T acc
      else if skt pt then
        if bypath then
          match path_cmp pf pt with
          | Eq => fwalk k skf skt (drop F) (drop T) acc
          | Gt => fwalk k skf skt F (drop T) acc
          | Lt => fwalk k skf skt (drop F) T (acc ++ dels x)
          end
        else if DiffTree.bytes_eqb n1 n2 then fwalk k skf skt (drop F) (drop T) acc else fwalk k skf skt F (drop T) acc
      else
        match path_cmp pf pt with
        | Lt => fwalk k skf skt (drop F) T (acc ++ dels x)
        | Gt => fwalk k skf skt F (drop T) (acc ++ inss y)
        | Eq =>
          if same_hash x y then fwalk k skf skt (drop F) (drop T) acc
          else match x, y with
               | DiffTree.File a, DiffTree.File b => fwalk k skf skt (drop F) (drop T) (acc ++ [DiffTree.MMod pf a b])
               | DiffTree.Dir [], DiffTree.Dir _ => fwalk k skf skt (drop F) (drop T) (acc ++ inss y)
               | DiffTree.Dir _, DiffTree.Dir [] => fwalk k skf skt (drop F) (drop T) (acc ++ dels x)
               | DiffTree.Dir _, DiffTree.Dir _ => fwalk k skf skt (step F) (step T) acc
               | _, _ => fwalk k skf skt (drop F) (drop T) (acc ++ dels x ++ inss y)
               end
        end
    end
  end.

Definition flat_difftree (bypath : bool) (skf skt : dpath -> bool) (a b : dtree) : option (list DiffTree.mchange) :=
  let a' := DiffTree.sort_tree a in let b' := DiffTree.sort_tree b in
  fwalk bypath (S (S (DiffTree.tree_size a' + DiffTree.tree_size b'))) skf skt (start a') (start b') [].

(* index noder Skip(): an entry's flag; a directory node: every entry below is flagged *)
Fixpoint is_prefix_p (a b : dpath) : bool :=
  match a, b with
  | [], _ => true
  | x :: a', y :: b' => DiffTree.bytes_eqb x y && is_prefix_p a' b'
  | _ :: _, [] => false
  end.
Definition idx_skip (ts : tstate) (p : dpath) : bool :=
  let below := filter (fun pl => is_prefix_p p (fst pl)) (fl (ts_index ts)) in
  negb (match below with [] => true | _ => false end) &&
  forallb (fun pl => mem_path (jpath (fst pl)) (ts_skip ts)) below.

Definition no_skip (_ : dpath) : bool := false.

Definition status_flat_gen (bypath : bool) (ts : tstate) (ps : list path) : option (list (path * code * code)) :=
  match flat_difftree bypath no_skip (idx_skip ts) (ts_head ts) (index_tree ts true),
        flat_difftree bypath (idx_skip ts) no_skip (index_tree ts (ts_filemode ts)) (fs_tree ts) with
  | Some l, Some r => Some (listing (fold_status l r) ps)
  | _, _ => None
  end.

Definition status_flat := status_flat_gen true.

(* ------------------------------------------------------------ NewRootNode: the tree inferred from the entry paths *)

(* m[parent].children = append(...): a new child at the end; an existing directory is reused *)
Fixpoint has_child (n : DiffTree.name) (t : dtree) : bool :=
  match t with [] => false | c :: r => DiffTree.bytes_eqb (fst c) n || has_child n r end.
Fixpoint upd_child (n : DiffTree.name) (f : dtree -> dtree) (t : dtree) : dtree :=
  match t with
  | [] => [(n, DiffTree.Dir (f []))]
  | c :: r => if DiffTree.bytes_eqb (fst c) n
              then (match snd c with DiffTree.Dir cs => (fst c, DiffTree.Dir (f cs)) | x => (fst c, x) end) :: r
              else c :: upd_child n f r
  end.
Fixpoint tins (p : dpath) (l : dleaf) (t : dtree) {struct p} : dtree :=
  match p with
  | [] => t
  | [n] => if has_child n t then t else t ++ [(n, DiffTree.File l)]
  | n :: p' => upd_child n (tins p' l) t
  end.
Definition unflat (m : list (dpath * dleaf)) : dtree := fold_left (fun t e => tins (fst e) (snd e) t) m [].

(* ------------------------------------------------------------ correspondence entry point *)

Definition all_paths_ts (ts : tstate) : list path := sort_paths (all_paths (flat_of ts (fun _ => false))).

(* the tree NewRootNode infers from the entries in index order is the index tree given (up to
   the order of children, which the iterator frames sort anyway) *)
Definition index_tree_agrees (ts : tstate) (entries : list (dpath * dleaf)) : bool :=
  DiffTree.node_eqb (DiffTree.Dir (DiffTree.sort_tree (unflat entries))) (DiffTree.Dir (DiffTree.sort_tree (ts_index ts))).

Definition opt_list_eqb (a b : option (list (path * code * code))) : bool :=
  match a, b with
  | Some x, Some y =>
    (fix go (x y : list (path * code * code)) : bool :=
       match x, y with
       | [], [] => true
       | (p, a1, b1) :: x', (q, a2, b2) :: y' => bytes_eqb p q && code_eqb a1 a2 && code_eqb b1 b2 && go x' y'
       | _, _ => false
       end) x y
  | _, _ => false
  end.

(* the listing of the two-iterator walk; when no entry is skip-worktree it must be the
   listing of the recursive merge the theorems speak about, and the given index tree must be
   the one NewRootNode infers: anything else is reported as an error value *)
Definition c27_trie_run (ts : tstate) (entries : list (dpath * dleaf)) : out :=
  let ps := all_paths_ts ts in
  match status_flat ts ps with
  | None => OErr "fuel"
  | Some recs =>
    if negb (index_tree_agrees ts entries) then OErr "index-tree"
    else if (match ts_skip ts with [] => negb (opt_list_eqb (status_rec ts ps) (Some recs)) | _ => false end)
    then OErr "walks-disagree"
    else OOk (map out_rec recs)
  end.

(* input as the python side writes it: nested lists (name hex, mode, data) *)
Inductive tin := TF (n : String.string) (m : N) (d : list N) | TD (n : String.string) (cs : list tin).
Fixpoint of_tin (t : tin) : DiffTree.name * DiffTree.node :=
  match t with
  | TF n m d => (unhex n, DiffTree.File (m, d))
  | TD n cs => (unhex n, DiffTree.Dir (map of_tin cs))
  end.

Definition mk_tstate (fmt : N) (filemode : bool) (idxtime : N) (h i w : list tin)
  (skip : list String.string) (ign ign_idx : list (list String.string * String.string)) (excl : option String.string) : tstate :=
  mkTS fmt filemode idxtime (map of_tin h) (map of_tin i) (map of_tin w) (map unhex skip)
       (map (fun f => (map unhex (fst f), unhex (snd f))) ign)
       (map (fun f => (map unhex (fst f), unhex (snd f))) ign_idx)
       (match excl with Some e => Some (unhex e) | None => None end).

Definition mk_entries (l : list (list String.string * N * list N)) : list (dpath * dleaf) :=
  map (fun x => (map unhex (fst (fst x)), (snd (fst x), snd x))) l.
