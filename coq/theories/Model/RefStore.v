(* Model/RefStore.v — G for C15: the filesystem reference store
   (storage/filesystem/dotgit: SetRef/setRefRwfs, checkReferenceAndTruncate,
   Ref, Refs, RemoveRef + rewritePackedRefsWithoutRef, PackRefs, processLine,
   readReferenceFrom, packedRef; plumbing: NewReferenceFromStrings, NewHash,
   ObjectID.String) over a small model of the directory tree a real
   filesystem keeps (regular files, directories that stay behind, ENOTDIR /
   EISDIR / ENOTEMPTY refusals).  Executable definitions only.

   The code is modelled as it is after the repairs
     "fix: PackRefs leaves symbolic references loose …",
     "fix: RemoveRef drops the peeled line of the packed reference it removes" and
     "fix: rewrite packed-refs before deleting the loose file in RemoveRef";
   the empty file left behind by a failed CheckAndSetReference is modelled
   faithfully (known finding, see Properties/C15.v). *)
From Coq Require Import List Arith NArith ZArith Bool String.
From GoGit Require Import Base.Out Model.RefStrings Model.RefName Model.RefGuard Gen.C14.
Import ListNotations.
Local Open Scope N_scope.

(* ---------------------------------------------------------------- values *)

(* plumbing.ObjectID: 32 bytes of storage + the SHA-256 format flag *)
Inductive refval :=
| VHash (h : bytes) (f256 : bool)
| VSym (target : bytes).

Definition zeros32 : bytes := repeat 0 32.

Definition hexv (c : N) : option N :=
  if (48 <=? c) && (c <=? 57) then Some (c - 48)
  else if (97 <=? c) && (c <=? 102) then Some (c - 87)
  else if (65 <=? c) && (c <=? 70) then Some (c - 55)
  else None.

(* encoding/hex.DecodeString: None on odd length or a non-hex byte *)
Fixpoint decode_hex (s : bytes) : option bytes :=
  match s with
  | [] => Some []
  | a :: b :: r =>
    match hexv a, hexv b, decode_hex r with
    | Some x, Some y, Some t => Some (16 * x + y :: t)
    | _, _, _ => None
    end
  | [_] => None
  end.

(* plumbing.NewHash / FromHex: format from the text length, bytes copied into
   the 32-byte array (short input leaves zeros, long input is cut) *)
Definition new_hash (s : bytes) : refval :=
  let f := Nat.eqb (List.length s) 64 in
  match decode_hex s with
  | Some bs => VHash (firstn 32 (bs ++ zeros32)) f
  | None => VHash zeros32 f
  end.

Definition hexc (n : N) : N := if n <? 10 then 48 + n else 87 + n.
Fixpoint encode_hex (b : bytes) : bytes :=
  match b with
  | [] => []
  | c :: r => hexc (c / 16) :: hexc (c mod 16) :: encode_hex r
  end.

(* ObjectID.String *)
Definition hash_string (h : bytes) (f256 : bool) : bytes :=
  encode_hex (firstn (if f256 then 32 else 20) h).

Definition symrefPrefix : bytes := Zs plumbing_symrefPrefix.   (* "ref: " *)

(* plumbing.NewReferenceFromStrings(name, target): the value part *)
Definition ref_from_strings (target : bytes) : refval :=
  if has_prefix symrefPrefix target then VSym (skipn (List.length symrefPrefix) target)
  else new_hash target.

(* Reference.Hash(): the zero ObjectID for a symbolic reference *)
Definition hash_of (v : refval) : bytes * bool :=
  match v with VHash h f => (h, f) | VSym _ => (zeros32, false) end.
Definition hash_eqb (a b : bytes * bool) : bool := beqb (fst a) (fst b) && Bool.eqb (snd a) (snd b).

(* ---------------------------------------------------------------- the tree *)

Record fsys := { files : list (bytes * bytes); dirs : list bytes }.

Fixpoint lookup (p : bytes) (l : list (bytes * bytes)) : option bytes :=
  match l with
  | [] => None
  | (q, c) :: r => if beqb p q then Some c else lookup p r
  end.

Fixpoint set_file (p c : bytes) (l : list (bytes * bytes)) : list (bytes * bytes) :=
  match l with
  | [] => [(p, c)]
  | (q, d) :: r => if beqb p q then (p, c) :: r else (q, d) :: set_file p c r
  end.

Definition del_file (p : bytes) (l : list (bytes * bytes)) : list (bytes * bytes) :=
  filter (fun e => negb (beqb p (fst e))) l.

(* the proper ancestor directories of a path: "a/b/c" -> ["a"; "a/b"] *)
Fixpoint parents_from (pre : bytes) (s : bytes) : list bytes :=
  match s with
  | [] => []
  | c :: r => if c =? 47 then rev pre :: parents_from (c :: pre) r else parents_from (c :: pre) r
  end.
Definition parents (p : bytes) : list bytes := parents_from [] p.

Definition is_dir (f : fsys) (p : bytes) : bool := existsb (beqb p) (dirs f).
Definition is_file (f : fsys) (p : bytes) : bool :=
  match lookup p (files f) with Some _ => true | None => false end.
(* some ancestor is a regular file: the kernel answers ENOTDIR *)
Definition file_above (f : fsys) (p : bytes) : bool := existsb (is_file f) (parents p).
Definition under (d p : bytes) : bool := has_prefix (d ++ [47]) p.
Definition dir_nonempty (f : fsys) (d : bytes) : bool :=
  existsb (fun e => under d (fst e)) (files f) || existsb (under d) (dirs f).

Inductive statr := SFile (c : bytes) | SDir | SNoEnt | SNotDir.
Definition stat (f : fsys) (p : bytes) : statr :=
  match lookup p (files f) with
  | Some c => SFile c
  | None => if is_dir f p then SDir else if file_above f p then SNotDir else SNoEnt
  end.

Fixpoint add_dirs (ds : list bytes) (have : list bytes) : list bytes :=
  match ds with
  | [] => have
  | d :: r => if existsb (beqb d) have then add_dirs r have else add_dirs r (have ++ [d])
  end.

(* OpenFile(p, O_RDWR|O_CREATE[|O_TRUNC]) of billy's osfs: MkdirAll of the
   parent, then open.  None = the OS refused (ENOTDIR, EISDIR) with no effect *)
Definition open_create (f : fsys) (p : bytes) (trunc : bool) : option fsys :=
  if file_above f p then None
  else if is_dir f p then None
  else
    let ds := add_dirs (parents p) (dirs f) in
    match lookup p (files f) with
    | Some c => Some {| files := if trunc then set_file p [] (files f) else files f; dirs := ds |}
    | None => Some {| files := set_file p [] (files f); dirs := ds |}
    end.

Definition write_file (f : fsys) (p c : bytes) : fsys :=
  {| files := set_file p c (files f); dirs := dirs f |}.

(* ---------------------------------------------------------------- state, errors *)

Record store := { fs : fsys; packed : option bytes }.

Inductive err := EEscape | EChanged | ENotFound | EBadPacked | EEmpty | EIsDir | EFs.

Definition err_name (e : err) : string :=
  match e with
  | EEscape => "escape" | EChanged => "changed" | ENotFound => "notfound"
  | EBadPacked => "badpacked" | EEmpty => "empty" | EIsDir => "isdir" | EFs => "fs"
  end.

Inductive res (A : Type) := Ok (a : A) | Er (e : err).
Arguments Ok {A} a.  Arguments Er {A} e.

(* ---------------------------------------------------------------- packed-refs *)

(* bufio.ScanLines: split at LF, drop one trailing CR, no token for an empty tail *)
Definition strip_cr (l : bytes) : bytes :=
  match rev l with c :: r => if c =? 13 then rev r else l | [] => l end.
Definition scan_lines (b : bytes) : list bytes :=
  let segs := split_on 10 b in
  let segs' := match rev segs with [] :: r => rev r | _ => segs end in
  map strip_cr segs'.

(* processLine: None = ErrPackedRefsBadFormat; Some None = nothing on this line *)
Definition process_line (line : bytes) : option (option (bytes * refval)) :=
  match line with
  | [] => Some None
  | c :: _ =>
    if (c =? 35) || (c =? 94) then Some None
    else match split_on 32 line with
         | [w0; w1] => Some (Some (w1, ref_from_strings w0))
         | _ => None
         end
  end.

(* packedRef / findPackedRefsInFile with the "stop at the first match" receiver *)
Fixpoint find_packed (name : bytes) (lines : list bytes) : res (option refval) :=
  match lines with
  | [] => Ok None
  | l :: r =>
    match process_line l with
    | None => Er EBadPacked
    | Some (Some (n, v)) => if beqb n name then Ok (Some v) else find_packed name r
    | Some None => find_packed name r
    end
  end.

Definition packed_ref (s : store) (name : bytes) : res refval :=
  match packed s with
  | None => Er ENotFound
  | Some b =>
    match find_packed name (scan_lines b) with
    | Er e => Er e
    | Ok (Some v) => Ok v
    | Ok None => Er ENotFound
    end
  end.

(* findPackedRefsInFile with refsRecvFunc(refs, seen): every line is parsed,
   names already seen are skipped *)
Fixpoint packed_all (lines : list bytes) (seen : list bytes) (acc : list (bytes * refval))
  : res (list (bytes * refval)) :=
  match lines with
  | [] => Ok (rev acc)
  | l :: r =>
    match process_line l with
    | None => Er EBadPacked
    | Some (Some (n, v)) =>
      if existsb (beqb n) seen then packed_all r seen acc else packed_all r (n :: seen) ((n, v) :: acc)
    | Some None => packed_all r seen acc
    end
  end.

(* ---------------------------------------------------------------- loose refs *)

(* readReferenceFrom: ErrEmptyRefFile on an empty file, else TrimSpace + NewReferenceFromStrings *)
Definition read_ref_content (c : bytes) : res refval :=
  match c with
  | [] => Er EEmpty
  | _ => Ok (ref_from_strings (trim_space c))
  end.

(* readReferenceFile(".", name).  The not-exist case is separated because the
   callers test os.IsNotExist *)
Inductive rfile := RVal (v : refval) | RNoEnt | RErr (e : err).
Definition read_ref_file (f : fsys) (name : bytes) : rfile :=
  match stat f name with
  | SFile c => match read_ref_content c with Ok v => RVal v | Er e => RErr e end
  | SDir => RErr EIsDir
  | SNoEnt => RNoEnt
  | SNotDir => RErr EFs
  end.

Definition HEADp : bytes := Zs plumbing_HEAD.
Definition refsDir : bytes := Zs dotgit_refsPath.

(* walkReferencesTree from "refs": every regular file below refs/ is read;
   the first unreadable one aborts the walk.  (Directory order is not
   modelled: listings are compared sorted, and whether some file is unreadable
   does not depend on the order.) *)
Fixpoint walk_files (l : list (bytes * bytes)) : res (list (bytes * refval)) :=
  match l with
  | [] => Ok []
  | (p, c) :: r =>
    if under refsDir p then
      match read_ref_content c, walk_files r with
      | Er e, _ => Er e
      | _, Er e => Er e
      | Ok v, Ok t => Ok ((p, v) :: t)
      end
    else walk_files r
  end.

Definition walk_refs (f : fsys) : res (list (bytes * refval)) :=
  if is_file f refsDir then Er EFs else walk_files (files f).

(* ---------------------------------------------------------------- operations *)

Definition ref_content (v : refval) : bytes :=
  match v with
  | VSym t => symrefPrefix ++ t ++ [10]
  | VHash h f => hash_string h f ++ [10]
  end.

(* SetRef(r, old) through setRefRwfs *)
Definition set_ref (s : store) (name : bytes) (v : refval) (old : option refval) : store * res unit :=
  if negb (valid_reference_name name) then (s, Er EEscape)
  else
    match open_create (fs s) name (match old with None => true | Some _ => false end) with
    | None => (s, Er EFs)
    | Some f1 =>
      let s1 := {| fs := f1; packed := packed s |} in
      let done := ({| fs := write_file f1 name (ref_content v); packed := packed s |}, Ok tt) in
      match old with
      | None => done
      | Some o =>
        let cur := match lookup name (files f1) with Some c => c | None => [] end in
        let r := match cur with
                 | [] => packed_ref s1 name
                 | _ => Ok (ref_from_strings (trim_space cur))
                 end in
        match r with
        | Er e => (s1, Er e)
        | Ok rv => if hash_eqb (hash_of rv) (hash_of o) then done else (s1, Er EChanged)
        end
      end
    end.

(* Ref(name) *)
Definition get_ref (s : store) (name : bytes) : res refval :=
  if negb (valid_reference_name name) then Er EEscape
  else match read_ref_file (fs s) name with
       | RVal v => Ok v
       | _ => packed_ref s name
       end.

(* insertion sort by name (Go: sort.SliceStable in the harness; the store's
   own order — HEAD, directory walk, packed-refs file order — is not a
   projected observable) *)
Fixpoint ble (a b : bytes) : bool :=
  match a, b with
  | [], _ => true
  | _ :: _, [] => false
  | x :: a', y :: b' => if x <? y then true else if y <? x then false else ble a' b'
  end.
Fixpoint insert_ref (e : bytes * refval) (l : list (bytes * refval)) : list (bytes * refval) :=
  match l with
  | [] => [e]
  | x :: r => if ble (fst x) (fst e) then x :: insert_ref e r else e :: l
  end.
Definition sort_refs (l : list (bytes * refval)) : list (bytes * refval) :=
  fold_left (fun acc e => insert_ref e acc) l [].

(* Refs(): HEAD, the loose walk, packed-refs minus what was seen *)
Definition list_refs (s : store) : res (list (bytes * refval)) :=
  match (match read_ref_file (fs s) HEADp with
         | RVal v => Ok [(HEADp, v)] | RNoEnt => Ok [] | RErr e => Er e end) with
  | Er e => Er e
  | Ok hd =>
    match walk_refs (fs s) with
    | Er e => Er e
    | Ok loose =>
      match (match packed s with
             | None => Ok []
             | Some b => packed_all (scan_lines b) (map fst loose) [] end) with
      | Er e => Er e
      | Ok pk => Ok (hd ++ loose ++ pk)
      end
    end
  end.

(* rewritePackedRefsWithoutRef: the kept lines, and whether the name was found *)
Fixpoint drop_lines (name : bytes) (lines : list bytes) (removed_prev : bool)
  : res (list bytes * bool) :=
  match lines with
  | [] => Ok ([], false)
  | l :: r =>
    match process_line l with
    | None => Er EBadPacked
    | Some pl =>
      let is_name := match pl with Some (n, _) => beqb n name | None => false end in
      if is_name then
        match drop_lines name r true with Er e => Er e | Ok (k, _) => Ok (k, true) end
      else if removed_prev && has_prefix [94] l then drop_lines name r true
      else match drop_lines name r false with Er e => Er e | Ok (k, fnd) => Ok (l :: k, fnd) end
    end
  end.

Definition unlines (ls : list bytes) : bytes := flat_map (fun l => l ++ [10]) ls.

(* RemoveRef(name) *)
Definition remove_ref (s : store) (name : bytes) : store * res unit :=
  if negb (valid_reference_name name) then (s, Er EEscape)
  else
    (* the packed entry goes first ("fix: rewrite packed-refs before deleting the
       loose file in RemoveRef"); a malformed packed-refs stops here, nothing changed *)
    let after_packed : res (option bytes) :=
      match packed s with
      | None => Ok None
      | Some b =>
        match drop_lines name (scan_lines b) false with
        | Er e => Er e
        | Ok (kept, true) => Ok (Some (unlines kept))
        | Ok (_, false) => Ok (Some b)
        end
      end in
    match after_packed with
    | Er e => (s, Er e)
    | Ok p1 =>
      let f := fs s in
      (* then Stat + Remove of the loose path; a refusal by the OS comes after
         packed-refs has been rewritten *)
      match stat f name with
      | SFile _ => ({| fs := {| files := del_file name (files f); dirs := dirs f |}; packed := p1 |}, Ok tt)
      | SDir => if dir_nonempty f name then ({| fs := f; packed := p1 |}, Er EFs)
                else ({| fs := {| files := files f; dirs := filter (fun d => negb (beqb name d)) (dirs f) |};
                         packed := p1 |}, Ok tt)
      | SNoEnt => ({| fs := f; packed := p1 |}, Ok tt)
      | SNotDir => ({| fs := f; packed := p1 |}, Er EFs)
      end
    end.

Definition packed_line (e : bytes * refval) : list bytes :=
  match snd e with
  | VHash h f => [hash_string h f ++ [32] ++ fst e]
  | VSym _ => []                                  (* symbolic references stay loose *)
  end.

Definition is_hash_ref (e : bytes * refval) : bool :=
  match snd e with VHash _ _ => true | VSym _ => false end.

(* PackRefs() *)
Definition pack_refs (s : store) : store * res unit :=
  let b := match packed s with Some b => b | None => [] end in      (* O_CREATE *)
  let s0 := {| fs := fs s; packed := Some b |} in
  match walk_refs (fs s) with
  | Er e => (s0, Er e)
  | Ok [] => (s0, Ok tt)
  | Ok loose =>
    match packed_all (scan_lines b) (map fst loose) [] with
    | Er e => (s0, Er e)
    | Ok pk =>
      let newb := unlines (flat_map packed_line (loose ++ pk)) in
      let gone := map fst (filter is_hash_ref loose) in
      ({| fs := {| files := filter (fun e => negb (existsb (beqb (fst e)) gone)) (files (fs s));
                   dirs := dirs (fs s) |};
          packed := Some newb |}, Ok tt)
    end
  end.

(* ---------------------------------------------------------------- driver *)

Inductive op :=
| OSet (name : bytes) (v : refval) (old : option refval)
| ORef (name : bytes)
| ORefs
| ORm (name : bytes)
| OPack.

Definition out_ref (e : bytes * refval) : out :=
  match snd e with
  | VSym t => OList [OBytes (fst e); OSym "sym"; OBytes t]
  | VHash h f => OList [OBytes (fst e); OSym "hash"; OBytes (hash_string h f)]
  end.

Definition out_unit (r : res unit) : out :=
  match r with Ok _ => OOk [] | Er e => OErr (err_name e) end.

(* typed results of one operation *)
Inductive tres :=
| TUnit (r : res unit)
| TRef (n : bytes) (r : res refval)
| TList (r : res (list (bytes * refval))).

Definition step_t (s : store) (o : op) : store * tres :=
  match o with
  | OSet n v old => let (s', r) := set_ref s n v old in (s', TUnit r)
  | ORef n => (s, TRef n (get_ref s n))
  | ORefs => (s, TList (list_refs s))
  | ORm n => let (s', r) := remove_ref s n in (s', TUnit r)
  | OPack => let (s', r) := pack_refs s in (s', TUnit r)
  end.

Definition out_tres (r : tres) : out :=
  match r with
  | TUnit r => out_unit r
  | TRef n (Ok v) => OOk [out_ref (n, v)]
  | TRef _ (Er e) => OErr (err_name e)
  | TList (Ok l) => OOk [OList (map out_ref (sort_refs l))]
  | TList (Er e) => OErr (err_name e)
  end.

Definition step (s : store) (o : op) : store * out :=
  let (s', r) := step_t s o in (s', out_tres r).

Fixpoint run (s : store) (ops : list op) : list out :=
  match ops with
  | [] => []
  | o :: r => let (s', x) := step s o in x :: run s' r
  end.

(* case encoding used by the correspondence: everything hex *)
Definition mk_sym (target_hex : string) : refval := VSym (unhex target_hex).
Definition mk_hash (text : string) : refval := new_hash (bytes_of_string text).   (* plumbing.NewHash(text) *)

Definition c15_init (fl : list (string * string)) (ds : list string) (pk : option string) : store :=
  let fs0 := map (fun e => (unhex (fst e), unhex (snd e))) fl in
  {| fs := {| files := fs0;
              dirs := add_dirs (flat_map (fun e => parents (fst e)) fs0
                                ++ flat_map (fun d => parents (unhex d) ++ [unhex d]) ds) [] |};
     packed := match pk with Some h => Some (unhex h) | None => None end |}.

Definition c15_run (s : store) (ops : list op) : out := OList (run s ops).
