(* Model/IndexCache.v — G for C20: storage/filesystem/index.go (IndexStorage.Index,
   SetIndex, copyIndex) and indexcache.go (statIndexCache), as an aliasing model.

   Entries live in heap cells (a Go *index.Entry is an address).  An
   *index.Index held by a caller is its Entries slice: a list of addresses.
   The cache holds such a list plus the stat key (mtime, size) of the file it
   was read from / written to.  [deep] selects what copyIndex copies:
     deep = false : a fresh slice with the SAME addresses (the tree as found)
     deep = true  : fresh cells as well (after "fix: copy the entries in copyIndex")
   The on-disk file is its decoded content plus its stat key; every write of
   the file (SetIndex or external) produces a key never seen before — the
   premise of the property.  Executable definitions only. *)
From Coq Require Import List NArith Arith Bool String.
From GoGit Require Import Base.Out.
Import ListNotations.

Definition val := (N * N)%type.            (* entry: name id, content id *)

Record st := mkSt {
  heap : list (nat * val);                 (* newest binding first *)
  next : nat;                              (* next fresh address *)
  disk : option (list val * nat);          (* decode of .git/index, stat key *)
  clock : nat;                             (* last stat key handed out *)
  cache : option (list nat * nat);         (* statIndexCache: cached, (modTime,fileSize) *)
  handles : list (list nat) }.             (* Entries slices held by callers *)

Definition init : st := mkSt [] 0 None 0 None [].

Fixpoint lookup (a : nat) (h : list (nat * val)) : option val :=
  match h with
  | [] => None
  | (b, v) :: r => if Nat.eqb a b then Some v else lookup a r
  end.
Definition deref (s : st) (a : nat) : val :=
  match lookup a (heap s) with Some v => v | None => (0%N, 0%N) end.
Definition view (s : st) (l : list nat) : list val := map (deref s) l.

(* new(Entry) for each value *)
Definition alloc (vals : list val) (s : st) : list nat * st :=
  let addrs := seq (next s) (List.length vals) in
  (addrs, mkSt (combine addrs vals ++ heap s) (next s + List.length vals) (disk s) (clock s) (cache s) (handles s)).

(* copyIndex *)
Definition copy_index (deep : bool) (l : list nat) (s : st) : list nat * st :=
  if deep then alloc (view s l) s else (l, s).

(* sort.Sort(byNameAndStage) on the slice, by the name in the cell; names are unique in the cases *)
Fixpoint insert_by (key : nat -> N) (x : nat) (l : list nat) : list nat :=
  match l with
  | [] => [x]
  | y :: r => if N.leb (key x) (key y) then x :: l else y :: insert_by key x r
  end.
Definition sort_addrs (s : st) (l : list nat) : list nat := fold_right (insert_by (fun a => fst (deref s a))) [] l.
Fixpoint insert_val (x : val) (l : list val) : list val :=
  match l with
  | [] => [x]
  | y :: r => if N.leb (fst x) (fst y) then x :: l else y :: insert_val x r
  end.
Definition sort_vals (l : list val) : list val := fold_right insert_val [] l.

Definition set_cache c (s : st) := mkSt (heap s) (next s) (disk s) (clock s) c (handles s).
Definition set_handles hs (s : st) := mkSt (heap s) (next s) (disk s) (clock s) (cache s) hs.

(* IndexStorage.Index: the slice it returns, and the state afterwards *)
Definition index_core (deep : bool) (s : st) : list nat * st :=
  match disk s with
  | None => ([], set_cache None s)                       (* no file: cache.Clear(), empty index *)
  | Some (content, key) =>
    match cache s with
    | Some (addrs, k) =>
      if Nat.eqb k key then copy_index deep addrs s      (* cache hit *)
      else let '(addrs', s1) := alloc content s in       (* decode, cache.Set(idx), return copyIndex(idx) *)
           copy_index deep addrs' (set_cache (Some (addrs', key)) s1)
    | None => let '(addrs', s1) := alloc content s in
              copy_index deep addrs' (set_cache (Some (addrs', key)) s1)
    end
  end.

Fixpoint set_nth {A} (k : nat) (x : A) (l : list A) : list A :=
  match l, k with
  | [], _ => []
  | _ :: r, O => x :: r
  | y :: r, S k' => y :: set_nth k' x r
  end.
Fixpoint remove_nth {A} (k : nat) (l : list A) : list A :=
  match l, k with
  | [], _ => []
  | _ :: r, O => r
  | y :: r, S k' => y :: remove_nth k' r
  end.

Inductive op :=
| OIndex                                   (* h := Storer.Index() *)
| OMutate (h k : nat) (v : N)              (* h.Entries[k].Hash = v      (write through the pointer) *)
| OReplace (h k : nat) (x : val)           (* h.Entries[k] = &Entry{..}  (indexBuilder Remove+Add) *)
| OAppend (h : nat) (x : val)              (* h.Entries = append(h.Entries, &Entry{..}) *)
| ORemove (h k : nat)                      (* h.Entries = append(h.Entries[:k], h.Entries[k+1:]...) *)
| OSetIndex (h : nat)                      (* Storer.SetIndex(h) *)
| OExternal (content : list val)           (* another process rewrites .git/index *)
| OExtDelete.                              (* ... or removes it *)

Definition step (deep : bool) (s : st) (o : op) : st :=
  match o with
  | OIndex => let '(l, s1) := index_core deep s in set_handles (handles s1 ++ [l]) s1
  | OMutate h k v =>
    match nth_error (handles s) h with
    | Some l => match nth_error l k with
                | Some a => mkSt ((a, (fst (deref s a), v)) :: heap s) (next s) (disk s) (clock s) (cache s) (handles s)
                | None => s
                end
    | None => s
    end
  | OReplace h k x =>
    match nth_error (handles s) h with
    | Some l => if Nat.ltb k (List.length l) then
                  let '(a, s1) := alloc [x] s in
                  set_handles (set_nth h (set_nth k (hd 0 a) l) (handles s1)) s1
                else s
    | None => s
    end
  | OAppend h x =>
    match nth_error (handles s) h with
    | Some l => let '(a, s1) := alloc [x] s in set_handles (set_nth h (l ++ a) (handles s1)) s1
    | None => s
    end
  | ORemove h k =>
    match nth_error (handles s) h with
    | Some l => set_handles (set_nth h (remove_nth k l) (handles s)) s
    | None => s
    end
  | OSetIndex h =>
    match nth_error (handles s) h with
    | Some l =>
      let l' := sort_addrs s l in                       (* Encode sorts idx.Entries in place *)
      let key := S (clock s) in
      let s1 := mkSt (heap s) (next s) (Some (view s l', key)) key (cache s) (set_nth h l' (handles s)) in
      let '(c, s2) := copy_index deep l' s1 in          (* cp := copyIndex(idx); cache.Set(cp, mtime, size) *)
      set_cache (Some (c, key)) s2
    | None => s
    end
  | OExternal content =>
    mkSt (heap s) (next s) (Some (sort_vals content, S (clock s))) (S (clock s)) (cache s) (handles s)
  | OExtDelete => mkSt (heap s) (next s) None (clock s) (cache s) (handles s)
  end.

Definition run (deep : bool) (ops : list op) : st := fold_left (step deep) ops init.

(* what a reader gets now / what is on disk *)
Definition read_now (deep : bool) (s : st) : list val * st :=
  let '(l, s1) := index_core deep s in (view s1 l, s1).
Definition disk_content (s : st) : list val := match disk s with Some (c, _) => c | None => [] end.

(* ---- correspondence: after every operation the harness calls Index() and decodes the file ---- *)
Definition vals_out (l : list val) : out := OList (map (fun v => OList [ON (fst v); ON (snd v)]) l).

Fixpoint trace (deep : bool) (s : st) (ops : list op) : list out :=
  match ops with
  | [] => []
  | o :: r =>
    let s1 := step deep s o in
    let '(v, s2) := read_now deep s1 in
    OList [vals_out v; vals_out (disk_content s2)] :: trace deep s2 r
  end.

Definition c20_store (deep : bool) (ops : list op) : out := OList (trace deep init ops).

(* ---- correspondence with QUIET steps: after an operation flagged [true] the harness does not call
   Index(), so the caller's own next Index() is the one that meets the cache as that operation left
   it — in particular the first Index() after an external rewrite is a cache MISS (decode, cache.Set,
   return copyIndex) whose result the following operations hold and modify.  With all flags false
   this is [trace] (Proofs/C20.v: trace_q_all_loud). ---- *)
Fixpoint trace_q (deep : bool) (s : st) (ops : list (bool * op)) : list out :=
  match ops with
  | [] => []
  | (q, o) :: r =>
    let s1 := step deep s o in
    if q then OSym "quiet" :: trace_q deep s1 r
    else let '(v, s2) := read_now deep s1 in
         OList [vals_out v; vals_out (disk_content s2)] :: trace_q deep s2 r
  end.

Definition c20_store_q (deep : bool) (ops : list (bool * op)) : out := OList (trace_q deep init ops).
