(* Model/Delta.v — G for C06: plumbing/format/packfile/{patch_delta,diff_delta,
   delta_index}.go and packfile/util (LEB128).  Executable definitions only.

   Go `uint` is 64 bits wide on the platform the property is about
   (packutil.uintBits = 64, regenerated into Gen/C06.v); the only place where
   the width is observable is the LEB128 length rule `sz*7 > uintBits-7`
   (a varint may have at most 9 bytes = 63 payload bits) and the wrap-around
   inside invalidOffsetSize/sumOverflows, both written out below. *)
From Coq Require Import List NArith Bool String.
From GoGit Require Import Base.Out.
Import ListNotations.
Local Open Scope N_scope.

Inductive derr := EInvalid | ECmd | EOverflow | EEof | EFuel.
Inductive res (A : Type) := Ok (a : A) | Err (e : derr).
Arguments Ok {A} a.
Arguments Err {A} e.

Definition is_nil {A} (l : list A) : bool := match l with [] => true | _ => false end.
Definition len (b : bytes) : N := N.of_nat (List.length b).
(* b[:n] and b[n:] for n clipped to len b (the clip only keeps huge header
   values from being converted to unary numbers when the model is evaluated) *)
Definition take (n : N) (b : bytes) : bytes := firstn (N.to_nat (N.min n (len b))) b.
Definition drop (n : N) (b : bytes) : bytes := skipn (N.to_nat (N.min n (len b))) b.
(* src[off : off+sz] (callers guarantee off+sz <= len src where Go would panic) *)
Definition slice (b : bytes) (off sz : N) : bytes := take sz (drop off b).

(* ---- leaf predicates (patch_delta.go:440-527); tied to Gen/C06.v in Proofs/C06Leaf.v *)
Definition mask_continue : N := 128.
Definition max_copy_size : N := 65536.
Definition is_copy_src (cmd : N) : bool := negb (N.land cmd mask_continue =? 0).
Definition is_copy_delta (cmd : N) : bool := (N.land cmd mask_continue =? 0) && negb (cmd =? 0).
Definition invalid_size (sz remaining : N) : bool := remaining <? sz.
Definition sum_overflows (a b : N) : bool := (a + b) mod 2 ^ 64 <? a.
Definition invalid_offset_size (off sz srcsz : N) : bool :=
  sum_overflows off sz || (srcsz <? (off + sz) mod 2 ^ 64).

(* ---- packutil.DecodeLEB128 (buffer variant): an empty input decodes to 0, a
   varint cut by the end of the input is accepted, the 10th byte is an overflow *)
Definition leb_step (acc b : N) (k : nat) : N :=
  N.lor acc (N.shiftl (N.land b 127) (7 * N.of_nat k)).

Fixpoint leb_buf_go (inp : bytes) (k : nat) (acc : N) : res (N * bytes) :=
  match inp with
  | [] => Ok (acc, [])
  | b :: r =>
    if Nat.ltb 8 k then Err EOverflow          (* sz*7 > uintBits-7 *)
    else
      let acc' := leb_step acc b k in
      if (N.land b 128 =? 0) || is_nil r then Ok (acc', r) else leb_buf_go r (S k) acc'
  end.
Definition leb_buf (inp : bytes) : res (N * bytes) := leb_buf_go inp 0 0.

(* ---- packutil.DecodeLEB128FromReader: end of input is io.EOF *)
Fixpoint leb_rd_go (inp : bytes) (k : nat) (acc : N) : res (N * bytes) :=
  if Nat.ltb 8 k then Err EOverflow
  else match inp with
       | [] => Err EEof
       | b :: r =>
         let acc' := leb_step acc b k in
         if N.land b 128 =? 0 then Ok (acc', r) else leb_rd_go r (S k) acc'
       end.
Definition leb_rd (inp : bytes) : res (N * bytes) := leb_rd_go inp 0 0.

(* ---- decodeOffset / decodeSize (both the []byte and the io.ByteReader
   variants walk the same (mask, shift) tables; None = the input ended) *)
Definition offsets_tbl : list (N * N) := [(1, 0); (2, 8); (4, 16); (8, 24)].
Definition sizes_tbl : list (N * N) := [(16, 0); (32, 8); (64, 16)].

Fixpoint dec_params (tbl : list (N * N)) (cmd : N) (d : bytes) (acc : N) : option (N * bytes) :=
  match tbl with
  | [] => Some (acc, d)
  | (mask, shift) :: t =>
    if N.land cmd mask =? 0 then dec_params t cmd d acc
    else match d with
         | [] => None
         | b :: r => dec_params t cmd r (N.lor acc (N.shiftl b shift))
         end
  end.
Definition dec_offset (cmd : N) (d : bytes) : option (N * bytes) := dec_params offsets_tbl cmd d 0.
Definition dec_size (cmd : N) (d : bytes) : option (N * bytes) :=
  match dec_params sizes_tbl cmd d 0 with
  | Some (sz, r) => Some (if sz =? 0 then max_copy_size else sz, r)
  | None => None
  end.

Definition prefix_res (p : bytes) (r : res bytes) : res bytes :=
  match r with Ok t => Ok (p ++ t) | Err e => Err e end.

(* ---- G1: patchDelta (buffer applier), patch_delta.go:247 *)
Fixpoint pd_loop (fuel : nat) (src : bytes) (srcsz : N) (delta : bytes) (rem : N) : res bytes :=
  if rem =? 0 then (if is_nil delta then Ok [] else Err EInvalid)   (* `data != top` check *)
  else match fuel with
  | O => Err EFuel
  | S f =>
    match delta with
    | [] => Err EInvalid
    | cmd :: d =>
      if is_copy_src cmd then
        match dec_offset cmd d with
        | None => Err EInvalid
        | Some (off, d1) =>
          match dec_size cmd d1 with
          | None => Err EInvalid
          | Some (sz, d2) =>
            if invalid_size sz rem || invalid_offset_size off sz srcsz then Err EInvalid
            else prefix_res (slice src off sz) (pd_loop f src srcsz d2 (rem - sz))
          end
        end
      else if is_copy_delta cmd then
        if invalid_size cmd rem then Err EInvalid
        else if len d <? cmd then Err EInvalid
        else prefix_res (take cmd d) (pd_loop f src srcsz (drop cmd d) (rem - cmd))
      else Err ECmd
    end
  end.

Definition patch_delta (src delta : bytes) : res bytes :=
  match leb_buf delta with
  | Err e => Err e
  | Ok (srcsz, d1) =>
    if negb (srcsz =? len src) then Err EInvalid
    else match leb_buf d1 with
         | Err e => Err e
         | Ok (tgtsz, d2) => pd_loop (S (List.length d2)) src srcsz d2 tgtsz
         end
  end.

(* the exported wrapper PatchDelta, patch_delta.go:98 *)
Definition patch_delta_wrapper (src delta : bytes) : res bytes :=
  if is_nil src || (len delta <? 2) then Err EInvalid else patch_delta src delta.

(* ---- G2: ReaderFromDelta (streaming applier), patch_delta.go:111, as seen by
   a consumer that reads the pipe to its end.  The base object is re-opened
   when a copy goes backwards and skipped forward otherwise: [rd] is what is
   left of the currently open base reader, [pos] the bytes consumed from it. *)
Definition base_seek (src rd : bytes) (pos off : N) : bytes :=
  if off <? pos then drop off src else drop (off - pos) rd.

Fixpoint rfd_loop (fuel : nat) (src : bytes) (srcsz : N) (rd : bytes) (pos : N)
         (delta : bytes) (rem : N) : res bytes :=
  if rem =? 0 then (if is_nil delta then Ok [] else Err EInvalid)
  else match fuel with
  | O => Err EFuel
  | S f =>
    match delta with
    | [] => Err EInvalid
    | cmd :: d =>
      if is_copy_src cmd then
        match dec_offset cmd d with
        | None => Err EInvalid
        | Some (off, d1) =>
          match dec_size cmd d1 with
          | None => Err EInvalid
          | Some (sz, d2) =>
            if invalid_size sz rem || invalid_offset_size off sz srcsz then Err EInvalid
            else
              let rd1 := base_seek src rd pos off in
              prefix_res (take sz rd1) (rfd_loop f src srcsz (drop sz rd1) (off + sz) d2 (rem - sz))
          end
        end
      else if is_copy_delta cmd then
        if invalid_size cmd rem then Err EInvalid
        else if len d <? cmd then Err EInvalid
        else prefix_res (take cmd d) (rfd_loop f src srcsz rd pos (drop cmd d) (rem - cmd))
      else Err ECmd
    end
  end.

Definition eof_invalid {A} (r : res A) : res A :=
  match r with Err EEof => Err EInvalid | _ => r end.

Definition reader_from_delta (src delta : bytes) : res bytes :=
  match eof_invalid (leb_rd delta) with
  | Err e => Err e
  | Ok (srcsz, d1) =>
    if negb (srcsz =? len src) then Err EInvalid
    else match eof_invalid (leb_rd d1) with
         | Err e => Err e
         | Ok (tgtsz, d2) => rfd_loop (S (List.length d2)) src srcsz src 0 d2 tgtsz
         end
  end.

(* ---- G3: patchDeltaWriter (the pack parser's applier), patch_delta.go:322.
   [bytes_base] says whether the base io.ReaderAt is a *bytes.Reader: only then
   is the declared source size compared with the base.  Copies read through
   io.NewSectionReader(base, 0, srcSz) and io.LimitedReader: a range that lies
   beyond the real end of the base silently yields fewer bytes. *)
Fixpoint pdw_loop (fuel : nat) (sect : bytes) (srcsz : N) (delta : bytes) (rem : N) : res bytes :=
  if rem =? 0 then (if is_nil delta then Ok [] else Err EInvalid)
  else match fuel with
  | O => Err EFuel
  | S f =>
    match delta with
    | [] => Err EInvalid
    | cmd :: d =>
      if is_copy_src cmd then
        match dec_offset cmd d with
        | None => Err EEof
        | Some (off, d1) =>
          match dec_size cmd d1 with
          | None => Err EEof
          | Some (sz, d2) =>
            if invalid_size sz rem || invalid_offset_size off sz srcsz then Err EInvalid
            else prefix_res (slice sect off sz) (pdw_loop f sect srcsz d2 (rem - sz))
          end
        end
      else if is_copy_delta cmd then
        if invalid_size cmd rem then Err EInvalid
        else if len d <? cmd then Err EInvalid
        else prefix_res (take cmd d) (pdw_loop f sect srcsz (drop cmd d) (rem - cmd))
      else Err ECmd
    end
  end.

Definition patch_delta_writer (bytes_base : bool) (src delta : bytes) : res bytes :=
  match eof_invalid (leb_rd delta) with
  | Err e => Err e
  | Ok (srcsz, d1) =>
    if bytes_base && negb (srcsz =? len src) then Err EInvalid
    else match eof_invalid (leb_rd d1) with
         | Err e => Err e
         | Ok (tgtsz, d2) => pdw_loop (S (List.length d2)) (take srcsz src) srcsz d2 tgtsz
         end
  end.

(* ---- diffDelta, diff_delta.go:83.  The JGit-style hash index (deltaIndex) is
   abstracted to an ARBITRARY candidate function [pick]: target offset ->
   optional source offset; everything downstream of findMatch is exact. *)
Definition blk : nat := 16.

Fixpoint common_prefix (a b : bytes) : nat :=
  match a, b with
  | x :: a', y :: b' => if x =? y then S (common_prefix a' b') else O
  | _, _ => O
  end.
(* matchLength(src, tgt, otgt, osrc) = common_prefix (skipn osrc src) (skipn otgt tgt) *)

(* packutil.EncodeLEB128 *)
Fixpoint enc_leb_go (fuel : nat) (n : N) : bytes :=
  match fuel with
  | O => []
  | S f => let b := N.land n 127 in
           let n' := N.shiftr n 7 in
           if n' =? 0 then [b] else N.lor b 128 :: enc_leb_go f n'
  end.
Definition enc_leb (n : N) : bytes := enc_leb_go (S (N.to_nat (N.size n))) n.

(* encodeInsertOperation: runs of 127 bytes, then the rest (1..127) *)
Fixpoint enc_insert_go (fuel : nat) (b : bytes) : bytes :=
  match fuel with
  | O => []
  | S f =>
    if is_nil b then []
    else if 127 <? len b then 127 :: take 127 b ++ enc_insert_go f (drop 127 b)
    else len b :: b
  end.
Definition enc_insert (b : bytes) : bytes := enc_insert_go (S (List.length b)) b.

(* encodeCopyOperation(offset, length): only non-zero bytes of the low 32 offset
   bits / low 24 length bits are written *)
Definition field_byte (v : N) (i : N) : N :=
  N.shiftr (N.land v (N.shiftl 255 (8 * i))) (8 * i).
Fixpoint enc_fields (n : nat) (i : N) (bit : N) (v : N) : N * bytes :=
  match n with
  | O => (0, [])
  | S n' =>
    let '(code, bs) := enc_fields n' (i + 1) (2 * bit) v in
    let b := field_byte v i in
    if b =? 0 then (code, bs) else (N.lor bit code, b :: bs)
  end.
Definition enc_copy (off l : N) : bytes :=
  let '(c1, b1) := enc_fields 4 0 1 off in
  let '(c2, b2) := enc_fields 3 0 16 l in
  N.lor 128 (N.lor c1 c2) :: b1 ++ b2.

Fixpoint enc_copies (fuel : nat) (off l : N) : bytes :=
  match fuel with
  | O => []
  | S f =>
    if l =? 0 then []
    else if l <? max_copy_size then enc_copy off l
    else enc_copy off max_copy_size ++ enc_copies f (off + max_copy_size) (l - max_copy_size)
  end.
Definition enc_copy_run (off l : N) : bytes := enc_copies (S (N.to_nat (l / max_copy_size))) off l.

(* len(l) < n without walking the whole list *)
Fixpoint shorter {A} (l : list A) (n : nat) : bool :=
  match n, l with
  | O, _ => false
  | S _, [] => true
  | S n', _ :: l' => shorter l' n'
  end.

(* the main loop of diffDelta.  [t] is what is left of the target (tgt[i:]),
   [ib] the pending insert buffer, newest byte first.  The pair (off, l) is what
   deltaIndex.findMatch returns once its two size guards have passed: (0, 0)
   without a candidate, otherwise the candidate and matchLength at it.
   None = fuel exhausted (excluded by the theorems: fuel = S (length tgt)). *)
Fixpoint diff_loop (fuel : nat) (pick : nat -> option nat) (src t : bytes)
         (i : nat) (ib : bytes) : option bytes :=
  match fuel with
  | O => None
  | S f =>
    match t with
    | [] => Some (enc_insert (rev ib))
    | c :: t' =>
      if shorter t blk then Some (enc_insert (rev ib ++ t))          (* len(tgt) < i+s *)
      else if shorter src blk then Some (enc_insert (rev ib ++ t))   (* len(src) < blksz *)
      else
        let '(off, l) := match pick i with
                         | None => (O, O)
                         | Some off => (off, common_prefix (skipn off src) t)
                         end in
        if Nat.eqb l 0 then diff_loop f pick src t' (S i) (c :: ib)
        else if Nat.ltb l blk then
          diff_loop f pick src (skipn l t) (i + l) (rev (firstn l t) ++ ib)
        else
          match diff_loop f pick src (skipn l t) (i + l) [] with
          | None => None
          | Some rest => Some (enc_insert (rev ib) ++ enc_copy_run (N.of_nat off) (N.of_nat l) ++ rest)
          end
    end
  end.

Definition diff_delta (pick : nat -> option nat) (src tgt : bytes) : option bytes :=
  match diff_loop (S (List.length tgt)) pick src tgt 0 [] with
  | None => None
  | Some ops => Some (enc_leb (len src) ++ enc_leb (len tgt) ++ ops)
  end.

(* ---- correspondence entry points *)
Definition expand (segs : list (string * N)) : bytes :=
  flat_map (fun '(h, n) => let p := unhex h in N.iter n (fun acc => p ++ acc) []) segs.

(* outputs above 2 KiB are compared through their length and an Adler-32 style
   checksum (both sides), so that no huge term has to be printed *)
Definition adler (b : bytes) : N :=
  let '(a, s) := fold_left (fun '(a, s) x => let a' := a + x in (a', s + a')) b (1, 0) in
  (s mod 65521) * 65536 + a mod 65521.
Definition out_bytes (b : bytes) : out :=
  if 2048 <? len b then OList [OSym "big"; ON (len b); ON (adler b)] else OBytes b.

Definition out_res (r : res bytes) : out :=
  match r with Ok b => OOk [out_bytes b] | Err _ => OErr "reject" end.

(* all five applier entry points on one (src, delta) pair *)
Definition c06_run_apply (src delta : list (string * N)) : out :=
  let s := expand src in
  let d := expand delta in
  OList [out_res (patch_delta s d); out_res (patch_delta_wrapper s d);
         out_res (reader_from_delta s d);
         out_res (patch_delta_writer true s d); out_res (patch_delta_writer false s d)].

(* pick as an association list reconstructed from the implementation's copy commands *)
Definition pick_of (al : list (nat * nat)) (i : nat) : option nat :=
  match find (fun p => Nat.eqb (fst p) i) al with Some p => Some (snd p) | None => None end.

Definition c06_run_diff (src tgt : list (string * N)) (al : list (N * N)) : out :=
  match diff_delta (pick_of (map (fun '(a, b) => (N.to_nat a, N.to_nat b)) al)) (expand src) (expand tgt) with
  | Some d => OOk [out_bytes d]
  | None => OErr "fuel"
  end.
