(* Model/Porcelain.v — G for C25 / C29 / C30: the porcelain layer of go-git's
   worktree.go (Checkout, createBranch, getCommitFromCheckoutOptions,
   setHEADToCommit/Branch, Reset with its five modes, resetIndex,
   resetWorktree, resetWorktreeToTree, checkKeepResetConflicts,
   containsUnstagedChanges, setHEADCommit, headTree, status) over FLATTENED
   trees: a tree, the index and the worktree are finite maps
   path -> (kind, content).  A merkletrie diff of two such maps is, per path,
   Insert / Delete / Modify according to presence and equality of
   (content, mode) — this is what DiffTree computes when no path of one side is
   a directory prefix of a path of the other (guard [df_free], checked by the
   correspondence before a case is given to the model).
   The code is modelled AS IT IS (Checkout in the order of the repaired code:
   every refusal is decided before the branch is created and HEAD is moved).
   Executable definitions only. *)
From Coq Require Import List NArith ZArith Bool String.
From GoGit Require Import Base.Out.
Import ListNotations.
Local Open Scope N_scope.

(* ---------- finite maps keyed by byte strings (sorted association lists) *)

Fixpoint bcmp (a b : bytes) : comparison :=
  match a, b with
  | [], [] => Eq
  | [], _ => Lt
  | _, [] => Gt
  | x :: a', y :: b' =>
    match N.compare x y with Eq => bcmp a' b' | c => c end
  end.

Definition beqb (a b : bytes) : bool :=
  match bcmp a b with Eq => true | _ => false end.

Definition amap (A : Type) := list (bytes * A).

Fixpoint lookup {A} (p : bytes) (m : amap A) : option A :=
  match m with
  | [] => None
  | (q, v) :: r => if beqb p q then Some v else lookup p r
  end.

Fixpoint insert {A} (p : bytes) (v : A) (m : amap A) : amap A :=
  match m with
  | [] => [(p, v)]
  | (q, w) :: r =>
    match bcmp p q with
    | Eq => (p, v) :: r
    | Lt => (p, v) :: (q, w) :: r
    | Gt => (q, w) :: insert p v r
    end
  end.

Definition remove {A} (p : bytes) (m : amap A) : amap A :=
  filter (fun qv => negb (beqb p (fst qv))) m.

Definition keys {A} (m : amap A) : list bytes := map fst m.

Definition of_list {A} (l : list (bytes * A)) : amap A :=
  fold_left (fun acc qv => insert (fst qv) (snd qv) acc) l [].

(* ---------- files *)

Inductive kind := KReg | KExec | KLink.

Definition kind_eqb (a b : kind) : bool :=
  match a, b with
  | KReg, KReg | KExec, KExec | KLink, KLink => true
  | _, _ => false
  end.

(* a blob is identified by its content (object ids are injective on the
   contents a case uses); the mode is Regular / Executable / Symlink *)
Definition fent := (kind * bytes)%type.
Definition fmap := amap fent.

Definition fent_eqb (a b : fent) : bool :=
  kind_eqb (fst a) (fst b) && beqb (snd a) (snd b).

Definition ofent_eqb (a b : option fent) : bool :=
  match a, b with
  | None, None => true
  | Some x, Some y => fent_eqb x y
  | _, _ => false
  end.

(* ---------- repository state *)

Inductive headref := HSym (b : bytes) | HDet (c : Z).

Record state := mkState {
  commits : list fmap;        (* commit number n |-> its flattened tree *)
  refs : amap Z;              (* full reference name |-> commit number (may dangle) *)
  head : headref;
  idx : fmap;
  wt : fmap;
  notree : list Z }.          (* commits whose root tree object is missing from the store *)

Definition set_refs (s : state) (r : amap Z) := mkState (commits s) r (head s) (idx s) (wt s) (notree s).
Definition set_head (s : state) (h : headref) := mkState (commits s) (refs s) h (idx s) (wt s) (notree s).
Definition set_idx (s : state) (i : fmap) := mkState (commits s) (refs s) (head s) i (wt s) (notree s).
Definition set_wt (s : state) (w : fmap) := mkState (commits s) (refs s) (head s) (idx s) w (notree s).

(* the object store: never changed by Checkout / Reset *)
Definition objs (s : state) : list fmap * list Z := (commits s, notree s).

Inductive err :=
| EBranchHashExclusive | ECreateRequiresBranch | EBranchExists
| ERefNotFound | EObjectNotFound | EUnstaged | ELocalChanges | EOther.

(* an operation returns the state it leaves behind, with or without an error *)
Definition result := (option err * state)%type.

(* CommitObject(c) succeeds *)
Definition commit_exists (s : state) (c : Z) : bool :=
  if (c <? 0)%Z then false
  else match nth_error (commits s) (Z.to_nat c) with Some _ => true | None => false end.

(* CommitObject(c) and its Tree() succeed *)
Definition tree_of (s : state) (c : Z) : option fmap :=
  if (c <? 0)%Z then None
  else if existsb (Z.eqb c) (notree s) then None
  else nth_error (commits s) (Z.to_nat c).

(* hashes 100..199 name objects that exist but are no commits (a tree, a blob) *)
Definition is_noncommit (c : Z) : bool := (100 <=? c)%Z && (c <? 200)%Z.

(* getCommitFromCheckoutOptions on a given hash (repaired: the tree is read too) *)
Definition checkoutable (s : state) (c : Z) : option err :=
  if is_noncommit c then Some EOther
  else match tree_of s c with None => Some EObjectNotFound | Some _ => None end.

(* Repository.Head(): HEAD resolved through one symbolic level *)
Definition head_commit (s : state) : option Z :=
  match head s with
  | HDet c => Some c
  | HSym b => lookup b (refs s)
  end.

Definition refs_heads : bytes := [114; 101; 102; 115; 47; 104; 101; 97; 100; 115; 47].
Definition master : bytes := refs_heads ++ [109; 97; 115; 116; 101; 114].

Fixpoint is_prefix (a b : bytes) : bool :=
  match a, b with
  | [], _ => true
  | x :: a', y :: b' => (x =? y) && is_prefix a' b'
  | _, [] => false
  end.

Definition is_branch (n : bytes) : bool := is_prefix refs_heads n.

(* headTree: nil tree for an unborn HEAD, error for a dangling one *)
Inductive htree := HTNone | HTErr | HTTree (t : fmap).
Definition head_tree (s : state) : htree :=
  match head_commit s with
  | None => HTNone
  | Some c => match tree_of s c with Some t => HTTree t | None => HTErr end
  end.

Definition tree_or_empty (h : htree) : fmap :=
  match h with HTTree t => t | _ => [] end.

(* ---------- flattened merkletrie diffs *)

Fixpoint union_keys (a b : list bytes) : list bytes :=
  match a with
  | [] => b
  | x :: a' => if existsb (beqb x) b then union_keys a' b else x :: union_keys a' b
  end.

Definition differs (a b : fmap) (p : bytes) : bool :=
  negb (ofent_eqb (lookup p a) (lookup p b)).

(* paths with a change between a and b *)
Definition changed_paths (a b : fmap) : list bytes :=
  filter (differs a b) (union_keys (keys a) (keys b)).

(* containsUnstagedChanges: some Delete or Modify in index -> worktree *)
Definition unstaged (s : state) : bool :=
  existsb (fun qe => negb (ofent_eqb (lookup (fst qe) (wt s)) (Some (snd qe)))) (idx s).

(* setHEADCommit *)
Definition set_head_commit (c : Z) (s : state) : result :=
  match head s with
  | HDet _ => (None, set_head s (HDet c))
  | HSym b =>
    match lookup b (refs s) with
    | None => (Some ERefNotFound, s)
    | Some _ =>
      if is_branch b then (None, set_refs s (insert b c (refs s)))
      else (Some EOther, s)
    end
  end.

(* resetIndex (no path filter): every changed path is removed and, when the
   tree has it, re-added from the tree; returns the changed paths *)
Definition reset_index_step (t : fmap) (acc : fmap) (p : bytes) : fmap :=
  match lookup p t with
  | Some e => insert p e (remove p acc)
  | None => remove p acc
  end.

Definition reset_index (t : fmap) (ix : fmap) : fmap * list bytes :=
  let ch := changed_paths ix t in
  (fold_left (reset_index_step t) ch ix, ch).

(* checkoutChange on one path of a worktree<-index diff: Delete removes the
   file, Insert/Modify writes the tree's version (error when the tree lacks it) *)
Definition checkout_change (t : fmap) (ixw : option err * (fmap * fmap)) (p : bytes)
  : option err * (fmap * fmap) :=
  match ixw with
  | (Some e, _) => ixw
  | (None, (ix, w)) =>
    match lookup p ix with
    | None => (None, (ix, remove p w))
    | Some _ =>
      match lookup p t with
      | None => (Some EOther, (ix, w))
      | Some e => (None, (insert p e (remove p ix), insert p e (remove p w)))
      end
    end
  end.

(* resetWorktree (MergeReset): the worktree<-index changes restricted to [files] *)
Definition reset_worktree (t : fmap) (files : list bytes) (ix w : fmap)
  : option err * (fmap * fmap) :=
  let ch := filter (fun p => existsb (beqb p) files) (changed_paths w ix) in
  fold_left (checkout_change t) ch (None, (ix, w)).

(* resetWorktreeToTree (Hard / Keep): 1. delete what prev has and t has not;
   2. write every index path that is missing or different on disk
   (worktree-only paths are untracked: skipped) *)
Definition reset_worktree_to_tree (prev t : fmap) (ix w : fmap)
  : option err * (fmap * fmap) :=
  let dels := filter (fun p => match lookup p t with None => true | Some _ => false end) (keys prev) in
  let w1 := fold_left (fun acc p => remove p acc) dels w in
  let ch := filter (fun p => match lookup p ix with Some _ => true | None => false end) (changed_paths w1 ix) in
  fold_left (checkout_change t) ch (None, (ix, w1)).

(* Worktree.Status as far as checkKeepResetConflicts reads it *)
Inductive scode := Unmodified | Untracked | Added | Deleted | Modified.
Definition scode_eqb (a b : scode) : bool :=
  match a, b with
  | Unmodified, Unmodified | Untracked, Untracked | Added, Added | Deleted, Deleted | Modified, Modified => true
  | _, _ => false
  end.

Definition diff_code (a b : fmap) (p : bytes) : option scode :=
  match lookup p a, lookup p b with
  | None, None => None
  | None, Some _ => Some Added
  | Some _, None => Some Deleted
  | Some x, Some y => if fent_eqb x y then None else Some Modified
  end.

(* (staging, worktree) of a path; None = the path is not in the status map *)
Definition status_of (hd ix w : fmap) (p : bytes) : option (scode * scode) :=
  let l := diff_code hd ix p in
  let r := diff_code ix w p in
  match l, r with
  | None, None => None
  | Some c, None => Some (c, Unmodified)
  | _, Some Added => Some (Untracked, Untracked)
  | None, Some c => Some (Unmodified, c)
  | Some c, Some d => Some (c, d)
  end.

Definition keep_conflict (hd prev t ix w : fmap) : bool :=
  existsb (fun p =>
    match status_of hd ix w p with
    | None => false
    | Some (st, wk) =>
      (negb (scode_eqb st Unmodified) && negb (scode_eqb st Untracked))
      || (negb (scode_eqb wk Unmodified) && negb (scode_eqb wk Untracked))
      || (scode_eqb st Untracked && scode_eqb wk Untracked
          && match lookup p t with Some _ => true | None => false end)
    end) (changed_paths prev t).

Inductive rmode := Mixed | Hard | Merge | Soft | Keep.

(* the mutating part of Reset: move HEAD, reset the index, update the worktree *)
Definition apply_reset (c : Z) (t pv : fmap) (m : rmode) (s : state) : result :=
  match set_head_commit c s with
  | (Some e, s1) => (Some e, s1)
  | (None, s1) =>
    let ri := reset_index t (idx s1) in
    let s2 := set_idx s1 (fst ri) in
    match m with
    | Mixed | Soft => (None, s2)
    | Merge =>
      match snd ri with
      | [] => (None, s2)
      | _ =>
        let r := reset_worktree t (snd ri) (fst ri) (wt s2) in
        (fst r, set_wt (set_idx s2 (fst (snd r))) (snd (snd r)))
      end
    | Hard | Keep =>
      let r := reset_worktree_to_tree pv t (fst ri) (wt s2) in
      (fst r, set_wt (set_idx s2 (fst (snd r))) (snd (snd r)))
    end
  end.

(* ResetOptions.Validate: the zero hash (-1) means HEAD; another hash must be a commit *)
Definition reset_commit (commit : Z) (s : state) : option err * Z :=
  if (commit =? -1)%Z then
    match head_commit s with None => (Some ERefNotFound, commit) | Some c => (None, c) end
  else if commit_exists s commit then (None, commit) else (Some EObjectNotFound, commit).

(* the tree the worktree is diffed from (Hard / Keep) *)
Definition prev_tree (m : rmode) (from : option fmap) (s : state) : htree :=
  match m with
  | Hard | Keep => match from with Some f => HTTree f | None => head_tree s end
  | _ => HTNone
  end.

(* Reset; [from] is ResetOptions.fromTree (set by Checkout only) *)
Definition reset (commit : Z) (m : rmode) (from : option fmap) (s : state) : result :=
  match reset_commit commit s with
  | (Some e, _) => (Some e, s)
  | (None, c) =>
    if match m with Merge => unstaged s | _ => false end then (Some EUnstaged, s)
    else match m with
    | Soft => set_head_commit c s
    | _ =>
      match tree_of s c with
      | None => (Some EObjectNotFound, s)
      | Some t =>
        match prev_tree m from s with
        | HTErr => (Some EObjectNotFound, s)
        | prev =>
          let pv := tree_or_empty prev in
          if match m with
             | Keep => keep_conflict (tree_or_empty (head_tree s)) pv t (idx s) (wt s)
             | _ => false end
          then (Some ELocalChanges, s)
          else apply_reset c t pv m s
        end
      end
    end
  end.

Record copts := mkCopts {
  co_branch : bytes; co_hash : Z; co_create : bool; co_force : bool; co_keep : bool }.

(* CheckoutOptions.Validate *)
Definition co_validate (o : copts) : option err :=
  let noname := match co_branch o with [] => true | _ => false end in
  if negb (co_create o) && negb (co_hash o =? -1)%Z && negb noname then Some EBranchHashExclusive
  else if co_create o && noname then Some ECreateRequiresBranch
  else None.

Definition co_branch_name (o : copts) : bytes :=
  match co_branch o with [] => master | b => b end.

(* createBranch: refuses an existing name; a zero opts.Hash becomes HEAD's
   commit; the target must be something that can be checked out (fix: checked
   BEFORE the reference is stored) *)
Definition create_branch (o : copts) (br : bytes) (s : state) : option err * (Z * state) :=
  if co_create o then
    match lookup br (refs s) with
    | Some _ => (Some EBranchExists, (co_hash o, s))
    | None =>
      match (if (co_hash o =? -1)%Z then head_commit s else Some (co_hash o)) with
      | None => (Some ERefNotFound, (co_hash o, s))
      | Some h =>
        match checkoutable s h with
        | Some e => (Some e, (co_hash o, s))
        | None => (None, (h, set_refs s (insert br h (refs s))))
        end
      end
    end
  else (None, (co_hash o, s)).

(* getCommitFromCheckoutOptions *)
Definition resolve_commit (br : bytes) (hash : Z) (s : state) : option err * Z :=
  match (if (hash =? -1)%Z then lookup br (refs s) else Some hash) with
  | None => (Some ERefNotFound, hash)
  | Some c => match checkoutable s c with Some e => (Some e, c) | None => (None, c) end
  end.

Definition co_mode (o : copts) : rmode :=
  if co_force o then Hard else if co_keep o then Soft else Merge.

(* setHEADToCommit / setHEADToBranch *)
Definition move_head (o : copts) (br : bytes) (hash c : Z) (s : state) : option err * state :=
  if negb (hash =? -1)%Z && negb (co_create o) then (None, set_head s (HDet hash))
  else match lookup br (refs s) with
       | None => (Some ERefNotFound, s)
       | Some _ => (None, set_head s (if is_branch br then HSym br else HDet c))
       end.

(* Checkout up to (excluding) its final Reset, in the order of the (repaired)
   code: Validate; for a non-forced checkout the unstaged-changes check; for a
   forced one the from-tree; only then createBranch, the commit lookup and the
   HEAD update.  Returns the arguments of the Reset and the state so far. *)
Definition checkout_pre (o : copts) (s : state) : option err * ((Z * rmode * option fmap) * state) :=
  let dflt := ((-1)%Z, Mixed, None) in
  match co_validate o with
  | Some e => (Some e, (dflt, s))
  | None =>
    let br := co_branch_name o in
    let m := co_mode o in
    if match m with Merge => unstaged s | _ => false end then (Some EUnstaged, (dflt, s))
    else
    match (match m with Hard => head_tree s | _ => HTNone end) with
    | HTErr => (Some EObjectNotFound, (dflt, s))
    | from =>
      match create_branch o br s with
      | (Some e, (_, s1)) => (Some e, (dflt, s1))
      | (None, (hash, s1)) =>
        match resolve_commit br hash s1 with
        | (Some e, _) => (Some e, (dflt, s1))
        | (None, c) =>
          match move_head o br hash c s1 with
          | (Some e, s2) => (Some e, (dflt, s2))
          | (None, s2) => (None, ((c, m, match from with HTTree f => Some f | _ => None end), s2))
          end
        end
      end
    end
  end.

Definition checkout (o : copts) (s : state) : result :=
  match checkout_pre o s with
  | (Some e, (_, s1)) => (Some e, s1)
  | (None, ((c, m, from), s2)) => reset c m from s2
  end.

(* ---------- operations of a case: porcelain ops and direct worktree edits *)

Inductive op :=
| OCheckout (o : copts)
| OReset (commit : Z) (m : rmode)
| OWrite (p : bytes) (e : fent)
| ORm (p : bytes).

Definition step (o : op) (s : state) : result :=
  match o with
  | OCheckout c => checkout c s
  | OReset c m => reset c m None s
  | OWrite p e => (None, set_wt s (insert p e (wt s)))
  | ORm p => (None, set_wt s (remove p (wt s)))
  end.

(* ---------- observables *)

Definition okind (k : kind) : out := OSym (match k with KReg => "f" | KExec => "x" | KLink => "l" end).
Definition ofmap (m : fmap) : out :=
  OList (map (fun qe => OList [OBytes (fst qe); okind (fst (snd qe)); OBytes (snd (snd qe))]) m).
Definition commit_no (s : state) (c : Z) : Z :=
  if commit_exists s c then c else (-2)%Z.
Definition osnap (s : state) : out :=
  OList [ match head s with
          | HSym b => OList [OSym "sym"; OBytes b]
          | HDet c => OList [OSym "det"; ONum (commit_no s c)]
          end;
          OList (map (fun qc => OList [OBytes (fst qc); ONum (commit_no s (snd qc))]) (refs s));
          ofmap (idx s); ofmap (wt s) ].

Definition oerr (e : err) : out :=
  OErr (match e with
        | EBranchHashExclusive => "branch_hash_exclusive"
        | ECreateRequiresBranch => "create_requires_branch"
        | EBranchExists => "branch_exists"
        | ERefNotFound => "ref_not_found"
        | EObjectNotFound => "object_not_found"
        | EUnstaged => "unstaged"
        | ELocalChanges => "local_changes"
        | EOther => "other"
        end).

Fixpoint run_ops (ops : list op) (s : state) : list out :=
  match ops with
  | [] => []
  | o :: r =>
    let (e, s') := step o s in
    OList [match e with None => OOk [] | Some x => oerr x end; osnap s'] :: run_ops r s'
  end.

Definition norm_state (s : state) : state :=
  mkState (map (fun t => of_list t) (commits s)) (of_list (refs s)) (head s) (of_list (idx s)) (of_list (wt s)) (notree s).

(* correspondence entry point *)
Definition porcelain_run (s : state) (ops : list op) : out :=
  let s0 := norm_state s in
  OList (osnap s0 :: run_ops ops s0).
