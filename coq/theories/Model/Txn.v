(* Model/Txn.v — G for C19: storage/transactional (with the three fix commits:
   IterReferences filters the base listing, CheckAndSetReference honours
   `deleted`, ShallowStorage has a `set` flag).
     reference.go  ReferenceStorage {SetReference, CheckAndSetReference, Reference,
                   IterReferences, RemoveReference, Commit}
     object.go     ObjectStorage {SetEncodedObject, HasEncodedObject, EncodedObjectSize,
                   EncodedObject, IterEncodedObjects, Commit}
     index.go / config.go   IndexStorage / ConfigStorage (`set` flag)
     shallow.go    ShallowStorage (`set` flag)
     reflog.go     ReflogStorage (`appended` / `deleted` sets)
     storage.go    basic.Commit
   The base and the temporal storer are abstract stores (Spec/AStore.v; that the
   real backends behave like one is property C17).  Executable definitions only. *)
From Coq Require Import List NArith Bool String.
From GoGit Require Import Base.Out Spec.AStore.
Import ListNotations.
Local Open Scope N_scope.

Record txn := mkTxn {
  t_base : store;
  t_tmp : store;
  t_deleted : list N;      (* ReferenceStorage.deleted *)
  t_idx_set : bool;        (* IndexStorage.set *)
  t_cfg_set : bool;        (* ConfigStorage.set *)
  t_sh_set : bool;         (* ShallowStorage.set *)
  t_rl_app : list N;       (* ReflogStorage.appended *)
  t_rl_del : list N        (* ReflogStorage.deleted *)
}.

Definition txn_begin (b : store) : txn := mkTxn b st_empty [] false false false [] [].

Definition with_tmp t x := mkTxn (t_base t) x (t_deleted t) (t_idx_set t) (t_cfg_set t) (t_sh_set t) (t_rl_app t) (t_rl_del t).
Definition with_deleted t d := mkTxn (t_base t) (t_tmp t) d (t_idx_set t) (t_cfg_set t) (t_sh_set t) (t_rl_app t) (t_rl_del t).

(* SetReference: delete(r.deleted, name); temporal.SetReference(ref) *)
Definition g_set_ref (t : txn) (n : N) (v : refval) : txn :=
  mkTxn (t_base t) (st_with_refs (t_tmp t) (fm_set n v (s_refs (t_tmp t))))
        (nrem n (t_deleted t)) (t_idx_set t) (t_cfg_set t) (t_sh_set t) (t_rl_app t) (t_rl_del t).

(* CheckAndSetReference (old <> nil): a name in `deleted` is not found; else
   temporal.Reference(old.Name()), on not-found base.Reference(old.Name()) *)
Definition g_cas_lookup (t : txn) (on : N) : option refval :=
  if nmem on (t_deleted t) then None
  else match fm_get on (s_refs (t_tmp t)) with
       | Some v => Some v
       | None => fm_get on (s_refs (t_base t))
       end.

Definition g_cas (t : txn) (n : N) (v : refval) (on : N) (ov : refval) : txn * res :=
  match g_cas_lookup t on with
  | None => (t, RErr ENotFound)
  | Some cur =>
    if rv_hash_eqb cur ov then (g_set_ref t n v, ROk) else (t, RErr EChanged)
  end.

(* Reference: deleted -> not found; temporal; base *)
Definition g_get_ref (t : txn) (n : N) : res :=
  if nmem n (t_deleted t) then RErr ENotFound
  else match fm_get n (s_refs (t_tmp t)) with
       | Some v => RRef v
       | None => match fm_get n (s_refs (t_base t)) with
                 | Some v => RRef v
                 | None => RErr ENotFound
                 end
       end.

(* IterReferences: the base iterator filtered (not deleted, no temporal
   entry of that name), then the temporal iterator *)
Definition g_iter_refs (t : txn) : list (N * refval) :=
  filter (fun p => negb (nmem (fst p) (t_deleted t)) && negb (fm_has (fst p) (s_refs (t_tmp t))))
         (s_refs (t_base t))
  ++ s_refs (t_tmp t).

(* RemoveReference: r.deleted[n] = {}; temporal.RemoveReference(n) *)
Definition g_del_ref (t : txn) (n : N) : txn :=
  mkTxn (t_base t) (st_with_refs (t_tmp t) (fm_del n (s_refs (t_tmp t))))
        (nadd n (t_deleted t)) (t_idx_set t) (t_cfg_set t) (t_sh_set t) (t_rl_app t) (t_rl_del t).

(* objects: writes to temporal; reads base first, temporal on ErrObjectNotFound *)
Definition g_has_obj (t : txn) (k : N) : bool :=
  fm_has k (s_objs (t_base t)) || fm_has k (s_objs (t_tmp t)).

Definition g_get_obj (U : universe) (t : txn) (ty k : N) : res :=
  match st_get_obj U ty k (t_base t) with
  | RErr EObjNotFound => st_get_obj U ty k (t_tmp t)
  | r => r
  end.

Definition g_iter_objs (U : universe) (t : txn) (ty : N) : list N :=
  st_iter_objs U ty (t_base t) ++ st_iter_objs U ty (t_tmp t).

(* Shallow: the temporal list once SetShallow was called, else the base list *)
Definition g_shallow (t : txn) : list N :=
  if t_sh_set t then s_shallow (t_tmp t) else s_shallow (t_base t).

(* Reflog: base entries unless deleted in this transaction, then temporal entries *)
Definition g_log (t : txn) (n : N) : list N :=
  (if nmem n (t_rl_del t) then [] else lg_get n (s_logs (t_base t)))
  ++ lg_get n (s_logs (t_tmp t)).

Definition g_step (U : universe) (t : txn) (o : op) : txn * res :=
  match o with
  | OSetRef n v => (g_set_ref t n v, ROk)
  | OCas n v on ov => g_cas t n v on ov
  | OGetRef n => (t, g_get_ref t n)
  | OIterRefs => (t, RRefs (g_iter_refs t))
  | ODelRef n => (g_del_ref t n, ROk)
  | OSetObj k =>
    (* temporal (memory) SetEncodedObject refuses other types without storing *)
    if valid_typ U k
    then (with_tmp t (st_with_objs (t_tmp t) (fm_set k tt (s_objs (t_tmp t)))), RNum k)
    else (t, RErr EInvalidType)
  | OHasObj k => (t, if g_has_obj t k then ROk else RErr EObjNotFound)
  | OSizeObj k => (t, if g_has_obj t k then RNum (snd (U k)) else RErr EObjNotFound)
  | OGetObj ty k => (t, g_get_obj U t ty k)
  | OIterObjs ty => (t, RIds (g_iter_objs U t ty))
  | OSetIdx i =>
    (mkTxn (t_base t) (st_with_idx (t_tmp t) i) (t_deleted t) true (t_cfg_set t) (t_sh_set t) (t_rl_app t) (t_rl_del t), ROk)
  | OGetIdx => (t, RNum (if t_idx_set t then s_idx (t_tmp t) else s_idx (t_base t)))
  | OSetCfg c =>
    (mkTxn (t_base t) (st_with_cfg (t_tmp t) c) (t_deleted t) (t_idx_set t) true (t_sh_set t) (t_rl_app t) (t_rl_del t), ROk)
  | OGetCfg => (t, RNum (if t_cfg_set t then s_cfg (t_tmp t) else s_cfg (t_base t)))
  | OSetShallow l =>
    (mkTxn (t_base t) (st_with_shallow (t_tmp t) l) (t_deleted t) (t_idx_set t) (t_cfg_set t) true
           (t_rl_app t) (t_rl_del t), ROk)
  | OGetShallow => (t, RSeq (g_shallow t))
  | OAppendLog n e =>
    (mkTxn (t_base t)
           (st_with_logs (t_tmp t) (fm_set n (lg_get n (s_logs (t_tmp t)) ++ [e]) (s_logs (t_tmp t))))
           (t_deleted t) (t_idx_set t) (t_cfg_set t) (t_sh_set t) (nadd n (t_rl_app t)) (t_rl_del t), ROk)
  | OGetLog n => (t, RSeq (g_log t n))
  | ODelLog n =>
    (mkTxn (t_base t) (st_with_logs (t_tmp t) (fm_del n (s_logs (t_tmp t))))
           (t_deleted t) (t_idx_set t) (t_cfg_set t) (t_sh_set t) (nrem n (t_rl_app t)) (nadd n (t_rl_del t)), ROk)
  end.

Fixpoint g_run (U : universe) (t : txn) (ops : list op) : txn * list res :=
  match ops with
  | [] => (t, [])
  | o :: r =>
    let '(t1, x) := g_step U t o in
    let '(t2, xs) := g_run U t1 r in (t2, x :: xs)
  end.

(* basic.Commit: objects, references, index, shallow, config, reflog *)
Definition lg_append_all (n : N) (es : list N) (m : fmap (list N)) : fmap (list N) :=
  match es with
  | [] => m
  | _ => fm_set n (lg_get n m ++ es) m
  end.

Definition g_commit (t : txn) : store :=
  let b := t_base t in
  let x := t_tmp t in
  mkStore
    (* for name in deleted: base.RemoveReference; for ref in temporal: base.SetReference *)
    (fm_union (fm_diff (s_refs b) (t_deleted t)) (s_refs x))
    (* for obj in temporal: base.SetEncodedObject *)
    (fm_union (s_objs b) (s_objs x))
    (if t_idx_set t then s_idx x else s_idx b)
    (if t_cfg_set t then s_cfg x else s_cfg b)
    (if t_sh_set t then s_shallow x else s_shallow b)
    (* for name in deleted: base.DeleteReflog; for name in appended: append temporal entries *)
    (fold_right (fun n m => lg_append_all n (lg_get n (s_logs x)) m)
                (fm_diff (s_logs b) (t_rl_del t)) (t_rl_app t)).

(* correspondence entry point: universe, base initialisation, transaction ops;
   observable: the result of every call, the base before Commit, Commit's
   result, the base after Commit *)
Definition c19_run (u : list (N * N)) (init ops : list op) : out :=
  let U := mkU u in
  let b := st_init U init in
  let '(t, xs) := g_run U (txn_begin b) ops in
  OList [OList (map o_res xs); o_store U (t_base t); o_res ROk; o_store U (g_commit t)].
