(* Model/Archive.v — G for C50: internal/archive/archive.go (WriteArchive,
   WriteTarArchive, WriteZipArchive, MatchesPathFilter on literal filters,
   HasInvalidPrefix, ResolveTreeish's kinds) over object.TreeWalker's pre-order
   walk.  The byte encodings of tar / zip / gzip are NOT modelled: the
   observable is the entry list both sides are parsed back into.
   Mode arithmetic comes from the regenerated Gen/C50.v (ApplyUmask,
   ApplyUmaskDir, DefaultUmask, the filemode constants).
   Executable definitions only. *)
From Coq Require Import List NArith ZArith Bool String.
From GoGit Require Import Base.Out Gen.C50.
Import ListNotations.
Local Open Scope N_scope.

Definition SLASH : N := 47.  Definition BSLASH : N := 92.  Definition DOT : N := 46.

(* ------------------------------------------------------------------ trees *)
Inductive node :=
| NFile (exec : bool) (data : bytes)
| NLink (target : bytes)
| NSub                                   (* gitlink *)
| NDir (sub : forest)
with forest :=
| FNil
| FCons (name : bytes) (n : node) (rest : forest).

(* simpleJoin *)
Definition join (base name : bytes) : bytes :=
  match base with [] => name | _ => base ++ SLASH :: name end.

(* object.TreeWalker, recursive: every entry, a directory before its content *)
Fixpoint walk (base : bytes) (f : forest) : list (bytes * node) :=
  match f with
  | FNil => []
  | FCons name n rest =>
    let p := join base name in
    (p, n) :: (match n with NDir sub => walk p sub | _ => [] end) ++ walk base rest
  end.

(* ------------------------------------------------------------------ byte strings *)
Fixpoint bytes_eq (a b : bytes) : bool :=
  match a, b with
  | [], [] => true
  | x :: a', y :: b' => (x =? y) && bytes_eq a' b'
  | _, _ => false
  end.

(* strings.HasPrefix s p *)
Fixpoint has_prefix (s p : bytes) : bool :=
  match p, s with
  | [], _ => true
  | y :: p', x :: s' => (x =? y) && has_prefix s' p'
  | _ :: _, [] => false
  end.

Definition ends_with_slash (s : bytes) : bool :=
  match rev s with c :: _ => c =? SLASH | [] => false end.

(* MatchesPathFilter for filters free of the path.Match metacharacters
   ( * ? [ \ ): then path.Match f name = (f == name).  The correspondence only
   evaluates the model on such filters. *)
Definition matches1 (name f : bytes) : bool :=
  bytes_eq name f || has_prefix name (f ++ [SLASH]) || has_prefix f (name ++ [SLASH]).
Definition matches (name : bytes) (filters : list bytes) : bool := existsb (matches1 name) filters.

(* HasInvalidPrefix: leading / or \, or a component equal to ".." after
   splitting at / and \ (strings.FieldsFunc drops empty components) *)
Fixpoint split_seps (s : bytes) (cur : bytes) : list bytes :=
  match s with
  | [] => match cur with [] => [] | _ => [rev cur] end
  | c :: r =>
    if (c =? SLASH) || (c =? BSLASH)
    then (match cur with [] => split_seps r [] | _ => rev cur :: split_seps r [] end)
    else split_seps r (c :: cur)
  end.
Definition has_invalid_prefix (p : bytes) : bool :=
  match p with
  | c :: _ => if (c =? SLASH) || (c =? BSLASH) then true else existsb (bytes_eq [DOT; DOT]) (split_seps p [])
  | [] => false
  end.

(* ------------------------------------------------------------------ entries *)
Inductive aent :=
| APax (id : bytes)                                  (* tar pax comment / zip comment *)
| ADir (name : bytes) (mode : Z)
| ALink (name : bytes) (mode : Z) (target : bytes)
| AFile (name : bytes) (mode : Z) (data : bytes).

Inductive aerr := EPrefix | ENoMatch | ESubPath | ENotDir | EFormat | ESymlink.

Definition perm (mode : Z) : Z := Z.land mode 511.     (* int64(entry.Mode) & 0o777 *)

(* WriteTarArchive: one header per walked entry *)
Definition tar_entry (prefix : bytes) (pn : bytes * node) : aent :=
  let '(p, n) := pn in
  let full := prefix ++ p in
  match n with
  | NDir _ => ADir (full ++ [SLASH]) (archive_ApplyUmaskDir (perm filemode_Dir))
  | NSub => ADir (full ++ [SLASH]) (archive_ApplyUmaskDir (perm filemode_Submodule))
  | NLink t => ALink full 511 t
  | NFile true d => AFile full (archive_ApplyUmask (perm filemode_Executable) true) d
  | NFile false d => AFile full (archive_ApplyUmask (perm filemode_Regular) false) d
  end.

Definition link_too_long (pn : bytes * node) : bool :=
  match snd pn with
  | NLink t => (archive_maxTarSymlinkTargetSize <? Z.of_nat (List.length t))%Z
  | _ => false
  end.

Definition selected (filters : list bytes) (f : forest) : list (bytes * node) :=
  match filters with
  | [] => walk [] f
  | _ => filter (fun pn => matches (fst pn) filters) (walk [] f)
  end.

Definition tar_entries (commit : option bytes) (prefix : bytes) (filters : list bytes) (f : forest)
  : aerr + list aent :=
  let sel := selected filters f in
  if existsb link_too_long sel then inl ESymlink
  else match filters, sel with
       | _ :: _, [] => inl ENoMatch
       | _, _ =>
         inr ((match commit with Some id => [APax id] | None => [] end) ++
              (if negb (match prefix with [] => true | _ => false end) && ends_with_slash prefix
               then [ADir prefix (archive_ApplyUmaskDir 0)] else []) ++
              map (tar_entry prefix) sel)
       end.

(* WriteZipArchive: files only; fs.FileMode(0o120000|perm) carries no
   ModeSymlink bit, so zip.FileHeader.SetMode stores S_IFREG | perm *)
Definition S_IFREG : Z := 32768.
Definition zip_entry (prefix : bytes) (pn : bytes * node) : list aent :=
  let '(p, n) := pn in
  let full := prefix ++ p in
  match n with
  | NDir _ | NSub => []
  | NLink t => [AFile full (Z.lor S_IFREG (Z.land (archive_ApplyUmask (perm filemode_Symlink) true) 511)) t]
  | NFile true d => [AFile full (Z.lor S_IFREG (archive_ApplyUmask (perm filemode_Executable) true)) d]
  | NFile false d => [AFile full (Z.lor S_IFREG (archive_ApplyUmask (perm filemode_Regular) false)) d]
  end.

Definition zip_entries (commit : option bytes) (prefix : bytes) (filters : list bytes) (f : forest)
  : aerr + list aent :=
  let sel := selected filters f in
  match filters, sel with
  | _ :: _, [] => inl ENoMatch
  | _, _ =>
    inr ((match commit with Some id => [APax id] | None => [] end) ++ flat_map (zip_entry prefix) sel)
  end.

(* ------------------------------------------------------------------ tree-ish *)
Inductive treeish := TCommit | TTree | TSub (path : bytes).   (* ref / tag / commit id; tree id; rev:path *)

Fixpoint split_slash (s : bytes) (cur : bytes) : list bytes :=
  match s with
  | [] => [rev cur]
  | c :: r => if c =? SLASH then rev cur :: split_slash r [] else split_slash r (c :: cur)
  end.

Fixpoint find_entry (f : forest) (name : bytes) : option node :=
  match f with
  | FNil => None
  | FCons n x rest => if bytes_eq n name then Some x else find_entry rest name
  end.

(* Tree.FindEntry then the Mode == Dir test *)
Fixpoint find_dir (f : forest) (parts : list bytes) : aerr + forest :=
  match parts with
  | [] => inl ESubPath
  | [last] =>
    match find_entry f last with
    | Some (NDir sub) => inr sub
    | Some _ => inl ENotDir
    | None => inl ESubPath
    end
  | p :: more =>
    match find_entry f p with
    | Some (NDir sub) => find_dir sub more
    | _ => inl ESubPath
    end
  end.

Inductive fmt := FTar | FZip | FBad.

(* Repository.Archive -> ResolveTreeish -> WriteArchive.
   Result: (archive has the commit's time?, entries); `false` = current time *)
Definition archive (t : treeish) (format : fmt) (commit : bytes) (prefix : bytes) (filters : list bytes) (f : forest)
  : aerr + (bool * list aent) :=
  if has_invalid_prefix prefix then inl EPrefix          (* ArchiveOptions.Validate *)
  else match format with
  | FBad => inl EFormat
  | _ =>
    let resolved :=
      match t with
      | TCommit => inr (Some commit, true, f)
      | TTree => inr (None, false, f)
      | TSub [] => inr (None, false, f)                  (* "<rev>:" is the root tree *)
      | TSub path =>
        if existsb (fun p => match p with [] => true | _ => false end) (split_slash path []) then inl ESubPath
        else match find_dir f (split_slash path []) with
             | inl e => inl e
             | inr sub => inr (None, false, sub)
             end
      end in
    match resolved with
    | inl e => inl e
    | inr (c, timed, tree) =>
      match (match format with FZip => zip_entries c prefix filters tree | _ => tar_entries c prefix filters tree end) with
      | inl e => inl e
      | inr l => inr (timed, l)
      end
    end
  end.

(* ------------------------------------------------------------------ observables *)
Definition aent_out (mtime : Z) (e : aent) : out :=
  match e with
  | APax id => OList [OSym "pax"; OBytes id]
  | ADir n m => OList [OSym "dir"; OBytes n; ONum m; ONum mtime]
  | ALink n m t => OList [OSym "link"; OBytes n; ONum m; ONum mtime; OBytes t]
  | AFile n m d => OList [OSym "file"; OBytes n; ONum m; ONum mtime; OBytes d]
  end.

Definition aerr_out (e : aerr) : out :=
  OErr (match e with EPrefix => "prefix" | ENoMatch => "nomatch" | ESubPath => "subpath" | ENotDir => "notdir"
                | EFormat => "format" | ESymlink => "symlink" end).

(* tar keeps the full time (pax record beyond 2^33); zip's extended-timestamp
   field is 32 bits wide *)
Definition shown_time (format : fmt) (time : Z) : Z :=
  match format with FZip => (time mod 2 ^ 32)%Z | _ => time end.

Definition result_out (format : fmt) (time : Z) (r : aerr + (bool * list aent)) : out :=
  match r with
  | inl e => aerr_out e
  | inr (timed, l) => OOk (map (aent_out (if timed then shown_time format time else (-1)%Z)) l)
  end.

(* the pax / zip comment is the 40-digit hex id, given as text *)
Definition c50_run (t : treeish) (format : fmt) (commit_hex : string) (time : Z) (prefix : string)
           (filters : list string) (f : forest) : out :=
  result_out format time (archive t format (bytes_of_string commit_hex) (unhex prefix) (map unhex filters) f).
