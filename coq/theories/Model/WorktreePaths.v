(* Model/WorktreePaths.v — G for C26: worktree_fs.go validPath /
   validNoLeadingSymlink / validWritePath, internal/pathutil ValidTreePath,
   IsDotGitName, IsNTFSDotGit, WindowsValidPath, isWindowsReservedName — on
   ASCII byte strings (strings.ToLower / EqualFold are modelled by ASCII case
   folding; the correspondence gives the model ASCII-only paths, the direct
   oracle runs on all).  HFS+ folding (IsHFSDotGit) coincides with the
   case-insensitive comparison with ".git" on ASCII input and is modelled so.
   filepath.VolumeName is "" on every non-Windows build: not modelled.
   Executable definitions only. *)
From Coq Require Import List NArith Bool String.
From GoGit Require Import Base.Out Model.Porcelain.
Import ListNotations.
Local Open Scope N_scope.

Definition SLASH : N := 47.  Definition BSLASH : N := 92.  Definition DOT : N := 46.

Definition is_slash (c : N) : bool := c =? SLASH.
Definition is_bslash (c : N) : bool := c =? BSLASH.
Definition is_sep (c : N) : bool := is_slash c || is_bslash c.

(* strings.Split-like: maximal runs between separators, empty runs included *)
Fixpoint words (sep : N -> bool) (s : bytes) : list bytes :=
  match s with
  | [] => [[]]
  | c :: r =>
    if sep c then [] :: words sep r
    else match words sep r with
         | w :: ws => (c :: w) :: ws
         | [] => [[c]]
         end
  end.

Definition nonempty (w : bytes) : bool := match w with [] => false | _ => true end.

(* strings.FieldsFunc *)
Definition fields (sep : N -> bool) (s : bytes) : list bytes := filter nonempty (words sep s).

Definition lower (c : N) : N := if (65 <=? c) && (c <=? 90) then c + 32 else c.
Definition ieqb (a b : bytes) : bool := beqb (map lower a) (map lower b).

Definition s_dotgit : bytes := [46; 103; 105; 116].          (* ".git" *)
Definition s_git1 : bytes := [103; 105; 116; 126; 49].        (* "git~1" *)
Definition s_dot : bytes := [46].
Definition s_dotdot : bytes := [46; 46].

(* pathutil.IsDotGitName *)
Definition is_dotgit_name (p : bytes) : bool := ieqb p s_dotgit || ieqb p s_git1.

(* pathutil.IsNTFSDotGit: ".git" or "git~1" (any case) followed by dots / spaces, or by ':' *)
Fixpoint ntfs_tail (r : bytes) : bool :=
  match r with
  | [] => true
  | c :: r' => if c =? 58 then true else if (c =? 46) || (c =? 32) then ntfs_tail r' else false
  end.

Definition is_ntfs_dotgit (p : bytes) : bool :=
  match p with
  | a :: b :: c :: d :: r =>
    if (a =? 46) && (lower b =? 103) && (lower c =? 105) && (lower d =? 116) then ntfs_tail r
    else match r with
         | e :: r' =>
           if (lower a =? 103) && (lower b =? 105) && (lower c =? 116) && (d =? 126) && (e =? 49)
           then ntfs_tail r' else false
         | [] => false
         end
  | _ => false
  end.

Definition reserved_names : list bytes :=
  map bytes_of_string
    ["CON"; "PRN"; "AUX"; "NUL"; "COM1"; "COM2"; "COM3"; "COM4"; "COM5"; "COM6"; "COM7"; "COM8"; "COM9";
     "LPT1"; "LPT2"; "LPT3"; "LPT4"; "LPT5"; "LPT6"; "LPT7"; "LPT8"; "LPT9"; "CONIN$"; "CONOUT$"]%string.

Definition reserved_match (p name : bytes) : bool :=
  let n := List.length name in
  if Nat.ltb (List.length p) n then false
  else if negb (ieqb (firstn n p) name) then false
  else match skipn n p with
       | [] => true
       | c :: _ => (c =? 32) || (c =? 46) || (c =? 58)
       end.

Definition is_windows_reserved (p : bytes) : bool := existsb (reserved_match p) reserved_names.

(* pathutil.WindowsValidPath *)
Definition windows_valid (p : bytes) : bool :=
  negb (is_ntfs_dotgit p && negb (is_dotgit_name p)) && negb (is_windows_reserved p).

Definition is_ctl (c : N) : bool := (c <? 32) || (c =? 127).

(* the per-component loop of validPath; [first] = component index 0 *)
Fixpoint valid_parts (ntfs : bool) (first : bool) (parts : list bytes) : bool :=
  match parts with
  | [] => true
  | q :: r =>
    let final := match r with [] => true | _ => false end in
    negb (beqb q s_dot) && negb (beqb q s_dotdot)
    && negb (is_dotgit_name q && (first || negb final))     (* HFS variant = same test on ASCII *)
    && (negb ntfs || windows_valid q)
    && valid_parts ntfs false r
  end.

(* worktreeFilesystem.validPath for one path *)
Definition valid_path (ntfs hfs : bool) (p : bytes) : bool :=
  negb (existsb is_ctl p)
  && match fields is_sep p with
     | [] => false
     | parts => valid_parts ntfs true parts
     end.

(* pathutil.ValidTreePath *)
Definition valid_tree_path (p : bytes) : bool :=
  negb (existsb is_ctl p)
  && match fields is_sep p with
     | [] => false
     | parts => forallb (fun q => negb (beqb q s_dot) && negb (beqb q s_dotdot)
                                  && negb (is_dotgit_name q) && negb (is_ntfs_dotgit q)) parts
     end.

(* ---------- how a POSIX kernel reads the same string: components are the
   '/'-separated non-empty runs; "." stays, ".." pops (escape when nothing is
   left to pop); billy joins the result below the worktree root *)
Definition os_parts (p : bytes) : list bytes := fields is_slash p.

Fixpoint lex_resolve (stack : list bytes) (parts : list bytes) : option (list bytes) :=
  match parts with
  | [] => Some (rev stack)
  | q :: r =>
    if beqb q s_dot then lex_resolve stack r
    else if beqb q s_dotdot then match stack with [] => None | _ :: st => lex_resolve st r end
    else lex_resolve (q :: stack) r
  end.

(* ---------- symlink discipline (validNoLeadingSymlink) over an abstract file tree.
   [lstat d] is what Lstat answers for the LEXICAL path d (list of components). *)
Inductive ntype := TMissing | TFile | TDir | TLink.

Fixpoint proper_prefixes {A} (l : list A) : list (list A) :=
  match l with
  | [] => []
  | x :: r => match r with [] => [] | _ => [x] :: map (cons x) (proper_prefixes r) end
  end.

Definition is_link (t : ntype) : bool := match t with TLink => true | _ => false end.

(* validNoLeadingSymlink, reading Lstat through an arbitrary resolver [os_lstat] *)
Definition no_leading_symlink (os_lstat : list bytes -> ntype) (parts : list bytes) : bool :=
  forallb (fun d => negb (is_link (os_lstat d))) (proper_prefixes parts).

(* correspondence entry points *)
Definition c26_valid_path (ntfs hfs : bool) (p : string) : out := OBool (valid_path ntfs hfs (unhex p)).
Definition c26_valid_tree_path (p : string) : out := OBool (valid_tree_path (unhex p)).
