(* Model/IndexCacheExt.v — G for C20, second part: the extension pointers of an *index.Index
   (Cache, ResolveUndo, EndOfIndexEntry) through storage/filesystem/index.go.

   copyIndex copies the struct, so the three pointers travel with every copy.  The decoder sets
   them when the file carries TREE / REUC / EOIE (C12_we_read_git); the encoder writes no extension
   (C12_roundtrip: what it wrote decodes to an Index without extensions).  What matters here is
   only WHETHER an Index reports extension data, so an Index is abstracted to that boolean:
     file      : Some (has extensions, stat key) | None
     cache     : Some (cached Index reports extensions, key it was stored under) | None
     handles   : the Indexes callers hold
   [fixed] selects what SetIndex caches:
     fixed = false : copyIndex(idx) as is (the tree as found: the pointers of the caller's Index)
     fixed = true  : the copy with the three pointers cleared ("fix: SetIndex caches what it wrote")
   Every write of the file produces a stat key never seen before (the property's premise).
   Executable definitions only. *)
From Coq Require Import List NArith Arith Bool String.
From GoGit Require Import Base.Out.
Import ListNotations.

Record est := mkE {
  edisk : option (bool * nat);
  eclock : nat;
  ecache : option (bool * nat);
  ehandles : list bool }.

Definition einit : est := mkE None 0 None [].

Inductive eop :=
| EIndex                       (* h := Storer.Index() *)
| ESetIndex (h : nat)          (* Storer.SetIndex(h) *)
| EDrop (h : nat)              (* the caller clears h.Cache / ResolveUndo / EndOfIndexEntry *)
| EExternal (ext : bool)       (* another process rewrites .git/index, with or without extensions *)
| EExtDelete                   (* ... or removes it *)
| ENop.                        (* any operation on the entries of a handle (Model/IndexCache.v) *)

(* IndexStorage.Index: what the returned Index reports, and the state afterwards *)
Definition eindex_core (s : est) : bool * est :=
  match edisk s with
  | None => (false, mkE (edisk s) (eclock s) None (ehandles s))              (* cache.Clear(), empty index *)
  | Some (x, key) =>
    match ecache s with
    | Some (cx, k) =>
      if Nat.eqb k key then (cx, s)                                            (* cache hit: copyIndex(cached) *)
      else (x, mkE (edisk s) (eclock s) (Some (x, key)) (ehandles s))          (* decode, cache.Set, copyIndex *)
    | None => (x, mkE (edisk s) (eclock s) (Some (x, key)) (ehandles s))
    end
  end.

Fixpoint eset_nth (k : nat) (x : bool) (l : list bool) : list bool :=
  match l, k with
  | [], _ => []
  | _ :: r, O => x :: r
  | y :: r, S k' => y :: eset_nth k' x r
  end.

Definition estep (fixed : bool) (s : est) (o : eop) : est :=
  match o with
  | EIndex => let '(x, s1) := eindex_core s in mkE (edisk s1) (eclock s1) (ecache s1) (ehandles s1 ++ [x])
  | ESetIndex h =>
    match nth_error (ehandles s) h with
    | Some hx =>
      let key := S (eclock s) in                      (* the encoder writes entries only *)
      mkE (Some (false, key)) key (Some ((if fixed then false else hx), key)) (ehandles s)
    | None => s
    end
  | EDrop h =>
    match nth_error (ehandles s) h with
    | Some _ => mkE (edisk s) (eclock s) (ecache s) (eset_nth h false (ehandles s))
    | None => s
    end
  | EExternal x => mkE (Some (x, S (eclock s))) (S (eclock s)) (ecache s) (ehandles s)
  | EExtDelete => mkE None (eclock s) (ecache s) (ehandles s)
  | ENop => s
  end.

Definition erun (fixed : bool) (ops : list eop) : est := fold_left (estep fixed) ops einit.

(* what a reader gets now / what the file holds *)
Definition eread_now (s : est) : bool * est := eindex_core s.
Definition edisk_ext (s : est) : bool := match edisk s with Some (x, _) => x | None => false end.

(* ---- correspondence: after every operation the harness calls Index() and decodes the file ---- *)
Fixpoint etrace (fixed : bool) (s : est) (ops : list eop) : list out :=
  match ops with
  | [] => []
  | o :: r =>
    let s1 := estep fixed s o in
    let '(v, s2) := eread_now s1 in
    OList [OBool v; OBool (edisk_ext s2)] :: etrace fixed s2 r
  end.

Definition c20_ext (fixed : bool) (ops : list eop) : out := OList (etrace fixed einit ops).

(* ... with quiet steps (flag true: the harness does not call Index() after the operation), as in
   Model/IndexCache.trace_q *)
Fixpoint etrace_q (fixed : bool) (s : est) (ops : list (bool * eop)) : list out :=
  match ops with
  | [] => []
  | (q, o) :: r =>
    let s1 := estep fixed s o in
    if q then OSym "quiet" :: etrace_q fixed s1 r
    else let '(v, s2) := eread_now s1 in
         OList [OBool v; OBool (edisk_ext s2)] :: etrace_q fixed s2 r
  end.

Definition c20_ext_q (fixed : bool) (ops : list (bool * eop)) : out := OList (etrace_q fixed einit ops).
