(* Model/WriteTree.v — G for C28 (commit), the tree objects themselves:
   worktree_commit.go buildTreeHelper.copyTreeToStorageRecursive — per directory:
   sort.Sort(sortableEntries) by sortName, the sub-trees first, then
   Tree.Encode (Tree.Validate + the entry bytes, Model/TreeObj.v of C04) and the
   object id (SHA-1 of "tree <len>\0" ++ body, Spec/SHA.v of C01).  Blob ids are
   computed from the contents of the case.  SHA-1 repositories only.
   Executable definitions only, the code AS IT IS. *)
From Coq Require Import List NArith ZArith Bool String.
From GoGit Require Import Base.Out Model.Status Model.IndexOps Gen.C04.
From GoGit Require Model.TreeObj Spec.SHA.
Import ListNotations.
Local Open Scope N_scope.

Definition obj_id (kind : string) (body : bytes) : bytes :=
  SHA.sha1 (bytes_of_string kind ++ [32] ++ bytes_of_string (dec_of_N (N.of_nat (List.length body))) ++ [0] ++ body).

Definition blob_id (tbl : list bytes) (h : hash) : bytes := obj_id "blob" (content_of tbl (h_cid h)).

Definition tmode (m : fmode) : Z :=
  match m with MReg => fmode_Regular | MExec => fmode_Executable | MLink => fmode_Symlink end.

(* the TreeEntry values appended by doBuildTree: a sub-tree has mode Dir and no hash yet *)
Definition raw_entry (tbl : list bytes) (e : tent) : TreeObj.tentry :=
  match snd e with
  | Some (m, h) => TreeObj.mkT (tmode m) (fst e) (blob_id tbl h)
  | None => TreeObj.mkT fmode_Dir (fst e) []
  end.

Fixpoint map_opt {A B} (f : A -> option B) (l : list A) : option (list B) :=
  match l with
  | [] => Some []
  | x :: r => match f x, map_opt f r with Some y, Some ys => Some (y :: ys) | _, _ => None end
  end.

(* None: out of fuel, a missing h.trees entry (Go would panic), or Encode refuses the tree *)
Fixpoint g_tree_id (fuel : nat) (tbl : list bytes) (t : trees) (d : path) : option bytes :=
  match fuel with
  | O => None
  | S f =>
    match trees_get t d with
    | None => None
    | Some es =>
      let sorted := TreeObj.sort_entries (map (raw_entry tbl) es) in
      let fill (te : TreeObj.tentry) : option TreeObj.tentry :=
          if (TreeObj.t_mode te =? fmode_Dir)%Z
          then option_map (TreeObj.mkT fmode_Dir (TreeObj.t_name te)) (g_tree_id f tbl t (join d (TreeObj.t_name te)))
          else Some te in
      match map_opt fill sorted with
      | None => None
      | Some l => option_map (obj_id "tree") (TreeObj.encode l)
      end
    end
  end.

Definition depth_of (p : path) : nat := List.length (split_slash p []).
Definition max_depth (i : list ientry) : nat := fold_right (fun e a => Nat.max (depth_of (ie_path e)) a) O i.

Definition g_write_tree (tbl : list bytes) (i : list ientry) : option bytes :=
  g_tree_id (S (max_depth i)) tbl (build_trees i) [].

(* ------------------------------------------------------------ correspondence entry point *)

(* Commit: the listing of Model/IndexOps.v and the id of the root tree *)
Definition c28_commit_id (tbl : list string) (s : state) : out :=
  let t := map unhex tbl in
  match g_commit s, g_write_tree t (st_index s) with
  | Some files, Some id =>
    OList [OSym "ok";
           OList (map (fun '(p, m, h) => OList [OBytes p; out_mode m; OBytes (content_of t (h_cid h))])
                      (sort_by (fun x => fst (fst x)) files));
           OBytes id]
  | _, _ => OList [OSym "err"; OList []; OBytes []]
  end.
