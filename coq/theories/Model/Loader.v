(* Model/Loader.v — G for C40: plumbing/transport/loader.go
   FilesystemLoader.load / readGitfile over an abstract filesystem (a finite
   map from absolute component lists to directory / regular-file nodes, no
   symbolic links), with the two Chroot implementations a loader base can have
   in go-billy v6: osfs.BoundOS (osfs.New) and helper/chroot.ChrootHelper
   (memfs, and any polyfilled Basic filesystem).  Executable definitions only. *)
From Coq Require Import List NArith Bool String.
From GoGit Require Import Base.Out Model.GoPath.
Import ListNotations.
Local Open Scope N_scope.

Inductive node := NDir | NFile (content : bytes).
Definition fsmap := list (list bytes * node).

Fixpoint ceq (a b : list bytes) : bool :=
  match a, b with
  | [], [] => true
  | x :: a', y :: b' => beq x y && ceq a' b'
  | _, _ => false
  end.

Fixpoint lookup (fs : fsmap) (k : list bytes) : option node :=
  match fs with
  | [] => None
  | (k', n) :: r => if ceq k' k then Some n else lookup r k
  end.

Inductive lerr := ENotFound | EBadGitfile | EChroot | EFuel.
Inductive res (A : Type) := Ok (a : A) | Err (e : lerr).
Arguments Ok {A}. Arguments Err {A}.

Inductive fskind := Bound | Chroot.

(* os.Root walk below an existing directory [cur] (no symbolic links): the
   first missing component gives ENOENT, a regular file anywhere (also as the
   last component: newRoot refuses a non-directory) gives an error *)
Inductive walk_res := WDir | WNotExist | WError.
Fixpoint walk (fs : fsmap) (cur : list bytes) (cs : list bytes) : walk_res :=
  match cs with
  | [] => WDir
  | c :: r =>
    match lookup fs (cur ++ [c]) with
    | None => WNotExist
    | Some (NFile _) => WError
    | Some NDir => walk fs (cur ++ [c]) r
    end
  end.

(* BoundOS.Chroot for a base directory R <> "/" *)
Definition chroot_bound (fs : fsmap) (R path : bytes) : res bytes :=
  match lookup fs (comps R) with
  | None => Ok (chroot_path R path)                (* rootFS: base does not exist *)
  | Some (NFile _) => Err EChroot
  | Some NDir =>
    let rel := to_relative R path in
    let rel' := if is_nil rel then DOT else rel in
    match walk fs (comps R) (comps rel) with
    | WNotExist => Ok (chroot_path R path)
    | WError => Err EChroot
    | WDir => Ok (clean (os_join_path R rel'))
    end
  end.

(* ChrootHelper.Chroot: underlyingPath *)
Definition chroot_helper (R path : bytes) : res bytes :=
  if is_cross_boundaries path then Err EChroot else Ok (join2 R path).

Definition chroot (k : fskind) (fs : fsmap) (R path : bytes) : res bytes :=
  match k with Bound => chroot_bound fs R path | Chroot => chroot_helper R path end.

(* fs.Lstat(name) on the chrooted filesystem, name a single plain component *)
Definition lstat (k : fskind) (fs : fsmap) (root name : bytes) : option node :=
  match k with
  | Bound =>
    match lookup fs (comps root) with
    | Some NDir => lookup fs (comps root ++ [name])
    | _ => None
    end
  | Chroot => lookup fs (comps (join2 root name))
  end.

Definition DOTGIT : bytes := [46; 103; 105; 116].           (* ".git" *)
Definition CONFIG : bytes := [99; 111; 110; 102; 105; 103].  (* "config" *)
Definition GITDIR_PREFIX : bytes := [103; 105; 116; 100; 105; 114; 58; 32]. (* "gitdir: " *)

(* bufio ReadString('\n'): up to and including the first LF *)
Fixpoint first_line (s : bytes) : bytes :=
  match s with
  | [] => []
  | c :: r => if c =? 10 then [c] else c :: first_line r
  end.

(* the ASCII part of unicode.IsSpace (gitfiles with bytes >= 0x80 next to the
   ends of the value are outside the model) *)
Definition is_space (c : N) : bool :=
  (c =? 32) || (c =? 9) || (c =? 10) || (c =? 11) || (c =? 12) || (c =? 13).
Fixpoint trim_left_space (s : bytes) : bytes :=
  match s with
  | c :: r => if is_space c then trim_left_space r else s
  | [] => []
  end.
Definition trim_space (s : bytes) : bytes := rev (trim_left_space (rev (trim_left_space s))).

(* readGitfile *)
Definition parse_gitfile (content : bytes) : option bytes :=
  let line := first_line content in
  if has_prefix GITDIR_PREFIX line
  then Some (trim_space (skipn (List.length GITDIR_PREFIX) line))
  else None.

(* FilesystemLoader.load; second component: every path handed to the
   filesystem (Lstat / Open), root-joined *)
Fixpoint load (fuel : nat) (k : fskind) (fs : fsmap) (R : bytes) (strict : bool)
         (path : bytes) (tried : bool) : res bytes * list bytes :=
  match fuel with
  | O => (Err EFuel, [])
  | S fuel' =>
    match chroot k fs R path with
    | Err e => (Err e, [])
    | Ok root =>
      let tg := join2 root DOTGIT in
      let tc := join2 root CONFIG in
      let again p t := let '(r, l) := load fuel' k fs R strict p true in (r, t ++ l) in
      let bare t :=
        match lstat k fs root CONFIG with
        | Some (NFile _) => (Ok root, t ++ [tc])
        | _ =>
          if negb strict && negb tried then again (path ++ DOTGIT) (t ++ [tc])
          else (Err ENotFound, t ++ [tc])
        end in
      if negb tried && negb strict then
        match lstat k fs root DOTGIT with
        | Some NDir => again (join2 path DOTGIT) [tg]
        | Some (NFile c) =>
          match parse_gitfile c with
          | None => (Err EBadGitfile, [tg])
          | Some gd => again (if is_abs gd then gd else join2 path gd) [tg]
          end
        | None => bare [tg]
        end
      else bare []
    end
  end.

(* ---- correspondence entry points ---- *)

Definition err_name (e : lerr) : string :=
  match e with
  | ENotFound => "notfound" | EBadGitfile => "badgitfile" | EChroot => "chroot" | EFuel => "fuel"
  end%string.

(* insertion sort + dedup of byte strings (canonical footprint) *)
Fixpoint ble (a b : bytes) : bool :=
  match a, b with
  | [], _ => true
  | _ :: _, [] => false
  | x :: a', y :: b' => if x <? y then true else if y <? x then false else ble a' b'
  end.
Fixpoint insert_u (x : bytes) (l : list bytes) : list bytes :=
  match l with
  | [] => [x]
  | y :: r => if beq x y then l else if ble x y then x :: l else y :: insert_u x r
  end.
Definition sort_u (l : list bytes) : list bytes := fold_right insert_u [] l.

(* tree: (path below T, None = directory | Some content); T, req in hex *)
Definition mk_fs (T : bytes) (tree : list (string * option string)) : fsmap :=
  (comps T, NDir) ::
  map (fun e => (comps (T ++ SL :: unhex (fst e)),
                 match snd e with None => NDir | Some c => NFile (unhex c) end)) tree.

Definition c40_run (kind : bool) (strict : bool) (T : string)
           (tree : list (string * option string)) (req : string) : out :=
  let t := unhex T in
  let R := t ++ SL :: [82] in
  let '(r, touched) := load 2 (if kind then Bound else Chroot) (mk_fs t tree) R strict (unhex req) false in
  match r with
  | Ok root => OOk [OBytes root; OList (map OBytes (sort_u touched))]
  | Err e => OErr (err_name e)
  end.

Definition c40_paths (fn : string) (a b : string) : out :=
  let a := unhex a in let b := unhex b in
  if String.eqb fn "clean" then OBytes (clean a)
  else if String.eqb fn "join" then OBytes (join2 a b)
  else if String.eqb fn "bound" then OOk [OBytes (chroot_path a b)]
  else match chroot_helper a b with Ok r => OOk [OBytes r] | Err _ => OErr "chroot" end.
