(* Model/ConfigEnc.v — G for C48.
   (1) plumbing/format/config/encoder.go: Encoder.Encode, encodeSection,
       encodeSubsection, encodeOptions, valueReplacer, subsectionReplacer, as
       they are after the repair "fix: quote config values containing a
       carriage return" (CR belongs to the quoting trigger set).
   (2) the boolean / numeric readers of config/config.go and
       config/optbool.go (there are seven different ones), together with the
       decoder's treatment of a valueless key (decoder.go drops gcfg's
       `blank` flag, so the reader sees "").
   Executable definitions only. *)
From Coq Require Import List NArith ZArith Bool String.
From GoGit Require Import Base.Out.
Import ListNotations.
Local Open Scope N_scope.

(* ---------- format/config data ---------- *)
Definition copt := (bytes * bytes)%type.                   (* Option{Key, Value} *)
Definition csub := (bytes * list copt)%type.               (* Subsection{Name, Options} *)
Definition csec := (bytes * list copt * list csub)%type.   (* Section{Name, Options, Subsections} *)
Definition cfg := list csec.                               (* Config.Sections *)

(* ---------- encoder.go ---------- *)
(* valueReplacer = NewReplacer(DQ -> BSL DQ, BSL -> BSL BSL, LF -> BSL n,
   TAB -> BSL t, BS -> BSL b): all patterns are single bytes, so the replacer
   is a per-byte map *)
Definition esc_value (c : N) : bytes :=
  if c =? 34 then [92; 34] else if c =? 92 then [92; 92]
  else if c =? 10 then [92; 110] else if c =? 9 then [92; 116]
  else if c =? 8 then [92; 98] else [c].
(* subsectionReplacer = NewReplacer(DQ -> BSL DQ, BSL -> BSL BSL) *)
Definition esc_sub (c : N) : bytes :=
  if c =? 34 then [92; 34] else if c =? 92 then [92; 92] else [c].

(* strings.ContainsAny(v, HASH SEMI DQ TAB LF CR BSL) *)
Definition trigger (c : N) : bool :=
  (c =? 35) || (c =? 59) || (c =? 34) || (c =? 9) || (c =? 10) || (c =? 92) || (c =? 13).
Definition has_prefix_sp (v : bytes) : bool := match v with c :: _ => c =? 32 | [] => false end.
Fixpoint has_suffix_sp (v : bytes) : bool :=
  match v with
  | [] => false
  | [c] => c =? 32
  | _ :: r => has_suffix_sp r
  end.
Definition needs_quote (v : bytes) : bool :=
  existsb trigger v || has_prefix_sp v || has_suffix_sp v.

Definition enc_value (v : bytes) : bytes :=
  if needs_quote v then 34 :: flat_map esc_value v ++ [34] else v.
(* TAB key SP = SP value LF *)
Definition enc_opt (o : copt) : bytes :=
  let '(k, v) := o in 9 :: k ++ [32; 61; 32] ++ enc_value v ++ [10].
Definition enc_opts (os : list copt) : bytes := flat_map enc_opt os.
(* [sec SP DQ sub DQ] LF — a subsection always emits its header *)
Definition enc_sub (sec : bytes) (s : csub) : bytes :=
  let '(name, os) := s in
  91 :: sec ++ [32; 34] ++ flat_map esc_sub name ++ [34; 93; 10] ++ enc_opts os.
(* [sec] LF only when the section has options of its own *)
Definition enc_sec (s : csec) : bytes :=
  let '(name, os, subs) := s in
  (match os with [] => [] | _ => 91 :: name ++ [93; 10] ++ enc_opts os end)
  ++ flat_map (enc_sub name) subs.
Definition encode (c : cfg) : bytes := flat_map enc_sec c.

(* ---------- config.go / optbool.go readers ---------- *)
Fixpoint beqb (a b : bytes) : bool :=
  match a, b with
  | [], [] => true
  | x :: a', y :: b' => (x =? y) && beqb a' b'
  | _, _ => false
  end.
Definition s_true : bytes := [116;114;117;101].
Definition s_false : bytes := [102;97;108;115;101].
Definition ascii_lower (c : N) : N := if (65 <=? c) && (c <=? 90) then c + 32 else c.

(* decoder.go: the callback ignores gcfg's `blank` flag *)
Definition go_value (v : option bytes) : bytes := match v with Some s => s | None => [] end.

(* core.bare, remote.<n>.mirror, remote.<n>.promisor:  Get(key) == "true" *)
Definition go_eq_true (s : bytes) : bool := beqb s s_true.
(* core.filemode: default true, false only for == "false";
   pack.readReverseIndex / writeReverseIndex: Get(key) != "false" *)
Definition go_ne_false (s : bytes) : bool := negb (beqb s s_false).
(* extensions.worktreeConfig: strings.EqualFold(v, "true"); no letter of
   "true" has a non-ASCII simple fold, so the fold is ASCII *)
Definition go_fold_true (s : bytes) : bool := beqb (map ascii_lower s) s_true.

Inductive optbool := OBUnset | OBFalse | OBTrue.
Definition new_optbool (b : bool) : optbool := if b then OBTrue else OBFalse.

(* strconv.ParseBool: tag/commit.gpgSign, index.skipHash, uploadArchive.allowUnreachable *)
Definition go_parse_bool (s : bytes) : optbool :=
  if beqb s [49] || beqb s [116] || beqb s [84] || beqb s [84;82;85;69] || beqb s s_true || beqb s [84;114;117;101]
  then OBTrue
  else if beqb s [48] || beqb s [102] || beqb s [70] || beqb s [70;65;76;83;69] || beqb s s_false || beqb s [70;97;108;115;101]
  then OBFalse
  else OBUnset.

(* strconv digits in base 10, unbounded *)
Fixpoint dec_digits_val (s : bytes) (acc : N) : option N :=
  match s with
  | [] => Some acc
  | c :: r => if (48 <=? c) && (c <=? 57) then dec_digits_val r (acc * 10 + (c - 48)) else None
  end.
(* strconv.Atoi on a 64-bit platform: optional sign, at least one digit,
   range error outside int64 *)
Definition go_atoi (s : bytes) : option Z :=
  let '(neg, d) := match s with
                   | c :: r => if c =? 45 then (true, r) else if c =? 43 then (false, r) else (false, s)
                   | [] => (false, s)
                   end in
  match d with
  | [] => None
  | _ =>
    match dec_digits_val d 0 with
    | None => None
    | Some n =>
      if neg then (if n <=? 9223372036854775808 then Some (- Z.of_N n)%Z else None)
      else (if n <=? 9223372036854775807 then Some (Z.of_N n) else None)
    end
  end.
(* optbool.go parseConfigBool: core.protectNTFS / protectHFS.  strings.ToLower
   is Unicode aware, but only ASCII letters lower to the letters of the six
   words (U+212A lowers to k, U+0130 to i: neither occurs), so ASCII lowering
   decides the same matches. *)
Definition w_in (l : bytes) (ws : list bytes) : bool := existsb (beqb l) ws.
Definition parse_config_bool (s : bytes) : optbool :=
  let l := map ascii_lower s in
  if w_in l [s_true; [121;101;115]; [111;110]] then OBTrue
  else if w_in l [s_false; [110;111]; [111;102;102]] then OBFalse
  else match go_atoi s with
       | Some z => if Z.eqb z 0 then OBFalse else OBTrue
       | None => OBUnset
       end.

(* pack.window: "" -> DefaultPackWindow, else strconv.ParseUint(v, 10, 32);
   None = Unmarshal returns the error *)
Definition go_window (s : bytes) : option N :=
  match s with
  | [] => Some 10
  | _ => match dec_digits_val s 0 with
         | Some n => if n <? 4294967296 then Some n else None
         | None => None
         end
  end.

(* ---------- correspondence entry points ----------
   Byte strings arrive as lists of short hex string literals (Coq parses a long
   string literal in quadratic time).  A case of the encode suite is a list of
   containers [[tag]; name; key1; value1; key2; value2; ...]: tag "s" opens a
   section, tag "u" adds a subsection to the section opened last. *)
Definition unhexs (l : list string) : bytes := flat_map unhex l.
(* explicit list constructors: nested list notations elaborate very slowly *)
Definition C1 := @cons string.                    Definition N1 := @nil string.
Definition C2 := @cons (list string).             Definition N2 := @nil (list string).
Definition C3 := @cons (list (list string)).      Definition N3 := @nil (list (list string)).
Fixpoint mk_pairs (l : list (list string)) : list copt :=
  match l with
  | k :: v :: r => (unhexs k, unhexs v) :: mk_pairs r
  | _ => []
  end.
Definition add_container (acc : list csec) (c : list (list string)) : list csec :=
  match c with
  | [tag] :: name :: kv =>
    if String.eqb tag "s" then (unhexs name, mk_pairs kv, []) :: acc
    else match acc with
         | (n, os, subs) :: acc' => (n, os, subs ++ [(unhexs name, mk_pairs kv)]) :: acc'
         | [] => acc
         end
  | _ => acc
  end.
Definition c48_encode (cs : list (list (list string))) : out :=
  OBytes (encode (rev (fold_left add_container cs []))).

Definition o_optbool (o : optbool) : out :=
  OSym (match o with OBUnset => "unset" | OBFalse => "false" | OBTrue => "true" end)%string.
Definition c48_interp (kind : string) (v : option (list string)) : out :=
  let s := go_value (match v with Some h => Some (unhexs h) | None => None end) in
  if (String.eqb kind "bare" || String.eqb kind "mirror" || String.eqb kind "promisor")%string then OBool (go_eq_true s)
  else if (String.eqb kind "filemode" || String.eqb kind "readrev" || String.eqb kind "writerev")%string then OBool (go_ne_false s)
  else if (String.eqb kind "ntfs" || String.eqb kind "hfs")%string then o_optbool (parse_config_bool s)
  else if (String.eqb kind "taggpg" || String.eqb kind "commitgpg" || String.eqb kind "skiphash" || String.eqb kind "allowunreach")%string
       then o_optbool (go_parse_bool s)
  else if String.eqb kind "wtconfig"%string then OBool (go_fold_true s)
  else if String.eqb kind "window"%string then
    match go_window s with Some n => OOk [ON n] | None => OErr "unmarshal"%string end
  else OErr "kind"%string.
