(* Model/IndexFile.v — G for C12: plumbing/format/index/{encoder,decoder}.go
   and the two utils/binary varint helpers they use.  Executable definitions
   only.  The checksum function and its size are parameters (section
   variables): SHA-1 (20) or SHA-256 (32) of the bytes written/read so far. *)
From Coq Require Import List NArith ZArith Bool String Ascii.
From GoGit Require Import Base.Out.
Import ListNotations.
Local Open Scope N_scope.

(* ---- big-endian integers (utils/binary Write/Read of uint16/uint32) ---- *)
Definition u16 (n : N) : bytes := [(n / 256) mod 256; n mod 256].
Definition u32 (n : N) : bytes := [(n / 16777216) mod 256; (n / 65536) mod 256; (n / 256) mod 256; n mod 256].

Definition take (n : nat) (b : bytes) : option (bytes * bytes) :=
  if (n <=? List.length b)%nat then Some (firstn n b, skipn n b) else None.

Definition get_u16 (b : bytes) : option (N * bytes) :=
  match b with x :: y :: r => Some (x * 256 + y, r) | _ => None end.
Definition get_u32 (b : bytes) : option (N * bytes) :=
  match b with
  | x :: y :: z :: w :: r => Some (x * 16777216 + y * 65536 + z * 256 + w, r)
  | _ => None
  end.

(* binary.ReadUntil: bytes before the first [d]; None when there is no [d] (EOF) *)
Fixpoint read_until (d : N) (b : bytes) : option (bytes * bytes) :=
  match b with
  | [] => None
  | c :: r => if c =? d then Some ([], r)
              else match read_until d r with Some (v, r') => Some (c :: v, r') | None => None end
  end.

Fixpoint bytes_eqb (a b : bytes) : bool :=
  match a, b with
  | [], [] => true
  | x :: a', y :: b' => (x =? y) && bytes_eqb a' b'
  | _, _ => false
  end.

Inductive err :=
| EEof | EMalformedSignature | EUnsupportedVersion | EMalformed | EUnknownExtension
| EInvalidChecksum | EOverflow | EInvalidTimestamp | ESyntax
| EFuel.           (* never returned for fuel = input length: excluded by the theorems *)

Inductive res (A : Type) := Ok (a : A) | Err (e : err).
Arguments Ok {A}. Arguments Err {A}.

(* ---- utils/binary: git's offset varint ---- *)
(* WriteVariableWidthInt *)
Fixpoint varint_more (fuel : nat) (n : N) (acc : bytes) : bytes :=
  match fuel with
  | O => acc
  | S f => if n =? 0 then acc
           else let n1 := n - 1 in varint_more f (n1 / 128) ((128 + n1 mod 128) :: acc)
  end.
Definition varint (n : N) : bytes := varint_more 10 (n / 128) [n mod 128].

(* ReadVariableWidthInt; (MaxInt64-127)>>7 = 72057594037927934 *)
Definition varint_limit : N := 72057594037927934.
Fixpoint read_varint_loop (fuel : nat) (v c : N) (b : bytes) : res (N * bytes) :=
  if c <? 128 then Ok (v, b) else
  if varint_limit <=? v then Err EOverflow else
  match b with
  | [] => Err EEof
  | c' :: r =>
    match fuel with
    | O => Err EFuel
    | S f => read_varint_loop f ((v + 1) * 128 + c' mod 128) c' r
    end
  end.
Definition read_varint (b : bytes) : res (N * bytes) :=
  match b with
  | [] => Err EEof
  | c :: r => read_varint_loop (List.length r) (c mod 128) c r
  end.

(* ---- index.go ---- *)
Inductive gtime := TZero | TUnix (sec : Z) (nsec : N).

Record entry := mkEntry {
  e_name : bytes; e_stage : N;
  e_ctime : gtime; e_mtime : gtime;
  e_dev : N; e_ino : N; e_mode : N; e_uid : N; e_gid : N; e_size : N;
  e_hash : bytes; e_skip : bool; e_ita : bool }.

Record tree_entry := mkTE { te_path : bytes; te_entries : Z; te_trees : Z; te_hash : bytes }.
Record reuc_entry := mkRE { re_path : bytes; re_stages : list (N * bytes) }.

Record index := mkIndex {
  i_version : N; i_entries : list entry;
  i_cache : option (list tree_entry);
  i_reuc : option (list reuc_entry);
  i_eoie : option (N * bytes) }.

Definition nameMask : N := 4095.          (* 0xfff *)
Definition entryExtended : N := 16384.    (* 0x4000 *)
Definition intentToAddMask : N := 8192.   (* 1 << 13 *)
Definition skipWorkTreeMask : N := 16384. (* 1 << 14 *)
Definition entryHeaderLength : N := 42.

Definition DIRC : bytes := [68; 73; 82; 67].
Definition TREE : bytes := [84; 82; 69; 69].
Definition REUC : bytes := [82; 69; 85; 67].
Definition EOIE : bytes := [69; 79; 73; 69].

(* ---- encoder.go ---- *)
(* byNameAndStage.Less *)
Fixpoint bytes_ltb (a b : bytes) : bool :=
  match a, b with
  | _, [] => false
  | [], _ :: _ => true
  | x :: a', y :: b' => if x <? y then true else if y <? x then false else bytes_ltb a' b'
  end.
Definition entry_less (a b : entry) : bool :=
  if bytes_eqb (e_name a) (e_name b) then e_stage a <? e_stage b else bytes_ltb (e_name a) (e_name b).
(* sort.Sort is not stable; on distinct (name, stage) keys every sort agrees with this one *)
Fixpoint insert_entry (x : entry) (l : list entry) : list entry :=
  match l with
  | [] => [x]
  | y :: r => if entry_less y x then y :: insert_entry x r else x :: l
  end.
Definition sort_entries (l : list entry) : list entry := fold_right insert_entry [] l.

(* timeToUint32: zero time -> 0,0; Unix() < 0 or UnixNano() < 0 (int64 wrap) -> error *)
Definition wrap64s (z : Z) : Z :=
  let m := (z mod 18446744073709551616)%Z in
  if (m <? 9223372036854775808)%Z then m else (m - 18446744073709551616)%Z.
Definition time_to_u32 (t : gtime) : res (N * N) :=
  match t with
  | TZero => Ok (0, 0)
  | TUnix s n =>
    if ((s <? 0) || (wrap64s (s * 1000000000 + Z.of_N n) <? 0))%Z then Err EInvalidTimestamp
    else Ok (Z.to_N (s mod 4294967296), n mod 4294967296)
  end.

Fixpoint common_prefix_len (a b : bytes) : nat :=
  match a, b with
  | x :: a', y :: b' => if x =? y then S (common_prefix_len a' b') else O
  | _, _ => O
  end.

Definition zeros (n : nat) : bytes := repeat 0 n.

Section Codec.
Variable hs : nat.                 (* hash.Size() *)
Variable H : bytes -> bytes.       (* checksum of a byte string *)

Definition fit (n : nat) (b : bytes) : bytes := firstn n (b ++ zeros n).

(* encodeEntry + padEntry; [last] is e.lastEntry's name (V4) *)
Definition encode_entry (ver : N) (last : option bytes) (e : entry) : res bytes :=
  match time_to_u32 (e_ctime e) with Err x => Err x | Ok (sec, nsec) =>
  match time_to_u32 (e_mtime e) with Err x => Err x | Ok (msec, mnsec) =>
    let l := N.of_nat (List.length (e_name e)) in
    let flags := ((e_stage e mod 4) * 4096 + (if l <? nameMask then l else nameMask)) in
    let ext := e_ita e || e_skip e in
    let flagbytes :=
      if ext then u16 (flags + entryExtended) ++
                  u16 ((if e_ita e then intentToAddMask else 0) + (if e_skip e then skipWorkTreeMask else 0))
      else u16 flags in
    let fixed := u32 sec ++ u32 nsec ++ u32 msec ++ u32 mnsec ++ u32 (e_dev e) ++ u32 (e_ino e) ++
                 u32 (e_mode e) ++ u32 (e_uid e) ++ u32 (e_gid e) ++ u32 (e_size e) ++
                 e_hash e ++ flagbytes in
    if (ver =? 2) || (ver =? 3) then
      let wrote := (42 + hs + (if ext then 2 else 0) + List.length (e_name e))%nat in
      Ok (fixed ++ e_name e ++ zeros (8 - wrote mod 8))
    else if ver =? 4 then
      let prefix := match last with Some ln => common_prefix_len ln (e_name e) | None => O end in
      let strip := match last with Some ln => (List.length ln - prefix)%nat | None => O end in
      Ok (fixed ++ varint (N.of_nat strip) ++ skipn prefix (e_name e) ++ [0])
    else Err EUnsupportedVersion
  end end.

Fixpoint encode_entries (ver : N) (last : option bytes) (l : list entry) : res bytes :=
  match l with
  | [] => Ok []
  | e :: r =>
    match encode_entry ver last e with
    | Err x => Err x
    | Ok b => match encode_entries ver (Some (e_name e)) r with Err x => Err x | Ok b' => Ok (b ++ b') end
    end
  end.

(* Encoder.Encode; extensions are not written.  Returns the bytes before the trailer and the trailer *)
Definition encode_body (ver : N) (entries : list entry) : res bytes :=
  if 4 <? ver then Err EUnsupportedVersion else
  match encode_entries ver None (sort_entries entries) with
  | Err x => Err x
  | Ok b => Ok (DIRC ++ u32 (ver mod 4294967296) ++ u32 (N.of_nat (List.length entries) mod 4294967296) ++ b)
  end.
Definition encode (skip_hash : bool) (ver : N) (entries : list entry) : res bytes :=
  match encode_body ver entries with
  | Err x => Err x
  | Ok body => Ok (body ++ (if skip_hash then zeros hs else fit hs (H body)))
  end.

(* ---- decoder.go ---- *)
Definition mk_time (sec nsec : N) : gtime :=
  if (sec =? 0) && (nsec =? 0) then TZero
  else TUnix (Z.of_N (sec + nsec / 1000000000)) (nsec mod 1000000000).   (* time.Unix normalises *)

Definition eof {A} (o : option A) : res A := match o with Some a => Ok a | None => Err EEof end.

(* the fixed-size part of readEntry: ten uint32, the object name, the flags *)
Record fixedf := mkF { f_sec : N; f_nsec : N; f_msec : N; f_mnsec : N; f_dev : N; f_ino : N; f_mode : N;
                       f_uid : N; f_gid : N; f_size : N; f_hash : bytes; f_flags : N }.
Definition read_fixed (b : bytes) : option (fixedf * bytes) :=
  match get_u32 b with None => None | Some (sec, b) =>
  match get_u32 b with None => None | Some (nsec, b) =>
  match get_u32 b with None => None | Some (msec, b) =>
  match get_u32 b with None => None | Some (mnsec, b) =>
  match get_u32 b with None => None | Some (dev, b) =>
  match get_u32 b with None => None | Some (ino, b) =>
  match get_u32 b with None => None | Some (mode, b) =>
  match get_u32 b with None => None | Some (uid, b) =>
  match get_u32 b with None => None | Some (gid, b) =>
  match get_u32 b with None => None | Some (size, b) =>
  match take hs b with None => None | Some (hash, b) =>
  match get_u16 b with None => None | Some (flags, b) =>
    Some (mkF sec nsec msec mnsec dev ino mode uid gid size hash flags, b)
  end end end end end end end end end end end end.

(* readEntryName + padEntry for V2/V3 *)
Definition read_name23 (flags : N) (read : nat) (b : bytes) : res (bytes * bytes) :=
  let name_len := flags mod 4096 in
  match (if name_len =? nameMask then
           match read_until 0 b with None => Err EEof
           | Some (name, b') => Ok (name, S (List.length name), b') end
         else match take (N.to_nat name_len) b with None => Err EEof
              | Some (name, b') => Ok (name, List.length name, b') end) with
  | Err x => Err x
  | Ok (name, consumed, b) =>
    let entry_size := (read + List.length name)%nat in
    let pad := (8 - entry_size mod 8 - (consumed - List.length name))%nat in
    match take pad b with None => Err EEof | Some (_, b') => Ok (name, b') end
  end.

(* doReadEntryNameV4 *)
Definition read_name4 (last : option bytes) (b : bytes) : res (bytes * bytes) :=
  match read_varint b with
  | Err x => Err x
  | Ok (l, b) =>
    match (match last with
           | Some ln => if N.of_nat (List.length ln) <? l then Err EMalformed
                        else Ok (firstn (List.length ln - N.to_nat l) ln)
           | None => if 0 <? l then Err EMalformed else Ok []
           end) with
    | Err x => Err x
    | Ok base =>
      match read_until 0 b with None => Err EEof
      | Some (suffix, b') => Ok (base ++ suffix, b') end
    end
  end.

(* readEntry *)
Definition read_entry (ver : N) (last : option bytes) (b : bytes) : res (entry * bytes) :=
  match read_fixed b with None => Err EEof | Some (f, b) =>
    let flags := f_flags f in
    let stage := (flags / 4096) mod 4 in
    let extended := N.testbit flags 14 in
    match (if extended then
             match get_u16 b with None => Err EEof
             | Some (x, b') => Ok (N.testbit x 13, N.testbit x 14, b') end
           else Ok (false, false, b)) with
    | Err x => Err x
    | Ok (ita, skip, b) =>
      let read := (42 + hs + (if extended then 2 else 0))%nat in
      let mk name := mkEntry name stage (mk_time (f_sec f) (f_nsec f)) (mk_time (f_msec f) (f_mnsec f))
                             (f_dev f) (f_ino f) (f_mode f) (f_uid f) (f_gid f) (f_size f) (f_hash f) skip ita in
      match (if (ver =? 2) || (ver =? 3) then read_name23 flags read b
             else if ver =? 4 then read_name4 last b
             else Err EUnsupportedVersion) with
      | Err x => Err x
      | Ok (name, b') => Ok (mk name, b')
      end
    end
  end.

Fixpoint read_entries (fuel : nat) (ver count : N) (last : option bytes) (b : bytes) (acc : list entry)
  : res (list entry * bytes) :=
  if count =? 0 then Ok (rev acc, b) else
  match fuel with
  | O => Err EFuel
  | S f =>
    match read_entry ver last b with
    | Err x => Err x
    | Ok (e, b') => read_entries f ver (count - 1) (Some (e_name e)) b' (e :: acc)
    end
  end.

(* strconv.Atoi / ParseInt(s, base, 64): optional sign, digits of the base, int64 range *)
Fixpoint digits_val (base : N) (s : bytes) (acc : N) : option N :=
  match s with
  | [] => Some acc
  | c :: r => if (48 <=? c) && (c <? 48 + base) then digits_val base r (acc * base + (c - 48)) else None
  end.
Definition parse_int (base : N) (s : bytes) : option Z :=
  let '(neg, d) := match s with 45 :: r => (true, r) | 43 :: r => (false, r) | _ => (false, s) end in
  match d with
  | [] => None
  | _ => match digits_val base d 0 with
         | None => None
         | Some v => if neg then (if v <=? 9223372036854775808 then Some (- Z.of_N v)%Z else None)
                     else (if v <? 9223372036854775808 then Some (Z.of_N v) else None)
         end
  end.

(* treeExtensionDecoder.Decode: an EOF anywhere ends the extension silently,
   except a partially present hash (io.ErrUnexpectedEOF) *)
Fixpoint read_tree_ext (fuel : nat) (b : bytes) (acc : list tree_entry) : res (list tree_entry) :=
  match fuel with
  | O => Err EFuel
  | S f =>
    match read_until 0 b with None => Ok (rev acc) | Some (path, b) =>
    match read_until 32 b with None => Ok (rev acc) | Some (cnt, b) =>
    match parse_int 10 cnt with None => Err ESyntax | Some i =>
    match read_until 10 b with None => Ok (rev acc) | Some (tr, b) =>
    match parse_int 10 tr with None => Err ESyntax | Some t =>
      if (i <? 0)%Z then read_tree_ext f b acc
      else match b with
           | [] => Ok (rev acc)
           | _ => match take hs b with
                  | None => Err EEof
                  | Some (h, b') => read_tree_ext f b' (mkTE path i t h :: acc)
                  end
           end
    end end end end end
  end.

(* resolveUndoDecoder (hashes assigned in stage order) *)
Definition read_reuc_stage (b : bytes) : option (res (bool * bytes)) :=   (* None = EOF *)
  match read_until 0 b with
  | None => None
  | Some (a, b') => match parse_int 8 a with
                    | None => Some (Err ESyntax)
                    | Some m => Some (Ok (negb (m =? 0)%Z, b'))
                    end
  end.

Fixpoint read_reuc_hashes (present : list N) (b : bytes) (acc : list (N * bytes))
  : option (res (list (N * bytes) * bytes)) :=                              (* None = clean EOF *)
  match present with
  | [] => Some (Ok (rev acc, b))
  | s :: r => match b with
              | [] => None
              | _ => match take hs b with
                     | None => Some (Err EEof)
                     | Some (h, b') => read_reuc_hashes r b' ((s, h) :: acc)
                     end
              end
  end.

Fixpoint read_reuc_ext (fuel : nat) (b : bytes) (acc : list reuc_entry) : res (list reuc_entry) :=
  match fuel with
  | O => Err EFuel
  | S f =>
    match read_until 0 b with None => Ok (rev acc) | Some (path, b) =>
    match read_reuc_stage b with None => Ok (rev acc) | Some (Err x) => Err x | Some (Ok (p1, b)) =>
    match read_reuc_stage b with None => Ok (rev acc) | Some (Err x) => Err x | Some (Ok (p2, b)) =>
    match read_reuc_stage b with None => Ok (rev acc) | Some (Err x) => Err x | Some (Ok (p3, b)) =>
      let present := (if p1 then [1] else []) ++ (if p2 then [2] else []) ++ (if p3 then [3] else []) in
      match read_reuc_hashes present b [] with
      | None => Ok (rev acc)
      | Some (Err x) => Err x
      | Some (Ok (st, b')) => read_reuc_ext f b' (mkRE path st :: acc)
      end
    end end end end
  end.

Definition is_zero (b : bytes) : bool := forallb (fun c => c =? 0) b.

(* readExtensions + readChecksum; [all] is the whole input (for the checksum of the consumed prefix) *)
Fixpoint read_extensions (fuel : nat) (skip_hash : bool) (all b : bytes) (idx : index) : res index :=
  if (List.length b <? 8 + hs)%nat then
    match take hs b with
    | None => Err EEof
    | Some (h, _) =>
      if is_zero h || skip_hash then Ok idx
      else if bytes_eqb h (fit hs (H (firstn (List.length all - List.length b) all))) then Ok idx
      else Err EInvalidChecksum
    end
  else
  match fuel with
  | O => Err EFuel
  | S f =>
    match take 4 b with None => Err EEof | Some (sig, b1) =>
    match get_u32 b1 with None => Err EEof | Some (len, b2) =>
      let n := N.to_nat (N.min len (N.of_nat (List.length b2))) in   (* io.LimitedReader over the rest of the stream *)
      let data := firstn n b2 in
      let rest := skipn n b2 in
      if bytes_eqb sig TREE then
        match read_tree_ext (S (List.length data)) data [] with
        | Err x => Err x
        | Ok t => read_extensions f skip_hash all rest (mkIndex (i_version idx) (i_entries idx) (Some t) (i_reuc idx) (i_eoie idx))
        end
      else if bytes_eqb sig REUC then
        match read_reuc_ext (S (List.length data)) data [] with
        | Err x => Err x
        | Ok r => read_extensions f skip_hash all rest (mkIndex (i_version idx) (i_entries idx) (i_cache idx) (Some r) (i_eoie idx))
        end
      else if bytes_eqb sig EOIE then
        match get_u32 data with None => Err EEof | Some (off, d1) =>
        match take hs d1 with None => Err EEof | Some (h, d2) =>
          (* bytes after offset+hash are consumed with the extension (exact while the file fits bufio's buffer) *)
          read_extensions f skip_hash all rest (mkIndex (i_version idx) (i_entries idx) (i_cache idx) (i_reuc idx) (Some (off, h)))
        end end
      else
        match sig with
        | c :: _ => if (65 <=? c) && (c <=? 90) then read_extensions f skip_hash all rest idx else Err EUnknownExtension
        | [] => Err EEof
        end
    end end
  end.

(* Decoder.Decode *)
Definition decode (skip_hash : bool) (b : bytes) : res index :=
  match take 4 b with None => Err EEof | Some (sig, b1) =>
    if negb (bytes_eqb sig DIRC) then Err EMalformedSignature else
    match get_u32 b1 with None => Err EEof | Some (ver, b2) =>
      if (ver <? 2) || (4 <? ver) then Err EUnsupportedVersion else
      match get_u32 b2 with None => Err EEof | Some (count, b3) =>
        match read_entries (S (List.length b3)) ver count None b3 [] with
        | Err x => Err x
        | Ok (es, b4) => read_extensions (S (List.length b4)) skip_hash b b4 (mkIndex ver es None None None)
        end
      end
    end
  end.

End Codec.

(* ---- observables ---- *)
Definition err_sym (e : err) : string :=
  match e with
  | EEof => "eof" | EMalformedSignature => "malformed_signature" | EUnsupportedVersion => "unsupported_version"
  | EMalformed => "malformed" | EUnknownExtension => "unknown_extension" | EInvalidChecksum => "invalid_checksum"
  | EOverflow => "overflow" | EInvalidTimestamp => "invalid_timestamp" | ESyntax => "syntax"
  | EFuel => "fuel"
  end.

(* long byte strings are compared by length and a 32-bit polynomial digest (keeps case files small) *)
Definition digest (b : bytes) : N := fold_left (fun h c => (h * 1000003 + c + 1) mod 4294967291) b 0.
Definition obytes (b : bytes) : out :=
  if (64 <? List.length b)%nat then OList [OSym "long"; ONat (List.length b); ON (digest b)] else OBytes b.

Definition time_out (t : gtime) : list out :=
  match t with TZero => [ONum 0; ONum 0] | TUnix s n => [ONum s; ON n] end.

Definition entry_out (e : entry) : out :=
  OList ([obytes (e_name e); ON (e_stage e)] ++ time_out (e_ctime e) ++ time_out (e_mtime e) ++
         [ON (e_dev e); ON (e_ino e); ON (e_mode e); ON (e_uid e); ON (e_gid e); ON (e_size e);
          OBytes (e_hash e); OBool (e_skip e); OBool (e_ita e)]).

Definition index_out (i : index) : out :=
  OOk [ON (i_version i); OList (map entry_out (i_entries i));
       OOpt (fun l => OList (map (fun t => OList [OBytes (te_path t); ONum (te_entries t); ONum (te_trees t); OBytes (te_hash t)]) l)) (i_cache i);
       OOpt (fun l => OList (map (fun r => OList [OBytes (re_path r);
                                OList (map (fun sh => OList [ON (fst sh); OBytes (snd sh)]) (re_stages r))]) l)) (i_reuc i);
       OOpt (fun oh => OList [ON (fst oh); OBytes (snd oh)]) (i_eoie i)].

Definition res_out {A} (f : A -> out) (r : res A) : out :=
  match r with Ok a => f a | Err e => OErr (err_sym e) end.

(* ---- correspondence entry points ---- *)
(* the decoder hashes one prefix of the input: the one that leaves hs..hs+7 bytes;
   the harness supplies the checksums of those eight prefixes (sums[k] = checksum of
   data without its last hs+k bytes) *)
Definition c12_dec (hs : N) (skip_hash : bool) (sums : list string) (data : string) : out :=
  let d := unhex data in
  let Hf := fun prefix : bytes => unhex (nth (List.length d - N.to_nat hs - List.length prefix) sums EmptyString) in
  res_out index_out (decode (N.to_nat hs) Hf skip_hash d).

Definition c12_entry (name : string) (stage : N) (ct mt : gtime) (dev ino mode uid gid size : N) (hash : string)
  (skip ita : bool) : entry :=
  mkEntry (unhex name) stage ct mt dev ino mode uid gid size (unhex hash) skip ita.

(* encode: body bytes, "trailer is the checksum of the body" (true by construction here), decode of the file *)
Definition c12_enc (hs : N) (skip_hash : bool) (sum : string) (ver : N) (entries : list entry) : out :=
  let Hf := fun _ : bytes => unhex sum in
  match encode_body (N.to_nat hs) ver entries, encode (N.to_nat hs) Hf skip_hash ver entries with
  | Ok body, Ok file => OOk [obytes body; OBool true; res_out index_out (decode (N.to_nat hs) Hf false file)]
  | Err e, _ | _, Err e => OErr (err_sym e)
  end.

(* ---- long inputs and long outputs ----
   coqc overflows its (OCaml) stack when it reads back a rendered observable of more than a few
   10^4 characters: an observable whose text is long is replaced, on both sides, by its length and
   a digest.  Long inputs arrive as a list of hex literals. *)
Definition unhex_chunks (l : list string) : bytes := flat_map unhex l.

Fixpoint sdigest (s : string) (h : N) : N :=
  match s with
  | EmptyString => h
  | String a r => sdigest r ((h * 1000003 + N_of_ascii a + 1) mod 4294967291)
  end.
Definition short_limit : N := 20000.
Definition c12_short (o : out) : out :=
  let s := render o in
  if short_limit <? N.of_nat (String.length s) then OList [OSym "long"; ONat (String.length s); ON (sdigest s 0)] else o.

Definition c12_decs (hs : N) (skip_hash : bool) (sums : list string) (data : list string) : out :=
  let d := unhex_chunks data in
  let Hf := fun prefix : bytes => unhex (nth (List.length d - N.to_nat hs - List.length prefix) sums EmptyString) in
  c12_short (res_out index_out (decode (N.to_nat hs) Hf skip_hash d)).
