(* Model/RefStrings.v — the handful of Go `strings` functions used by the
   reference-name and reference-store code (plumbing/reference.go,
   storage/filesystem/dotgit), as executable functions over byte lists.
   Definitions only. *)
From Coq Require Import List NArith ZArith Bool.
From GoGit Require Import Base.Out.
Import ListNotations.
Local Open Scope N_scope.

Fixpoint beqb (a b : bytes) : bool :=
  match a, b with
  | [], [] => true
  | x :: a', y :: b' => (x =? y) && beqb a' b'
  | _, _ => false
  end.

(* strings.HasPrefix(s, p) *)
Fixpoint has_prefix (p s : bytes) : bool :=
  match p, s with
  | [], _ => true
  | x :: p', y :: s' => (x =? y) && has_prefix p' s'
  | _ :: _, [] => false
  end.

(* strings.HasSuffix(s, p) *)
Definition has_suffix (p s : bytes) : bool := has_prefix (rev p) (rev s).

(* strings.Contains(s, sub) *)
Fixpoint contains (sub s : bytes) : bool :=
  has_prefix sub s || match s with [] => false | _ :: r => contains sub r end.

(* strings.ContainsAny(s, chars) / strings.IndexByte >= 0 *)
Definition mem (c : N) (chars : bytes) : bool := existsb (N.eqb c) chars.
Definition contains_any (chars s : bytes) : bool := existsb (fun c => mem c chars) s.

(* strings.Split(s, sep) for a one-byte separator: always at least one field *)
Fixpoint split_on (sep : N) (s : bytes) : list bytes :=
  match s with
  | [] => [[]]
  | c :: r =>
    if c =? sep then [] :: split_on sep r
    else match split_on sep r with
         | [] => [[c]]                       (* unreachable: split_on is never empty *)
         | f :: fs => (c :: f) :: fs
         end
  end.

(* strings.Join(parts, sep) *)
Fixpoint join_with (sep : bytes) (parts : list bytes) : bytes :=
  match parts with
  | [] => []
  | [p] => p
  | p :: r => p ++ sep ++ join_with sep r
  end.

(* strings.CutPrefix *)
Fixpoint cut_prefix (p s : bytes) : option bytes :=
  match p, s with
  | [], _ => Some s
  | x :: p', y :: s' => if x =? y then cut_prefix p' s' else None
  | _ :: _, [] => None
  end.

(* strings.FieldsFunc(s, f): maximal runs of bytes not satisfying f *)
Fixpoint fields_func (f : N -> bool) (s : bytes) (cur : bytes) : list bytes :=
  match s with
  | [] => match cur with [] => [] | _ => [rev cur] end
  | c :: r =>
    if f c then match cur with [] => fields_func f r [] | _ => rev cur :: fields_func f r [] end
    else fields_func f r (c :: cur)
  end.

(* strings.TrimSpace on bytes < 0x80 (the reference files are ASCII here:
   Go also trims U+0085 and U+00A0, which need a non-ASCII byte) *)
Definition is_space (c : N) : bool :=
  (c =? 32) || (c =? 9) || (c =? 10) || (c =? 11) || (c =? 12) || (c =? 13).
Fixpoint trim_left (s : bytes) : bytes :=
  match s with
  | c :: r => if is_space c then trim_left r else s
  | [] => []
  end.
Definition trim_space (s : bytes) : bytes := rev (trim_left (rev (trim_left s))).

Definition Zs (l : list Z) : bytes := map Z.to_N l.
