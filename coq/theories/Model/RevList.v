(* Model/RevList.v — G for C37: plumbing/revlist/revlist.go (Objects) and
   plumbing/revlist/object_walk.go (seedHaves, markTreeSeen, seedWants,
   collectAllTreeObjects, walk, propagate, allStale, walkFull,
   processCommitTrees, collectChangedTreeObjects, insertSorted) over an
   abstract object store.  Executable definitions only.

   Object ids and entry names are abstract numbers; committer times are
   arbitrary integers (nothing relates a child's time to its parents').  The
   Go maps seen / wantsSeen / havesSeen / flags are lists used as sets; the
   result slice is kept newest-first (the observable is its sorted content,
   duplicates retained). *)
From Coq Require Import List NArith ZArith Bool String.
From GoGit Require Import Base.Out.
Import ListNotations.
Local Open Scope N_scope.

Definition oid := N.

(* filemode.Dir / filemode.Submodule / anything else *)
Inductive ekind := KDir | KFile | KSub.
Record entry := mkE { e_name : N; e_kind : ekind; e_id : oid }.

Inductive object :=
| Commit (tree : oid) (parents : list oid) (time : Z)
| Tree (es : list entry)
| Blob
| Tag (target : oid).

Definition store := list (oid * object).

Fixpoint get (st : store) (h : oid) : option object :=
  match st with
  | [] => None
  | (k, o) :: r => if k =? h then Some o else get r h
  end.

(* object.GetCommit / object.GetTree: a stored object of another type is
   ErrObjectNotFound (storage EncodedObject(type, h)) *)
Definition get_commit (st : store) (h : oid) : option (oid * list oid * Z) :=
  match get st h with Some (Commit t ps tm) => Some (t, ps, tm) | _ => None end.
Definition get_tree (st : store) (h : oid) : option (list entry) :=
  match get st h with Some (Tree es) => Some es | _ => None end.

Fixpoint mem (x : oid) (l : list oid) : bool :=
  match l with [] => false | y :: r => (y =? x) || mem x r end.

Inductive rerr := EWant | EParent | EMissing | ETree | EFuel.
Inductive res (A : Type) := Ok (a : A) | Err (e : rerr).
Arguments Ok {A} _.  Arguments Err {A} _.

(* walker state: (seen, result) *)
Definition wstate := (list oid * list oid)%type.
Definition emit (h : oid) (s : wstate) : wstate := (h :: fst s, h :: snd s).

(* ---- markTreeSeen: errors of GetTree are ignored, nothing is emitted ---- *)
Fixpoint mark_entries (rec : oid -> list entry -> list oid -> option (list oid))
         (st : store) (es : list entry) (seen : list oid) : option (list oid) :=
  match es with
  | [] => Some seen
  | e :: r =>
    match e_kind e with
    | KSub => mark_entries rec st r seen
    | k =>
      if mem (e_id e) seen then mark_entries rec st r seen else
      match k with
      | KDir =>
        match get_tree st (e_id e) with
        | Some es' => match rec (e_id e) es' seen with
                      | Some seen' => mark_entries rec st r seen'
                      | None => None
                      end
        | None => mark_entries rec st r seen
        end
      | _ => mark_entries rec st r (e_id e :: seen)
      end
    end
  end.

(* None = out of fuel (a tree nested deeper than the store has objects) *)
Fixpoint mark_tree (fuel : nat) (st : store) (th : oid) (es : list entry) (seen : list oid)
  : option (list oid) :=
  match fuel with
  | O => None
  | S f => if mem th seen then Some seen else mark_entries (mark_tree f st) st es (th :: seen)
  end.

(* ---- collectAllTreeObjects ---- *)
Fixpoint all_entries (rec : oid -> list entry -> wstate -> res wstate)
         (st : store) (es : list entry) (s : wstate) : res wstate :=
  match es with
  | [] => Ok s
  | e :: r =>
    match e_kind e with
    | KSub => all_entries rec st r s
    | k =>
      if mem (e_id e) (fst s) then all_entries rec st r s else
      match k with
      | KDir =>
        match get_tree st (e_id e) with
        | Some es' => match rec (e_id e) es' s with
                      | Ok s' => all_entries rec st r s'
                      | Err x => Err x
                      end
        | None => Err ETree
        end
      | _ => all_entries rec st r (emit (e_id e) s)
      end
    end
  end.

Fixpoint collect_all (fuel : nat) (st : store) (th : oid) (es : list entry) (s : wstate) : res wstate :=
  match fuel with
  | O => Err EFuel
  | S f => if mem th (fst s) then Ok s else all_entries (collect_all f st) st es (emit th s)
  end.

(* ---- collectChangedTreeObjects ---- *)
(* oldEntryMaps[i][name]: the Go map is filled front to back, the last entry
   of a name wins *)
Fixpoint lookup_last (name : N) (es : list entry) : option oid :=
  match es with
  | [] => None
  | e :: r => match lookup_last name r with
              | Some h => Some h
              | None => if e_name e =? name then Some (e_id e) else None
              end
  end.

Definition unchanged_in (e : entry) (olds : list (oid * list entry)) : bool :=
  existsb (fun o => match lookup_last (e_name e) (snd o) with
                    | Some h => h =? e_id e | None => false end) olds.

(* old versions of the sub-tree named like e, from every parent that has one *)
Fixpoint old_subs (st : store) (name : N) (olds : list (oid * list entry)) : list (oid * list entry) :=
  match olds with
  | [] => []
  | o :: r => match lookup_last name (snd o) with
              | Some h => match get_tree st h with
                          | Some es => (h, es) :: old_subs st name r
                          | None => old_subs st name r
                          end
              | None => old_subs st name r
              end
  end.

Fixpoint changed_entries (rec : oid -> list entry -> list (oid * list entry) -> wstate -> res wstate)
         (st : store) (olds : list (oid * list entry)) (es : list entry) (s : wstate) : res wstate :=
  match es with
  | [] => Ok s
  | e :: r =>
    match e_kind e with
    | KSub => changed_entries rec st olds r s
    | KFile =>
      if mem (e_id e) (fst s) then changed_entries rec st olds r s
      else if unchanged_in e olds then changed_entries rec st olds r s
      else changed_entries rec st olds r (emit (e_id e) s)
    | KDir =>
      if unchanged_in e olds then changed_entries rec st olds r s else
      match get_tree st (e_id e) with
      | None => Err ETree
      | Some es' =>
        match rec (e_id e) es' (old_subs st (e_name e) olds) s with
        | Ok s' => changed_entries rec st olds r s'
        | Err x => Err x
        end
      end
    end
  end.

Fixpoint collect_changed (fuel : nat) (st : store) (nh : oid) (nes : list entry)
         (olds : list (oid * list entry)) (s : wstate) : res wstate :=
  match fuel with
  | O => Err EFuel
  | S f =>
    if existsb (fun o => fst o =? nh) olds then Ok s else
    let s1 := if mem nh (fst s) then s else emit nh s in
    changed_entries (collect_changed f st) st olds nes s1
  end.

(* ---- commits and the time-ordered queue ---- *)
Record cinfo := mkC { c_id : oid; c_tree : oid; c_parents : list oid; c_time : Z }.

(* insertSorted: before the first element strictly older than c (sort.Search
   on a queue that is always sorted newest first) *)
Fixpoint insert_sorted (q : list cinfo) (c : cinfo) : list cinfo :=
  match q with
  | [] => [c]
  | x :: r => if (c_time x <? c_time c)%Z then c :: q else x :: insert_sorted r c
  end.

Definition tree_fuel (st : store) : nat := S (List.length st).

(* ---- seedHaves ---- *)
Fixpoint seed_haves (fuel : nat) (st : store) (haves : list oid) (hseen : list oid)
         (hq : list cinfo) (seen : list oid) : res (list cinfo * list oid) :=
  match fuel with
  | O => Err EFuel
  | S f =>
    match haves with
    | [] => Ok (hq, seen)
    | h :: r =>
      if mem h hseen || mem h seen then seed_haves f st r hseen hq seen else
      match get st h with
      | None => seed_haves f st r hseen hq seen
      | Some (Commit t ps tm) =>
        let hq' := insert_sorted hq (mkC h t ps tm) in
        match get_tree st t with
        | Some es => match mark_tree (tree_fuel st) st t es seen with
                     | Some seen' => seed_haves f st r (h :: hseen) hq' seen'
                     | None => Err EFuel
                     end
        | None => seed_haves f st r (h :: hseen) hq' seen
        end
      | Some (Tag tg) => seed_haves f st (r ++ [tg]) hseen hq (h :: seen)
      | Some (Tree es) => match mark_tree (tree_fuel st) st h es seen with
                          | Some seen' => seed_haves f st r hseen hq seen'
                          | None => Err EFuel
                          end
      | Some Blob => seed_haves f st r hseen hq (h :: seen)
      end
    end
  end.

(* ---- seedWants ---- *)
Fixpoint seed_wants (fuel : nat) (st : store) (wants : list oid) (wseen : list oid)
         (wq : list cinfo) (s : wstate) : res (list oid * list cinfo * wstate) :=
  match fuel with
  | O => Err EFuel
  | S f =>
    match wants with
    | [] => Ok (wseen, wq, s)
    | h :: r =>
      if mem h wseen || mem h (fst s) then seed_wants f st r wseen wq s else
      match get st h with
      | None => Err EWant
      | Some (Commit t ps tm) => seed_wants f st r (h :: wseen) (insert_sorted wq (mkC h t ps tm)) s
      | Some (Tag tg) => seed_wants f st (r ++ [tg]) wseen wq (emit h s)
      | Some (Tree es) => match collect_all (tree_fuel st) st h es s with
                          | Ok s' => seed_wants f st r wseen wq s'
                          | Err x => Err x
                          end
      | Some Blob => seed_wants f st r wseen wq (emit h s)
      end
    end
  end.

(* ---- walkFull (no have commit) ---- *)
Fixpoint full_parents (st : store) (ps : list oid) (wseen : list oid) (wq : list cinfo)
  : res (list oid * list cinfo) :=
  match ps with
  | [] => Ok (wseen, wq)
  | p :: r =>
    if mem p wseen then full_parents st r wseen wq else
    match get_commit st p with
    | None => Err EParent
    | Some (t, pps, tm) => full_parents st r (p :: wseen) (insert_sorted wq (mkC p t pps tm))
    end
  end.

Fixpoint walk_full (fuel : nat) (st : store) (sh : list oid) (wseen : list oid)
         (wq : list cinfo) (s : wstate) : res wstate :=
  match fuel with
  | O => Err EFuel
  | S f =>
    match wq with
    | [] => Ok s
    | lc :: q =>
      if mem (c_id lc) (fst s) then walk_full f st sh wseen q s else
      let s1 := emit (c_id lc) s in
      match get_tree st (c_tree lc) with
      | None => Err ETree
      | Some es =>
        match collect_all (tree_fuel st) st (c_tree lc) es s1 with
        | Err x => Err x
        | Ok s2 =>
          if mem (c_id lc) sh then walk_full f st sh wseen q s2 else
          match full_parents st (c_parents lc) wseen q with
          | Err x => Err x
          | Ok (wseen', q') => walk_full f st sh wseen' q' s2
          end
        end
      end
    end
  end.

(* ---- the painted walk ---- *)
(* paint state: commits painted from the want side, from the have side, the
   queue, and the recorded missing parents (parent, child) *)
Record paint := mkP { p_w : list oid; p_h : list oid; p_q : list cinfo; p_miss : list (oid * oid) }.

Fixpoint propagate (st : store) (fw fh : bool) (child : oid) (ps : list oid) (p : paint) : paint :=
  match ps with
  | [] => p
  | ph :: r =>
    let pw := mem ph (p_w p) in
    let phh := mem ph (p_h p) in
    if (implb fw pw) && (implb fh phh) then propagate st fw fh child r p else
    let w' := if fw && negb pw then ph :: p_w p else p_w p in
    let h' := if fh && negb phh then ph :: p_h p else p_h p in
    match get_commit st ph with
    | None => propagate st fw fh child r (mkP w' h' (p_q p) (p_miss p ++ [(ph, child)]))
    | Some (t, pps, tm) =>
      propagate st fw fh child r (mkP w' h' (insert_sorted (p_q p) (mkC ph t pps tm)) (p_miss p))
    end
  end.

Definition all_stale (q : list cinfo) (p : paint) : bool :=
  forallb (fun c => mem (c_id c) (p_w p) && mem (c_id c) (p_h p)) q.

(* the loop of phase 1; returns the final paint and the tentatively new commits *)
Fixpoint paint_loop (fuel : nat) (st : store) (sh : list oid) (p : paint) (newc : list cinfo)
  : res (paint * list cinfo) :=
  match fuel with
  | O => Err EFuel
  | S f =>
    match p_q p with
    | [] => Ok (p, newc)
    | lc :: q =>
      let fw := mem (c_id lc) (p_w p) in
      let fh := mem (c_id lc) (p_h p) in
      let newc' := if fw && negb fh then newc ++ [lc] else newc in
      let p0 := mkP (p_w p) (p_h p) q (p_miss p) in
      let p1 := if mem (c_id lc) sh then p0 else propagate st fw fh (c_id lc) (c_parents lc) p0 in
      if all_stale (p_q p1) p1 then Ok (p1, newc') else paint_loop f st sh p1 newc'
    end
  end.

Fixpoint check_missing (miss : list (oid * oid)) (hp : list oid) : bool :=
  match miss with
  | [] => true
  | (_, child) :: r => if mem child hp then check_missing r hp else false
  end.

(* processCommitTrees *)
Fixpoint parent_trees (st : store) (ps : list oid) : res (list (oid * list entry)) :=
  match ps with
  | [] => Ok []
  | p :: r =>
    match get_commit st p with
    | None => parent_trees st r
    | Some (t, _, _) =>
      match get_tree st t with
      | None => Err ETree
      | Some es => match parent_trees st r with
                   | Ok l => Ok ((t, es) :: l)
                   | Err x => Err x
                   end
      end
    end
  end.

Definition process_commit (st : store) (sh : list oid) (lc : cinfo) (s : wstate) : res wstate :=
  let s1 := if mem (c_id lc) (fst s) then s else emit (c_id lc) s in
  match get_tree st (c_tree lc) with
  | None => Err ETree
  | Some es =>
    (* a shallow commit is diffed against no parent (repaired: "fix: revlist: treat a
       shallow commit as parentless ...") *)
    match parent_trees st (if mem (c_id lc) sh then [] else c_parents lc) with
    | Err x => Err x
    | Ok olds => collect_changed (tree_fuel st) st (c_tree lc) es olds s1
    end
  end.

Fixpoint phase2 (st : store) (sh hp : list oid) (newc : list cinfo) (s : wstate) : res wstate :=
  match newc with
  | [] => Ok s
  | lc :: r =>
    if mem (c_id lc) hp then phase2 st sh hp r s else
    match process_commit st sh lc s with
    | Ok s' => phase2 st sh hp r s'
    | Err x => Err x
    end
  end.

Definition paint_fuel (st : store) (n : nat) : nat := S (n + 2 * List.length st + 2 * List.length st).

Definition walk (st : store) (sh : list oid) (wseen : list oid) (wq hq : list cinfo) (s : wstate)
  : res wstate :=
  match hq with
  | [] => walk_full (S (List.length wq + List.length st)) st sh wseen wq s
  | _ =>
    let q1 := fold_left insert_sorted wq [] in
    let q2 := fold_left insert_sorted hq q1 in
    let p := mkP (map c_id wq) (map c_id hq) q2 [] in
    match paint_loop (paint_fuel st (List.length q2)) st sh p [] with
    | Err x => Err x
    | Ok (p', newc) =>
      if check_missing (p_miss p') (p_h p') then phase2 st sh (p_h p') newc s else Err EMissing
    end
  end.

(* revlist.Objects *)
Definition objects (st : store) (sh : list oid) (wants haves : list oid) : res (list oid) :=
  match seed_haves (S (List.length haves + List.length st)) st haves [] [] [] with
  | Err x => Err x
  | Ok (hq, seen) =>
    match seed_wants (S (List.length wants + List.length st)) st wants [] [] (seen, []) with
    | Err x => Err x
    | Ok (wseen, wq, s) =>
      match walk st sh wseen wq hq s with
      | Err x => Err x
      | Ok s' => Ok (snd s')
      end
    end
  end.

(* ---- correspondence entry point ---- *)
Fixpoint ins_N (x : N) (l : list N) : list N :=
  match l with [] => [x] | y :: r => if x <=? y then x :: l else y :: ins_N x r end.
Definition sort_N (l : list N) : list N := fold_right ins_N [] l.

Definition rerr_name (e : rerr) : string :=
  match e with EWant => "want" | EParent => "parent" | EMissing => "missing" | ETree => "tree" | EFuel => "fuel" end.

(* observable: the selected ids, sorted, duplicates retained *)
Definition c37_run (st : store) (sh wants haves : list oid) : out :=
  match objects st sh wants haves with
  | Ok l => OOk (map ON (sort_N l))
  | Err e => OErr (rerr_name e)
  end.
