(* Model/DeltaSel.v — G for C07: plumbing/format/packfile/delta_selector.go
   (DeltaSelector.ObjectsToPack: objectsToPack, fixAndBreakChains / fixAndBreakChainsOne / undeltify,
   sort byTypeAndSize, the per-type groups, walk, tryToDeltify, deltaSizeLimit) over the
   ObjectToPack fields Base / Depth / Object.Size() of object_pack.go.  Executable definitions only.

   The selector is deterministic up to two things the model takes as inputs (the chooser's
   nondeterminism):
     * [order]: the permutation sort.Sort leaves the objects in (sort.Sort is not stable: any
       permutation ordered by byTypeAndSize may come out; the model checks that [order] is one);
     * [dsz b t]: the size of the delta getDelta computes for target t against base b (it depends on
       the objects' bytes; the theorems hold for EVERY such function).
   Objects are named by their position in the request (uid).  Not modelled: the storer (objects are
   given with type, size and, when the storer hands out a stored delta, the id of its base),
   Original/CleanOriginal/SaveOriginalMetadata (memory management only: Type/Size/Hash are unaffected),
   the goroutine per group (groups share no ObjectToPack), requests that name the same id twice. *)
From Coq Require Import List NArith ZArith Arith Bool String.
From GoGit Require Import Base.Out Gen.C07 Model.PackEnc.
Import ListNotations.
Local Open Scope Z_scope.

Definition maxDepth : Z := pk7_maxDepth.

Record sobj := mkSObj {
  so_key : N;                 (* object id *)
  so_typ : Z;                 (* plumbing.ObjectType: commit 1, tree 2, blob 3, tag 4 *)
  so_size : Z;                (* size of the whole object *)
  so_stored : option (N * Z)  (* DeltaObjectStorer.DeltaObject returned a delta: (id of its base, its ActualSize()) *)
}.

(* applyDelta *)
Definition deltable (t : Z) : bool := (t =? 3) || (t =? 2).

(* deltaSizeLimit (int64; Go's / truncates towards zero) *)
Definition delta_size_limit (targetSize baseDepth targetDepth : Z) (targetDelta : bool) : Z :=
  if negb targetDelta then
    let n := Z.shiftr targetSize 1 in
    Z.quot (n * (maxDepth - baseDepth)) maxDepth
  else
    let d := targetDepth in
    let n := targetSize in
    if d >=? maxDepth then 0
    else Z.quot (n * (maxDepth - baseDepth)) (maxDepth - d).

(* ---- the ObjectToPack fields the selector reads and writes, per uid *)
Record sstate := mkSt {
  sb : nat -> option nat;     (* Base *)
  sd : nat -> Z;              (* Depth *)
  sz : nat -> Z;              (* Object.Size(): the delta's size once a delta was chosen *)
  sf : nat -> bool            (* Object is a stored delta whose Base is still nil (not yet fixed) *)
}.

Definition set_delta (st : sstate) (t b : nat) (dsize : Z) : sstate :=
  mkSt (upd (sb st) t (Some b)) (upd (sd st) t (sd st b + 1)) (upd (sz st) t dsize) (upd (sf st) t false).

(* undeltify: Object = Original, Depth = 0 *)
Definition undeltify (objs : list sobj) (st : sstate) (t : nat) : sstate :=
  mkSt (sb st) (upd (sd st) t 0) (sz st) (upd (sf st) t false).

Definition obj_at (objs : list sobj) (u : nat) : sobj := nth u objs (mkSObj 0 0 0 None).

(* fixAndBreakChains: m[otp.Hash()] = otp keeps the LAST object with that id *)
Fixpoint find_last (objs : list sobj) (k : N) (i : nat) (found : option nat) : option nat :=
  match objs with
  | [] => found
  | o :: r => find_last r k (S i) (if (so_key o =? k)%N then Some i else found)
  end.

(* fixAndBreakChainsOne; None = recursion deeper than the number of objects (a cycle of stored
   deltas, impossible for content-addressed ids) *)
Fixpoint fix_one (fuel : nat) (objs : list sobj) (st : sstate) (u : nat) : option sstate :=
  match fuel with
  | O => None
  | S f =>
    if negb (sf st u) then Some st            (* not a delta object, or Base already assigned *)
    else
      match so_stored (obj_at objs u) with
      | None => Some st
      | Some (bk, _) =>
        match find_last objs bk 0 None with
        | None => Some (undeltify objs st u)  (* base not among the objects to pack *)
        | Some b =>
          match fix_one f objs st b with
          | None => None
          | Some st' => Some (set_delta st' u b (sz st' u))
          end
        end
      end
  end.

Fixpoint fix_all (objs : list sobj) (us : list nat) (st : sstate) : option sstate :=
  match us with
  | [] => Some st
  | u :: r => match fix_one (S (List.length objs)) objs st u with
              | None => None
              | Some st' => fix_all objs r st'
              end
  end.

Definition init_state (objs : list sobj) : sstate :=
  mkSt (fun _ => None) (fun _ => 0) (fun u => so_size (obj_at objs u))
       (fun u => match so_stored (obj_at objs u) with Some _ => true | None => false end).

(* ---- sort: byTypeAndSize.Less over ObjectToPack.Type() / Size().
   Size() of a reused delta (Original == nil, nothing resolved yet) is DeltaObject.ActualSize() as the
   storer reports it; of every other object its real size *)
Definition sort_size (objs : list sobj) (st : sstate) (u : nat) : Z :=
  match sb st u, so_stored (obj_at objs u) with
  | Some _, Some (_, asz) => asz
  | _, _ => so_size (obj_at objs u)
  end.

Definition less (objs : list sobj) (st : sstate) (a b : nat) : bool :=
  if so_typ (obj_at objs a) <? so_typ (obj_at objs b) then false
  else if so_typ (obj_at objs b) <? so_typ (obj_at objs a) then true
  else sort_size objs st b <? sort_size objs st a.

Fixpoint sorted_by (objs : list sobj) (st : sstate) (l : list nat) : bool :=
  match l with
  | a :: ((b :: _) as r) => negb (less objs st b a) && sorted_by objs st r
  | _ => true
  end.

Definition is_perm (n : nat) (l : list nat) : bool :=
  (List.length l =? n)%nat && forallb (fun u => existsb (Nat.eqb u) l) (seq 0 n).

(* the groups of equal type, in order *)
Fixpoint groups (objs : list sobj) (l : list nat) (cur : list nat) : list (list nat) :=
  match l with
  | [] => match cur with [] => [] | _ => [rev cur] end
  | u :: r =>
    match cur with
    | [] => groups objs r [u]
    | p :: _ => if so_typ (obj_at objs p) =? so_typ (obj_at objs u) then groups objs r (u :: cur)
                else rev cur :: groups objs r [u]
    end
  end.

(* ---- tryToDeltify *)
Definition try_deltify (objs : list sobj) (dsz : nat -> nat -> Z) (st : sstate) (t b : nat) : sstate :=
  let tsize := so_size (obj_at objs t) in
  let bsize := so_size (obj_at objs b) in
  if tsize <? Z.shiftr bsize 4 then st
  else
    let isd := match sb st t with Some _ => true | None => false end in
    let msz := delta_size_limit (sz st t) (sd st b) (sd st t) isd in
    if msz <=? 8 then st
    else if msz <? bsize - tsize then st
    else
      let d := dsz b t in
      if d <? msz then set_delta st t b d else st.

(* walk over one group; [before] = the objects already visited, nearest first *)
Fixpoint walk_go (objs : list sobj) (dsz : nat -> nat -> Z) (window : nat)
         (before rest : list nat) (st : sstate) : sstate :=
  match rest with
  | [] => st
  | t :: r =>
    let st' :=
      match sb st t with
      | Some _ => st                                           (* reused delta: keep it *)
      | None =>
        if negb (deltable (so_typ (obj_at objs t))) then st
        else fold_left (fun s b =>
                          if so_typ (obj_at objs b) =? so_typ (obj_at objs t) then try_deltify objs dsz s t b else s)
                       (firstn (window - 1) before) st         (* j = i-1 .. while i - j < window *)
      end in
    walk_go objs dsz window (t :: before) r st'
  end.

Inductive selerr := EBadOrder | EFuel.

(* DeltaSelector.ObjectsToPack: the final fields and the order of the returned slice *)
Definition select (window : nat) (objs : list sobj) (order : list nat) (dsz : nat -> nat -> Z)
  : sstate * list nat + selerr :=
  let n := List.length objs in
  match window with
  | O => inl (mkSt (fun _ => None) (fun _ => 0) (fun u => so_size (obj_at objs u)) (fun _ => false), seq 0 n)
  | _ =>
    match fix_all objs (seq 0 n) (init_state objs) with
    | None => inr EFuel
    | Some st0 =>
      if negb (is_perm n order && sorted_by objs st0 order) then inr EBadOrder
      else inl (fold_left (fun st grp => walk_go objs dsz window [] grp st) (groups objs order []) st0, order)
    end
  end.

(* ---- observables *)
Fixpoint pos_of (u : nat) (l : list nat) (i : nat) : option nat :=
  match l with
  | [] => None
  | x :: r => if Nat.eqb x u then Some i else pos_of u r (S i)
  end.

(* the graph handed to the encoder: per returned ObjectToPack its object id and the position of its base *)
Definition sel_nodes (objs : list sobj) (st : sstate) (order : list nat) : list (N * option N) :=
  map (fun u => (so_key (obj_at objs u),
                 match sb st u with
                 | Some b => match pos_of b order 0 with Some p => Some (N.of_nat p) | None => None end
                 | None => None
                 end)) order.

Definition dsz_of (tbl : list (nat * nat * Z)) (b t : nat) : Z :=
  match find (fun e => Nat.eqb (fst (fst e)) b && Nat.eqb (snd (fst e)) t) tbl with
  | Some e => snd e
  | None => 4611686018427387904   (* a pair the harness did not list: larger than any limit, never chosen *)
  end.

Definition mk_objs (l : list (N * Z * Z * option (N * Z))) : list sobj :=
  map (fun e => match e with (k, t, s, b) => mkSObj k t s b end) l.

(* selection (id, base position, Depth per returned object) followed by the encoder run on that graph *)
Definition c07_select (window : nat) (objs : list (N * Z * Z * option (N * Z))) (order : list nat)
           (tbl : list (nat * nat * Z)) : out :=
  let os := mk_objs objs in
  match select window os order (dsz_of tbl) with
  | inr EBadOrder => OErr "badorder"
  | inr EFuel => OErr "fuel"
  | inl (st, ord) =>
    let nodes := sel_nodes os st ord in
    OList [OList (map (fun u => OList [ON (so_key (obj_at os u));
                                      match sb st u with
                                      | Some b => match pos_of b ord 0 with Some p => ONat p | None => OSym "outside" end
                                      | None => OSym "none"
                                      end;
                                      ONum (sd st u)]) ord);
           c07_run nodes]
  end.

(* leaf: deltaSizeLimit on a grid of arguments *)
Definition c07_limits (l : list (Z * Z * Z * bool)) : out :=
  OList (map (fun a => match a with (n, bd, td, isd) => ONum (delta_size_limit n bd td isd) end) l).
