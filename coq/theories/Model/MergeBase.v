(* Model/MergeBase.v — G: plumbing/object/merge_base.go (MergeBase,
   IsAncestor, ancestorsIndex, Independents, sortByCommitDateDesc, remove,
   removeDuplicated, indexOf) and remote.go isFastForward, over Spec/Dag.v.
   Definitions only. *)
From Coq Require Import List Arith ZArith Bool String.
From GoGit Require Import Base.Out Spec.Dag Model.CommitWalk.
Import ListNotations.

Inductive mres := MOk (l : list node) | MFail | MFuel.

(* sort.Slice(less = When.After): for <= 12 elements Go runs a stable
   insertion sort; an element moves left while it is strictly newer than its
   left neighbour. *)
Fixpoint insert_desc (g : dag) (x : node) (l : list node) : list node :=
  match l with
  | [] => [x]
  | y :: r => if (ctime g y <? ctime g x)%Z && forallb (fun z => (ctime g z <? ctime g x)%Z) r
              then x :: y :: r else y :: insert_desc g x r
  end.

Definition sort_desc (g : dag) (l : list node) : list node :=
  fold_left (fun acc x => insert_desc g x acc) l [].

Fixpoint dedup (seen : list node) (l : list node) : list node :=
  match l with
  | [] => []
  | c :: r => if mem c seen then dedup seen r else c :: dedup (c :: seen) r
  end.

Definition remove_node (x : node) (l : list node) : list node :=
  filter (fun y => negb (y =? x)) l.

Fixpoint index_of (x : node) (l : list node) : option nat :=
  match l with
  | [] => None
  | y :: r => if y =? x then Some 0 else option_map S (index_of x r)
  end.

(* one history walk of Independents from [from]: filterCommitIter with
   isValid = nil and isLimit = membership in the shared [seen]; the callback
   removes reached candidates, stops when one candidate is left, and marks the
   commit seen. *)
Inductive iwres := IWOk (cands seen : list node) | IWFail | IWFuel.

Fixpoint indep_walk (g : dag) (fuel : nat) (q visited : list node)
         (cands others seen : list node) : iwres :=
  match fuel with
  | O => IWFuel
  | S f =>
    match q with
    | [] => IWOk cands seen
    | c :: q' =>
      if mem c visited then indep_walk g f q' visited cands others seen
      else
        let visited' := c :: visited in
        let add := if mem c seen then [] else unseen_parents g visited' c in
        if negb (forallb (present g) add) then IWFail
        else
          let cands' := if mem c others then remove_node c cands else cands in
          let others' := if mem c others then remove_node c others else others in
          if List.length cands' =? 1 then IWOk cands' seen
          else indep_walk g f (q' ++ add) visited' cands' others' (c :: seen)
    end
  end.

Fixpoint indep_outer (g : dag) (fuel : nat) (pos : nat) (cands seen : list node) : mres :=
  match fuel with
  | O => MFuel
  | S f =>
    let from := nth pos cands 0 in
    match indep_walk g (walk_fuel g) [from] [] cands (remove_node from cands) seen with
    | IWFail => MFail
    | IWFuel => MFuel
    | IWOk cands' seen' =>
      match index_of from cands' with
      | None => if 0 <? List.length cands' then indep_outer g f 0 cands' seen' else MOk cands'
      | Some i => if List.length cands' <=? S i then MOk cands' else indep_outer g f (S i) cands' seen'
      end
    end
  end.

Definition independents (g : dag) (commits : list node) : mres :=
  let cands := dedup [] (sort_desc g commits) in
  if List.length cands <? 2 then MOk cands
  else indep_outer g (S (List.length cands)) 0 cands [].

(* ancestorsIndex(excluded, starting): BFS from [starting]; reaching [excluded]
   is errIsReachable *)
Definition merge_base (g : dag) (a b : node) : mres :=
  match sort_desc g [a; b] with
  | [newer; older] =>
    if older =? newer then MOk [older]
    else
      match bfs_walk g (Nat.eqb older) (walk_fuel g) newer [] with
      | (_, WStop) => MOk [older]
      | (_, WFail) => MFail
      | (_, WFuel) => MFuel
      | (hist, WEof) =>
        match fbfs_loop g (fun c => mem c hist) (walk_fuel g) [older] [] [] with
        | (res, WEof) => independents g res
        | (res, WFail) => independents g res   (* `_ = resIter.ForEach(...)`: the error is dropped *)
        | (_, WFuel) => MFuel
        | (_, WStop) => MFail
        end
      end
  | _ => MFuel
  end.

(* c.IsAncestor(other): pre-order walk from [other], stop at [c] *)
Inductive bres := BOk (b : bool) | BFail | BFuel.

Definition is_ancestor (g : dag) (c other : node) : bres :=
  match pre_walk g (Nat.eqb c) (walk_fuel g) other [] with
  | (_, WStop) => BOk true
  | (_, WEof) => BOk false
  | (_, WFail) => BFail
  | (_, WFuel) => BFuel
  end.

(* isFastForward(s, old, new, shallows): parents of the (present) shallow
   commits are ignored; not found but a shallow commit was walked -> true *)
Definition is_fast_forward (g : dag) (old new : node) (shallows : list node) : bres :=
  if negb (present g new) then BFail
  else
    let ignore := flat_map (fun s => if present g s then parents g s else []) shallows in
    match pre_walk g (Nat.eqb old) (walk_fuel g) new ignore with
    | (_, WStop) => BOk true
    | (l, WEof) => BOk (existsb (fun c => mem c shallows) l)
    | (_, WFail) => BFail
    | (_, WFuel) => BFuel
    end.

(* ------------------------------------------------------------ observables *)
Fixpoint insert_nat (x : nat) (l : list nat) : list nat :=
  match l with
  | [] => [x]
  | y :: r => if x <=? y then x :: l else y :: insert_nat x r
  end.
Definition sort_nat (l : list nat) : list nat := fold_right insert_nat [] l.

Definition out_nodes (l : list node) : out := OList (map ONat l).

Definition out_mres (r : mres) : out :=
  match r with
  | MOk l => OOk [out_nodes (sort_nat l)]
  | MFail => OErr "missing"
  | MFuel => OErr "fuel"
  end.

Definition out_bres (r : bres) : out :=
  match r with
  | BOk b => OOk [OBool b]
  | BFail => OErr "missing"
  | BFuel => OErr "fuel"
  end.

Definition c42_anc (par : list (list node)) (times : list Z) (a b : node) : out :=
  out_bres (is_ancestor (mkDag par times) a b).
Definition c42_mb (par : list (list node)) (times : list Z) (a b : node) : out :=
  out_mres (merge_base (mkDag par times) a b).
Definition c42_indep (par : list (list node)) (times : list Z) (xs : list node) : out :=
  out_mres (independents (mkDag par times) xs).
Definition c42_ff (par : list (list node)) (times : list Z) (old new : node) (shallows : list node) : out :=
  out_bres (is_fast_forward (mkDag par times) old new shallows).

(* S on the same cases (compared with the git binary by the check) *)
Definition c42_spec_anc (par : list (list node)) (times : list Z) (a b : node) : out :=
  OOk [OBool (is_anc (mkDag par times) a b)].
Definition c42_spec_mb (par : list (list node)) (times : list Z) (a b : node) : out :=
  OOk [out_nodes (merge_bases (mkDag par times) a b)].
Definition c42_spec_indep (par : list (list node)) (times : list Z) (xs : list node) : out :=
  OOk [out_nodes (independent (mkDag par times) xs)].
