(* Model/StorageAPI.v — G for C17: the two storage backends at API level.
     storage/memory/storage.go      ReferenceStorage (CheckAndSetReference compares
                                    r[ref.Name()], not old.Name()),
                                    ObjectStorage, IndexStorage, ConfigStorage,
                                    ShallowStorage, ReflogStorage
     storage/filesystem + dotgit    SetRef / setRefRwfs / checkReferenceAndTruncate
                                    (the reference file is created before the check),
                                    Ref, Refs, RemoveRef (packed-refs first),
                                    rewritePackedRefsWithoutRef, PackRefs (hash references
                                    only), processLine; object calls as a set
                                    (loose + packed); index / config / shallow / reflog files
   The filesystem model is the same for every Options value (ExclusiveAccess,
   UseInMemoryIdx, LargeObjectThreshold, cache sizes) and both object formats:
   option independence is what the correspondence checks.
   Executable definitions only. *)
From Coq Require Import List NArith Bool String.
From GoGit Require Import Base.Out Spec.AStore.
Import ListNotations.
Local Open Scope N_scope.

(* calls of the storer API: those of AStore.op plus the ones that are no-ops
   on the abstract store *)
Inductive sop :=
| SBase (o : op)
| SPackRefs
| SAddPack (l : list N)      (* packfile.UpdateObjectStorage with a pack of these objects *)
| SReopen.                   (* close the storer, open a new one on the same files *)

(* ------------------------------------------------------------- the spec *)
Definition add_pack (U : universe) (s : store) (l : list N) : store :=
  st_with_objs s (fold_right (fun k m => fm_set k tt m) (s_objs s) l).

Definition spec_sstep (U : universe) (s : store) (o : sop) : store * res :=
  match o with
  | SBase b => st_step U s b
  | SPackRefs => (s, ROk)
  | SAddPack l => (add_pack U s l, ROk)
  | SReopen => (s, ROk)
  end.

(* ------------------------------------------------------------- memory *)
(* memory.ReferenceStorage.CheckAndSetReference: tmp := r[ref.Name()] — the
   name of the NEW reference, old.Name() is not looked at; tmp == nil -> not
   found; tmp.Hash() != old.Hash() -> changed; else store *)
Definition mem_cas (n : N) (v : refval) (ov : refval) (s : store) : store * res :=
  match fm_get n (s_refs s) with
  | Some cur =>
    if rv_hash_eqb cur ov then (st_with_refs s (fm_set n v (s_refs s)), ROk)
    else (s, RErr EChanged)
  | None => (s, RErr ENotFound)
  end.

Definition mem_step (U : universe) (s : store) (o : sop) : store * res :=
  match o with
  | SBase (OCas n v _ ov) => mem_cas n v ov s
  | SBase b => st_step U s b
  | SPackRefs => (s, ROk)
  | SAddPack l => (add_pack U s l, ROk)
  | SReopen => (s, ROk)
  end.

(* ------------------------------------------------------------- filesystem *)
(* a line of packed-refs: a well-formed "hash name" line, or a line that
   processLine rejects (no storer call writes one any more: PackRefs used to
   write a loose symbolic reference as "ref: target name") *)
Inductive pline := PGood (n h : N) | PBad.

Record fstore := mkFs {
  f_loose : fmap (option refval);   (* reference files; None = an empty file *)
  f_packed : list pline;            (* packed-refs, in file order *)
  f_rest : store                    (* objects, index, config, shallow, reflogs (s_refs unused) *)
}.

Definition fs_empty : fstore := mkFs [] [] st_empty.

(* packedRef: scan until the name is found; a bad line before it is an error *)
Fixpoint packed_lookup (n : N) (l : list pline) : option (option N) :=   (* None = error *)
  match l with
  | [] => Some None
  | PBad :: _ => None
  | PGood n' h :: r => if n =? n' then Some (Some h) else packed_lookup n r
  end.

Definition packed_okb (l : list pline) : bool :=
  forallb (fun p => match p with PBad => false | _ => true end) l.

(* Ref: the reference file when it exists and is not empty, else packed-refs *)
Definition fs_get_ref (f : fstore) (n : N) : res :=
  match fm_get n (f_loose f) with
  | Some (Some v) => RRef v
  | _ => match packed_lookup n (f_packed f) with
         | None => RErr EPackedRefsBad
         | Some None => RErr ENotFound
         | Some (Some h) => RRef (RHash h)
         end
  end.

(* Refs: walk the reference files (an empty file is an error), then packed-refs *)
Fixpoint loose_list (l : fmap (option refval)) : option (list (N * refval)) :=
  match l with
  | [] => Some []
  | (n, Some v) :: r => match loose_list r with Some x => Some ((n, v) :: x) | None => None end
  | (_, None) :: _ => None
  end.

Fixpoint packed_unseen (seen : list N) (l : list pline) : list (N * refval) :=
  match l with
  | [] => []
  | PGood n h :: r => if nmem n seen then packed_unseen seen r else (n, RHash h) :: packed_unseen (n :: seen) r
  | PBad :: r => packed_unseen seen r
  end.

Definition fs_iter_refs (f : fstore) : res :=
  match loose_list (f_loose f) with
  | None => RErr EEmptyRefFile
  | Some l =>
    if packed_okb (f_packed f) then RRefs (l ++ packed_unseen (map fst l) (f_packed f))
    else RErr EPackedRefsBad
  end.

(* SetRef(r, old != nil): open (and create) the file of r.Name(); a non-empty
   file is compared with old; an empty one sends the check to packed-refs under
   old.Name(); the file stays behind (empty) when the check fails *)
Definition fs_cas (f : fstore) (n : N) (v : refval) (on : N) (ov : refval) : fstore * res :=
  match fm_get n (f_loose f) with
  | Some (Some cur) =>
    if rv_hash_eqb cur ov then (mkFs (fm_set n (Some v) (f_loose f)) (f_packed f) (f_rest f), ROk)
    else (f, RErr EChanged)
  | _ =>
    let f1 := mkFs (fm_set n None (f_loose f)) (f_packed f) (f_rest f) in
    match packed_lookup on (f_packed f) with
    | None => (f1, RErr EPackedRefsBad)
    | Some None => (f1, RErr ENotFound)
    | Some (Some h) =>
      if rv_hash_eqb (RHash h) ov then (mkFs (fm_set n (Some v) (f_loose f)) (f_packed f) (f_rest f), ROk)
      else (f1, RErr EChanged)
    end
  end.

(* RemoveRef: rewrite packed-refs without the name first (every line is
   parsed: a bad line fails the call and nothing has changed), then remove the
   file *)
Definition fs_del_ref (f : fstore) (n : N) : fstore * res :=
  if packed_okb (f_packed f)
  then (mkFs (fm_del n (f_loose f))
             (filter (fun p => match p with PGood n' _ => negb (n' =? n) | PBad => true end) (f_packed f))
             (f_rest f), ROk)
  else (f, RErr EPackedRefsBad).

(* PackRefs: the hash references among the reference files under refs/ (an
   empty file there is an error) followed by the packed lines of names that
   have no file; the packed files are then removed.  Symbolic references and
   HEAD stay loose. *)
Definition pack_line (p : N * refval) : pline :=
  match snd p with RHash h => PGood (fst p) h | RSym _ => PBad end.
Definition is_hash (v : refval) : bool := match v with RHash _ => true | RSym _ => false end.
Definition keeps_loose (p : N * option refval) : bool :=
  match snd p with Some (RSym _) => true | _ => false end.

(* the reference named HEAD lives outside refs/: Refs() lists it, PackRefs
   neither packs nor needs it.  By convention of the correspondence it is name 4 *)
Definition head_name : N := 4.
Definition keeps_loose_or_head (p : N * option refval) : bool :=
  (fst p =? head_name) || keeps_loose p.

Definition fs_pack_refs (f : fstore) : fstore * res :=
  match loose_list (fm_del head_name (f_loose f)) with
  | None => (f, RErr EEmptyRefFile)
  | Some [] => (f, ROk)
  | Some l =>
    if packed_okb (f_packed f)
    then (mkFs (filter keeps_loose_or_head (f_loose f))
               (map pack_line (filter (fun p => is_hash (snd p)) l)
                ++ map pack_line (packed_unseen (map fst l) (f_packed f)))
               (f_rest f), ROk)
    else (f, RErr EPackedRefsBad)
  end.

Definition fs_step (U : universe) (f : fstore) (o : sop) : fstore * res :=
  match o with
  | SBase (OSetRef n v) => (mkFs (fm_set n (Some v) (f_loose f)) (f_packed f) (f_rest f), ROk)
  | SBase (OCas n v on ov) => fs_cas f n v on ov
  | SBase (OGetRef n) => (f, fs_get_ref f n)
  | SBase OIterRefs => (f, fs_iter_refs f)
  | SBase (ODelRef n) => fs_del_ref f n
  | SBase b =>
    let '(s, r) := st_step U (f_rest f) b in (mkFs (f_loose f) (f_packed f) s, r)
  | SPackRefs => fs_pack_refs f
  | SAddPack l => (mkFs (f_loose f) (f_packed f) (add_pack U (f_rest f) l), ROk)
  | SReopen => (f, ROk)
  end.

(* ------------------------------------------------------------- runs *)
Section Run.
  Context {St : Type} (step : St -> sop -> St * res).
  Fixpoint run_ops (s : St) (ops : list sop) : St * list res :=
    match ops with
    | [] => (s, [])
    | o :: r =>
      let '(s1, x) := step s o in
      let '(s2, xs) := run_ops s1 r in (s2, x :: xs)
    end.
End Run.

(* snapshot = the harness's Snapshot: IterReferences, IterEncodedObjects(Any),
   Index, Config, Shallow, Reflog of every name *)
Definition o_snapshot (refs : res) (s : store) : out :=
  OList [ o_res refs;
          o_res (RIds (fm_keys (s_objs s)));
          o_res (RNum (s_idx s)); o_res (RNum (s_cfg s));
          o_res (RSeq (s_shallow s));
          o_logs (s_logs s) ].

Definition run_spec (U : universe) (ops : list sop) : out :=
  let '(s, xs) := run_ops (spec_sstep U) st_empty ops in
  OList [OList (map o_res xs); o_snapshot (RRefs (s_refs s)) s].

Definition run_mem (U : universe) (ops : list sop) : out :=
  let '(s, xs) := run_ops (mem_step U) st_empty ops in
  OList [OList (map o_res xs); o_snapshot (RRefs (s_refs s)) s].

Definition run_fs (U : universe) (ops : list sop) : out :=
  let '(f, xs) := run_ops (fs_step U) fs_empty ops in
  OList [OList (map o_res xs); o_snapshot (fs_iter_refs f) (f_rest f)].

(* correspondence entry point: the memory observable and the filesystem
   observable (the harness answers with one filesystem observable when all the
   option sets of the case agree, and with all of them otherwise) *)
Definition c17_run (u : list (N * N)) (ops : list sop) : out :=
  let U := mkU u in OList [run_mem U ops; run_fs U ops].

Definition c17_spec_run (u : list (N * N)) (ops : list sop) : out := run_spec (mkU u) ops.

(* ------------------------------------------------------------- loose objects *)
(* storer.LooseObjectStorer: DeleteLooseObject / ForEachObjectHash.  An object
   is present when it is loose or in a pack; SetEncodedObject always writes a
   loose copy, UpdateObjectStorage a pack; DeleteLooseObject removes the loose
   copy only (the object stays present when a pack holds it) and fails with
   not-exist when there is no loose copy; ForEachObjectHash enumerates the loose
   copies.  The layer below adds the two sets (loose, packed) to any of the
   three state machines above; it is the same for the abstract store and for
   the filesystem storer under every Options value (dotgit's objectList /
   objectMap caches under ExclusiveAccess are not observable).
   storage/memory has no loose objects: DeleteLooseObject is refused
   (errNotSupported) and ForEachObjectHash enumerates every object. *)
Inductive xop :=
| XOp (o : sop)
| XDelLoose (k : N)          (* DeleteLooseObject(hash of k) *)
| XEachHash.                 (* ForEachObjectHash: the ids seen *)

Record lw (St : Type) := mkLw { lw_st : St; lw_loose : list N; lw_packed : list N }.
Arguments mkLw {St} _ _ _.
Arguments lw_st {St} _.
Arguments lw_loose {St} _.
Arguments lw_packed {St} _.

Definition lw_track (o : sop) (r : res) (lo pk : list N) : list N * list N :=
  match o, r with
  | SBase (OSetObj k), RNum _ => (nadd k lo, pk)
  | SAddPack l, ROk => (lo, fold_right nadd pk l)
  | _, _ => (lo, pk)
  end.

Section Loose.
  Context {St : Type} (step : St -> sop -> St * res) (del : N -> St -> St).

  Definition lw_step (w : lw St) (o : xop) : lw St * res :=
    match o with
    | XOp b =>
      let '(s, r) := step (lw_st w) b in
      let '(lo, pk) := lw_track b r (lw_loose w) (lw_packed w) in (mkLw s lo pk, r)
    | XDelLoose k =>
      if nmem k (lw_loose w)
      then (mkLw (if nmem k (lw_packed w) then lw_st w else del k (lw_st w))
                 (nrem k (lw_loose w)) (lw_packed w), ROk)
      else (w, RErr ENotExist)
    | XEachHash => (w, RIds (lw_loose w))
    end.

  Fixpoint run_xops (w : lw St) (ops : list xop) : lw St * list res :=
    match ops with
    | [] => (w, [])
    | o :: r =>
      let '(w1, x) := lw_step w o in
      let '(w2, xs) := run_xops w1 r in (w2, x :: xs)
    end.
End Loose.

Definition lw_init {St} (s : St) : lw St := mkLw s [] [].

Definition fs_del_obj (k : N) (f : fstore) : fstore :=
  mkFs (f_loose f) (f_packed f) (st_del_obj k (f_rest f)).

Definition xspec_step (U : universe) := lw_step (spec_sstep U) st_del_obj.
Definition xfs_step (U : universe) := lw_step (fs_step U) fs_del_obj.

(* memory: no loose objects *)
Definition xmem_step (U : universe) (s : store) (o : xop) : store * res :=
  match o with
  | XOp b => mem_step U s b
  | XDelLoose _ => (s, RErr ENotSupported)
  | XEachHash => (s, RIds (fm_keys (s_objs s)))
  end.

Fixpoint run_xmem (U : universe) (s : store) (ops : list xop) : store * list res :=
  match ops with
  | [] => (s, [])
  | o :: r =>
    let '(s1, x) := xmem_step U s o in
    let '(s2, xs) := run_xmem U s1 r in (s2, x :: xs)
  end.

Definition xrun_spec (U : universe) (ops : list xop) : out :=
  let '(w, xs) := run_xops (spec_sstep U) st_del_obj (lw_init st_empty) ops in
  OList [OList (map o_res xs); o_snapshot (RRefs (s_refs (lw_st w))) (lw_st w)].

Definition xrun_mem (U : universe) (ops : list xop) : out :=
  let '(s, xs) := run_xmem U st_empty ops in
  OList [OList (map o_res xs); o_snapshot (RRefs (s_refs s)) s].

Definition xrun_fs (U : universe) (ops : list xop) : out :=
  let '(w, xs) := run_xops (fs_step U) fs_del_obj (lw_init fs_empty) ops in
  OList [OList (map o_res xs); o_snapshot (fs_iter_refs (lw_st w)) (f_rest (lw_st w))].

(* correspondence entry points over the extended alphabet *)
Definition c17_xrun (u : list (N * N)) (ops : list xop) : out :=
  let U := mkU u in OList [xrun_mem U ops; xrun_fs U ops].

Definition c17_spec_xrun (u : list (N * N)) (ops : list xop) : out := xrun_spec (mkU u) ops.
