(* Model/ObjStore.v — G for C11: the read paths of storage/filesystem/object.go
   (EncodedObject, EncodedObjectSize, HasEncodedObject, IterEncodedObjects,
   HashesWithPrefix: pack-first routing, findObjectInPackfile with the MRU
   hint, object cache, loose objects, alternates) and of
   plumbing/format/packfile/packfile.go (getByOffset / get / objectFromHeader /
   getMemoryObject: delta resolution through the cache) over a repository given
   as data: loose objects, packs (entries with offsets, base objects, OFS and
   REF deltas as stored), alternates.  zlib, objfile headers, idx/rev file
   formats and descriptors are not here (C08/C10/C24): an entry is what the
   scanner yields at its offset, the idx is the id->offset map of the entries.
   Executable definitions only. *)
From Coq Require Import List NArith Bool String.
From GoGit Require Import Base.Out.
Import ListNotations.
Local Open Scope N_scope.

Inductive otype := TCommit | TTree | TBlob | TTag.
Definition otype_eqb (a b : otype) : bool :=
  match a, b with
  | TCommit, TCommit | TTree, TTree | TBlob, TBlob | TTag, TTag => true
  | _, _ => false
  end.
Definition otype_num (t : otype) : N :=
  match t with TCommit => 1 | TTree => 2 | TBlob => 3 | TTag => 4 end.

Fixpoint bytes_eqb (a b : bytes) : bool :=
  match a, b with
  | [], [] => true
  | x :: a', y :: b' => (x =? y) && bytes_eqb a' b'
  | _, _ => false
  end.

Record obj := Obj { o_type : otype; o_data : bytes }.
Definition obj_eqb (a b : obj) : bool :=
  otype_eqb (o_type a) (o_type b) && bytes_eqb (o_data a) (o_data b).

(* ---- git delta format (patch_delta.go) ---- *)

(* little-endian base-128 size header *)
Fixpoint delta_size (fuel : nat) (l : bytes) (shift acc : N) : option (N * bytes) :=
  match fuel with
  | O => None
  | S f =>
    match l with
    | [] => None
    | b :: r =>
      let acc' := acc + N.shiftl (N.land b 127) shift in
      if N.land b 128 =? 0 then Some (acc', r) else delta_size f r (shift + 7) acc'
    end
  end.

(* the optional offset/size bytes of a copy command: bit i of [mask] set = next byte is byte i *)
Fixpoint copy_arg (bits : list N) (mask : N) (l : bytes) (shift acc : N) : option (N * bytes) :=
  match bits with
  | [] => Some (acc, l)
  | b :: bs =>
    if N.land mask b =? 0 then copy_arg bs mask l (shift + 8) acc
    else match l with
         | [] => None
         | x :: r => copy_arg bs mask r (shift + 8) (acc + N.shiftl x shift)
         end
  end.

Definition slice (l : bytes) (off n : N) : option bytes :=
  if off + n <=? N.of_nat (List.length l)
  then Some (firstn (N.to_nat n) (skipn (N.to_nat off) l)) else None.

Fixpoint delta_cmds (fuel : nat) (base : bytes) (l : bytes) (acc : bytes) : option bytes :=
  match fuel with
  | O => None
  | S f =>
    match l with
    | [] => Some acc
    | c :: r =>
      if 128 <=? c then
        match copy_arg [1; 2; 4; 8] c r 0 0 with
        | None => None
        | Some (off, r1) =>
          match copy_arg [16; 32; 64] c r1 0 0 with
          | None => None
          | Some (sz0, r2) =>
            let sz := if sz0 =? 0 then 65536 else sz0 in
            match slice base off sz with
            | None => None
            | Some chunk => delta_cmds f base r2 (acc ++ chunk)
            end
          end
        end
      else if c =? 0 then None
      else
        if c <=? N.of_nat (List.length r)
        then delta_cmds f base (skipn (N.to_nat c) r) (acc ++ firstn (N.to_nat c) r)
        else None
    end
  end.

Definition apply_delta (base delta : bytes) : option bytes :=
  match delta_size 10 delta 0 0 with
  | None => None
  | Some (srcsz, r1) =>
    match delta_size 10 r1 0 0 with
    | None => None
    | Some (tgtsz, r2) =>
      if negb (srcsz =? N.of_nat (List.length base)) then None else
      match delta_cmds (S (List.length r2)) base r2 [] with
      | None => None
      | Some out => if N.of_nat (List.length out) =? tgtsz then Some out else None
      end
    end
  end.

(* ---- a pack as the scanner and the idx present it ---- *)

Inductive ekind :=
| KBase (t : otype) (d : bytes)
| KOfs (base : N) (delta : bytes)          (* OFS_DELTA: absolute offset of the base entry *)
| KRef (base : bytes) (delta : bytes).     (* REF_DELTA: id of the base *)
Record entry := Entry { e_id : bytes; e_off : N; e_kind : ekind }.
Definition pack := list entry.              (* in offset order *)

Definition find_off (p : pack) (id : bytes) : option N :=       (* idx.FindOffset *)
  option_map e_off (find (fun e => bytes_eqb (e_id e) id) p).
Definition find_entry (p : pack) (off : N) : option entry :=    (* idx.FindHash + scanner at offset *)
  find (fun e => e_off e =? off) p.

(* ---- object cache (plumbing/cache): any eviction policy ---- *)

Definition cache := list (bytes * obj).
Fixpoint cache_get (c : cache) (id : bytes) : option obj :=
  match c with
  | [] => None
  | (i, o) :: r => if bytes_eqb i id then Some o else cache_get r id
  end.
(* [pol] may drop any entries (LRU eviction, size limit); it can invent none *)
Definition cache_put (pol : cache -> cache) (c : cache) (id : bytes) (o : obj) : cache :=
  pol ((id, o) :: c).

(* ---- packfile.go ---- *)

Definition finish (pol : cache -> cache) (c : cache) (par : option obj) (delta : bytes) (e : entry)
  : cache * option obj :=
  match par with
  | None => (c, None)
  | Some po =>
    match apply_delta (o_data po) delta with
    | None => (c, None)
    | Some d => let o := Obj (o_type po) d in (cache_put pol c (e_id e) o, Some o)
    end
  end.

(* objectFromHeader / getMemoryObject for the entry e (the caller missed the cache) *)
Fixpoint resolve (pol : cache -> cache) (fuel : nat) (p : pack) (c : cache) (e : entry)
  : cache * option obj :=
  match fuel with
  | O => (c, None)
  | S f =>
    match e_kind e with
    | KBase t d => let o := Obj t d in (cache_put pol c (e_id e) o, Some o)
    | KOfs b delta =>
      (* getByOffset(b): FindHash, cache, header, objectFromHeader *)
      match find_entry p b with
      | None => (c, None)
      | Some pe =>
        let '(c1, par) := match cache_get c (e_id pe) with
                          | Some o => (c, Some o)
                          | None => resolve pol f p c pe
                          end in
        finish pol c1 par delta e
      end
    | KRef bid delta =>
      (* cache.Get(ref), else p.get(ref): cache, FindOffset, header, objectFromHeader *)
      let '(c1, par) := match cache_get c bid with
                        | Some o => (c, Some o)
                        | None =>
                          match find_off p bid with
                          | None => (c, None)
                          | Some off =>
                            match find_entry p off with
                            | None => (c, None)
                            | Some pe => resolve pol f p c pe
                            end
                          end
                        end in
      finish pol c1 par delta e
    end
  end.

(* Packfile.GetByOffset *)
Definition get_by_offset (pol : cache -> cache) (p : pack) (c : cache) (off : N) : cache * option obj :=
  match find_entry p off with
  | None => (c, None)
  | Some e =>
    match cache_get c (e_id e) with
    | Some o => (c, Some o)
    | None => resolve pol (S (List.length p)) p c e
    end
  end.

(* ---- the repository ---- *)

Record store := Store {
  s_loose : list (bytes * obj);     (* objects/xx/…, ReadDir order *)
  s_packs : list pack               (* ObjectPacks order *)
}.
Record repo := Repo { r_main : store; r_alts : list store }.

Definition loose_get (s : store) (id : bytes) : option obj := cache_get (s_loose s) id.

(* findObjectInPackfile: the hinted pack first, then the slice in order;
   returns (position, pack, offset) *)
Fixpoint scan_packs (ps : list pack) (i : nat) (skip : option nat) (id : bytes) : option (nat * pack * N) :=
  match ps with
  | [] => None
  | p :: r =>
    let next := scan_packs r (S i) skip id in
    if match skip with Some h => Nat.eqb h i | None => false end then next
    else match find_off p id with
         | Some off => Some (i, p, off)
         | None => next
         end
  end.

(* hint: 0 = none, h+1 = position h *)
Definition find_in_packs (s : store) (hint : nat) (id : bytes) : nat * option (pack * N) :=
  let hinted :=
    match hint with
    | O => None
    | S h => match nth_error (s_packs s) h with
             | Some p => match find_off p id with Some off => Some (p, off) | None => None end
             | None => None
             end
    end in
  match hinted with
  | Some r => (hint, Some r)
  | None =>
    let skip := match hint with
                | O => None
                | S h => if Nat.ltb h (List.length (s_packs s)) then Some h else None
                end in
    match scan_packs (s_packs s) 0 skip id with
    | Some (i, p, off) => (S i, Some (p, off))
    | None => (hint, None)
    end
  end.

(* reader state: the shared object cache and one MRU hint per ObjectStorage
   (main, then the alternates) *)
Record rstate := RState { rs_cache : cache; rs_hint : nat; rs_ahints : list nat }.

Inductive rres :=
| RFound (o : obj)
| RNotFound
| RBroken.           (* a pack entry that cannot be resolved: excluded by store_ok *)

Definition typed (t : option otype) (o : obj) : rres :=
  match t with
  | None => RFound o
  | Some t' => if otype_eqb t' (o_type o) then RFound o else RNotFound
  end.

(* EncodedObject on one ObjectStorage, without its alternates *)
Definition get_local (pol : cache -> cache) (s : store) (c : cache) (hint : nat) (t : option otype) (id : bytes)
  : cache * nat * option rres :=      (* None = not here: try the alternates *)
  match find_in_packs s hint id with
  | (hint', Some (p, off)) =>
    match cache_get c id with
    | Some o => (c, hint', Some (typed t o))
    | None =>
      match get_by_offset pol p c off with
      | (c', Some o) => (c', hint', Some (typed t o))
      | (c', None) => (c', hint', Some RBroken)
      end
    end
  | (hint', None) =>
    match loose_get s id with
    | Some o =>
      (* getFromUnpacked: open the file, then the cache, else read and Put *)
      match cache_get c id with
      | Some o' => (c, hint', Some (typed t o'))
      | None => (cache_put pol c id o, hint', Some (typed t o))
      end
    | None => (c, hint', None)
    end
  end.

Fixpoint get_alts (pol : cache -> cache) (alts : list store) (c : cache) (hints : list nat)
         (t : option otype) (id : bytes) : cache * list nat * rres :=
  match alts with
  | [] => (c, hints, RNotFound)
  | a :: r =>
    let h := hd O hints in
    match get_local pol a c h t id with
    | (c', h', Some RNotFound) | (c', h', None) =>
      (* findInAlternates goes on after ErrObjectNotFound (also a type mismatch) *)
      let '(c'', hs, res) := get_alts pol r c' (tl hints) t id in (c'', h' :: hs, res)
    | (c', h', Some res) => (c', h' :: tl hints, res)
    end
  end.

Definition get_object (pol : cache -> cache) (r : repo) (st : rstate) (t : option otype) (id : bytes)
  : rstate * rres :=
  match get_local pol (r_main r) (rs_cache st) (rs_hint st) t id with
  | (c, h, Some res) => (RState c h (rs_ahints st), res)
  | (c, h, None) =>
    let '(c', hs, res) := get_alts pol (r_alts r) c (rs_ahints st) t id in (RState c' h hs, res)
  end.

(* HasEncodedObject: idx membership, loose, alternates *)
Definition has_local (s : store) (hint : nat) (id : bytes) : nat * bool :=
  match find_in_packs s hint id with
  | (h, Some _) => (h, true)
  | (h, None) => (h, match loose_get s id with Some _ => true | None => false end)
  end.
Fixpoint has_alts (alts : list store) (hints : list nat) (id : bytes) : list nat * bool :=
  match alts with
  | [] => (hints, false)
  | a :: r =>
    let '(h', b) := has_local a (hd O hints) id in
    if b then (h' :: tl hints, true)
    else let '(hs, b') := has_alts r (tl hints) id in (h' :: hs, b')
  end.
Definition has_object (r : repo) (st : rstate) (id : bytes) : rstate * bool :=
  let '(h, b) := has_local (r_main r) (rs_hint st) id in
  if b then (RState (rs_cache st) h (rs_ahints st), true)
  else let '(hs, b') := has_alts (r_alts r) (rs_ahints st) id in (RState (rs_cache st) h hs, b').

(* EncodedObjectSize: like EncodedObject (any type); the loose path reads only the header *)
Definition size_local (pol : cache -> cache) (s : store) (c : cache) (hint : nat) (id : bytes)
  : cache * nat * option rres :=
  match find_in_packs s hint id with
  | (hint', Some (p, off)) =>
    match cache_get c id with
    | Some o => (c, hint', Some (RFound o))
    | None =>
      match get_by_offset pol p c off with
      | (c', Some o) => (c', hint', Some (RFound o))
      | (c', None) => (c', hint', Some RBroken)
      end
    end
  | (hint', None) =>
    match loose_get s id with
    | Some o => (c, hint', Some (RFound o))
    | None => (c, hint', None)
    end
  end.
Fixpoint size_alts (pol : cache -> cache) (alts : list store) (c : cache) (hints : list nat) (id : bytes)
  : cache * list nat * rres :=
  match alts with
  | [] => (c, hints, RNotFound)
  | a :: r =>
    match size_local pol a c (hd O hints) id with
    | (c', h', Some res) => (c', h' :: tl hints, res)
    | (c', h', None) => let '(c'', hs, res) := size_alts pol r c' (tl hints) id in (c'', h' :: hs, res)
    end
  end.
Definition size_object (pol : cache -> cache) (r : repo) (st : rstate) (id : bytes) : rstate * rres :=
  match size_local pol (r_main r) (rs_cache st) (rs_hint st) id with
  | (c, h, Some res) => (RState c h (rs_ahints st), res)
  | (c, h, None) =>
    let '(c', hs, res) := size_alts pol (r_alts r) c (rs_ahints st) id in (RState c' h hs, res)
  end.

(* IterEncodedObjects(t): the loose objects, then every pack in offset order,
   skipping ids already seen; the type of a delta entry is that of the resolved
   object.  The alternates are NOT iterated. *)
Definition mem_id (id : bytes) (l : list bytes) : bool := existsb (bytes_eqb id) l.

Fixpoint iter_loose (pol : cache -> cache) (l : list (bytes * obj)) (c : cache) (t : option otype)
         (acc : list (bytes * obj)) : cache * list (bytes * obj) :=
  match l with
  | [] => (c, acc)
  | (id, o) :: r =>
    let '(c1, o1) := match cache_get c id with
                     | Some o' => (c, o')
                     | None => (cache_put pol c id o, o)
                     end in
    iter_loose pol r c1 t (match typed t o1 with RFound _ => acc ++ [(id, o1)] | _ => acc end)
  end.

Fixpoint iter_pack (pol : cache -> cache) (p : pack) (es : list entry) (c : cache) (t : option otype)
         (seen : list bytes) (acc : list (bytes * obj)) (ok : bool)
  : cache * list bytes * list (bytes * obj) * bool :=
  match es with
  | [] => (c, seen, acc, ok)
  | e :: r =>
    (* a non-delta entry of another type is skipped on its header alone *)
    let skip_untyped :=
      match e_kind e, t with
      | KBase t' _, Some t0 => negb (otype_eqb t0 t')
      | _, _ => false
      end in
    if skip_untyped then iter_pack pol p r c t seen acc ok else
    (* objectFromHeader: no cache probe for the entry itself *)
    let '(c1, res) := resolve pol (S (List.length p)) p c e in
    match res with
    | None => iter_pack pol p r c1 t seen acc false
    | Some o =>
      match typed t o with
      | RFound _ =>
        if mem_id (e_id e) seen then iter_pack pol p r c1 t seen acc ok
        else iter_pack pol p r c1 t (e_id e :: seen) (acc ++ [(e_id e, o)]) ok
      | _ => iter_pack pol p r c1 t seen acc ok
      end
    end
  end.

Fixpoint iter_packs (pol : cache -> cache) (ps : list pack) (c : cache) (t : option otype)
         (seen : list bytes) (acc : list (bytes * obj)) (ok : bool)
  : cache * list (bytes * obj) * bool :=
  match ps with
  | [] => (c, acc, ok)
  | p :: r =>
    let '(c1, seen1, acc1, ok1) := iter_pack pol p p c t seen acc ok in
    iter_packs pol r c1 t seen1 acc1 ok1
  end.

Definition iter_objects (pol : cache -> cache) (r : repo) (st : rstate) (t : option otype)
  : rstate * option (list (bytes * obj)) :=
  let s := r_main r in
  let '(c1, acc1) := iter_loose pol (s_loose s) (rs_cache st) t [] in
  (* every loose id is in [seen], whatever its type *)
  let '(c2, acc2, ok) := iter_packs pol (s_packs s) c1 t (map fst (s_loose s)) acc1 true in
  (RState c2 (rs_hint st) (rs_ahints st), if ok then Some acc2 else None).

(* HashesWithPrefix: loose, every idx, the alternates; each id once *)
Fixpoint is_prefix (p l : bytes) : bool :=
  match p, l with
  | [], _ => true
  | x :: p', y :: l' => (x =? y) && is_prefix p' l'
  | _ :: _, [] => false
  end.
Definition add_new (acc : list bytes) (ids : list bytes) : list bytes :=
  fold_left (fun a id => if mem_id id a then a else a ++ [id]) ids acc.
Definition store_prefix (s : store) (pre : bytes) (acc : list bytes) : list bytes :=
  let acc1 := add_new acc (filter (is_prefix pre) (map fst (s_loose s))) in
  fold_left (fun a p => add_new a (filter (is_prefix pre) (map e_id p))) (s_packs s) acc1.
Definition prefix_ids (r : repo) (pre : bytes) : list bytes :=
  fold_left (fun a s => add_new a (store_prefix s pre [])) (r_alts r) (store_prefix (r_main r) pre []).

(* ---- reads, rendering ---- *)

Inductive read :=
| RdGet (t : option otype) (id : bytes)
| RdSize (id : bytes)
| RdHas (id : bytes)
| RdIter (t : option otype)
| RdPrefix (pre : bytes)
| RdOff (pk : nat) (off : N).         (* a stand-alone Packfile over pack pk of the main store: GetByOffset *)

(* Fletcher-style digest of a byte string (two 32-bit running sums), continued from h *)
Definition fnv (h : N) (b : bytes) : N :=
  let '(s1, s2) := fold_left (fun s c => let s1 := N.land (fst s + c) 4294967295 in
                                         (s1, N.land (snd s + s1) 4294967295))
                             b (N.land h 4294967295, N.shiftr h 32) in
  s1 + N.shiftl s2 32.
Definition fnv_init : N := 1.

Definition render_obj (o : obj) : out :=
  OOk [ON (otype_num (o_type o)); ONat (List.length (o_data o)); ON (fnv fnv_init (o_data o))].
Definition render_rres (r : rres) : out :=
  match r with RFound o => render_obj o | RNotFound => OErr "notfound" | RBroken => OErr "other" end.
Definition obj_digest (x : bytes * obj) : N :=
  fnv (fnv fnv_init (fst x)) [otype_num (o_type (snd x))] + fnv fnv_init (o_data (snd x)).
Definition sum64 (l : list N) : N := fold_left (fun a x => N.land (a + x) 18446744073709551615) l 0.

Definition do_read (pol : cache -> cache) (r : repo) (st : rstate) (rd : read) : rstate * out :=
  match rd with
  | RdGet t id => let '(st', res) := get_object pol r st t id in (st', render_rres res)
  | RdSize id =>
    let '(st', res) := size_object pol r st id in
    (st', match res with RFound o => OOk [ONat (List.length (o_data o))] | _ => render_rres res end)
  | RdHas id => let '(st', b) := has_object r st id in (st', OBool b)
  | RdIter t =>
    let '(st', res) := iter_objects pol r st t in
    (st', match res with
          | Some l => OOk [ONat (List.length l); ON (sum64 (map obj_digest l))]
          | None => OErr "other"
          end)
  | RdPrefix pre =>
    let ids := prefix_ids r pre in
    (st, OOk [ONat (List.length ids); ON (sum64 (map (fnv fnv_init) ids))])
  | RdOff pk off =>
    match nth_error (s_packs (r_main r)) pk with
    | None => (st, OErr "other")
    | Some p =>
      let '(c, res) := get_by_offset pol p (rs_cache st) off in
      (RState c (rs_hint st) (rs_ahints st),
       match res with Some o => render_obj o | None => OErr "other" end)
    end
  end.

Fixpoint do_reads (pol : cache -> cache) (r : repo) (st : rstate) (rds : list read) : rstate * list out :=
  match rds with
  | [] => (st, [])
  | rd :: rest =>
    let '(st1, o) := do_read pol r st rd in
    let '(st2, os) := do_reads pol r st1 rest in (st2, o :: os)
  end.

Definition init_rstate (r : repo) : rstate := RState [] O (map (fun _ => O) (r_alts r)).

(* correspondence entry points: cache everything / cache nothing *)
Definition keep_all (c : cache) : cache := c.
Definition keep_none (c : cache) : cache := [].
Definition c11_run (r : repo) (rds : list read) : out :=
  OList (snd (do_reads keep_all r (init_rstate r) rds)).
Definition c11_run_nocache (r : repo) (rds : list read) : out :=
  OList (snd (do_reads keep_none r (init_rstate r) rds)).

(* compact constructors for the generated repository terms: a byte string is
   (length, big-endian number), written as a hexadecimal numeral *)
Fixpoint bytes_of_N (len : nat) (n : N) (acc : bytes) : bytes :=
  match len with
  | O => acc
  | S l => bytes_of_N l (N.shiftr n 8) (N.land n 255 :: acc)
  end.
Definition bN (len n : N) : bytes := bytes_of_N (N.to_nat len) n [].
Definition ty_of (n : N) : otype :=
  if n =? 1 then TCommit else if n =? 2 then TTree else if n =? 4 then TTag else TBlob.
Definition LO (id t len d : N) : bytes * obj := (bN 20 id, Obj (ty_of t) (bN len d)).
Definition EB (id off t len d : N) : entry := Entry (bN 20 id) off (KBase (ty_of t) (bN len d)).
Definition EO (id off base len d : N) : entry := Entry (bN 20 id) off (KOfs base (bN len d)).
Definition ER (id off base len d : N) : entry := Entry (bN 20 id) off (KRef (bN 20 base) (bN len d)).
Definition opt_ty (t : N) : option otype := if t =? 0 then None else Some (ty_of t).
Definition rget (t : N) (id : string) : read := RdGet (opt_ty t) (unhex id).
Definition rsize (id : string) : read := RdSize (unhex id).
Definition rhas (id : string) : read := RdHas (unhex id).
Definition riter (t : N) : read := RdIter (opt_ty t).
Definition rprefix (p : string) : read := RdPrefix (unhex p).
