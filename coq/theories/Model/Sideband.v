(* Model/Sideband.v — G for C34: plumbing/protocol/packp/sideband/{muxer,demux}.go
     NewMuxer / Muxer.WriteChannel / doWrite
     NewDemuxer / Demuxer.Read / doRead / nextPackData / getPending
   on top of Model/PktLine (pktline.Write, Scanner).  Executable definitions only. *)
From Coq Require Import List NArith ZArith Bool String.
From GoGit Require Import Base.Out Base.GoInt Gen.C34 Model.PktLine.
Import ListNotations.

(* maxSize := MaxPackedSize64k; if t == Sideband { maxSize = MaxPackedSize } *)
Definition sb_max (t : Z) : Z :=
  if (t =? sideband_Sideband)%Z then sideband_MaxPackedSize else sideband_MaxPackedSize64k.

(* Muxer.max = maxSize - pktline.LenSize - chLen *)
Definition mux_max (t : Z) : Z := (sb_max t - pktline_LenSize - sideband_chLen)%Z.

Inductive mres := MOk (s : bytes) | MTooLong | MFuel.

(* WriteChannel: for wrote < size { doWrite(p[wrote:]) }.  doWrite takes
   sz = min(len(p), max) bytes and sends ch.WithPayload(p[:sz]) as one pkt-line.
   fuel: every iteration writes sz >= 1 bytes when max >= 1. *)
Fixpoint mux_go (fuel : nat) (max : nat) (ch : N) (p : bytes) (acc : bytes) : mres :=
  match p with
  | [] => MOk acc
  | _ :: _ =>
    match fuel with
    | O => MFuel
    | S f =>
      let sz := Nat.min (List.length p) max in
      match pkt_write (ch :: firstn sz p) with
      | None => MTooLong
      | Some w => mux_go f max ch (skipn sz p) (acc ++ w)
      end
    end
  end.

Definition mux_write (t : Z) (ch : N) (p : bytes) : mres :=
  mux_go (List.length p) (Z.to_nat (mux_max t)) ch p [].

(* a session: several WriteChannel calls on one stream *)
Fixpoint mux_session (t : Z) (ws : list (N * bytes)) : mres :=
  match ws with
  | [] => MOk []
  | (ch, p) :: r =>
    match mux_write t ch p with
    | MOk a => match mux_session t r with MOk b => MOk (a ++ b) | e => e end
    | e => e
    end
  end.

(* ---------- Demuxer ---------- *)
Inductive derr :=
| DEeof                (* io.EOF: flush packet or end of stream *)
| DEmax                (* ErrMaxPackedExceeded *)
| DEproto              (* empty sideband packet, ErrorMessage channel, unknown channel *)
| DEpkt (e : perr).    (* error of the pkt-line scanner *)

Record dmx := mkdmx { d_r : reader; d_pending : bytes; d_prog : bytes }.

(* nextPackData; has_prog = (d.Progress != nil), the sink appends *)
Definition next_pack_data (max : Z) (has_prog : bool) (d : dmx) : bytes * option derr * dmx :=
  match d_pending d with
  | _ :: _ => (d_pending d, None, mkdmx (d_r d) [] (d_prog d))
  | [] =>
    let (s, r') := scan (d_r d) in
    let d' := mkdmx r' [] (d_prog d) in
    if negb (sc_ok s) then
      match sc_err s with
      | Some e => ([], Some (DEpkt e), d')
      | None => ([], Some DEeof, d')
      end
    else if (sc_len s =? pktline_Flush)%Z then ([], Some DEeof, d')
    else if (sc_len s >? max)%Z then ([], Some DEmax, d')
    else
      (* content = s.Bytes(): nil for delim / response-end, empty for 0004 *)
      match (if (sc_len s >=? pktline_LenSize)%Z then sc_bytes s else []) with
      | [] => ([], Some DEproto, d')
      | ch :: body =>
        if (Z.of_N ch =? sideband_PackData)%Z then (body, None, d')
        else if (Z.of_N ch =? sideband_ProgressMessage)%Z then
          ([], None, if has_prog then mkdmx r' [] (d_prog d ++ body) else d')
        else ([], Some DEproto, d')
      end
  end.

(* doRead(b) with len(b) = wanted *)
Definition do_read (max : Z) (has_prog : bool) (wanted : nat) (d : dmx) : bytes * option derr * dmx :=
  let '(content, err, d1) := next_pack_data max has_prog d in
  let d2 := if Nat.ltb wanted (List.length content)
            then mkdmx (d_r d1) (skipn wanted content) (d_prog d1) else d1 in
  (firstn wanted content, err, d2).

Inductive dres := DRes (data : bytes) (err : option derr) (d : dmx) | DFuel.

(* Read(b): for read < req { doRead(b[read:req]) } *)
Fixpoint demux_loop (fuel : nat) (max : Z) (has_prog : bool) (req : nat) (acc : bytes) (d : dmx) : dres :=
  match req with
  | O => DRes acc None d
  | S _ =>
    match fuel with
    | O => DFuel
    | S f =>
      let '(chunk, err, d') := do_read max has_prog req d in
      match err with
      | Some e => DRes (acc ++ chunk) (Some e) d'
      | None => demux_loop f max has_prog (req - List.length chunk) (acc ++ chunk) d'
      end
    end
  end.

(* fuel: an iteration either copies >= 1 pending byte or scans >= 4 stream bytes *)
Definition demux_read (t : Z) (has_prog : bool) (req : nat) (d : dmx) : dres :=
  demux_loop (S (req + rlen (d_r d))) (sb_max t) has_prog req [] d.

(* successive Reads with the given buffer sizes, stopping at the first error *)
Inductive dsess := DSess (reads : list (bytes * option derr)) (d : dmx) | DSFuel.

Fixpoint demux_session (t : Z) (has_prog : bool) (sizes : list nat) (d : dmx) (acc : list (bytes * option derr)) : dsess :=
  match sizes with
  | [] => DSess (rev acc) d
  | n :: rest =>
    match demux_read t has_prog n d with
    | DFuel => DSFuel
    | DRes data (Some e) d' => DSess (rev ((data, Some e) :: acc)) d'
    | DRes data None d' => demux_session t has_prog rest d' ((data, None) :: acc)
    end
  end.

(* ---------- observables / entry points ---------- *)
Definition o_derr (e : option derr) : out :=
  match e with
  | None => OSym "nil"%string
  | Some DEeof => OSym "eof"%string
  | Some DEmax => OSym "max_exceeded"%string
  | Some DEproto => OSym "proto"%string
  | Some (DEpkt (PEerrline _)) => OSym "errline"%string
  | Some (DEpkt e) => o_perr (Some e)
  end.

Definition o_dsess (s : dsess) : out :=
  match s with
  | DSFuel => OErr "fuel"%string
  | DSess reads d =>
    OOk [OList (map (fun x => OList [o_bytes (fst x); o_derr (snd x)]) reads); o_bytes (d_prog d)]
  end.

Definition o_mres (m : mres) : out :=
  match m with
  | MOk s => OOk [o_bytes s]
  | MTooLong => OErr "too_long"%string
  | MFuel => OErr "fuel"%string
  end.

Definition cwrites (ws : list (N * list piece)) : list (N * bytes) :=
  map (fun w => (fst w, pieces_bytes (snd w))) ws.

(* mux the writes, append a flush when asked, demux through a chunked reader *)
Definition c34_sb (t : Z) (ws : list (N * list piece)) (flush : bool) (chunks : list N)
           (has_prog : bool) (sizes : list N) : out :=
  match mux_session t (cwrites ws) with
  | MOk s =>
    let stream := s ++ (if flush then flushPkt else []) in
    OList [o_mres (MOk s); o_dsess (demux_session t has_prog (nats sizes) (mkdmx (chunk_by (nats chunks) stream) [] []) [])]
  | e => OList [o_mres e]
  end.

(* demux raw bytes *)
Definition c34_sbraw (t : Z) (ps : list piece) (chunks : list N) (has_prog : bool) (sizes : list N) : out :=
  o_dsess (demux_session t has_prog (nats sizes) (mkdmx (chunk_by (nats chunks) (pieces_bytes ps)) [] []) []).
