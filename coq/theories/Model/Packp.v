(* Model/Packp.v — G for C35 (and the protocol-message part of C53):
   plumbing/protocol/capability/list.go   DecodeList, List.Add, List.AppendText/String
   plumbing/protocol/packp/               AdvRefs, UploadRequest, UploadHaves, ServerResponse,
                                          ShallowUpdate, UpdateRequests, ReportStatus, PushOptions
   plumbing/objectid.go                   FromHex / NewHash / String / IsZero / Compare
   Encoders produce the list of pkt-lines they write (Model/PktLine.v turns it
   into bytes); decoders consume the successive results of pktline.Scanner.Scan
   (Model/PktLine.v scan_all).  Executable definitions only.
   bytes.TrimSpace and unicode.IsGraphic are modelled byte-wise over UTF-8
   (Model/C35Utf8.v), so the model is evaluated on arbitrary bytes.  Outside the
   model: fmt.Sscanf beyond single-space separated ASCII tokens (parse_cmd
   answers "unmodelled" there). *)
From Coq Require Import List NArith ZArith Bool String.
From GoGit Require Import Base.Out Base.GoInt Gen.C34 Model.PktLine Model.C35Utf8.
Import ListNotations.

Definition B (s : string) : bytes := bytes_of_string s.
Definition SP : N := 32.
Definition NUL : N := 0.

(* ---------- byte-string helpers (Go packages bytes and strings) ---------- *)
Fixpoint beq (a b : bytes) : bool :=
  match a, b with
  | [], [] => true
  | x :: a', y :: b' => N.eqb x y && beq a' b'
  | _, _ => false
  end.

Fixpoint has_suffix_go (suf s : bytes) (n : nat) : bool :=   (* n = length s - length suf *)
  match n with O => beq suf s | S k => match s with [] => false | _ :: r => has_suffix_go suf r k end end.
Definition has_suffix (suf s : bytes) : bool :=
  if Nat.ltb (List.length s) (List.length suf) then false
  else has_suffix_go suf s (List.length s - List.length suf).

Definition trim_suffix (suf s : bytes) : bytes :=
  if has_suffix suf s then firstn (List.length s - List.length suf) s else s.
Definition trim_prefix (pre s : bytes) : bytes :=
  if has_prefix pre s then skipn (List.length pre) s else s.
Definition trim_eol (s : bytes) : bytes := trim_suffix [NL] s.

(* bytes.IndexByte *)
Fixpoint index_byte (c : N) (s : bytes) : option nat :=
  match s with
  | [] => None
  | x :: r => if N.eqb x c then Some O else option_map S (index_byte c r)
  end.

(* bytes.Cut at the first c *)
Definition cut (c : N) (s : bytes) : option (bytes * bytes) :=
  match index_byte c s with
  | Some i => Some (firstn i s, skipn (S i) s)
  | None => None
  end.

(* bytes.Split on a single byte *)
Fixpoint split_on (c : N) (s : bytes) : list bytes :=
  match s with
  | [] => [[]]
  | x :: r =>
    if N.eqb x c then [] :: split_on c r
    else match split_on c r with h :: t => (x :: h) :: t | [] => [[x]] end
  end.

Fixpoint join (sep : bytes) (l : list bytes) : bytes :=
  match l with
  | [] => []
  | [x] => x
  | x :: r => x ++ sep ++ join sep r
  end.

(* strings.SplitN(s, " ", n) for n = 2, 3: at most n fields, the last one unsplit *)
Fixpoint split_n (c : N) (n : nat) (s : bytes) : list bytes :=
  match n with
  | O => []
  | S O => [s]
  | S k => match cut c s with
           | Some (a, b) => a :: split_n c k b
           | None => [s]
           end
  end.

(* ---------- decimal (fmt %d, strconv.Atoi on the modelled domain) ---------- *)
Definition dec_bytes (z : Z) : bytes := bytes_of_string (dec_of_Z z).

Fixpoint parse_dec_go (s : bytes) (acc : Z) : option Z :=
  match s with
  | [] => Some acc
  | c :: r => if (N.leb 48 c && N.leb c 57)%bool then parse_dec_go r (10 * acc + Z.of_N (c - 48)%N)%Z else None
  end.
(* strconv.Atoi / ParseInt(_,10,64): optional sign, digits; None = syntax or range error *)
Definition parse_int (s : bytes) : option Z :=
  let (neg, digits) := match s with
                       | 45%N :: r => (true, r)
                       | 43%N :: r => (false, r)
                       | _ => (false, s)
                       end in
  match digits with
  | [] => None
  | _ => match parse_dec_go digits 0 with
         | Some v => let v' := if neg then (- v)%Z else v in
                     if ((- 2 ^ 63 <=? v') && (v' <? 2 ^ 63))%Z then Some v' else None
         | None => None
         end
  end.

(* ---------- plumbing.ObjectID ---------- *)
Record hash := mkhash { hb : bytes; h256 : bool }.   (* hb: the 32-byte array *)
Definition zero32 : bytes := repeat 0%N 32.
Definition zero_hash : hash := mkhash zero32 false.
Definition hash_size (h : hash) : nat := if h256 h then 32%nat else 20%nat.
Definition hash_hexsize (h : hash) : nat := (2 * hash_size h)%nat.
Definition hash_bytes (h : hash) : bytes := firstn (hash_size h) (hb h).

Definition hexdig (n : N) : N := if N.ltb n 10 then (48 + n)%N else (87 + n)%N.
Fixpoint to_hex (b : bytes) : bytes :=
  match b with
  | [] => []
  | c :: r => hexdig (N.shiftr c 4 mod 16)%N :: hexdig (c mod 16)%N :: to_hex r
  end.
Definition hash_str (h : hash) : bytes := to_hex (hash_bytes h).

Definition hexv (c : N) : option N :=
  if (N.leb 48 c && N.leb c 57)%bool then Some (c - 48)%N
  else if (N.leb 97 c && N.leb c 102)%bool then Some (c - 87)%N
  else if (N.leb 65 c && N.leb c 70)%bool then Some (c - 55)%N
  else None.
(* hex.DecodeString: None on an invalid digit or odd length *)
Fixpoint of_hex (s : bytes) : option bytes :=
  match s with
  | [] => Some []
  | a :: b :: r =>
    match hexv a, hexv b, of_hex r with
    | Some x, Some y, Some t => Some ((16 * x + y)%N :: t)
    | _, _, _ => None
    end
  | [_] => None
  end.

Definition pad32 (b : bytes) : bytes := firstn 32 (b ++ zero32).

(* plumbing.FromHex *)
Definition from_hex (s : bytes) : hash * bool :=
  let f := Nat.eqb (List.length s) 64 in
  match of_hex s with
  | Some out => (mkhash (pad32 out) f, true)
  | None => (mkhash zero32 f, false)
  end.
Definition new_hash (s : bytes) : hash := fst (from_hex s).
Definition hash_is_zero (h : hash) : bool := forallb (N.eqb 0) (hb h).

(* bytes.Compare(a.hash[:a.Size()], b.Bytes()) == 0 *)
Definition hash_same (a b : hash) : bool := beq (hash_bytes a) (hash_bytes b).

Fixpoint bytes_ltb (a b : bytes) : bool :=
  match a, b with
  | [], [] => false
  | [], _ :: _ => true
  | _ :: _, [] => false
  | x :: a', y :: b' => if N.ltb x y then true else if N.ltb y x then false else bytes_ltb a' b'
  end.

(* insertion sort (stable) for sort.Slice / sort.Sort / sort.Strings on short lists *)
Fixpoint insert_by {A} (lt : A -> A -> bool) (x : A) (l : list A) : list A :=
  match l with
  | [] => [x]
  | y :: r => if lt x y then x :: l else y :: insert_by lt x r
  end.
Definition sort_by {A} (lt : A -> A -> bool) (l : list A) : list A :=
  fold_left (fun acc x => insert_by lt x acc) l [].

Definition hash_ltb (a b : hash) : bool := bytes_ltb (hash_bytes a) (hash_bytes b).
Definition sort_hashes (l : list hash) : list hash := sort_by hash_ltb l.

(* the "var last Hash; for … { if last.Compare(h.Bytes()) == 0 { continue } …; last = h }" loop *)
Fixpoint dedup_from (last : hash) (l : list hash) : list hash :=
  match l with
  | [] => []
  | h :: r => if hash_same last h then dedup_from last r else h :: dedup_from h r
  end.

(* ---------- capability.List ---------- *)
Definition caps := list (bytes * list bytes).

Fixpoint cap_add (l : caps) (c : bytes) (vals : list bytes) : caps :=
  match l with
  | [] => [(c, vals)]
  | (k, vs) :: r => if beq k c then (k, vs ++ vals) :: r else (k, vs) :: cap_add r c vals
  end.

Definition cap_tokens (l : caps) : list bytes :=
  flat_map (fun e => match snd e with
                     | [] => [fst e]
                     | vs => map (fun v => fst e ++ [61%N] ++ v) vs
                     end) l.
(* List.String / MarshalText *)
Definition cap_encode (l : caps) : bytes := join [SP] (cap_tokens l).

(* DecodeList *)
Definition cap_decode (raw : bytes) (l : caps) : caps :=
  let raw := trim_space_u raw in
  match raw with
  | [] => l
  | _ =>
    fold_left (fun acc chunk =>
                 match chunk with
                 | [] => acc
                 | _ => match cut 61 chunk with
                        | Some (k, v) => cap_add acc k [v]
                        | None => cap_add acc chunk []
                        end
                 end) (split_on SP raw) l
  end.

(* ---------- the Scanner as seen by the decoders ---------- *)
(* items: the successful Scan results (Len, Bytes); fin: the error of the Scan
   that returned false (None = clean end of stream) *)
Definition item := (Z * bytes)%type.
Record src := mksrc { s_items : list item; s_fin : option perr }.

Fixpoint src_of_items (l : list rd) : src :=
  match l with
  | [] => mksrc [] None
  | [d] => mksrc [] (rd_err d)
  | d :: r => let s := src_of_items r in mksrc ((rd_len d, rd_payload d) :: s_items s) (s_fin s)
  end.
Definition src_of (a : rall) : src := match a with RAll l => src_of_items l | RFuel => mksrc [] None end.

Inductive derr :=
| EEmptyInput | EEmptyAdvRefs | EUnexpected | EPkt (e : perr) | EUnexpectedEOF | EInvalidOption | EOther.

Definition fin_err (first : bool) (fin : option perr) : derr :=
  match fin with
  | Some e => EPkt e
  | None => if first then EEmptyInput else EUnexpected
  end.

(* ---------- AdvRefs ---------- *)
Record advrefs := mkadv { ar_version : Z; ar_caps : caps; ar_refs : list (bytes * hash); ar_shallows : list hash }.
Definition adv_empty : advrefs := mkadv 0 [] [] [].

Definition peeled_suffix : bytes := B "^{}".
Definition is_peeled (name : bytes) : bool := has_suffix peeled_suffix name.
Definition HEADn : bytes := B "HEAD".

Fixpoint find_first {A} (f : A -> bool) (l : list A) : option A :=
  match l with [] => None | x :: r => if f x then Some x else find_first f r end.

(* firstRef *)
Definition first_ref (refs : list (bytes * hash)) : option (bytes * hash) :=
  match find_first (fun r => negb (is_peeled (fst r)) && beq (fst r) HEADn) refs with
  | Some r => Some r
  | None => find_first (fun r => negb (is_peeled (fst r))) refs
  end.

(* peeled[base] = hash; a later entry overwrites an earlier one *)
Fixpoint peeled_lookup (refs : list (bytes * hash)) (name : bytes) (found : option hash) : option hash :=
  match refs with
  | [] => found
  | (n, h) :: r =>
    if is_peeled n && beq (firstn (List.length n - 3) n) name
    then peeled_lookup r name (Some h) else peeled_lookup r name found
  end.

Definition ref_line (h : hash) (name : bytes) : bytes := hash_str h ++ [SP] ++ name ++ [NL].
Definition peeled_line (h : hash) (name : bytes) : bytes := hash_str h ++ [SP] ++ name ++ peeled_suffix ++ [NL].

(* AdvRefs.Encode, after "fix: … emit the peeled line of the first advertised ref":
   the first reference is followed by its own ^{} line *)
Definition adv_encode (a : advrefs) : option (list pkt) :=
  let ver := if (ar_version a =? 0)%Z then Some []
             else if (ar_version a =? 1)%Z then Some [PData (B "version 1" ++ [NL])] else None in
  match ver with
  | None => None
  | Some vl =>
    let refs := ar_refs a in
    let capstr := cap_encode (ar_caps a) in
    let firstl :=
      match first_ref refs with
      | Some (fname, fhash) =>
        (* a first ref with an empty name is written like "no refs" *)
        match fname with
        | [] => [PData (hash_str zero_hash ++ [SP] ++ B "capabilities^{}" ++ [NUL] ++ capstr ++ [NL])]
        | _ =>
          PData (hash_str fhash ++ [SP] ++ fname ++ [NUL] ++ capstr ++ [NL]) ::
          match peeled_lookup refs fname None with
          | Some ph => [PData (peeled_line ph fname)]
          | None => []
          end
        end
      | None => [PData (hash_str zero_hash ++ [SP] ++ B "capabilities^{}" ++ [NUL] ++ capstr ++ [NL])]
      end in
    let fname := match first_ref refs with Some (n, _) => n | None => [] end in
    let rest := filter (fun r => negb (is_peeled (fst r)) && negb (beq (fst r) fname)) refs in
    let sorted := sort_by (fun x y => bytes_ltb (fst x) (fst y)) rest in
    let lines := flat_map (fun r =>
                   PData (ref_line (snd r) (fst r)) ::
                   match peeled_lookup refs (fst r) None with
                   | Some ph => [PData (peeled_line ph (fst r))]
                   | None => []
                   end) sorted in
    let sh := map (fun s => PData (B "shallow " ++ s ++ [NL]))
                  (sort_by bytes_ltb (map hash_str (ar_shallows a))) in
    Some (vl ++ firstl ++ lines ++ sh ++ [PFlush])
  end.

(* nextLine: the line of an item (nil for flush; special packets have nil Bytes) *)
Definition line_of (it : item) : bytes := if (fst it =? 0)%Z then [] else trim_eol (snd it).

(* hashFrom *)
Definition hash_from (line : bytes) : option hash :=
  let n := match index_byte SP line with Some i => i | None => List.length line end in
  if Nat.eqb n 40 || Nat.eqb n 64 then
    let (h, ok) := from_hex (firstn n line) in if ok then Some h else None
  else None.

Definition noHeadMark : bytes := [SP] ++ B "capabilities^{}" ++ [NUL].

(* the loop over the remaining lines *)
Fixpoint adv_rest (items : list item) (fin : option perr) (in_sh : bool) (a : advrefs) : advrefs + derr :=
  match items with
  | [] => inr (fin_err false fin)
  | it :: r =>
    let line := line_of it in
    match line with
    | [] => inl a
    | _ =>
      if has_prefix (B "shallow ") line then
        let data := skipn 8 line in
        if Nat.eqb (List.length data) 40 || Nat.eqb (List.length data) 64 then
          let (h, ok) := from_hex data in
          if ok then adv_rest r fin true (mkadv (ar_version a) (ar_caps a) (ar_refs a) (ar_shallows a ++ [h]))
          else inr EUnexpected
        else inr EUnexpected
      else if in_sh then inr EUnexpected
      else
        match cut SP line with
        | None => inr EUnexpected
        | Some (before, after) =>
          match index_byte SP after with
          | Some _ => inr EUnexpected
          | None => adv_rest r fin false
                      (mkadv (ar_version a) (ar_caps a) (ar_refs a ++ [(after, new_hash before)]) (ar_shallows a))
          end
        end
    end
  end.

Definition adv_first (line : bytes) (r : list item) (fin : option perr) (a : advrefs) : advrefs + derr :=
  if negb ((ar_version a =? 0)%Z || (ar_version a =? 1)%Z) then inr EUnexpected
  else match line with
  | [] => inr EEmptyAdvRefs
  | _ =>
    if Nat.ltb (List.length line) 40 then inr EUnexpected
    else match hash_from line with
    | None => inr EUnexpected
    | Some h =>
      let remain := skipn (hash_hexsize h) line in
      if hash_is_zero h then
        if Nat.ltb (List.length remain) (List.length noHeadMark) then inr EUnexpected
        else if negb (has_prefix noHeadMark remain) then inr EUnexpected
        else adv_rest r fin false
               (mkadv (ar_version a) (cap_decode (skipn (List.length noHeadMark) remain) (ar_caps a)) (ar_refs a) (ar_shallows a))
      else
        if Nat.ltb (List.length remain) 3 then inr EUnexpected
        else match remain with
        | c :: remain' =>
          if negb (N.eqb c SP) then inr EUnexpected
          else match cut NUL remain' with
          | None => inr EUnexpected
          | Some (name, capsb) =>
            adv_rest r fin false
              (mkadv (ar_version a) (cap_decode capsb (ar_caps a)) (ar_refs a ++ [(name, h)]) (ar_shallows a))
          end
        | [] => inr EUnexpected
        end
    end
  end.

(* protocol.Parse *)
Definition parse_version (v : bytes) : option Z :=
  if beq v (B "0") then Some 0%Z else if beq v (B "1") then Some 1%Z else if beq v (B "2") then Some 2%Z else None.

(* AdvRefs.Decode into a zero AdvRefs *)
Definition adv_decode (s : src) : advrefs + derr :=
  match s_items s with
  | [] => inr (fin_err true (s_fin s))
  | it :: r =>
    let line := line_of it in
    match line with
    | [] => inr EEmptyAdvRefs
    | _ =>
      if has_prefix (B "version ") line then
        match parse_version (skipn 8 line) with
        | None => inr EOther
        | Some v =>
          match r with
          | [] => inr (fin_err false (s_fin s))
          | it2 :: r2 => adv_first (line_of it2) r2 (s_fin s) (mkadv v [] [] [])
          end
        end
      else adv_first line r (s_fin s) adv_empty
    end
  end.

(* ---------- ReportStatus ---------- *)
Record report := mkreport { rs_unpack : bytes; rs_cmds : list (bytes * bytes) }.   (* (refname, status) *)
Definition OKb : bytes := B "ok".

Definition rs_encode (s : report) : list pkt :=
  PData (B "unpack " ++ rs_unpack s ++ [NL]) ::
  map (fun c => if beq (snd c) OKb then PData (B "ok " ++ fst c ++ [NL])
                else PData (B "ng " ++ fst c ++ [SP] ++ snd c ++ [NL])) (rs_cmds s)
  ++ [PFlush].

Fixpoint rs_cmds_decode (items : list item) (fin : option perr) (acc : list (bytes * bytes)) : list (bytes * bytes) + derr :=
  match items with
  | [] => inr (match fin with Some e => EPkt e | None => EUnexpectedEOF end)   (* missing flush *)
  | it :: r =>
    if (fst it =? 0)%Z then inl acc
    else
      let line := trim_eol (snd it) in
      match split_n SP 3 line with
      | [f0; f1; f2] =>
        if beq f0 (B "ng") then rs_cmds_decode r fin (acc ++ [(f1, f2)]) else inr EOther
      | [f0; f1] =>
        if beq f0 OKb then rs_cmds_decode r fin (acc ++ [(f1, OKb)]) else inr EOther
      | _ => inr EOther
      end
  end.

Definition rs_decode (s : src) : report + derr :=
  match s_items s with
  | [] => inr (match s_fin s with Some e => EPkt e | None => EUnexpectedEOF end)
  | it :: r =>
    match snd it with
    | [] => inr EOther                                           (* premature flush *)
    | b =>
      match split_n SP 2 (trim_eol b) with
      | [f0; f1] =>
        if beq f0 (B "unpack") then
          match rs_cmds_decode r (s_fin s) [] with
          | inl cs => inl (mkreport f1 cs)
          | inr e => inr e
          end
        else inr EOther
      | _ => inr EOther
      end
    end
  end.

(* ---------- ShallowUpdate (after "fix: … accept SHA-256 ids in a shallow-update") ---------- *)
Record shupd := mkshupd { su_shallows : list hash; su_unshallows : list hash }.

Definition su_encode (u : shupd) : list pkt :=
  map (fun h => PData (B "shallow " ++ hash_str h ++ [NL])) (su_shallows u) ++
  map (fun h => PData (B "unshallow " ++ hash_str h ++ [NL])) (su_unshallows u) ++ [PFlush].

Fixpoint su_decode_go (items : list item) (fin : option perr) (u : shupd) : shupd + derr :=
  match items with
  | [] => match fin with Some e => inr (EPkt e) | None => inl u end     (* return s.Err() *)
  | it :: r =>
    if (fst it =? 0)%Z then inl u
    else
      let line := trim_space_u (snd it) in
      if has_prefix (B "shallow ") line then
        if Nat.eqb (List.length line) 48 || Nat.eqb (List.length line) 72
        then su_decode_go r fin (mkshupd (su_shallows u ++ [new_hash (skipn 8 line)]) (su_unshallows u))
        else inr EOther
      else if has_prefix (B "unshallow ") line then
        if Nat.eqb (List.length line) 50 || Nat.eqb (List.length line) 74
        then su_decode_go r fin (mkshupd (su_shallows u) (su_unshallows u ++ [new_hash (skipn 10 line)]))
        else inr EOther
      else inr EOther
  end.
Definition su_decode (s : src) : shupd + derr := su_decode_go (s_items s) (s_fin s) (mkshupd [] []).

(* ---------- UploadHaves ---------- *)
Record uphav := mkuphav { uh_haves : list hash; uh_done : bool }.

Definition uh_encode (u : uphav) : list pkt :=
  map (fun h => PData (B "have " ++ hash_str h ++ [NL])) (dedup_from zero_hash (sort_hashes (uh_haves u)))
  ++ [if uh_done u then PData (B "done" ++ [NL]) else PFlush].

Fixpoint uh_decode_go (items : list item) (fin : option perr) (u : uphav) : uphav + derr :=
  match items with
  | [] => match fin with Some e => inr (EPkt e) | None => inl u end
  | it :: r =>
    if (fst it =? 0)%Z then inl u
    else
      let line := snd it in
      if has_prefix (B "done") line then inl (mkuphav (uh_haves u) true)
      else if negb (has_prefix (B "have ") line) then inr EOther
      else uh_decode_go r fin (mkuphav (uh_haves u ++ [new_hash (trim_space_u (skipn 5 line))]) (uh_done u))
  end.
Definition uh_decode (s : src) : uphav + derr := uh_decode_go (s_items s) (s_fin s) (mkuphav [] false).

(* ---------- PushOptions ---------- *)
Definition graphic_ascii (c : N) : bool := N.leb 32 c && N.leb c 126.
(* !strings.ContainsFunc(opt, isNotGraphic): every rune (U+FFFD for an invalid byte) is graphic *)
Definition graphic_str (o : bytes) : bool := negb (contains_rune (fun r => negb (is_graphic_rune r)) o).

Definition po_encode (opts : list bytes) : option (list pkt) :=
  if forallb (fun o => graphic_str o && (zlen o <=? pktline_MaxPayloadSize)%Z) opts
  then Some (map PData opts ++ [PFlush]) else None.

Fixpoint po_decode_go (items : list item) (fin : option perr) (acc : list bytes) : list bytes + derr :=
  match items with
  | [] => match fin with Some e => inr (EPkt e) | None => inr EUnexpectedEOF end
  | it :: r =>
    if (fst it =? 0)%Z then inl acc
    else if graphic_str (snd it) then po_decode_go r fin (acc ++ [snd it]) else inr EInvalidOption
  end.
Definition po_decode (s : src) : list bytes + derr := po_decode_go (s_items s) (s_fin s) [].

(* ---------- ServerResponse ---------- *)
(* status: 0 none, 1 continue, 2 common, 3 ready *)
Definition ack := (hash * N)%type.
Definition status_str (s : N) : bytes :=
  if N.eqb s 1 then B "continue" else if N.eqb s 2 then B "common" else if N.eqb s 3 then B "ready" else [].

(* encodeServerResponse, after "fix: … plain ACK carries its own hash" *)
Fixpoint sr_encode_go (acks : list ack) (multi : bool) : list pkt :=
  match acks with
  | [] => []
  | (h, st) :: r =>
    if N.ltb 0 st then PData (B "ACK " ++ hash_str h ++ [SP] ++ status_str st ++ [NL]) :: sr_encode_go r true
    else PData (B "ACK " ++ hash_str h ++ [NL]) :: (if multi then sr_encode_go r multi else [])
  end.
Definition sr_encode (acks : list ack) : list pkt :=
  match acks with [] => [PData (B "NAK" ++ [NL])] | _ => sr_encode_go acks false end.

Fixpoint sr_decode_go (items : list item) (fin : option perr) (acc : list ack) : list ack + derr :=
  match items with
  | [] => match fin with Some e => inr (EPkt e) | None => inl acc end
  | it :: r =>
    let line := snd it in
    match line with
    | [] => inr EOther                        (* unexpected flush *)
    | _ =>
      if has_prefix (B "ACK") line then
        let parts := split_on SP line in
        if Nat.ltb (List.length line) 44 || Nat.ltb (List.length parts) 2 then inr EOther
        else
          let h := new_hash (trim_eol (nth 1 parts [])) in
          match parts with
          | _ :: _ :: p2 :: _ =>
            let st := trim_space_u p2 in
            let s := if beq st (B "continue") then 1%N else if beq st (B "common") then 2%N
                     else if beq st (B "ready") then 3%N else 0%N in
            sr_decode_go r fin (acc ++ [(h, s)])
          | _ => inl (acc ++ [(h, 0%N)])       (* plain ACK ends the response *)
          end
      else if has_prefix (B "NAK") line then inl acc
      else inr EOther
    end
  end.
Definition sr_decode (s : src) : list ack + derr := sr_decode_go (s_items s) (s_fin s) [].

(* ---------- UpdateRequests ---------- *)
Record updreq := mkupdreq { ur_caps : caps; ur_cmds : list (bytes * hash * hash); ur_shallows : list hash }.  (* (name, old, new) *)

Definition fmt_cmd (c : bytes * hash * hash) : bytes :=
  let '(name, o, n) := c in hash_str o ++ [SP] ++ hash_str n ++ [SP] ++ name.

Definition cmd_invalid (c : bytes * hash * hash) : bool :=
  let '(_, o, n) := c in hash_is_zero o && hash_is_zero n.

Definition ur_encode (u : updreq) : option (list pkt) :=
  match ur_cmds u with
  | [] => None
  | c0 :: cs =>
    if existsb cmd_invalid (ur_cmds u) then None
    else
      let capstr := cap_encode (ur_caps u) in
      let capstr := match capstr with [] => [] | _ => SP :: capstr end in
      Some (map (fun h => PData (B "shallow " ++ hash_str h)) (ur_shallows u) ++
            PData (fmt_cmd c0 ++ [NUL] ++ capstr) :: map (fun c => PData (fmt_cmd c)) cs ++ [PFlush])
  end.

(* parseCommand on the modelled domain: exactly three single-space separated
   non-empty tokens of graphic ASCII (fmt.Sscanf "%s %s %s") *)
Definition parse_cmd (b : bytes) : option (bytes * hash * hash) + derr :=
  if Nat.ltb (List.length b) 83 then inr EOther
  else if negb (forallb graphic_ascii b) then inl None
  else match split_on SP b with
  | [[]; _; _] | [_; []; _] | [_; _; []] => inl None
  | [os; ns; n] =>
    match from_hex os, from_hex ns with
    | (oh, true), (nh, true) => inl (Some (n, oh, nh))
    | _, _ => inr EOther
    end
  | _ => inl None      (* outside the modelled Sscanf domain *)
  end.

Inductive ur_res := URok (u : updreq) | URerr (e : derr) | URunmodelled.

Fixpoint ur_cmds_go (items : list item) (fin : option perr) (u : updreq) : ur_res :=
  match items with
  | [] => URerr (match fin with Some e => EPkt e | None => EOther end)     (* errNoFlush *)
  | it :: r =>
    if (fst it =? 0)%Z then
      (if existsb cmd_invalid (ur_cmds u) then URerr EOther else URok u)
    else match parse_cmd (snd it) with
         | inl (Some c) => ur_cmds_go r fin (mkupdreq (ur_caps u) (ur_cmds u ++ [c]) (ur_shallows u))
         | inl None => URunmodelled
         | inr e => URerr e
         end
  end.

Fixpoint ur_shallow_go (items : list item) (fin : option perr) (u : updreq) : ur_res :=
  match items with
  | [] => URerr (match fin with Some e => EPkt e | None => EOther end)     (* ErrEmpty / errNoCommands *)
  | it :: r =>
    let payload := if (fst it =? 0)%Z then [] else snd it in
    let b := trim_eol payload in
    if has_prefix (B "shallow") b then
      let hl := (List.length b - 8)%nat in
      if negb (Nat.eqb hl 40 || Nat.eqb hl 64) || Nat.ltb (List.length b) 8 then URerr EOther
      else match from_hex (skipn 8 b) with
           | (h, true) => ur_shallow_go r fin (mkupdreq (ur_caps u) (ur_cmds u) (ur_shallows u ++ [h]))
           | _ => URerr EOther
           end
    else
      if (fst it =? 0)%Z && negb (Nat.eqb (List.length (ur_shallows u)) 0) then URok u
      else match cut NUL payload with
      | None => URerr EOther
      | Some (before, after) =>
        if Nat.ltb (List.length payload) 84 then URerr EOther
        else match parse_cmd before with
             | inl (Some c) => ur_cmds_go r fin (mkupdreq (cap_decode after (ur_caps u)) (ur_cmds u ++ [c]) (ur_shallows u))
             | inl None => URunmodelled
             | inr e => URerr e
             end
      end
  end.
Definition ur_decode (s : src) : ur_res := ur_shallow_go (s_items s) (s_fin s) (mkupdreq [] [] []).

(* ---------- UploadRequest ---------- *)
(* depth: deepen n, deepen-since secs (None = zero time), deepen-not refs *)
Record ulreq := mkulreq { ul_caps : caps; ul_wants : list hash; ul_shallows : list hash;
                          ul_deepen : Z; ul_since : option Z; ul_not : list bytes; ul_filter : bytes }.

Inductive ul_enc := ULok (ps : list pkt) | ULempty | ULexclusive.

Definition ul_encode (u : ulreq) : ul_enc :=
  match sort_hashes (ul_wants u) with
  | [] => ULempty
  | w0 :: ws =>
    let capstr := cap_encode (ul_caps u) in
    let first := match ul_caps u with
                 | [] => PData (B "want " ++ hash_str w0 ++ [NL])
                 | _ => PData (B "want " ++ hash_str w0 ++ [SP] ++ capstr ++ [NL])
                 end in
    let wants := map (fun h => PData (B "want " ++ hash_str h ++ [NL])) (dedup_from w0 ws) in
    let shs := map (fun h => PData (B "shallow " ++ hash_str h ++ [NL])) (dedup_from zero_hash (sort_hashes (ul_shallows u))) in
    if (ul_deepen u >? 0)%Z && (match ul_since u with Some _ => true | None => false end
                                || negb (Nat.eqb (List.length (ul_not u)) 0))
    then ULexclusive
    else
      let d1 := if (ul_deepen u >? 0)%Z then [PData (B "deepen " ++ dec_bytes (ul_deepen u) ++ [NL])] else [] in
      let d2 := match ul_since u with Some t => [PData (B "deepen-since " ++ dec_bytes t ++ [NL])] | None => [] end in
      let d3 := map (fun r => PData (B "deepen-not " ++ r ++ [NL])) (ul_not u) in
      let f := match ul_filter u with [] => [] | fl => [PData (B "filter " ++ fl ++ [NL])] end in
      ULok (first :: wants ++ shs ++ d1 ++ d2 ++ d3 ++ f ++ [PFlush])
  end.

(* nextLine of the upload-request decoder: None = flush (or error), with the line *)
Definition ul_line (it : item) : option bytes := if (fst it =? 0)%Z then None else Some (trim_eol (snd it)).

Definition ul_read_hash (line : bytes) : option (hash * bytes) :=
  match hash_from line with
  | Some h => Some (h, skipn (hash_hexsize h) line)
  | None => None
  end.

Definition ul_eof (fin : option perr) : derr := match fin with Some e => EPkt e | None => EUnexpected end.

(* time.Unix(t, 0).IsZero() holds for exactly one t; a zero DeepenSince means "unset" *)
Definition since_of (t : Z) : option Z := if (t =? -62135596800)%Z then None else Some t.

(* decodeFilter (after "fix: … decode the filter line of an upload-request"):
   line = "filter <spec>"; only a flush-pkt may follow *)
Definition ul_filter_go (line : bytes) (items : list item) (fin : option perr) (u : ulreq) : ulreq + derr :=
  let u' := mkulreq (ul_caps u) (ul_wants u) (ul_shallows u) (ul_deepen u) (ul_since u) (ul_not u) (skipn 7 line) in
  match items with
  | [] => inr (ul_eof fin)
  | it :: _ =>
    match ul_line it with
    | None => inl u'
    | Some [] => inl u'
    | Some _ => inr EUnexpected
    end
  end.

(* the deepen loop; rev = deepenRevList *)
Fixpoint ul_deepen_go (line : bytes) (items : list item) (fin : option perr) (rev : bool) (u : ulreq) : ulreq + derr :=
  if negb (has_prefix (B "deepen") line) then
    (match line with
     | [] => inl u
     | _ => if has_prefix (B "filter ") line then ul_filter_go line items fin u else inr EUnexpected
     end)
  else
    let step : option (ulreq * bool) + derr :=
      if has_prefix (B "deepen ") line then
        if rev then inr EOther
        else match parse_int (skipn 7 line) with
             | None => inr EOther
             | Some n => if (n <? 0)%Z then inr EOther
                         else if ((- 2 ^ 63 <=? n) && (n <? 2 ^ 63))%Z
                         then inl (Some (mkulreq (ul_caps u) (ul_wants u) (ul_shallows u) n None [] (ul_filter u), rev))
                         else inr EOther
             end
      else if has_prefix (B "deepen-since ") line then
        if (ul_deepen u >? 0)%Z then inr EOther
        else match parse_int (skipn 13 line) with
             | None => inr EOther
             | Some t => inl (Some (mkulreq (ul_caps u) (ul_wants u) (ul_shallows u) (ul_deepen u) (since_of t) (ul_not u) (ul_filter u), true))
             end
      else if has_prefix (B "deepen-not ") line then
        if (ul_deepen u >? 0)%Z then inr EOther
        else inl (Some (mkulreq (ul_caps u) (ul_wants u) (ul_shallows u) (ul_deepen u) (ul_since u)
                                (ul_not u ++ [skipn 11 line]) (ul_filter u), true))
      else inr EUnexpected in
    match step with
    | inr e => inr e
    | inl None => inr EOther
    | inl (Some (u', rev')) =>
      match items with
      | [] => inr (ul_eof fin)
      | it :: r =>
        match ul_line it with
        | None => inl u'
        | Some [] => inl u'
        | Some l' =>
          if (ul_deepen u' >? 0)%Z then
            if has_prefix (B "filter ") l' then ul_filter_go l' r fin u' else
            (if has_prefix (B "deepen-since ") l' || has_prefix (B "deepen-not ") l' then inr EOther else inr EUnexpected)
          else if rev' && has_prefix (B "deepen") l' && negb (has_prefix (B "deepen-since ") l')
                  && negb (has_prefix (B "deepen-not ") l') then inr EOther
          else ul_deepen_go l' r fin rev' u'
        end
      end
    end.

Fixpoint ul_shallow_go (line : bytes) (items : list item) (fin : option perr) (u : ulreq) : ulreq + derr :=
  if has_prefix (B "shallow ") line then
    match ul_read_hash (skipn 8 line) with
    | None => inr EOther
    | Some (h, _) =>
      let u' := mkulreq (ul_caps u) (ul_wants u) (ul_shallows u ++ [h]) (ul_deepen u) (ul_since u) (ul_not u) (ul_filter u) in
      match items with
      | [] => inr (ul_eof fin)
      | it :: r =>
        match ul_line it with
        | None => inl u'
        | Some [] => inl u'
        | Some l' => ul_shallow_go l' r fin u'
        end
      end
    end
  else ul_deepen_go line items fin false u.

Fixpoint ul_wants_go (items : list item) (fin : option perr) (u : ulreq) : ulreq + derr :=
  match items with
  | [] => inr (ul_eof fin)
  | it :: r =>
    match ul_line it with
    | None => inl u
    | Some [] => inl u
    | Some line =>
      if has_prefix (B "want ") line then
        match ul_read_hash (skipn 5 line) with
        | None => inr EOther
        | Some (h, _) => ul_wants_go r fin (mkulreq (ul_caps u) (ul_wants u ++ [h]) (ul_shallows u) (ul_deepen u) (ul_since u) (ul_not u) (ul_filter u))
        end
      else ul_shallow_go line r fin u
    end
  end.

Definition ul_decode (s : src) : ulreq + derr :=
  match s_items s with
  | [] => inr (ul_eof (s_fin s))
  | it :: r =>
    match ul_line it with
    | None => inr EOther                       (* empty input *)
    | Some line =>
      if negb (has_prefix (B "want ") line) then inr EUnexpected
      else match ul_read_hash (skipn 5 line) with
      | None => inr EOther
      | Some (h, rest) =>
        ul_wants_go r (s_fin s)
          (mkulreq (cap_decode (trim_prefix [SP] rest) []) [h] [] 0 None [] [])
      end
    end
  end.

(* ---------- observables ---------- *)
Definition o_hash (h : hash) : out := OBytes (hash_str h).
Definition o_caps (l : caps) : out := OList (map (fun e => OList (OBytes (fst e) :: map OBytes (snd e))) l).
Definition o_derr (e : derr) : out :=
  match e with
  | EEmptyInput => OErr "empty_input"
  | EEmptyAdvRefs => OErr "empty_advrefs"
  | EUnexpected => OErr "unexpected_data"
  | EPkt PEunexpected => OErr "unexpected_eof"
  | EPkt PEinvalid => OErr "invalid_pktlen"
  | EPkt (PEerrline _) => OErr "errline"
  | EPkt PEeof => OErr "eof"
  | EPkt PEbuffull => OErr "buffer_full"
  | EUnexpectedEOF => OErr "unexpected_eof"
  | EInvalidOption => OErr "invalid_option"
  | EOther => OErr "other"
  end.

Definition o_adv (a : advrefs) : out :=
  OOk [ONum (ar_version a); o_caps (ar_caps a);
       OList (map (fun r => OList [OBytes (fst r); o_hash (snd r)]) (ar_refs a));
       OList (map o_hash (ar_shallows a))].
Definition o_report (r : report) : out :=
  OOk [OBytes (rs_unpack r); OList (map (fun c => OList [OBytes (fst c); OBytes (snd c)]) (rs_cmds r))].
Definition o_shupd (u : shupd) : out := OOk [OList (map o_hash (su_shallows u)); OList (map o_hash (su_unshallows u))].
Definition o_uphav (u : uphav) : out := OOk [OList (map o_hash (uh_haves u)); OBool (uh_done u)].
Definition o_opts (l : list bytes) : out := OOk [OList (map OBytes l)].
Definition o_acks (l : list ack) : out := OOk [OList (map (fun a => OList [o_hash (fst a); ON (snd a)]) l)].
Definition o_updreq (u : updreq) : out :=
  OOk [o_caps (ur_caps u);
       OList (map (fun c => let '(n, o, nw) := c in OList [OBytes n; o_hash o; o_hash nw]) (ur_cmds u));
       OList (map o_hash (ur_shallows u))].
Definition o_ulreq (u : ulreq) : out :=
  OOk [o_caps (ul_caps u); OList (map o_hash (ul_wants u)); OList (map o_hash (ul_shallows u));
       ONum (ul_deepen u); OOpt ONum (ul_since u); OList (map OBytes (ul_not u)); OBytes (ul_filter u)].

Definition o_res {A} (f : A -> out) (r : A + derr) : out := match r with inl a => f a | inr e => o_derr e end.

Definition o_pkts (ps : option (list pkt)) : out :=
  match ps with
  | None => OErr "encode"
  | Some l => match enc_pkts l with Some s => OOk [o_bytes s] | None => OErr "too_long" end
  end.

(* ---------- correspondence entry points ---------- *)
(* decode raw bytes delivered in chunks *)
Definition src_raw (hex : string) (chunks : list N) : src := src_of (scan_all (chunk_by (nats chunks) (unhex hex))).

Definition c35_dec (kind : string) (hex : string) (chunks : list N) : out :=
  let s := src_raw hex chunks in
  if String.eqb kind "advrefs" then o_res o_adv (adv_decode s)
  else if String.eqb kind "report" then o_res o_report (rs_decode s)
  else if String.eqb kind "shupd" then o_res o_shupd (su_decode s)
  else if String.eqb kind "uphav" then o_res o_uphav (uh_decode s)
  else if String.eqb kind "pushopts" then o_res o_opts (po_decode s)
  else if String.eqb kind "srvresp" then o_res o_acks (sr_decode s)
  else if String.eqb kind "updreq" then
    match ur_decode s with URok u => o_updreq u | URerr e => o_derr e | URunmodelled => OSym "unmodelled" end
  else if String.eqb kind "ulreq" then o_res o_ulreq (ul_decode s)
  else OErr "kind".

Definition c35_caps (hex : string) : out :=
  let l := cap_decode (unhex hex) [] in OList [o_caps l; OBytes (cap_encode l)].

(* values as the cases give them *)
Definition hx (s : string) : hash := new_hash (unhex s).
Definition capsv (l : list (string * list string)) : caps := map (fun e => (unhex (fst e), map unhex (snd e))) l.

(* encode a value, then decode the encoding again (chunked): ( enc dec ) *)
Definition rt (enc : option (list pkt)) (dec : src -> out) (chunks : list N) : out :=
  match enc with
  | None => OList [OErr "encode"]
  | Some l =>
    match enc_pkts l with
    | None => OList [OErr "too_long"]
    | Some s => OList [OOk [o_bytes s]; dec (src_of (scan_all (chunk_by (nats chunks) s)))]
    end
  end.

Definition c35_advrefs (ver : Z) (cp : list (string * list string)) (refs : list (string * string)) (sh : list string) (chunks : list N) : out :=
  rt (adv_encode (mkadv ver (capsv cp) (map (fun r => (unhex (fst r), hx (snd r))) refs) (map hx sh)))
     (fun s => o_res o_adv (adv_decode s)) chunks.
Definition c35_report (unpack : string) (cmds : list (string * string)) (chunks : list N) : out :=
  rt (Some (rs_encode (mkreport (unhex unpack) (map (fun c => (unhex (fst c), unhex (snd c))) cmds))))
     (fun s => o_res o_report (rs_decode s)) chunks.
Definition c35_shupd (sh un : list string) (chunks : list N) : out :=
  rt (Some (su_encode (mkshupd (map hx sh) (map hx un)))) (fun s => o_res o_shupd (su_decode s)) chunks.
Definition c35_uphav (hs : list string) (done : bool) (chunks : list N) : out :=
  rt (Some (uh_encode (mkuphav (map hx hs) done))) (fun s => o_res o_uphav (uh_decode s)) chunks.
Definition c35_pushopts (opts : list string) (chunks : list N) : out :=
  rt (po_encode (map unhex opts)) (fun s => o_res o_opts (po_decode s)) chunks.
Definition c35_srvresp (acks : list (string * N)) (chunks : list N) : out :=
  rt (Some (sr_encode (map (fun a => (hx (fst a), snd a)) acks))) (fun s => o_res o_acks (sr_decode s)) chunks.
Definition c35_updreq (cp : list (string * list string)) (cmds : list (string * string * string)) (sh : list string) (chunks : list N) : out :=
  rt (ur_encode (mkupdreq (capsv cp) (map (fun c => let '(n, o, nw) := c in (unhex n, hx o, hx nw)) cmds) (map hx sh)))
     (fun s => match ur_decode s with URok u => o_updreq u | URerr e => o_derr e | URunmodelled => OSym "unmodelled" end) chunks.
Definition c35_ulreq (cp : list (string * list string)) (wants sh : list string) (deepen : Z) (since : option Z)
           (nots : list string) (filter : string) (chunks : list N) : out :=
  match ul_encode (mkulreq (capsv cp) (map hx wants) (map hx sh) deepen
                           (match since with Some t => since_of t | None => None end) (map unhex nots) (unhex filter)) with
  | ULok ps => rt (Some ps) (fun s => o_res o_ulreq (ul_decode s)) chunks
  | ULempty => OList [OErr "empty_wants"]
  | ULexclusive => OList [OErr "exclusive"]
  end.
