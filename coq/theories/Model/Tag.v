(* Model/Tag.v — G for plumbing/object/tag_scanner.go (scanTagObject ..
   scanTagMessage), tag.go (Tag.Decode's trailing-signature split through
   parseSignedBytes, Tag.encode) and signature.go (typeForSignature,
   parseSignedBytes, countSignatureBlocks) on lines.
   Executable definitions only. *)
From Coq Require Import List NArith ZArith Bool String.
From GoGit Require Import Base.Out Model.ObjLines Model.Ident Model.Commit.
Import ListNotations.
Local Open Scope N_scope.

Record tag := mk_tag {
  t_target : bytes;
  t_type : bytes;          (* ObjectType.String() of a type ParseObjectType accepts *)
  t_name : bytes;
  t_tagger : ident;
  t_sig256 : bytes;
  t_msg : bytes;
  t_sig : bytes }.

Definition k_object := str "object".  Definition k_type := str "type".
Definition k_tag := str "tag".        Definition k_tagger := str "tagger".

(* plumbing.ParseObjectType *)
Definition object_types : list bytes :=
  [str "commit"; str "tree"; str "blob"; str "tag"; str "ofs-delta"; str "ref-delta"].
Definition valid_type (t : bytes) : bool := existsb (beqb t) object_types.
(* ObjectType(0).String(): a tag whose decoding stopped before the type line *)
Definition type_unknown : bytes := str "unknown".

(* ---- signature.go ---- *)
Definition sig_markers : list bytes :=
  [str "-----BEGIN PGP SIGNATURE-----"; str "-----BEGIN PGP MESSAGE-----";
   str "-----BEGIN SIGNED MESSAGE-----"; str "-----BEGIN SSH SIGNATURE-----"].
(* typeForSignature(b) != unknown; on a line start the rest of the buffer has a
   marker as prefix iff the line has (markers contain no LF) *)
Definition is_sig_start (l : bytes) : bool := existsb (fun m => starts_with m l) sig_markers.

(* parseSignedBytes over the lines of the buffer: byte offset of the last
   line that starts a signature block *)
Fixpoint psb (pos : nat) (m : option nat) (ls : list bytes) : option nat :=
  match ls with
  | [] => m
  | l :: r => psb (pos + List.length l) (if is_sig_start l then Some pos else m) r
  end.
Definition parse_signed_bytes (b : bytes) : option nat := psb 0 None (split_lines b).

(* countSignatureBlocks *)
Definition count_sig_blocks (b : bytes) : nat :=
  List.length (filter is_sig_start (split_lines b)).

(* ---- tag_scanner.go ---- *)
Inductive tstate := TTagger | THeaders | TPgp256 | TMessage.

Definition set_tsig256 t v := mk_tag (t_target t) (t_type t) (t_name t) (t_tagger t) v (t_msg t) (t_sig t).
Definition set_tmsg t v := mk_tag (t_target t) (t_type t) (t_name t) (t_tagger t) (t_sig256 t) v (t_sig t).
Definition set_ttagger t v := mk_tag (t_target t) (t_type t) (t_name t) v (t_sig256 t) (t_msg t) (t_sig t).

(* scanTagHeaders on a non-empty line *)
Definition on_theaders (t : tag) (line : bytes) : tag * tstate :=
  if is_blank line then (t, TMessage)
  else
    let '(key, data) := split_header line in
    if beqb key k_gpgsig256 then (set_tsig256 t (t_sig256 t ++ data ++ [LF]), TPgp256)
    else (t, THeaders).

Definition tstep (st : tstate) (t : tag) (line : bytes) : tag * tstate :=
  match st with
  | TTagger =>
    if is_blank line then (t, TMessage)
    else
      let '(key, data) := split_header line in
      if beqb key k_tagger then (set_ttagger t (decode_ident data), THeaders)
      else on_theaders t line
  | THeaders => on_theaders t line
  | TPgp256 =>
    if first_is SPC line then (set_tsig256 t (t_sig256 t ++ tl line), TPgp256)
    else on_theaders t line
  | TMessage => (set_tmsg t (t_msg t ++ line), TMessage)
  end.

Fixpoint trun (st : tstate) (t : tag) (ls : list bytes) : tag :=
  match ls with
  | [] => t
  | l :: r => let '(t', st') := tstep st t l in
              if ends_nl l then trun st' t' r else t'
  end.

(* the three mandatory leading headers; [k] continues with the value and the
   remaining lines, or the decoder stops successfully at EOF *)
Definition need_header (key : bytes) (ls : list bytes)
           (stop : bytes -> result tag) (k : bytes -> list bytes -> result tag) : result tag :=
  match ls with
  | [] => Err Malformed
  | l :: r =>
    if is_blank l then Err Malformed
    else
      let '(kk, data) := split_header l in
      if negb (beqb kk key) then Err Malformed
      else if ends_nl l then k data r else stop data
  end.

Definition tag_init (target ty name : bytes) : tag := mk_tag target ty name ident_zero [] [] [].

(* Tag.Decode: the message buffer is split at the last signature block *)
Definition split_tag_sig (t : tag) : tag :=
  match parse_signed_bytes (t_msg t) with
  | Some sm => mk_tag (t_target t) (t_type t) (t_name t) (t_tagger t) (t_sig256 t)
                      (firstn sm (t_msg t)) (skipn sm (t_msg t))
  | None => t
  end.

Definition decode_tag_lines (ls : list bytes) : result tag :=
  need_header k_object ls
    (fun d => match parse_oid d with Some h => Ok (tag_init h type_unknown []) | None => Err Malformed end)
    (fun d r1 =>
       match parse_oid d with
       | None => Err Malformed
       | Some h =>
         need_header k_type r1
           (fun ty => if valid_type ty then Ok (tag_init h ty []) else Err InvalidType)
           (fun ty r2 =>
              if negb (valid_type ty) then Err InvalidType
              else need_header k_tag r2
                     (fun nm => Ok (tag_init h ty nm))
                     (fun nm r3 => Ok (split_tag_sig (trun TTagger (tag_init h ty nm) r3))))
       end).

Definition decode_tag (raw : bytes) : result tag := decode_tag_lines (split_lines raw).

(* ---- Tag.encode(o, includeSig) ---- *)
Definition encode_tag (t : tag) (include_sig : bool) : bytes :=
  k_object ++ [SPC] ++ hex_encode (t_target t) ++ [LF] ++
  k_type ++ [SPC] ++ t_type t ++ [LF] ++
  k_tag ++ [SPC] ++ t_name t ++ [LF] ++
  (if ident_is_zero (t_tagger t) then [] else k_tagger ++ [SPC] ++ encode_ident (t_tagger t) ++ [LF]) ++
  (if include_sig then
     match t_sig256 t with
     | [] => []
     | s => k_gpgsig256 ++ [SPC] ++ indent_nl (trim_suffix_lf s) ++ [LF]
     end
   else []) ++
  [LF] ++ t_msg t ++ (if include_sig then t_sig t else []).

(* ---- observables ---- *)
Definition out_tag (t : tag) : out :=
  OList [OBytes (t_target t); OBytes (t_type t); OBytes (t_name t); out_ident (t_tagger t);
         OBytes (t_sig256 t); OBytes (t_msg t); OBytes (t_sig t)].

Definition c02_tdec (raw : string) : out :=
  match decode_tag (unhex raw) with
  | Ok t => OOk [out_tag t; OBytes (encode_tag t true)]
  | Err e => out_derr e
  end.

Definition c02_tenc (t : tag) : out :=
  let b := encode_tag t true in
  OOk [OBytes b; match decode_tag b with Ok d => OOk [out_tag d] | Err e => out_derr e end].
