(* Model/RefSpec.v — G for config/refspec.go (RefSpec.Validate, IsForceUpdate,
   IsDelete, Src, IsWildcard, Match, Dst, Reverse) over byte strings.  Shared by
   C36 (fetch) and C38 (push).  Executable definitions only.

   Go indexes s[0] and slices with strings.Index results; on strings that fail
   Validate those panic.  The model is total (it returns some value there) and
   every theorem and every correspondence case uses it on validated refspecs
   only (rs_valid). *)
From Coq Require Import List NArith Bool.
From GoGit Require Import Base.Out.
Import ListNotations.
Local Open Scope N_scope.

Definition PLUS : N := 43.  Definition COLON : N := 58.  Definition STAR : N := 42.

Fixpoint beq_bytes (a b : bytes) : bool :=
  match a, b with
  | [], [] => true
  | x :: a', y :: b' => (x =? y) && beq_bytes a' b'
  | _, _ => false
  end.

Fixpoint count_byte (c : N) (s : bytes) : nat :=
  match s with [] => O | x :: r => (if x =? c then 1 else 0)%nat + count_byte c r end.

(* strings.Cut(s, c): text before the first c, text after it, found *)
Fixpoint cut_at (c : N) (s : bytes) : bytes * bytes * bool :=
  match s with
  | [] => ([], [], false)
  | x :: r => if x =? c then ([], r, true)
              else let '(a, b, f) := cut_at c r in (x :: a, b, f)
  end.

Fixpoint has_prefix (p s : bytes) : bool :=
  match p, s with
  | [], _ => true
  | x :: p', y :: s' => (x =? y) && has_prefix p' s'
  | _ :: _, [] => false
  end.

Definition has_suffix (p s : bytes) : bool := has_prefix (rev p) (rev s).

Definition rs_force (s : bytes) : bool := match s with c :: _ => c =? PLUS | [] => false end.
Definition rs_delete (s : bytes) : bool := match s with c :: _ => c =? COLON | [] => false end.

(* Src: spec[start : Index(spec, ":")] *)
Definition rs_src (s : bytes) : bytes :=
  let body := if rs_force s then tl s else s in
  fst (fst (cut_at COLON body)).
(* the raw destination: spec[Index(spec, ":")+1 :] *)
Definition rs_dstraw (s : bytes) : bytes := snd (fst (cut_at COLON s)).

Definition rs_wild (s : bytes) : bool := negb (Nat.eqb (count_byte STAR s) 0).

(* Validate: exactly one ':' which is not the last byte; as many '*' (0 or 1)
   on either side *)
Definition rs_valid (s : bytes) : bool :=
  Nat.eqb (count_byte COLON s) 1 &&
  negb (Nat.eqb (List.length (rs_dstraw s)) 0) &&
  (let ws := count_byte STAR (fst (fst (cut_at COLON s))) in
   let wd := count_byte STAR (rs_dstraw s) in
   Nat.eqb ws wd && Nat.ltb ws 2).

Definition rs_match (s name : bytes) : bool :=
  if rs_wild s then
    let '(pre, suf, _) := cut_at STAR (rs_src s) in
    Nat.leb (List.length pre + List.length suf) (List.length name) &&
    has_prefix pre name && has_suffix suf name
  else beq_bytes (rs_src s) name.

(* Dst(name): for a wildcard refspec the part of name matched by '*' is
   name[ws : len(name) - (len(src) - (ws+1))] *)
Definition rs_dst (s name : bytes) : bytes :=
  if rs_wild s then
    let '(pre, suf, _) := cut_at STAR (rs_src s) in
    let '(before, after, _) := cut_at STAR (rs_dstraw s) in
    let m := firstn (List.length name - List.length pre - List.length suf) (skipn (List.length pre) name) in
    before ++ m ++ after
  else rs_dstraw s.

(* Reverse (as repaired: the force marker stays in front) *)
Definition rs_reverse (s : bytes) : bytes :=
  let force := rs_force s in
  let body := if force then tl s else s in
  let '(before, after, _) := cut_at COLON body in
  (if force then [PLUS] else []) ++ after ++ [COLON] ++ before.

(* plumbing.IsHash: 40 hexadecimal digits (SHA-1) or 64 (SHA-256) *)
Definition is_hexdigit (c : N) : bool :=
  ((48 <=? c) && (c <=? 57)) || ((97 <=? c) && (c <=? 102)) || ((65 <=? c) && (c <=? 70)).
Definition is_hash_text (s : bytes) : bool :=
  (Nat.eqb (List.length s) 40 || Nat.eqb (List.length s) 64) && forallb is_hexdigit s.
