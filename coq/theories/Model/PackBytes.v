(* Model/PackBytes.v — byte-level helpers shared by the pack-index (C10) and
   pack-parser (C08 C09) models: big-endian integers, slices, ReadAt,
   bytes.Compare, bytes.HasPrefix.  Executable definitions only. *)
From Coq Require Import List NArith Bool.
From GoGit Require Import Base.Out.
Import ListNotations.
Local Open Scope N_scope.

Definition blen (b : bytes) : N := N.of_nat (List.length b).

(* encoding/binary.BigEndian.PutUint32 (of a uint32 conversion: the value is taken mod 2^32) *)
Definition be32 (n : N) : bytes :=
  [(n / 16777216) mod 256; (n / 65536) mod 256; (n / 256) mod 256; n mod 256].
Definition be64 (n : N) : bytes := be32 (n / 4294967296) ++ be32 n.

(* BigEndian.Uint32 of the first four bytes (missing bytes read as 0; callers check lengths) *)
Definition get32 (b : bytes) : N :=
  match b with
  | b0 :: b1 :: b2 :: b3 :: _ => ((b0 * 256 + b1) * 256 + b2) * 256 + b3
  | _ => 0
  end.
Definition get64 (b : bytes) : N := get32 b * 4294967296 + get32 (skipn 4 b).

(* b[off : off+len] (shorter when out of range; callers check bounds where Go would panic) *)
Definition slice (b : bytes) (off len : N) : bytes :=
  firstn (N.to_nat len) (skipn (N.to_nat off) b).

(* io.ReaderAt.ReadAt on an in-memory file: all [len] bytes or an error *)
Definition read_at (b : bytes) (off len : N) : option bytes :=
  if off + len <=? blen b then Some (slice b off len) else None.

(* bytes.Compare *)
Fixpoint bytes_cmp (a b : bytes) : comparison :=
  match a, b with
  | [], [] => Eq
  | [], _ :: _ => Lt
  | _ :: _, [] => Gt
  | x :: a', y :: b' =>
    match x ?= y with
    | Eq => bytes_cmp a' b'
    | c => c
    end
  end.

Definition bytes_eqb (a b : bytes) : bool :=
  match bytes_cmp a b with Eq => true | _ => false end.

(* bytes.HasPrefix s p *)
Fixpoint has_prefix (s p : bytes) : bool :=
  match p, s with
  | [], _ => true
  | _ :: _, [] => false
  | y :: p', x :: s' => (x =? y) && has_prefix s' p'
  end.

(* copy(target, prefix) into make([]byte, n): prefix padded with zeros / cut to n bytes *)
Definition pad_to (n : nat) (p : bytes) : bytes :=
  firstn n p ++ repeat 0 (n - List.length p).

(* sequential reader: take exactly n bytes (io.ReadFull) *)
Definition take (n : N) (r : bytes) : option (bytes * bytes) :=
  if n <=? blen r then Some (firstn (N.to_nat n) r, skipn (N.to_nat n) r) else None.

(* split a byte string into consecutive chunks of k bytes (k > 0); a short tail is dropped *)
Fixpoint chunks (k : nat) (n : nat) (b : bytes) : list bytes :=
  match n with
  | O => []
  | S n' => firstn k b :: chunks k n' (skipn k b)
  end.

Definition nthN {A} (l : list A) (i : N) (d : A) : A := nth (N.to_nat i) l d.
