(* Model/IndexPublish.v — G for C23: the publication protocol of the pack
   index in storage/filesystem/object.go as an INTERLEAVING model.

   Shared memory of one ObjectStorage: (s.index, s.packs) — written together
   under muI.Lock — the two singleflight keys, and the repository on disk that
   other instances / processes only ever add to.  Threads:
     lookup k   requireIndex; snapshot s.packs under RLock; search the
                snapshot; on a miss stat the loose file
     reindex    Reindex(): singleflight "reindex"; populateIndex; swap under Lock
     notify p   PackfileWriter: requireIndex; the pack is renamed into place;
                Notify publishes its idx (copy-on-grow append) under Lock
     extern     another instance adds a pack or a loose object on disk
   Every critical section of the Go code is free of blocking calls, so a
   section under muI.RLock / muI.Lock is ONE atomic step here (RWMutex
   correctness is trusted); everything else is split where the Go scheduler
   may interleave.  A pack is the set (bit mask) of its objects.
   Executable definitions only. *)
From Coq Require Import List NArith Bool String.
From GoGit Require Import Base.Out.
Import ListNotations.
Local Open Scope N_scope.

Definition pid := N.
Definition memo (k : N) (p : pid) : bool := N.testbit p k.
Definition in_packs (k : N) (l : list pid) : bool := existsb (memo k) l.
Definition has_pack (p : pid) (l : list pid) : bool := existsb (N.eqb p) l.
Definition add_pack (p : pid) (l : list pid) : list pid := if has_pack p l then l else l ++ [p].

(* requireIndex, as a sub-machine *)
Inductive rq :=
| RqCheck                        (* RLock; s.index != nil ?; RUnlock *)
| RqFlight                       (* indexSF.Do("populate"): lead or join *)
| RqWait (g : nat)               (* joined the flight of generation g *)
| RqRecheck                      (* leader: RLock; s.index != nil ?; RUnlock *)
| RqPopulate                     (* leader: populateIndex (reads the pack directory, opens the idx files) *)
| RqPublish (local : list pid)   (* leader: Lock; publish, or close the local indexes; Unlock *)
| RqLeave                        (* leader: the flight ends *)
| RqDone.

Inductive thread :=
| TLookup (k : N) (r : rq)                       (* in requireIndex *)
| TLookupSnap (k : N)                            (* RLock; packs := s.packs; RUnlock *)
| TLookupSearch (k : N) (snap : list pid)        (* MayContain / FindOffset over the snapshot, else the loose file *)
| TLookupDone (k : N) (found : bool)
| TReFlight                                      (* Reindex: indexSF.Do("reindex") *)
| TReWait (g : nat)
| TRePopulate
| TRePublish (local : list pid)                  (* Lock; s.index, s.packs := local; hint := 0; Unlock *)
| TReLeave
| TReDone
| TNotify (p : pid) (r : rq)                     (* packfileWriter: requireIndex first *)
| TNotifyWrite (p : pid)                         (* PackWriter.Close: rename the pack into place *)
| TNotifyPublish (p : pid)                       (* Notify: Lock; append; Unlock *)
| TNotifyDone
| TExtPack (p : pid)                             (* another instance adds a pack *)
| TExtLoose (k : N)                              (* another instance adds a loose object *)
| TExtDone.

Record shared := Shared {
  disk : list pid;               (* objects/pack on disk *)
  dloose : N;                    (* loose objects on disk (set) *)
  pub : option (list pid);       (* s.index / s.packs, always written together; None = nil *)
  fl_pop : bool; gen_pop : nat;  (* singleflight "populate": in flight, completed flights *)
  fl_re : bool; gen_re : nat;    (* singleflight "reindex" *)
  n_open : nat;                  (* index sets built by populateIndex *)
  n_pub : nat;                   (* … installed into s.index *)
  n_closed : nat;                (* … closed by a loser *)
  panicked : bool                (* a write into the nil index map *)
}.

Definition set_pub (s : shared) (v : option (list pid)) : shared :=
  Shared (disk s) (dloose s) v (fl_pop s) (gen_pop s) (fl_re s) (gen_re s) (n_open s) (n_pub s) (n_closed s) (panicked s).

(* one step of requireIndex; returns the new shared state and the new phase *)
Definition rq_step (s : shared) (r : rq) : shared * rq :=
  match r with
  | RqCheck => (s, match pub s with Some _ => RqDone | None => RqFlight end)
  | RqFlight =>
    if fl_pop s then (s, RqWait (gen_pop s))
    else (Shared (disk s) (dloose s) (pub s) true (gen_pop s) (fl_re s) (gen_re s) (n_open s) (n_pub s) (n_closed s) (panicked s),
          RqRecheck)
  | RqWait g => (s, if Nat.ltb g (gen_pop s) then RqDone else RqWait g)
  | RqRecheck => (s, match pub s with Some _ => RqLeave | None => RqPopulate end)
  | RqPopulate =>
    (Shared (disk s) (dloose s) (pub s) (fl_pop s) (gen_pop s) (fl_re s) (gen_re s) (S (n_open s)) (n_pub s) (n_closed s) (panicked s),
     RqPublish (disk s))
  | RqPublish local =>
    match pub s with
    | None => (Shared (disk s) (dloose s) (Some local) (fl_pop s) (gen_pop s) (fl_re s) (gen_re s) (n_open s) (S (n_pub s)) (n_closed s) (panicked s), RqLeave)
    | Some _ => (Shared (disk s) (dloose s) (pub s) (fl_pop s) (gen_pop s) (fl_re s) (gen_re s) (n_open s) (n_pub s) (S (n_closed s)) (panicked s), RqLeave)
    end
  | RqLeave =>
    (Shared (disk s) (dloose s) (pub s) false (S (gen_pop s)) (fl_re s) (gen_re s) (n_open s) (n_pub s) (n_closed s) (panicked s), RqDone)
  | RqDone => (s, RqDone)
  end.

Definition step_thread (s : shared) (t : thread) : shared * thread :=
  match t with
  | TLookup k RqDone => (s, TLookupSnap k)
  | TLookup k r => let '(s', r') := rq_step s r in (s', TLookup k r')
  | TLookupSnap k => (s, TLookupSearch k (match pub s with Some l => l | None => [] end))
  | TLookupSearch k snap => (s, TLookupDone k (in_packs k snap || memo k (dloose s)))
  | TLookupDone k b => (s, t)
  | TReFlight =>
    if fl_re s then (s, TReWait (gen_re s))
    else (Shared (disk s) (dloose s) (pub s) (fl_pop s) (gen_pop s) true (gen_re s) (n_open s) (n_pub s) (n_closed s) (panicked s), TRePopulate)
  | TReWait g => (s, if Nat.ltb g (gen_re s) then TReDone else TReWait g)
  | TRePopulate =>
    (Shared (disk s) (dloose s) (pub s) (fl_pop s) (gen_pop s) (fl_re s) (gen_re s) (S (n_open s)) (n_pub s) (n_closed s) (panicked s),
     TRePublish (disk s))
  | TRePublish local =>
    (Shared (disk s) (dloose s) (Some local) (fl_pop s) (gen_pop s) (fl_re s) (gen_re s) (n_open s) (S (n_pub s)) (n_closed s) (panicked s), TReLeave)
  | TReLeave =>
    (Shared (disk s) (dloose s) (pub s) (fl_pop s) (gen_pop s) false (S (gen_re s)) (n_open s) (n_pub s) (n_closed s) (panicked s), TReDone)
  | TReDone => (s, t)
  | TNotify p RqDone => (s, TNotifyWrite p)
  | TNotify p r => let '(s', r') := rq_step s r in (s', TNotify p r')
  | TNotifyWrite p =>
    (Shared (add_pack p (disk s)) (dloose s) (pub s) (fl_pop s) (gen_pop s) (fl_re s) (gen_re s) (n_open s) (n_pub s) (n_closed s) (panicked s),
     TNotifyPublish p)
  | TNotifyPublish p =>
    match pub s with
    | Some l => (set_pub s (Some (add_pack p l)), TNotifyDone)
    | None => (Shared (disk s) (dloose s) (pub s) (fl_pop s) (gen_pop s) (fl_re s) (gen_re s) (n_open s) (n_pub s) (n_closed s) true, TNotifyDone)
    end
  | TNotifyDone => (s, t)
  | TExtPack p =>
    (Shared (add_pack p (disk s)) (dloose s) (pub s) (fl_pop s) (gen_pop s) (fl_re s) (gen_re s) (n_open s) (n_pub s) (n_closed s) (panicked s), TExtDone)
  | TExtLoose k =>
    (Shared (disk s) (N.setbit (dloose s) k) (pub s) (fl_pop s) (gen_pop s) (fl_re s) (gen_re s) (n_open s) (n_pub s) (n_closed s) (panicked s), TExtDone)
  | TExtDone => (s, t)
  end.

Record state := State { sh : shared; threads : list thread }.

Fixpoint upd {A} (l : list A) (i : nat) (x : A) : list A :=
  match l, i with
  | [], _ => []
  | _ :: r, O => x :: r
  | y :: r, S j => y :: upd r j x
  end.

(* the scheduler picks thread i (a blocked or finished thread does not move) *)
Definition step (st : state) (i : nat) : state :=
  match nth_error (threads st) i with
  | None => st
  | Some t => let '(s', t') := step_thread (sh st) t in State s' (upd (threads st) i t')
  end.

Definition run (st : state) (sched : list nat) : state := fold_left step sched st.

Definition init_shared (packs : list pid) (loose : N) : shared :=
  Shared packs loose None false O false O O O O false.
Definition init_state (packs : list pid) (loose : N) (ts : list thread) : state :=
  State (init_shared packs loose) ts.

(* ---- correspondence entry point ----
   The case gives the scenario (initial repository, threads) and a schedule;
   the schedule is then completed round-robin so that every thread finishes.
   Observable: for every lookup thread, found / notfound — projected to `any`
   when the object is neither in the initial repository nor absent from the
   final one (the answer then legitimately depends on the schedule). *)
Definition all_objects (packs : list pid) (loose : N) : N := fold_right N.lor loose packs.

Fixpoint round_robin (rounds n : nat) : list nat :=
  match rounds with
  | O => []
  | S r => seq 0 n ++ round_robin r n
  end.

Definition project (init final : N) (t : thread) : list out :=
  match t with
  | TLookupDone k b =>
    [if memo k init || negb (memo k final) then OBool b else OSym "any"]
  | TLookup k _ | TLookupSnap k | TLookupSearch k _ => [OSym "unfinished"]
  | _ => []
  end.

Definition c23_run (packs : list pid) (loose : N) (ts : list thread) (sched : list nat) : out :=
  let n := List.length ts in
  let st := run (init_state packs loose ts) (sched ++ round_robin (12 + 2 * n) n) in
  let init := all_objects packs loose in
  let final := all_objects (disk (sh st)) (dloose (sh st)) in
  OList (OBool (panicked (sh st)) :: flat_map (project init final) (threads st)).

Definition lookup (k : N) : thread := TLookup k RqCheck.
Definition notify (p : pid) : thread := TNotify p RqCheck.
