(* Model/SharedFile.v — G for C24: internal/sharedfile/sharedfile.go
   (SharedFile.Acquire / Release / ReleaseNow / Close / grace-timer callback)
   and x/fdpool/pool.go (Pool.Touch / Forget).

   Granularity: one step = one outermost critical section of the Go code
   (s.mu or p.mu held).  An Acquire on a pooled file is up to four steps:
     A1  s.mu: closed check, stop timer, open, refs++, gen++         (LAcquire)
     A2  p.mu: Touch — hit / insert / choose victim, unlink it       (LTouch)
     A3  victim's s.mu: ReleaseNow, called with p.mu dropped         (LEvict)
     A4  p.mu re-taken to count an eviction failure, then unlocked   (LRelock)
   Close on a pooled file is two (s.mu, then Forget under p.mu).  Threads and
   files are natural numbers, unbounded; the state maps are total functions.
   Nondeterminism lives in the labels: the victim of an eviction is a label
   argument (any other registered member), so every theorem holds for any
   victim policy — in particular for the Go scan, whose Pinned() reads are
   not one atomic snapshot; [choose_victim] is the Go policy used by the
   correspondence.  Ghost components: [holds] (which reader holds which handle
   instance), [inflight] (victims whose unlocked ReleaseNow is pending),
   [fidle] (time of the last release to zero).
   Executable definitions only. *)
From Coq Require Import List Arith Bool String.
From GoGit Require Import Base.Out.
Import ListNotations.

Inductive pc :=
| PIdle
| PTouch (f : nat)            (* after A1, before pool.Touch *)
| PEvict (f v : nat)          (* victim v unlinked, ReleaseNow pending *)
| PRelock (f : nat)           (* ReleaseNow returned, p.mu.Lock() pending *)
| PForget (f : nat).          (* Close: s.mu section done, pool.Forget pending *)

Record fstate := mkF {
  ffile  : option nat;         (* s.file: Some h = handle instance h is open *)
  frefs  : nat;
  fgen   : nat;
  ftimer : option (nat * nat); (* armed, not yet started grace timer: (captured gen, deadline) *)
  fcbs   : list nat;           (* started timer callbacks waiting for s.mu (captured gens) *)
  fclosed : bool;
  flatch : bool;               (* immediateClose *)
  finlru : bool;               (* poolHandle.elem != nil *)
  fidle  : nat                 (* ghost: time of the last refs 1->0 that armed a timer *)
}.

Definition f0 : fstate := mkF None 0 0 None [] false false false 0.

Record cfg := mkCfg {
  cap : nat;                   (* pool capacity; 0 stands for capacity <= 0 (no-op pool) *)
  grace : nat;
  pooled : nat -> bool         (* a *fdpool.Pool was passed to NewWithPool *)
}.

(* s.pool != nil: NewWithPool keeps the pool only if its capacity is positive
   (a no-op pool never evicts, so the grace timer must stay in charge) *)
Definition epooled (c : cfg) (f : nat) : bool := pooled c f && negb (Nat.eqb (cap c) 0).

Record st := mkSt {
  files : nat -> fstate;
  lru : list nat;              (* front = MRU *)
  inflight : list nat;         (* ghost *)
  holds : list (nat * nat * nat);  (* ghost: (thread, file, handle) *)
  pcs : nat -> pc;
  nexth : nat;                 (* next handle serial handed out by open() *)
  now : nat
}.

Definition init : st := mkSt (fun _ => f0) [] [] [] (fun _ => PIdle) 0 0.

Definition upd {A} (m : nat -> A) (k : nat) (v : A) : nat -> A :=
  fun x => if Nat.eqb x k then v else m x.

Definition set_files (s : st) m := mkSt m (lru s) (inflight s) (holds s) (pcs s) (nexth s) (now s).
Definition set_lru (s : st) l := mkSt (files s) l (inflight s) (holds s) (pcs s) (nexth s) (now s).
Definition set_inflight (s : st) l := mkSt (files s) (lru s) l (holds s) (pcs s) (nexth s) (now s).
Definition set_holds (s : st) l := mkSt (files s) (lru s) (inflight s) l (pcs s) (nexth s) (now s).
Definition set_pcs (s : st) m := mkSt (files s) (lru s) (inflight s) (holds s) m (nexth s) (now s).
Definition set_nexth (s : st) n := mkSt (files s) (lru s) (inflight s) (holds s) (pcs s) n (now s).
Definition set_now (s : st) n := mkSt (files s) (lru s) (inflight s) (holds s) (pcs s) (nexth s) n.

Definition setf (s : st) f x := set_files s (upd (files s) f x).
Definition setpc (s : st) t p := set_pcs s (upd (pcs s) t p).

Definition hold_eqb (a b : nat * nat * nat) : bool :=
  match a, b with (t, f, h), (t', f', h') => Nat.eqb t t' && Nat.eqb f f' && Nat.eqb h h' end.

Fixpoint remove1 {A} (eqb : A -> A -> bool) (x : A) (l : list A) : list A :=
  match l with
  | [] => []
  | y :: r => if eqb x y then r else y :: remove1 eqb x r
  end.

Definition memb (x : nat) (l : list nat) : bool := existsb (Nat.eqb x) l.
Definition hmemb (x : nat * nat * nat) (l : list (nat * nat * nat)) : bool := existsb (hold_eqb x) l.

(* ---- SharedFile critical sections on one file ------------------------- *)

(* ReleaseNow (s.mu held) *)
Definition release_now (x : fstate) : fstate :=
  if fclosed x then x else
  let g := S (fgen x) in
  if Nat.eqb (frefs x) 0
  then mkF None (frefs x) g None (fcbs x) (fclosed x) (flatch x) (finlru x) (fidle x)
  else mkF (ffile x) (frefs x) g None (fcbs x) (fclosed x) true (finlru x) (fidle x).

(* Release (s.mu held); [p] = s.pool != nil *)
Definition release (p : bool) (grace now : nat) (x : fstate) : fstate :=
  if Nat.eqb (frefs x) 0 then x else
  let r := pred (frefs x) in
  let g := S (fgen x) in
  let x1 := mkF (ffile x) r g (ftimer x) (fcbs x) (fclosed x) (flatch x) (finlru x) (fidle x) in
  if negb (Nat.eqb r 0) || fclosed x || match ffile x with None => true | Some _ => false end then x1
  else if flatch x then mkF None r g (ftimer x) (fcbs x) (fclosed x) false (finlru x) (fidle x)
  else if p then x1
  else mkF (ffile x) r g (Some (g, now + grace)) (fcbs x) (fclosed x) (flatch x) (finlru x) now.

(* the grace-timer callback with captured generation g (s.mu held) *)
Definition timer_body (g : nat) (x : fstate) : fstate :=
  if fclosed x || negb (Nat.eqb (fgen x) g) || negb (Nat.eqb (frefs x) 0)
     || match ffile x with None => true | Some _ => false end
  then x
  else mkF None (frefs x) (fgen x) None (fcbs x) (fclosed x) (flatch x) (finlru x) (fidle x).

(* Close, the s.mu section *)
Definition close_body (x : fstate) : fstate :=
  mkF None (frefs x) (S (fgen x)) None (fcbs x) true (flatch x) (finlru x) (fidle x).

Definition set_inlru (x : fstate) (b : bool) : fstate :=
  mkF (ffile x) (frefs x) (fgen x) (ftimer x) (fcbs x) (fclosed x) (flatch x) b (fidle x).

(* ---- labels and the step function ------------------------------------- *)

Inductive label :=
| LAcquire (t f : nat) (openok : bool)
| LTouch (t v : nat)                 (* v = victim when an eviction is needed *)
| LEvict (t : nat)
| LRelock (t : nat)
| LRelease (t f h : nat)
| LClose (t f : nat)
| LForget (t : nat)
| LReleaseNow (t f : nat)            (* CloseIdleDescriptors -> ReleaseNow from outside the pool *)
| LTick (d : nat)
| LTimerStart (f : nat)              (* the runtime starts the callback goroutine of a due timer *)
| LTimerRun (f g : nat).             (* a started callback gets s.mu *)

Definition is_idle (p : pc) : bool := match p with PIdle => true | _ => false end.

Definition step (c : cfg) (s : st) (l : label) : option st :=
  match l with
  | LAcquire t f openok =>
    if negb (is_idle (pcs s t)) then None else
    let x := files s f in
    if fclosed x then Some s else            (* ErrClosed *)
    match ffile x with
    | None =>
      if openok then
        let h := nexth s in
        let x' := mkF (Some h) (S (frefs x)) (S (fgen x)) None (fcbs x) false (flatch x) (finlru x) (fidle x) in
        let s1 := set_nexth (set_holds (setf s f x') ((t, f, h) :: holds s)) (S h) in
        Some (if epooled c f then setpc s1 t (PTouch f) else s1)
      else
        (* open failed: the timer was already stopped; nothing else changes *)
        Some (setf s f (mkF None (frefs x) (fgen x) None (fcbs x) false (flatch x) (finlru x) (fidle x)))
    | Some h =>
      let x' := mkF (Some h) (S (frefs x)) (S (fgen x)) None (fcbs x) false (flatch x) (finlru x) (fidle x) in
      let s1 := set_holds (setf s f x') ((t, f, h) :: holds s) in
      Some (if epooled c f then setpc s1 t (PTouch f) else s1)
    end
  | LTouch t v =>
    match pcs s t with
    | PTouch f =>
      if finlru (files s f) then
        Some (setpc (set_lru s (f :: remove1 Nat.eqb f (lru s))) t PIdle)
      else
        let s1 := setf s f (set_inlru (files s f) true) in
        if Nat.ltb (cap c) (S (List.length (lru s))) then
          if memb v (lru s) && negb (Nat.eqb v f) then
            let s2 := setf s1 v (set_inlru (files s1 v) false) in
            Some (setpc (set_inflight (set_lru s2 (f :: remove1 Nat.eqb v (lru s))) (v :: inflight s)) t (PEvict f v))
          else None
        else Some (setpc (set_lru s1 (f :: lru s)) t PIdle)
    | _ => None
    end
  | LEvict t =>
    match pcs s t with
    | PEvict f v =>
      Some (setpc (set_inflight (setf s v (release_now (files s v))) (remove1 Nat.eqb v (inflight s))) t (PRelock f))
    | _ => None
    end
  | LRelock t =>
    match pcs s t with
    | PRelock f => Some (setpc s t PIdle)
    | _ => None
    end
  | LRelease t f h =>
    if is_idle (pcs s t) && hmemb (t, f, h) (holds s) then
      Some (set_holds (setf s f (release (epooled c f) (grace c) (now s) (files s f)))
                      (remove1 hold_eqb (t, f, h) (holds s)))
    else None
  | LClose t f =>
    if negb (is_idle (pcs s t)) then None else
    let x := files s f in
    if fclosed x then Some s else
    let s1 := setf s f (close_body x) in
    Some (if epooled c f then setpc s1 t (PForget f) else s1)
  | LForget t =>
    match pcs s t with
    | PForget f =>
      if finlru (files s f) then
        Some (setpc (set_lru (setf s f (set_inlru (files s f) false)) (remove1 Nat.eqb f (lru s))) t PIdle)
      else Some (setpc s t PIdle)
    | _ => None
    end
  | LReleaseNow t f =>
    if is_idle (pcs s t) then Some (setf s f (release_now (files s f))) else None
  | LTick d => Some (set_now s (now s + d))
  | LTimerStart f =>
    let x := files s f in
    match ftimer x with
    | Some (g, dl) =>
      if Nat.leb dl (now s)
      then Some (setf s f (mkF (ffile x) (frefs x) (fgen x) None (fcbs x ++ [g]) (fclosed x) (flatch x) (finlru x) (fidle x)))
      else None
    | None => None
    end
  | LTimerRun f g =>
    let x := files s f in
    if memb g (fcbs x) then
      let x1 := mkF (ffile x) (frefs x) (fgen x) (ftimer x) (remove1 Nat.eqb g (fcbs x)) (fclosed x) (flatch x) (finlru x) (fidle x) in
      Some (setf s f (timer_body g x1))
    else None
  end.

Fixpoint run (c : cfg) (s : st) (ls : list label) : option st :=
  match ls with
  | [] => Some s
  | l :: r => match step c s l with Some s' => run c s' r | None => None end
  end.

(* ---- the Go victim policy (Pool.Touch), on the list BEFORE the insert --- *)
Definition choose_victim (s : st) : option nat :=
  match find (fun v => Nat.eqb (frefs (files s v)) 0) (rev (lru s)) with
  | Some v => Some v
  | None => match rev (lru s) with v :: _ => Some v | [] => None end
  end.

(* ---- quantities of the bound ------------------------------------------ *)
Definition is_open (x : fstate) : bool := match ffile x with Some _ => true | None => false end.
Definition is_pinned (x : fstate) : bool := negb (Nat.eqb (frefs x) 0).
Definition count (p : fstate -> bool) (s : st) (fs : list nat) : nat :=
  List.length (filter (fun f => p (files s f)) fs).

(* ======================================================================= *)
(* Correspondence: deterministic commands, as the harness executes them     *)

Inductive cmd :=
| CAcquire (t f : nat) (fail : bool)   (* start Acquire and run its first critical section *)
| CRelease (t f : nat)                 (* release t's oldest hold on f *)
| CClose (t f : nat)
| CReleaseNow (t f : nat)
| CStep (t : nat)                      (* next critical section of t's operation *)
| CSleep (d : nat)                     (* advance the clock; due timers start (file order) *)
| CFire (f : nat).                     (* oldest started callback of f runs *)

Definition find_hold (t f : nat) (hs : list (nat * nat * nat)) : option nat :=
  (* oldest = last in the list (new holds are consed) *)
  match filter (fun x => match x with (t', f', _) => Nat.eqb t t' && Nat.eqb f f' end) (rev hs) with
  | (_, _, h) :: _ => Some h
  | [] => None
  end.

Definition label_of (c : cfg) (s : st) (k : cmd) : option label :=
  match k with
  | CAcquire t f fail => Some (LAcquire t f (negb fail))
  | CRelease t f => match find_hold t f (holds s) with Some h => Some (LRelease t f h) | None => None end
  | CClose t f => Some (LClose t f)
  | CReleaseNow t f => Some (LReleaseNow t f)
  | CStep t =>
    match pcs s t with
    | PIdle => None
    | PTouch f => Some (LTouch t (match choose_victim s with Some v => v | None => f end))
    | PEvict _ _ => Some (LEvict t)
    | PRelock _ => Some (LRelock t)
    | PForget _ => Some (LForget t)
    end
  | CSleep d => Some (LTick d)
  | CFire f => match fcbs (files s f) with g :: _ => Some (LTimerRun f g) | [] => None end
  end.

(* after a sleep every due timer starts its callback goroutine *)
Fixpoint start_due (c : cfg) (s : st) (fs : list nat) : st :=
  match fs with
  | [] => s
  | f :: r => match step c s (LTimerStart f) with Some s' => start_due c s' r | None => start_due c s r end
  end.

(* status of a command as the harness sees it: "parked" while the thread's
   operation still has critical sections to run; the API result when it ends *)
Definition newest_hold (t f : nat) (hs : list (nat * nat * nat)) : option nat :=
  match filter (fun x => match x with (t', f', _) => Nat.eqb t t' && Nat.eqb f f' end) hs with
  | (_, _, h) :: _ => Some h
  | [] => None
  end.

Definition acq_status (s' : st) (t f : nat) : out :=
  if is_idle (pcs s' t) then
    match newest_hold t f (holds s') with
    | Some h => OList [OSym "ok"; ONat h]
    | None => OErr "nohold"
    end
  else OSym "parked".

Definition result_of (s s' : st) (k : cmd) : out :=
  match k with
  | CAcquire t f _ =>
    if fclosed (files s f) then OErr "closed"
    else if Nat.ltb (List.length (holds s)) (List.length (holds s')) then acq_status s' t f
    else OErr "open"
  | CStep t =>
    match pcs s t with
    | PTouch f | PEvict f _ | PRelock f => acq_status s' t f
    | _ => OSym "done"
    end
  | CClose t _ => if is_idle (pcs s' t) then OSym "done" else OSym "parked"
  | _ => OSym "done"
  end.

Definition snap_file (s : st) (f : nat) : out :=
  let x := files s f in
  OList [OOpt ONat (ffile x); ONat (frefs x); OBool (fclosed x); OBool (finlru x)].

(* observation after a command: only what changed (files, then the LRU order) *)
Definition opt_eqb (a b : option nat) : bool :=
  match a, b with
  | Some x, Some y => Nat.eqb x y
  | None, None => true
  | _, _ => false
  end.

Definition fobs_eqb (x y : fstate) : bool :=
  opt_eqb (ffile x) (ffile y) && Nat.eqb (frefs x) (frefs y) && Bool.eqb (fclosed x) (fclosed y)
  && Bool.eqb (finlru x) (finlru y).

Fixpoint list_eqb (a b : list nat) : bool :=
  match a, b with
  | [], [] => true
  | x :: a', y :: b' => Nat.eqb x y && list_eqb a' b'
  | _, _ => false
  end.

Definition delta (s s' : st) (nf : nat) : list out :=
  flat_map (fun f => if fobs_eqb (files s f) (files s' f) then [] else [OList [ONat f; snap_file s' f]]) (seq 0 nf)
  ++ (if list_eqb (lru s) (lru s') then [] else [OList (OSym "lru" :: map ONat (lru s'))]).

Definition exec1 (c : cfg) (nf : nat) (s : st) (k : cmd) : st * out :=
  match label_of c s k with
  | None => (s, OList [OSym "skip"])
  | Some l =>
    match step c s l with
    | None => (s, OList [OSym "skip"])
    | Some s' =>
      let s'' := match k with CSleep _ => start_due c s' (seq 0 nf) | _ => s' end in
      (s'', OList (result_of s s' k :: delta s s'' nf))
    end
  end.

Fixpoint exec (c : cfg) (nf : nat) (s : st) (ks : list cmd) : st * list out :=
  match ks with
  | [] => (s, [])
  | k :: r => let '(s1, o) := exec1 c nf s k in let '(s2, os) := exec c nf s1 r in (s2, o :: os)
  end.

(* case: capacity, grace, pooled flags of files 0..nf-1, commands *)
Definition c24_cfg (capacity grace : nat) (pl : list bool) : cfg :=
  mkCfg capacity grace (fun f => nth f pl false).

Definition c24_run (capacity grace : nat) (pl : list bool) (ks : list cmd) : out :=
  let c := c24_cfg capacity grace pl in
  OList (snd (exec c (List.length pl) init ks)).
