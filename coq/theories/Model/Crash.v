(* Model/Crash.v — G for C21: every mutating storage operation of go-git's
   filesystem backend as the list of filesystem mutations it performs, in
   order, on an abstract .git directory:
     ObjectWriter (loose object: temp file + rename)          dotgit/writers.go
     PackWriter.save (idx, rev, promisor marker, then pack)    dotgit/writers.go
     DotGit.SetRef / setRefRwfs (truncating create, CAS)       dotgit/dotgit_setref.go
     DotGit.RemoveRef / rewritePackedRefsWithoutRef            dotgit/dotgit.go
     DotGit.PackRefs                                           dotgit/dotgit.go
     IndexStorage.SetIndex, ConfigStorage.SetConfig,
     ShallowStorage.SetShallow (truncating creates)            storage/filesystem
     Repository.RepackObjects / createNewObjectPack            repository.go
     Repository.Prune                                          prune.go
   File contents are abstract ([Whole d]: completely written with meaning d;
   [Empty]; [Torn]: a non-empty strict prefix).  Executable definitions only. *)
From Coq Require Import List NArith ZArith Bool String.
From GoGit Require Import Base.Out Gen.C22 Model.Gc.
Import ListNotations.
Local Open Scope N_scope.

Inductive tkind := TObj | TPack | TPRefs.
Inductive pext := XPack | XIdx | XRev | XPromisor.
Inductive path :=
| PHead | PRef (n : string) | PPacked | PTmp (k : tkind) (n : nat) | PLoose (o : oid)
| PPackF (name : string) (x : pext) | PIndex | PConfig | PShallow.

Definition tkind_eqb (a b : tkind) : bool :=
  match a, b with TObj, TObj | TPack, TPack | TPRefs, TPRefs => true | _, _ => false end.
Definition pext_eqb (a b : pext) : bool :=
  match a, b with XPack, XPack | XIdx, XIdx | XRev, XRev | XPromisor, XPromisor => true | _, _ => false end.
Definition path_eqb (a b : path) : bool :=
  match a, b with
  | PHead, PHead | PPacked, PPacked | PIndex, PIndex | PConfig, PConfig | PShallow, PShallow => true
  | PRef n, PRef m => String.eqb n m
  | PTmp k n, PTmp k' n' => tkind_eqb k k' && Nat.eqb n n'
  | PLoose o, PLoose o' => o =? o'
  | PPackF n x, PPackF n' x' => String.eqb n n' && pext_eqb x x'
  | _, _ => false
  end.

Inductive refval := RHash (o : oid) | RSym (n : string).
Inductive data :=
| DRef (v : refval) | DLoose (o : oid) | DPack (os : list oid) | DIdx (os : list oid) | DRev
| DPackedRefs (l : list (string * oid)) | DIndex (es : list (bool * oid)) | DConfig | DShallow (l : list oid).
Inductive content := Whole (d : data) | Empty | Torn.

Definition fsmap := list (path * content).

Fixpoint flookup (fs : fsmap) (p : path) : option content :=
  match fs with
  | [] => None
  | (q, c) :: r => if path_eqb q p then Some c else flookup r p
  end.
Fixpoint fdel (fs : fsmap) (p : path) : fsmap :=
  match fs with
  | [] => []
  | (q, c) :: r => if path_eqb q p then fdel r p else (q, c) :: fdel r p
  end.
Definition fset (fs : fsmap) (p : path) (c : content) : fsmap := (p, c) :: fdel fs p.
Definition fexists (fs : fsmap) (p : path) : bool :=
  match flookup fs p with Some _ => true | None => false end.

Inductive mutation :=
| MTemp (p : path) | MCreate (p : path) | MWrite (p : path) (d : data) | MTrunc (p : path)
| MRename (a b : path) | MRemove (p : path) | MRemoveSet (ps : list path) | MChmod (p : path).

Definition apply (m : mutation) (fs : fsmap) : fsmap :=
  match m with
  | MTemp p | MCreate p | MTrunc p => fset fs p Empty
  | MWrite p d => fset fs p (Whole d)
  | MRename a b => match flookup fs a with Some c => fset (fdel fs a) b c | None => fs end
  | MRemove p => fdel fs p
  | MRemoveSet ps => fold_left fdel ps fs
  | MChmod _ => fs
  end.

(* the states strictly inside a mutation: a torn write; a partly done run of removals *)
Fixpoint remove_prefixes (ps : list path) (fs : fsmap) : list fsmap :=
  match ps with
  | [] | [_] => []
  | p :: r => fdel fs p :: remove_prefixes r (fdel fs p)
  end.
Definition mid_states (m : mutation) (fs : fsmap) : list fsmap :=
  match m with
  | MWrite p _ => [fset fs p Torn]
  | MRemoveSet ps => remove_prefixes ps fs
  | _ => []
  end.

(* every state a crash can leave behind while ops runs from fs: after each
   completed mutation and inside each mutation *)
Fixpoint crash_states (ops : list mutation) (fs : fsmap) : list fsmap :=
  match ops with
  | [] => []
  | m :: r => mid_states m fs ++ apply m fs :: crash_states r (apply m fs)
  end.

Definition run (ops : list mutation) (fs : fsmap) : fsmap := fold_left (fun s m => apply m s) ops fs.

(* ---------- reading the abstract directory ---------- *)

Definition graph := list (oid * obj).

Definition keys (fs : fsmap) : list path := map fst fs.

(* enumerations go over the keys, values are always read with flookup *)
Definition ref_names (fs : fsmap) : list string :=
  flat_map (fun p => match p with PRef n => [n] | _ => [] end) (keys fs).
Definition pack_names (fs : fsmap) : list string :=
  flat_map (fun p => match p with PPackF n XPack => [n] | _ => [] end) (keys fs).
Definition loose_keys (fs : fsmap) : list oid :=
  flat_map (fun p => match p with PLoose o => [o] | _ => [] end) (keys fs).

Definition loose_ok (fs : fsmap) (o : oid) : bool :=
  match flookup fs (PLoose o) with Some (Whole (DLoose o')) => o =? o' | _ => false end.

Definition pack_objs (fs : fsmap) (n : string) : option (list oid) :=
  match flookup fs (PPackF n XPack) with Some (Whole (DPack os)) => Some os | _ => None end.

(* a pack is usable when its idx is completely written *)
Definition idx_ok (fs : fsmap) (n : string) (os : list oid) : bool :=
  match flookup fs (PPackF n XIdx) with Some (Whole (DIdx os')) => ids_eqb os os' | _ => false end.

Definition in_pack (fs : fsmap) (o : oid) (n : string) : bool :=
  match pack_objs fs n with Some os => idx_ok fs n os && mem o os | None => false end.

Definition avail (fs : fsmap) (o : oid) : bool :=
  loose_ok fs o || existsb (in_pack fs o) (pack_names fs).

Definition loose_ids (fs : fsmap) : list oid := filter (loose_ok fs) (sort_n (loose_keys fs)).

Definition pack_files (fs : fsmap) : list (string * list oid) :=
  flat_map (fun n => match pack_objs fs n with Some os => [(n, os)] | None => [] end) (pack_names fs).

Definition loose_refs (fs : fsmap) : list (string * content) :=
  flat_map (fun n => match flookup fs (PRef n) with Some c => [(n, c)] | None => [] end) (ref_names fs).

Definition packed_refs (fs : fsmap) : option (list (string * oid)) :=
  match flookup fs PPacked with
  | None | Some Empty => Some []
  | Some (Whole (DPackedRefs l)) => Some l
  | _ => None
  end.

Definition shallow_of (fs : fsmap) : option (list oid) :=
  match flookup fs PShallow with
  | None | Some Empty => Some []
  | Some (Whole (DShallow l)) => Some l
  | _ => None
  end.

Definition is_loose_name (fs : fsmap) (n : string) : bool := fexists fs (PRef n).

Definition loose_root (fs : fsmap) (n : string) : list oid :=
  match flookup fs (PRef n) with Some (Whole (DRef (RHash o))) => [o] | _ => [] end.

(* the hash values of the effective references: HEAD when detached, loose refs,
   packed refs not shadowed by a loose one *)
Definition ref_roots (fs : fsmap) : list oid :=
  (match flookup fs PHead with Some (Whole (DRef (RHash o))) => [o] | _ => [] end)
  ++ flat_map (loose_root fs) (ref_names fs)
  ++ match packed_refs fs with
     | Some l => flat_map (fun e => if is_loose_name fs (fst e) then [] else [snd e]) l
     | None => []
     end.

Definition ref_file_ok (fs : fsmap) (n : string) : bool :=
  match flookup fs (PRef n) with Some (Whole (DRef _)) | None => true | _ => false end.
Definition pack_file_ok (fs : fsmap) (n : string) : bool :=
  match flookup fs (PPackF n XPack) with
  | Some (Whole (DPack os)) => idx_ok fs n os
  | None => true
  | _ => false
  end.

Definition files_ok (fs : fsmap) : bool :=
  (match flookup fs PHead with Some (Whole (DRef _)) => true | _ => false end)
  && forallb (ref_file_ok fs) (ref_names fs)
  && (match packed_refs fs with Some _ => true | None => false end)
  && (match shallow_of fs with Some _ => true | None => false end)
  && forallb (pack_file_ok fs) (pack_names fs)
  && (match flookup fs PIndex with None | Some (Whole (DIndex _)) => true | _ => false end)
  && (match flookup fs PConfig with Some (Whole DConfig) | Some Empty => true | _ => false end).

(* connectivity, executable: depth-first from the roots; None = an object that is
   needed is not available (or is not in the graph table) *)
Fixpoint fold_opt {A} (f : list oid -> A -> option (list oid)) (l : list A) (seen : list oid) : option (list oid) :=
  match l with
  | [] => Some seen
  | a :: l' => match f seen a with Some s => fold_opt f l' s | None => None end
  end.

Definition is_gitlink (m : Z) : bool := Z.eqb (object_canonicalTreeMode m) filemode_Submodule.

Fixpoint check (fuel : nat) (g : graph) (fs : fsmap) (sh : list oid) (seen : list oid) (o : oid) : option (list oid) :=
  if mem o seen then Some seen else
  match fuel with
  | O => None
  | S f =>
    if negb (avail fs o) then None else
    match assoc g o with
    | None => None
    | Some OBlob => Some (o :: seen)
    | Some (OTag t) => check f g fs sh (o :: seen) t
    | Some (OCommit t ps) =>
      match check f g fs sh (o :: seen) t with
      | None => None
      | Some s => if mem o sh then Some s else fold_opt (check f g fs sh) ps s
      end
    | Some (OTree es) =>
      fold_opt (fun s e => if is_gitlink (fst e) then Some s else check f g fs sh s (snd e)) es (o :: seen)
    end
  end.

Definition connected_b (g : graph) (fs : fsmap) : bool :=
  match shallow_of fs with
  | None => false
  | Some sh => match fold_opt (check (S (List.length g)) g fs sh) (ref_roots fs) [] with Some _ => true | None => false end
  end.

Definition repo_okb (g : graph) (fs : fsmap) : bool := files_ok fs && connected_b g fs.

(* ---------- the operations ---------- *)

Definition refpath (n : string) : path := if String.eqb n "HEAD" then PHead else PRef n.

Fixpoint nat_to_string_aux (fuel n : nat) (acc : string) : string :=
  match fuel with
  | O => acc
  | S f => let d := String (Ascii.ascii_of_nat (48 + Nat.modulo n 10)) acc in
           if Nat.eqb (Nat.div n 10) 0 then d else nat_to_string_aux f (Nat.div n 10) d
  end.
Definition nat_to_string (n : nat) : string := nat_to_string_aux (S n) n EmptyString.

(* name given to the first new pack: packs are numbered in order of appearance *)
Definition new_pack_name (fs : fsmap) : string := ("P" ++ nat_to_string (List.length (pack_files fs)))%string.

(* ObjectWriter: temp file, write, then rename into place (or drop the temp
   file when the object is already there); k numbers the temp files of one operation *)
Definition op_setobj_k (fs : fsmap) (k : nat) (o : oid) : list mutation :=
  let t := PTmp TObj k in
  [MTemp t; MWrite t (DLoose o)] ++
  (if fexists fs (PLoose o) then [MRemove t] else [MRename t (PLoose o); MChmod (PLoose o)]).
Definition op_setobj (fs : fsmap) (o : oid) : list mutation := op_setobj_k fs 0 o.

(* PackWriter.save: idx, rev, promisor marker, and only then the pack itself *)
Definition pack_save (name : string) (t : path) (os : list oid) (promisor : bool) : list mutation :=
  [MCreate (PPackF name XIdx); MWrite (PPackF name XIdx) (DIdx os); MChmod (PPackF name XIdx);
   MCreate (PPackF name XRev); MWrite (PPackF name XRev) DRev; MChmod (PPackF name XRev)]
  ++ (if promisor then [MCreate (PPackF name XPromisor)] else [])
  ++ [MRename t (PPackF name XPack); MChmod (PPackF name XPack)].

Definition op_packwrite (fs : fsmap) (os : list oid) (promisor : bool) : list mutation :=
  let t := PTmp TPack 0 in
  [MTemp t; MWrite t (DPack os)] ++ pack_save (new_pack_name fs) t os promisor.

(* SetRef without old value: truncating create, then write *)
Definition op_setref (fs : fsmap) (n : string) (v : refval) : list mutation :=
  [MCreate (refpath n); MWrite (refpath n) (DRef v)].

(* a worktree commit at the storage level (worktree_commit.go buildTreeHelper,
   Worktree.Commit): the new trees bottom-up, the commit object, and only then
   the branch (or a detached HEAD) *)
Fixpoint op_setobjs (k : nat) (fs : fsmap) (os : list oid) : list mutation :=
  match os with
  | [] => []
  | o :: r => let ops := op_setobj_k fs k o in ops ++ op_setobjs (S k) (run ops fs) r
  end.
Definition op_commit (fs : fsmap) (os : list oid) (n : string) (v : refval) : list mutation :=
  let a := op_setobjs 0 fs os in a ++ op_setref (run a fs) n v.

(* SetRef with old value (compare-and-swap, old matches): open (creating the
   file when the reference is only packed), truncate, write *)
Definition op_casref (fs : fsmap) (n : string) (v : refval) : list mutation :=
  (if fexists fs (refpath n) then [] else [MCreate (refpath n)])
  ++ [MTrunc (refpath n); MWrite (refpath n) (DRef v)].

(* RemoveRef (after the repair): packed-refs rewritten without the name first,
   the loose file last *)
Definition op_rmref (fs : fsmap) (n : string) : list mutation :=
  match flookup fs PPacked with
  | Some (Whole (DPackedRefs l)) =>
    let t := PTmp TPRefs 0 in
    let rest := filter (fun e => negb (String.eqb (fst e) n)) l in
    [MTemp t] ++ (match rest with [] => [] | _ => [MWrite t (DPackedRefs rest)] end)
    ++ (if existsb (fun e => String.eqb (fst e) n) l then [MRename t PPacked] else [MRemove t])
  | Some Empty => [MTemp (PTmp TPRefs 0); MRemove (PTmp TPRefs 0)]
  | _ => []
  end
  ++ (if fexists fs (PRef n) then [MRemove (PRef n)] else []).

(* sorted insertion of names (the harness sorts runs of removals) *)
Fixpoint sleb (a b : string) : bool :=
  match a, b with
  | EmptyString, _ => true
  | String _ _, EmptyString => false
  | String x a', String y b' =>
    let nx := Ascii.nat_of_ascii x in let ny := Ascii.nat_of_ascii y in
    if Nat.ltb nx ny then true else if Nat.ltb ny nx then false else sleb a' b'
  end.
Fixpoint sinsert (x : string) (l : list string) : list string :=
  match l with
  | [] => [x]
  | y :: r => if sleb x y then x :: l else y :: sinsert x r
  end.
Definition ssort (l : list string) : list string := fold_right sinsert [] l.

Definition loose_hash_refs (fs : fsmap) : list (string * oid) :=
  flat_map (fun n => match flookup fs (PRef n) with Some (Whole (DRef (RHash o))) => [(n, o)] | _ => [] end)
           (ssort (ref_names fs)).

(* PackRefs: create packed-refs when missing; with loose refs: all hash refs
   into a temp file, rename over packed-refs, then delete the loose files of
   the hash references (symbolic references stay loose, as with git pack-refs) *)
Definition op_packrefs (fs : fsmap) : list mutation :=
  (if fexists fs PPacked then [] else [MCreate PPacked])
  ++ match ref_names fs with
     | [] => []
     | _ =>
       let t := PTmp TPRefs 0 in
       let old := match packed_refs fs with Some l => l | None => [] end in
       let all := loose_hash_refs fs ++ filter (fun e => negb (is_loose_name fs (fst e))) old in
       [MTemp t] ++ (match all with [] => [] | _ => [MWrite t (DPackedRefs all)] end) ++ [MRename t PPacked]
       ++ match map fst (loose_hash_refs fs) with [] => [] | ns => [MRemoveSet (map PRef ns)] end
     end.

Definition op_setindex (es : list (bool * oid)) : list mutation :=
  [MCreate PIndex; MWrite PIndex (DIndex es)].
Definition op_setconfig : list mutation := [MCreate PConfig; MWrite PConfig DConfig].
Definition op_setshallow (l : list oid) : list mutation :=
  MCreate PShallow :: match l with [] => [] | _ => [MWrite PShallow (DShallow l)] end.

(* the Gc view of the directory (Model/Gc.v), for Prune and RepackObjects *)
Definition pack_is_promisor (fs : fsmap) (n : string) : bool := fexists fs (PPackF n XPromisor).
Definition to_repo (g : graph) (fs : fsmap) (old_loose : list oid) (old_packs : list string) : repo :=
  {| objs := g;
     loose := map (fun o => (o, mem o old_loose)) (loose_ids fs);
     packs := map (fun p => {| p_name := (sort_n (snd p), 0);
                               p_old := existsb (String.eqb (fst p)) old_packs;
                               p_promisor := pack_is_promisor fs (fst p);
                               p_objs := if idx_ok fs (fst p) (snd p) then snd p else [] |}) (pack_files fs);
     roots := ref_roots fs;
     shallow := match shallow_of fs with Some l => l | None => [] end;
     index := match flookup fs PIndex with Some (Whole (DIndex es)) => es | _ => [] end |}.

(* Prune (handler DeleteObject): one run of loose-object removals *)
Definition op_prune (g : graph) (fs : fsmap) (old_loose : list oid) (lim : bool) : list mutation :=
  let r := to_repo g fs old_loose [] in
  match walk_all (gc_fuel r) r with
  | Err _ => []
  | Ok st =>
    match filter (fun o => negb (mem o st.(seen) || (lim && negb (mem o old_loose)))) (loose_ids fs) with
    | [] => []
    | del => [MRemoveSet (map PLoose del)]
    end
  end.

Definition pack_exts (fs : fsmap) (n : string) : list path :=
  filter (fexists fs) [PPackF n XPack; PPackF n XIdx; PPackF n XRev; PPackF n XPromisor].

(* RepackObjects (after the repair: the writer is closed before the loose copies go) *)
Definition op_repack (g : graph) (fs : fsmap) (old_packs : list string) (lim : bool) : list mutation :=
  let r := to_repo g fs [] old_packs in
  match walk_all (gc_fuel r) r with
  | Err _ => []
  | Ok st =>
    let os := present st in
    let t := PTmp TPack 0 in
    if forallb (has r) os then
      [MTemp t; MWrite t (DPack os)] ++ pack_save (new_pack_name fs) t os (promisor r)
      ++ (match filter (fun o => mem o st.(seen)) (loose_ids fs) with
          | [] => [] | del => [MRemoveSet (map PLoose del)] end)
      ++ (match flat_map (fun n => if lim && negb (existsb (String.eqb n) old_packs) then [] else pack_exts fs n)
                         (ssort (map fst (pack_files fs))) with
          | [] => [] | del => [MRemoveSet del] end)
    else [MTemp t]
  end.

(* ---------- correspondence entry points ---------- *)

Inductive opd :=
| OpSetObj (o : oid) | OpPackWrite (os : list oid) (promisor : bool) | OpCommit (os : list oid) (n : string) (v : refval)
| OpSetRef (n : string) (v : refval) | OpCasRef (n : string) (v : refval) | OpRmRef (n : string) | OpPackRefs
| OpSetIndex (es : list (bool * oid)) | OpSetConfig | OpSetShallow (l : list oid)
| OpRepack (old_packs : list string) (lim : bool) | OpPrune (old_loose : list oid) (lim : bool).

Definition ops_of (g : graph) (fs : fsmap) (o : opd) : list mutation :=
  match o with
  | OpSetObj x => op_setobj fs x
  | OpPackWrite os p => op_packwrite fs os p
  | OpCommit os n v => op_commit fs os n v
  | OpSetRef n v => op_setref fs n v
  | OpCasRef n v => op_casref fs n v
  | OpRmRef n => op_rmref fs n
  | OpPackRefs => op_packrefs fs
  | OpSetIndex es => op_setindex es
  | OpSetConfig => op_setconfig
  | OpSetShallow l => op_setshallow l
  | OpRepack op lim => op_repack g fs op lim
  | OpPrune ol lim => op_prune g fs ol lim
  end.

Definition N_to_string (n : N) : string := nat_to_string (N.to_nat n).

Definition render_path (p : path) : string :=
  match p with
  | PHead => "HEAD" | PRef n => n | PPacked => "packed-refs"
  | PTmp TObj n => "objects/pack/tmp_obj#" ++ nat_to_string n
  | PTmp TPack n => "objects/pack/tmp_pack#" ++ nat_to_string n
  | PTmp TPRefs n => "tmp_packed-refs#" ++ nat_to_string n
  | PLoose o => "objects/#" ++ N_to_string o
  | PPackF n XPack => "objects/pack/pack-" ++ n ++ ".pack"
  | PPackF n XIdx => "objects/pack/pack-" ++ n ++ ".idx"
  | PPackF n XRev => "objects/pack/pack-" ++ n ++ ".rev"
  | PPackF n XPromisor => "objects/pack/pack-" ++ n ++ ".promisor"
  | PIndex => "index" | PConfig => "config" | PShallow => "shallow"
  end%string.

Definition render_mut (m : mutation) : out :=
  match m with
  | MTemp p => OList [OSym "tempfile"; OStr (render_path p)]
  | MCreate p => OList [OSym "create"; OStr (render_path p)]
  | MWrite p _ => OList [OSym "write"; OStr (render_path p)]
  | MTrunc p => OList [OSym "truncate"; OStr (render_path p)]
  | MRename a b => OList [OSym "rename"; OStr (render_path a); OStr (render_path b)]
  | MRemove p => OList [OSym "remove"; OStr (render_path p)]
  | MRemoveSet ps => OList (OSym "removeset" :: map (fun p => OStr (render_path p)) ps)
  | MChmod p => OList [OSym "chmod"; OStr (render_path p)]
  end.

Definition c21_trace (g : graph) (fs : fsmap) (o : opd) : out :=
  OList (map render_mut (ops_of g fs o)).

(* per mutation: (every state strictly inside it is ok, the state after it is ok);
   first element: the initial state *)
Fixpoint verdicts (g : graph) (ops : list mutation) (fs : fsmap) : list out :=
  match ops with
  | [] => []
  | m :: r =>
    OList [OBool (forallb (repo_okb g) (mid_states m fs)); OBool (repo_okb g (apply m fs))]
      :: verdicts g r (apply m fs)
  end.

Definition c21_verdicts (g : graph) (fs : fsmap) (o : opd) : out :=
  OList (OBool (repo_okb g fs) :: verdicts g (ops_of g fs o) fs).
