(* Properties/C16.v — Reference updates are atomic compare-and-swap operations.
   Statements only; proofs in Proofs/C16.v.  A system = an assignment of one
   operation to every thread id (unboundedly many threads), an initial on-disk
   state of the reference, and any schedule (list of thread ids; a step of a
   finished or lock-blocked thread is a no-op).  [cas_only]: every thread is a
   check-and-set writer or a reader. *)
From Coq Require Import List Arith Bool.
From GoGit Require Import Base.Out Model.RefCAS Proofs.C16.
Import ListNotations.

(* CAS is linearizable, for ANY number of CAS writers and readers and ANY
   schedule.  [log] records, at the write step of each successful CAS, the
   abstract register before it, the expected and the new value:
   (1) every successful update expected (modulo Reference.Hash()) the value the
       previous successful update wrote, starting from the initial value: no
       lost update, no update against a stale value;
   (2) the register is the last successful new value;
   (3) whenever no writer is between its truncate and its write, a sequential
       reader of the files computes exactly the register. *)
Theorem C16_cas_linearizable : forall kinds lo pk sched, cas_only kinds ->
  let s0 := mk_init lo pk in
  let s := run kinds s0 sched in
  chain_ok (logical s0) (log s) /\ reg s = last_reg (logical s0) (log s)
  /\ (win s = false -> logical s = reg s).
Proof.
  intros kinds lo pk sched CO s0 s.
  assert (I : J kinds (logical s0) pk s) by (apply J_reachable; auto; exists sched; reflexivity).
  destruct (j_chain _ _ _ _ I). split; auto. split; auto. apply (j_reg _ _ _ _ I).
Qed.
Print Assumptions C16_cas_linearizable.

(* the lock holder is the only thread past the read *)
Theorem C16_mutex : forall kinds lo pk sched t t' fd fd', cas_only kinds ->
  let s := run kinds (mk_init lo pk) sched in
  in_cs (pc_of kinds s t) = Some fd -> in_cs (pc_of kinds s t') = Some fd' -> t = t'.
Proof.
  intros kinds lo pk sched t t' fd fd' CO s. eapply mutex. apply J_reachable; auto. exists sched; reflexivity.
Qed.
Print Assumptions C16_mutex.

(* for hash references (non-zero hash) "modulo Hash()" is equality: a successful
   CAS expecting hash k was made against exactly hash k *)
Theorem C16_cas_exact : forall kinds lo pk sched r k n, cas_only kinds -> k <> 0 ->
  In (r, VHash k, n) (log (run kinds (mk_init lo pk) sched)) -> r = Some (VHash k).
Proof.
  intros kinds lo pk sched r k n CO Hk Hin.
  destruct (C16_cas_linearizable kinds lo pk sched CO) as (Hc & _).
  destruct (chain_ok_In _ _ _ _ _ Hc Hin) as (v & -> & Hs). f_equal. now apply same_hash_exact.
Qed.
Print Assumptions C16_cas_exact.

(* FULL STATEMENT for symbolic references (false): a successful CAS was made
   against exactly the value it expected.  Refuted: both Hash() are zero. *)
Theorem C16_symbolic_cas_refuted : exists kinds lo pk sched r o n, cas_only kinds /\
  In (r, o, n) (log (run kinds (mk_init lo pk) sched)) /\ r <> Some o.
Proof.
  exists (kinds_of [KCas (VSym 1) (VHash 2)]), (Some (Some (VSym 2))), None, [0;0;0;0;0;0;0;0],
         (Some (VSym 2)), (VSym 1), (VHash 2).
  split; [intros [|[|t]]; reflexivity|]. split; [vm_compute; auto | discriminate].
Qed.
Print Assumptions C16_symbolic_cas_refuted.

(* FULL STATEMENT (false): a concurrent reader returns a value the reference
   held at some point of the run (its previous or its new value).
   Refuted with CAS writers only: the reader reads the file between truncate
   and write, falls back to packed-refs and returns a stale packed value. *)
Theorem C16_reader_atomic_refuted : exists kinds lo pk sched t v, cas_only kinds /\ kinds t = KRead /\
  result kinds (run kinds (mk_init lo pk) sched) t = Some (RFound v) /\
  forall s', In s' (states kinds (mk_init lo pk) sched) -> reg s' <> Some v.
Proof.
  exists (kinds_of [KCas (VHash 1) (VHash 2); KRead]), (Some (Some (VHash 1))), (Some (Some (VHash 3))),
         [0;0;0;0;1;1;1;1;1;0;0], 1, (VHash 3).
  split; [intros [|[|[|t]]]; reflexivity|]. split; [reflexivity|]. split; [vm_compute; reflexivity|].
  apply regs_never. vm_compute. reflexivity.
Qed.
Print Assumptions C16_reader_atomic_refuted.

(* ... and "never an absent value": with no packed-refs the same reader gets
   "reference not found" although the reference existed throughout *)
Theorem C16_reader_notfound_refuted : exists kinds lo pk sched t, cas_only kinds /\ kinds t = KRead /\
  result kinds (run kinds (mk_init lo pk) sched) t = Some RNotFound /\
  forall s', In s' (states kinds (mk_init lo pk) sched) -> reg s' <> None.
Proof.
  exists (kinds_of [KCas (VHash 1) (VHash 2); KRead]), (Some (Some (VHash 1))), None,
         [0;0;0;0;1;1;1;1;0;0], 1.
  split; [intros [|[|[|t]]]; reflexivity|]. split; [reflexivity|]. split; [vm_compute; reflexivity|].
  apply regs_never. vm_compute. reflexivity.
Qed.
Print Assumptions C16_reader_notfound_refuted.

(* what does hold for readers (CAS writers and readers only): the reader's
   decisive step (the read of the loose file, or the stat/open that found it
   absent) records the register and whether a truncate-write window was open;
   if none was open (boolean guard w = false), the reader returns exactly the
   register value of that moment — and that moment is a state of the run *)
Theorem C16_reader_atomic_partial : forall kinds lo pk sched t res, cas_only kinds -> kinds t = KRead ->
  let s := run kinds (mk_init lo pk) sched in
  result kinds s t = Some res ->
  exists r w, rexp s t = Some (r, w) /\ (w = false -> res = of_reg r)
    /\ exists s', In s' (states kinds (mk_init lo pk) sched) /\ reg s' = r /\ win s' = w.
Proof.
  intros kinds lo pk sched t res CO Hk s Hres.
  assert (I : J kinds (logical (mk_init lo pk)) pk s) by (apply J_reachable; auto; exists sched; reflexivity).
  unfold result in Hres. destruct (pc_of kinds s t) eqn:Hpc; try discriminate. inversion Hres; subst.
  destruct (j_rd _ _ _ _ I t res Hk Hpc) as (r & w & Hr & Hw). exists r, w. split; auto. split; auto.
  destruct (rexp_visited kinds sched (mk_init lo pk) t r w Hr) as [H|H]; auto.
  rewrite mk_init_rexp in H. discriminate.
Qed.
Print Assumptions C16_reader_atomic_partial.

(* FULL STATEMENT with a packer (false): no successful update is lost.
   Refuted: PackRefs reads the loose value, a CAS A->B succeeds, PackRefs
   writes A to packed-refs and removes the loose file.  Everything has
   finished, the CAS reported success, the reference reads A. *)
Theorem C16_pack_race_refuted : exists kinds lo pk sched,
  let s := run kinds (mk_init lo pk) sched in
  result kinds s 0 = Some ROk /\ result kinds s 1 = Some ROk /\
  log s = [(Some (VHash 1), VHash 1, VHash 2)] /\ win s = false /\
  reg s = Some (VHash 2) /\ logical s = Some (VHash 1).
Proof.
  exists (kinds_of [KCas (VHash 1) (VHash 2); KPack]), (Some (Some (VHash 1))), None,
         [1;1;1;1;1;1;0;0;0;0;0;0;1;1;1;1].
  vm_compute. repeat split.
Qed.
Print Assumptions C16_pack_race_refuted.

(* FULL STATEMENT with an unconditional SetRef (false): a successful CAS was
   made against the value it expected.  Refuted: SetRef(new, nil) truncates at
   open, before taking the lock; the CAS reads an empty file, falls back to a
   stale packed value equal to what it expects, and succeeds although the
   reference was B. *)
Theorem C16_uncond_set_refuted : exists kinds lo pk sched r o n,
  In (r, o, n) (log (run kinds (mk_init lo pk) sched)) /\
  (forall v, r = Some v -> same v o = false).
Proof.
  exists (kinds_of [KSet (VHash 3); KCas (VHash 1) (VHash 2)]), (Some (Some (VHash 2))), (Some (Some (VHash 1))),
         [0;1;1;1;1;1;1;1;1;0;0;0], (Some (VHash 2)), (VHash 1), (VHash 2).
  split; [vm_compute; auto|]. intros v E. inversion E; subst. reflexivity.
Qed.
Print Assumptions C16_uncond_set_refuted.

(* ... and the unconditional writer never truncates under the lock: its shorter
   symbolic line over the CAS writer's longer hash line leaves a corrupted file *)
Theorem C16_uncond_set_garbage : exists kinds lo pk sched,
  logical (run kinds (mk_init lo pk) sched) = Some VGarb.
Proof.
  exists (kinds_of [KCas (VSym 1) (VHash 2); KSet (VSym 2)]), (Some (Some (VSym 1))), None,
         [0;0;0;1;1;1;1;0;0;0;0;0;1;1;1;1;1].
  vm_compute. reflexivity.
Qed.
Print Assumptions C16_uncond_set_garbage.

(* non-vacuity: two racing CAS writers, one wins, the chain has one link; and a
   three-writer run where two succeed in sequence *)
Example C16_ex_race :
  let s := run (kinds_of [KCas (VHash 1) (VHash 2); KCas (VHash 1) (VHash 3)]) (mk_init (Some (Some (VHash 1))) None)
               [0;1;0;1;1;0;0;1;0;1;0;1;1;1;1;1] in
  log s = [(Some (VHash 1), VHash 1, VHash 2)] /\ result (kinds_of [KCas (VHash 1) (VHash 2); KCas (VHash 1) (VHash 3)]) s 1 = Some RChanged
  /\ logical s = Some (VHash 2).
Proof. vm_compute. auto. Qed.

Example C16_ex_chain :
  let ks := kinds_of [KCas (VHash 1) (VHash 2); KCas (VHash 2) (VHash 3); KRead] in
  let s := run ks (mk_init None (Some (Some (VHash 1)))) [0;0;0;0;0;0;0;0;1;1;1;1;1;1;2;2;2] in
  log s = [(Some (VHash 1), VHash 1, VHash 2); (Some (VHash 2), VHash 2, VHash 3)]
  /\ result ks s 2 = Some (RFound (VHash 3)).
Proof. vm_compute. auto. Qed.

Example C16_cas_only_ex : cas_only (kinds_of [KCas (VHash 1) (VHash 2); KRead]).
Proof. intros [|[|[|t]]]; reflexivity. Qed.
