(* Properties/C16.v — placeholder while the proofs are written *)
From Coq Require Import List Arith Bool String.
From GoGit Require Import Base.Out Model.RefCAS.
Import ListNotations.
Theorem C16_placeholder : True. Proof. exact I. Qed.
