(* Properties/C34.v — Pkt-line and sideband framing round-trip under any chunking.
   Only statements here; proofs live in Proofs/C34{Stream,Hex,Pkt,Sideband}.v.
   A reader is the list of chunks successive io.Reader.Read calls deliver;
   [concat r] is the byte stream.  MaxSizeN = 65520, payload limit 65516. *)
From Coq Require Import List NArith ZArith Bool.
From GoGit Require Import Base.Out Gen.C34 Model.PktLine Model.Sideband
  Proofs.C34Stream Proofs.C34Hex Proofs.C34Pkt Proofs.C34Peek Proofs.C34Sideband.
Import ListNotations.

(* Chunking independence: however the byte stream is split into Read results,
   one Read, the ReadLine loop and the Scanner loop give the same answers. *)
Theorem C34_chunking : forall bufsz r1 r2, concat r1 = concat r2 ->
  fst (pkt_read bufsz r1) = fst (pkt_read bufsz r2) /\
  concat (snd (pkt_read bufsz r1)) = concat (snd (pkt_read bufsz r2)) /\
  read_all bufsz r1 = read_all bufsz r2 /\ scan_all r1 = scan_all r2.
Proof.
  intros bufsz r1 r2 H. destruct (pkt_read_flat bufsz r1 r2 H) as [A B].
  repeat split; auto using read_all_flat, scan_all_flat.
Qed.
Print Assumptions C34_chunking.

(* Round trip: any sequence of data / flush / delim / response-end packets that
   go-git can write (no payload above MaxPayloadSize), none of them starting
   with "ERR ", is read back as the same sequence, for EVERY chunking r of the
   written stream. *)
Theorem C34_roundtrip : forall ps s r,
  enc_pkts ps = Some s -> forallb no_errline ps = true -> concat r = s ->
  decode_pkts (read_all MaxSizeN r) = Some ps.
Proof.
  intros ps s r He Hne Hr.
  assert (4 <= MaxSizeN)%nat as Hb by (pose proof MaxSizeN_Z; Lia.lia).
  rewrite (read_all_enc MaxSizeN ps s r Hb He Hr). cbn [decode_pkts].
  apply decode_items_enc; [eapply enc_pkts_ok; eauto|assumption].
Qed.
Print Assumptions C34_roundtrip.

(* ... and the Scanner loop sees the same packets, then stops cleanly *)
Theorem C34_roundtrip_scanner : forall ps s r,
  enc_pkts ps = Some s -> forallb no_errline ps = true -> concat r = s ->
  scan_all r = RAll (map (rd_of_pkt MaxSizeN) ps ++ [mkrd (-1) [] None]) /\
  forall p, In p ps -> rd_err (rd_of_pkt MaxSizeN p) = None /\ pkt_of_rd (rd_of_pkt MaxSizeN p) = Some p.
Proof.
  intros ps s r He Hne Hr. split; [eapply scan_all_enc; eauto|].
  intros p Hin. apply pkt_of_rd_max.
  - pose proof (enc_pkts_ok _ _ He) as H. rewrite forallb_forall in H. auto.
  - rewrite forallb_forall in Hne. auto.
Qed.
Print Assumptions C34_roundtrip_scanner.

(* PeekLine on a bufio.Reader whose buffer can hold the packet returns what
   ReadLine would read, for any chunking (and consumes nothing: it only returns a value) *)
Theorem C34_peek : forall bufsize r p e rest,
  enc_pkt p = Some e -> concat r = e ++ rest -> (List.length e <= bufsize)%nat ->
  peek_line bufsize r = rd_of_pkt MaxSizeN p.
Proof. exact peek_line_enc. Qed.
Print Assumptions C34_peek.

(* Error packets: WriteError(text) is read back as the payload plus an
   *ErrorLine whose text is the original one when it has no outer white space *)
Theorem C34_errline : forall text r rest e bufsz,
  enc_pkt (PData (err_payload text)) = Some e -> concat r = e ++ rest ->
  (zlen (err_payload text) + 4 <= Z.of_nat bufsz)%Z ->
  fst (pkt_read bufsz r) =
    mkrd (zlen (err_payload text) + 4) (err_payload text) (Some (PEerrline (trim_space (text ++ [NL])))) /\
  concat (snd (pkt_read bufsz r)) = rest /\
  (clean_text text = true -> trim_space (text ++ [NL]) = text).
Proof.
  intros text r rest e bufsz He Hr Hb.
  assert (0 <= zlen (err_payload text))%Z as Hnn by apply zlen_nonneg.
  assert (4 <= bufsz)%nat as Hb4 by Lia.lia.
  destruct (pkt_read_enc bufsz r _ e rest Hb4 He Hr) as [Hd Hrest].
  split; [|split; [assumption|apply trim_clean]].
  rewrite Hd. unfold rd_of_pkt. unfold err_payload at 1. cbn [errPrefix zb pktline_errPrefix map app List.length Nat.eqb].
  fold (err_payload text).
  destruct (Z.gtb_spec (zlen (err_payload text) + 4) (Z.of_nat bufsz)); [Lia.lia|].
  now rewrite errline_of_err.
Qed.
Print Assumptions C34_errline.

(* Payloads of 0..MaxPayloadSize bytes are encodable (header + payload, the
   empty one as "0004"); anything larger is rejected *)
Theorem C34_max : forall p,
  ((zlen p <= pktline_MaxPayloadSize)%Z ->
     exists e, pkt_write p = Some e /\ List.length e = (List.length p + 4)%nat) /\
  ((zlen p > pktline_MaxPayloadSize)%Z -> pkt_write p = None).
Proof.
  intros p. split; [|apply pkt_write_none].
  intros H. rewrite (pkt_write_some p H). eexists. split; [reflexivity|].
  destruct (Nat.eqb_spec (List.length p) 0) as [E|E]; [rewrite E; reflexivity|].
  rewrite app_length, hex16_length. Lia.lia.
Qed.
Print Assumptions C34_max.

(* Resynchronisation: with ANY caller buffer of at least 4 bytes, reading a
   written stream yields one item per packet; a packet that does not fit the
   buffer yields io.ErrUnexpectedEOF and exactly its bytes are skipped, so every
   other packet is still read correctly (rd_of_pkt), and the loop ends with io.EOF *)
Theorem C34_resync : forall bufsz ps s r,
  (4 <= bufsz)%nat -> enc_pkts ps = Some s -> concat r = s ->
  read_all bufsz r = RAll (map (rd_of_pkt bufsz) ps ++ [rd_fail PEeof]).
Proof. exact read_all_enc. Qed.
Print Assumptions C34_resync.

(* Malformed lengths: on ARBITRARY bytes a prefix that ParseLength refuses
   (non-hex, 0003, above 65520) gives ErrInvalidPktLen and consumes exactly the
   four prefix bytes; and whenever a Read succeeds (or returns an ErrorLine) its
   payload is exactly the bytes delimited by a valid length prefix *)
Theorem C34_malformed : forall bufsz r,
  ((4 <= bufsz)%nat -> (4 <= List.length (concat r))%nat -> parse_length (firstn 4 (concat r)) = None ->
     fst (pkt_read bufsz r) = rd_fail PEinvalid /\ concat (snd (pkt_read bufsz r)) = skipn 4 (concat r)) /\
  (forall d r', pkt_read bufsz r = (d, r') ->
     (rd_err d = None \/ exists t, rd_err d = Some (PEerrline t)) ->
     exists n, parse_length (firstn 4 (concat r)) = Some n /\ rd_len d = n /\ (4 <= List.length (concat r))%nat /\
       (if (n <=? 4)%Z then rd_payload d = [] /\ concat r' = skipn 4 (concat r)
        else rd_payload d = firstn (Z.to_nat n - 4) (skipn 4 (concat r)) /\
             List.length (rd_payload d) = (Z.to_nat n - 4)%nat /\ (n <= Z.of_nat bufsz)%Z /\
             concat r' = skipn (Z.to_nat n) (concat r))).
Proof.
  intros bufsz r. split; [apply pkt_read_malformed|]. intros d r'. apply pkt_read_sound.
Qed.
Print Assumptions C34_malformed.

(* Totality (also C53): on ANY chunked byte stream and any buffer size the
   Read loop and the Scanner loop terminate within their stated fuel *)
Theorem C34_read_all_total : forall bufsz r, read_all bufsz r <> RFuel /\ scan_all r <> RFuel.
Proof. intros. split; [apply read_all_total|apply scan_all_total]. Qed.
Print Assumptions C34_read_all_total.

(* Muxer: each WriteChannel is cut into packets of at most max = limit-5 payload
   bytes (all but the last full), whose payloads concatenate to the write *)
Theorem C34_mux : forall t ws,
  mux_session t ws = MOk (sb_stream (flat_map (sb_pkts_of t) ws)) /\
  forall ch p, let cs := chunks_of (List.length p) (mux_max_nat t) p in
    sb_pkts_of t (ch, p) = map (pair ch) cs /\ concat cs = p /\
    Forall (fun c => 1 <= List.length c <= mux_max_nat t)%nat cs /\
    Forall (fun c => List.length c = mux_max_nat t) (removelast cs) /\
    (mux_max t = 995 \/ mux_max t = 65515)%Z.
Proof.
  intros t ws. split; [apply mux_session_spec|]. intros ch p. cbn zeta.
  pose proof (mux_max_nat_pos t).
  repeat split; auto using chunks_concat, chunks_bounds, chunks_full, mux_max_cases.
Qed.
Print Assumptions C34_mux.

(* Demuxer after Muxer: for both sideband types, every list of writes on the
   PackData / progress channels, every chunking r of the muxed stream followed
   by a flush packet (or just ending), and EVERY sequence of read sizes: the
   bytes returned are exactly the PackData bytes in order, each successful Read
   fills its buffer, the stream ends with io.EOF once exhausted, and the
   progress sink has received all progress bytes, in order, by then. *)
Theorem C34_demux : forall t hp ws,
  Forall (fun w => fst w = 1 \/ fst w = 2)%N ws ->
  exists s, mux_session t ws = MOk s /\
  forall (r : reader) (tail rest : bytes) (sizes : list nat),
    tail_ok tail rest -> concat r = s ++ tail ->
    exists reads d',
      demux_session t hp sizes (mkdmx r [] []) [] = DSess reads d' /\
      concat (map fst reads) = firstn (sum sizes) (pack_bytes ws) /\
      (sum sizes <= List.length (pack_bytes ws) ->
         map (fun x => List.length (fst x)) reads = sizes /\ Forall (fun x => snd x = None) reads /\
         exists later, d_prog d' ++ later = prog_bytes hp ws) /\
      (List.length (pack_bytes ws) < sum sizes ->
         (exists reads0 data, reads = reads0 ++ [(data, Some DEeof)] /\ Forall (fun x => snd x = None) reads0) /\
         d_prog d' = prog_bytes hp ws /\ concat (d_r d') = rest).
Proof. exact mux_demux. Qed.
Print Assumptions C34_demux.

(* ... in fact for ANY stream of well-formed sideband packets (not only the
   muxer's chunking), stated for one Read from any reachable state *)
Theorem C34_demux_read : forall t hp qs req d tail rest,
  Forall (sb_valid t) qs -> tail_ok tail rest -> concat (d_r d) = sb_stream qs ++ tail ->
  read_post t hp (demux_read t hp req d) req [] d qs tail rest.
Proof. exact demux_read_spec. Qed.
Print Assumptions C34_demux_read.

(* Totality (also C53): Demuxer.Read never runs out of fuel on ANY input
   stream, pending state or read size; nor does the muxer *)
Theorem C34_demux_total : forall t hp sizes d acc req ws,
  demux_session t hp sizes d acc <> DSFuel /\ demux_read t hp req d <> DFuel /\
  mux_session t ws <> MFuel /\ mux_session t ws <> MTooLong.
Proof.
  intros. pose proof (mux_session_total t ws) as [A B].
  repeat split; auto using demux_session_total, demux_read_total.
Qed.
Print Assumptions C34_demux_total.

(* ---------- non-vacuity ---------- *)
From Coq Require Import String.
Definition ex_pkts : list pkt :=
  [PData [104; 105]; PFlush; PData []; PData [1; 80; 65; 67; 75]; PDelim; PResponseEnd]%N.

Example C34_ex_stream :
  exists s, enc_pkts ex_pkts = Some s /\ forallb no_errline ex_pkts = true /\
    decode_pkts (read_all MaxSizeN (chunk_by [1; 2; 3; 5; 1; 1]%nat s)) = Some ex_pkts /\
    decode_pkts (read_all MaxSizeN [s]) = Some ex_pkts.
Proof. eexists. split; [reflexivity|]. vm_compute. repeat split. Qed.

(* a 7-byte buffer skips the 9-byte packet and stays in sync *)
Example C34_ex_resync :
  match enc_pkts ex_pkts with
  | Some s => read_all 7 (chunk_by [3; 3]%nat s) =
      RAll [mkrd 6 [104; 105]%N None; mkrd 0 [] None; mkrd 4 [] None; rd_fail PEunexpected;
            mkrd 1 [] None; mkrd 2 [] None; rd_fail PEeof]
  | None => False
  end.
Proof. vm_compute. reflexivity. Qed.

Example C34_ex_malformed :
  parse_length (unhex "30303033"%string) = None /\ parse_length (unhex "66666631"%string) = None /\
  parse_length (unhex "30306730"%string) = None /\ parse_length (unhex "66666630"%string) = Some 65520%Z /\
  parse_length (unhex "46464630"%string) = Some 65520%Z.
Proof. vm_compute. repeat split. Qed.

Example C34_ex_errline :
  clean_text (unhex "6f6f707320782079"%string) = true /\
  fst (pkt_read MaxSizeN [unhex "30303064455252206f6f70730a"%string])
  = mkrd 13 (unhex "455252206f6f70730a"%string) (Some (PEerrline (unhex "6f6f7073"%string))).
Proof. vm_compute. split; reflexivity. Qed.

Example C34_ex_demux :
  let ws := [(1, repeat 7 2000); (2, [104; 105]); (1, [9])]%N in
  Forall (fun w => fst w = 1 \/ fst w = 2)%N ws /\
  match mux_session 0 ws with
  | MOk s =>
    List.length s = 2028%nat /\
    match demux_session 0 true [1; 1500; 1000; 3]%nat (mkdmx (chunk_by [7; 100]%nat (s ++ flushPkt)) [] []) [] with
    | DSess reads d => map (fun x => List.length (fst x)) reads = [1; 1500; 500]%nat /\
                       snd (last reads ([], None)) = Some DEeof /\ d_prog d = [104; 105]%N
    | DSFuel => False
    end
  | _ => False
  end.
Proof.
  cbn zeta. split.
  { constructor; [left; reflexivity|]. constructor; [right; reflexivity|]. constructor; [left; reflexivity|constructor]. }
  vm_compute. repeat split.
Qed.
