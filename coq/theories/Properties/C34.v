(* Properties/C34.v — Pkt-line and sideband framing round-trip under any chunking. *)
From Coq Require Import List NArith ZArith Bool.
From GoGit Require Import Base.Out Model.PktLine Model.Sideband Proofs.C34Stream.
Import ListNotations.

Theorem C34_chunking : forall (r : reader) (n : nat),
  fst (take r n) = firstn n (concat r) /\ concat (snd (take r n)) = skipn n (concat r).
Proof. exact take_concat. Qed.
Print Assumptions C34_chunking.
