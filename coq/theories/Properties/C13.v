(* Properties/C13.v — Reference name validation agrees with git check-ref-format.
   Only statements here; proofs live in Proofs/C13.v.
   G = Model/RefName.validate (plumbing.ReferenceName.Validate after the repair
   "fix: ReferenceName.Validate accepts a component equal to @"),
   S = Spec/CheckRefFormat.git_check (git's check_refname_format, flags = 0). *)
From Coq Require Import List NArith Bool String.
From GoGit Require Import Base.Out Model.RefStrings Model.RefName Spec.CheckRefFormat Proofs.C13.
Import ListNotations.
Local Open Scope N_scope.

(* FULL statement.  For every byte string without a NUL byte (a NUL cannot be
   passed to git on a command line; C strings end there) other than the
   documented one-level exception "HEAD": go-git accepts the name exactly when
   git check-ref-format accepts it and the documented leading-dash restriction
   for branch and tag short names holds; the transcription of git's loop never
   runs out of fuel. *)
Theorem C13_agrees : forall s,
  no_nul s = true -> s <> HEADname ->
  git_check s <> OutOfFuel /\ validate s = git_valid s && dash_rule s.
Proof. exact validate_agrees. Qed.
Print Assumptions C13_agrees.

(* names containing a NUL byte (not expressible for git) are always refused *)
Theorem C13_nul_refused : forall s, In 0 s -> validate s = false.
Proof. exact validate_nul. Qed.
Print Assumptions C13_nul_refused.

(* the carved-out exception, made explicit: go-git accepts HEAD, plain
   `git check-ref-format HEAD` (no --allow-onelevel) does not *)
Example C13_head_exception : validate HEADname = true /\ git_check HEADname = Invalid.
Proof. vm_compute. split; reflexivity. Qed.

(* non-vacuity and the repaired defect: a component equal to "@" is valid on
   both sides, the whole name "@" and "@{" are not; the dash rule only bites
   directly below refs/heads/ and refs/tags/ *)
Example C13_at_component :
  let n := bytes_of_string "refs/heads/@"%string in
  no_nul n = true /\ validate n = true /\ git_check n = Valid.
Proof. vm_compute. repeat split. Qed.
Example C13_at_alone : validate [64] = false /\ git_check [64] = Invalid.
Proof. vm_compute. split; reflexivity. Qed.
Example C13_at_brace :
  let n := bytes_of_string "refs/heads/a@{b"%string in validate n = false /\ git_check n = Invalid.
Proof. vm_compute. split; reflexivity. Qed.
Example C13_dash :
  let a := bytes_of_string "refs/heads/-x"%string in
  let b := bytes_of_string "refs/heads/a/-x"%string in
  validate a = false /\ git_check a = Valid /\ dash_rule a = false /\
  validate b = true /\ git_check b = Valid /\ dash_rule b = true.
Proof. vm_compute. repeat split. Qed.
