(* Properties/C13.v — Reference name validation agrees with git check-ref-format.
   Only statements here; proofs live in Proofs/C13.v.
   G = Model/RefName.validate (plumbing.ReferenceName.Validate as it is),
   S = Spec/CheckRefFormat.git_check (git's check_refname_format, flags = 0).

   FULL statement (the property): for every byte string s without a NUL byte
   (a NUL cannot be passed to git on a command line; C strings end there) other
   than the documented one-level exception "HEAD",
       validate s = git_valid s && dash_rule s
   i.e. go-git accepts s exactly when git check-ref-format accepts it and the
   documented leading-dash restriction for branch / tag short names holds.
   The faithful model refutes it (C13_agrees_refuted); the strongest true
   statements are C13_agrees_exact (all names: one extra rule, named) and
   C13_agrees_partial (the full statement under a boolean guard). *)
From Coq Require Import List NArith Bool String.
From GoGit Require Import Base.Out Model.RefStrings Model.RefName Spec.CheckRefFormat Proofs.C13.
Import ListNotations.
Local Open Scope N_scope.

(* the full statement is false of the code as it is: refs/heads/@ is valid for
   git (rule 9 forbids only the whole name "@"), go-git rejects every component "@" *)
Theorem C13_agrees_refuted :
  exists s, no_nul s = true /\ s <> HEADname /\ validate s <> (git_valid s && dash_rule s).
Proof. exact validate_agrees_refuted. Qed.
Print Assumptions C13_agrees_refuted.

(* for ALL names: go-git = git's rules + the dash rule + "no component is @";
   the transcription of git's loop never runs out of fuel *)
Theorem C13_agrees_exact : forall s,
  no_nul s = true -> s <> HEADname ->
  git_check s <> OutOfFuel /\ validate s = git_valid s && dash_rule s && no_at_component s.
Proof. exact validate_exact. Qed.
Print Assumptions C13_agrees_exact.

(* the full statement under the guard "no component equal to @" *)
Theorem C13_agrees_partial : forall s,
  no_nul s = true -> s <> HEADname -> no_at_component s = true ->
  git_check s <> OutOfFuel /\ validate s = git_valid s && dash_rule s.
Proof. exact validate_agrees_partial. Qed.
Print Assumptions C13_agrees_partial.

(* names containing a NUL byte (not expressible for git) are always refused *)
Theorem C13_nul_refused : forall s, In 0 s -> validate s = false.
Proof. exact validate_nul. Qed.
Print Assumptions C13_nul_refused.

(* the carved-out exception, made explicit: go-git accepts HEAD, plain
   `git check-ref-format HEAD` (no --allow-onelevel) does not *)
Example C13_head_exception : validate HEADname = true /\ git_check HEADname = Invalid.
Proof. vm_compute. split; reflexivity. Qed.

(* non-vacuity: the guard holds for ordinary names; "@" inside a component, the
   whole name "@" and "@{" behave alike on both sides; the dash rule only bites
   directly below refs/heads/ and refs/tags/ *)
Example C13_guard_nonvacuous :
  let n := bytes_of_string "refs/heads/user@example.com/topic"%string in
  no_nul n = true /\ no_at_component n = true /\ validate n = true /\ git_check n = Valid.
Proof. vm_compute. repeat split. Qed.
Example C13_at_component :
  let n := bytes_of_string "refs/heads/@"%string in
  no_at_component n = false /\ validate n = false /\ git_check n = Valid.
Proof. vm_compute. repeat split. Qed.
Example C13_at_alone : validate [64] = false /\ git_check [64] = Invalid.
Proof. vm_compute. split; reflexivity. Qed.
Example C13_at_brace :
  let n := bytes_of_string "refs/heads/a@{b"%string in validate n = false /\ git_check n = Invalid.
Proof. vm_compute. split; reflexivity. Qed.
Example C13_dash :
  let a := bytes_of_string "refs/heads/-x"%string in
  let b := bytes_of_string "refs/heads/a/-x"%string in
  validate a = false /\ git_check a = Valid /\ dash_rule a = false /\
  validate b = true /\ git_check b = Valid /\ dash_rule b = true.
Proof. vm_compute. repeat split. Qed.
