(* Properties/C23.v — Concurrent reads on shared storage are correct and
   race-free: PARTIAL by design (DESIGN.md §4.C23).

   Proved here, for EVERY interleaving of the model (Model/IndexPublish.v:
   requireIndex with its singleflight, Reindex, the same-instance pack writer's
   Notify, lookups snapshotting s.packs, other instances adding packs and loose
   objects; every muI critical section is one atomic step): the publication
   protocol is safe.  NOT provable in this model and only exercised by the
   correspondence (stress scenarios, fd-pool capacities, `go build -race` in
   the thorough tier): freedom from data races in the Go memory model,
   spurious I/O errors under descriptor pressure, and what happens when another
   instance deletes packs (repack).  Statements only; proofs in Proofs/C23.v. *)
From Coq Require Import List NArith Bool.
From GoGit Require Import Model.IndexPublish Proofs.C23 Model.IdxRefs Proofs.C23refs.
Import ListNotations.
Local Open Scope N_scope.

(* a finished lookup of an object of the initial repository found it; a lookup
   that answered "found" is backed by the repository as it is now — so an object
   that is still absent at the end was reported not found.  Any threads, any
   schedule. *)
Theorem C23_lookup_stable : forall ipacks iloose ts sched k b,
  forallb starting ts = true ->
  let st := run (init_state ipacks iloose ts) sched in
  In (TLookupDone k b) (threads st) ->
  (init_has ipacks iloose k = true -> b = true) /\
  (now_has (sh st) k = false -> b = false).
Proof. exact lookup_stable. Qed.
Print Assumptions C23_lookup_stable.

(* whatever is published, and whatever snapshot a reader holds, contains every
   pack of the initial repository and only packs that exist; a goroutine past
   requireIndex never sees a nil index; Notify never writes into a nil map *)
Theorem C23_snapshot_consistent : forall ipacks iloose ts sched,
  forallb starting ts = true ->
  let st := run (init_state ipacks iloose ts) sched in
  (forall l, pub (sh st) = Some l -> incl ipacks l /\ incl l (disk (sh st))) /\
  (forall k snap, In (TLookupSearch k snap) (threads st) -> incl ipacks snap /\ incl snap (disk (sh st))) /\
  (forall k, In (TLookupSnap k) (threads st) -> pub (sh st) <> None) /\
  (forall p, In (TNotifyPublish p) (threads st) -> pub (sh st) <> None) /\
  panicked (sh st) = false.
Proof. exact snapshot_consistent. Qed.
Print Assumptions C23_snapshot_consistent.

(* once published, the index is never nil again *)
Theorem C23_published_forever : forall ipacks iloose ts sched1 sched2,
  forallb starting ts = true ->
  pub (sh (run (init_state ipacks iloose ts) sched1)) <> None ->
  pub (sh (run (init_state ipacks iloose ts) (sched1 ++ sched2))) <> None.
Proof. exact published_forever. Qed.
Print Assumptions C23_published_forever.

(* every index set built by populateIndex is installed, closed by the loser, or
   still held by the goroutine that built it: none is lost, none closed twice *)
Theorem C23_no_leak : forall ipacks iloose ts sched,
  forallb starting ts = true ->
  let st := run (init_state ipacks iloose ts) sched in
  (n_open (sh st) = n_pub (sh st) + n_closed (sh st) + holders (threads st))%nat.
Proof. exact no_leak. Qed.
Print Assumptions C23_no_leak.

(* non-vacuity: a schedule in which a cold-loading reader loses against a
   Reindex that publishes in between — the loser closes its index set, and all
   three lookups are answered from a consistent snapshot *)
Example C23_loser_closes :
  let st := run (init_state [5] 0 [lookup 0; TReFlight; lookup 1; lookup 2])
                [0;0;0;0; 1;1;1; 0;0;0;0;0; 1; 2;2;2;2; 3;3;3;3]%nat in
  n_open (sh st) = 2%nat /\ n_pub (sh st) = 1%nat /\ n_closed (sh st) = 1%nat /\
  threads st = [TLookupDone 0 true; TReDone; TLookupDone 1 false; TLookupDone 2 true].
Proof. vm_compute. repeat split. Qed.

(* ---- reference accounting of LazyIndex iterators (Model/IdxRefs.v) ----
   Readers, lazyPrefixIter iterators (as HashesWithPrefix drives them: eager
   release at the first entry without the prefix, exhaustion at the end of the
   bucket, release inside EntriesWithPrefix, early Close, repeated Close) and
   pool evictions on one .idx SharedFile, in EVERY interleaving: the reference
   count is exactly the number of goroutines holding a reference; every
   acquired reference is released exactly once (acquires = releases + live
   references, no Release ever finds the count at zero); a descriptor is open
   whenever somebody holds a reference, and no ReadAt ever hits a descriptor
   the pool has closed. *)
Theorem C23_refs_exact : forall ts sched, forallb istarting ts = true ->
  let st := irun true (iinit ts) sched in
  refs (ish st) = iholders (ithreads st) /\
  n_acq (ish st) = (n_rel (ish st) + refs (ish st))%nat /\
  n_ignored (ish st) = 0%nat /\
  bad (ish st) = false /\
  ((0 < refs (ish st))%nat -> fopen (ish st) = true).
Proof. exact refs_exact. Qed.
Print Assumptions C23_refs_exact.

(* what the invariant excludes: an iterator whose eager release does not clear
   it.idx releases the same reference again in Close(); the surplus Release
   takes the reference of a concurrent reader, the pool evicts the "unpinned"
   file and the reader's next ReadAt finds the descriptor closed *)
Theorem C23_refs_unclear_refuted :
  let st := irun false (iinit [RdStart 2; ItStart 0 TMismatch; Evictor 1])
                 [(0, Adv); (1, Adv); (1, Adv); (1, Adv); (1, Adv); (2, Adv); (0, Adv)]%nat in
  bad (ish st) = true /\ refs (ish st) = 0%nat /\ iholders (ithreads st) = 1%nat.
Proof. vm_compute. repeat split. Qed.
Print Assumptions C23_refs_unclear_refuted.

(* the same schedule with the code as it is *)
Example C23_refs_same_schedule_ok :
  let st := irun true (iinit [RdStart 2; ItStart 0 TMismatch; Evictor 1])
                 [(0, Adv); (1, Adv); (1, Adv); (1, Adv); (1, Adv); (2, Adv); (0, Adv)]%nat in
  bad (ish st) = false /\ refs (ish st) = 1%nat /\ latch (ish st) = true.
Proof. vm_compute. repeat split. Qed.
