(* Properties/C47.v — Revision expressions resolve as git rev-parse resolves them.
   Statements only; proofs in Proofs/C47.v.

   G = Model/Revision.v (internal/revision parser + Repository.ResolveRevision as they are),
   S = Spec/GitRev.v (git's get_oid_with_context on the same items; compared with the git
   binary on every case of every run).  The full statement "whatever go-git resolves, git
   resolves to the same commit" is FALSE of the code as it is — six independent refutations
   below, each replayed on the real code as a known finding — and the strongest statement
   that holds is C47_eq_git_partial: outside those six classes (boolean guard [safe]) the
   two resolvers agree, for every repository and every item list. *)
From Coq Require Import List Arith NArith ZArith Bool String.
From GoGit Require Import Base.Out Spec.Dag Model.CommitWalk Model.Revision Spec.GitRev Proofs.C47.
Import ListNotations.

Theorem C47_eq_git_partial : forall matches rp items cur n,
  repo_ok rp = true ->
  (forall c, cur = Some c -> c < nnodes (r_dag rp)) ->
  safe matches rp items cur = true ->
  resolve_items matches rp items cur = ROk n ->
  git_items matches rp items cur = ROk n.
Proof. exact resolve_sound. Qed.
Print Assumptions C47_eq_git_partial.

(* git's ^{/regex} walk (most recent pending commit first) finds a match iff one is reachable *)
Theorem C47_git_regex_walk : forall g hit (c : node),
  dag_closed g = true -> c < nnodes g ->
  match git_oneline g hit (S (nnodes g + nedges g)) [c] [c] with
  | Some x => hit x = true /\ reach g c x
  | None => forall x, reach g c x -> hit x = false
  end.
Proof.
  intros g hit c Hc Hlt.
  apply (oneline_spec g Hc hit c Hlt (S (nnodes g + nedges g)) [c] [c] []).
  - constructor.
    + constructor; [intros [] | constructor].
    + intros x. simpl. tauto.
    + constructor.
    + intros x [].
    + intros x [Hx|[]]. subst x. constructor.
    + intros x [].
    + intros x Hx [].
    + intros y p [].
    + now left.
  - simpl. apply Nat.lt_succ_r. apply Nat.le_trans with (nnodes g); [apply Nat.le_sub_l | apply Nat.le_add_r].
Qed.
Print Assumptions C47_git_regex_walk.

Local Open Scope string_scope.

(* ---- a small repository for the refutations: 0 <- 1 <- 2 (main), ids chosen so that two
   commits share the prefix "ab12", one branch is named like the prefix of another commit *)
Definition id (s : string) : string := (s ++ "000000000000000000000000000000000000")%string.
Definition rp0 : repo :=
  mk_repo [[]; [0]; [1]; [0]; [2; 3]] [10; 20; 30; 25; 40]%Z
          ["7720410a"; "62756720746167206d0a"; "6d61696e0a"; "772042320a"; "6d657267650a"]
          [("ab12000000000000000000000000000000000000", kc 0); ("ab12100000000000000000000000000000000000", kc 1);
           (id "cd34", kc 2); (id "ef56", kc 3); (id "f789", kc 4)]
          [("HEAD", rs "refs/heads/main"); ("refs/heads/main", rh (id "f789"));
           ("refs/heads/cd34", rh "ab12000000000000000000000000000000000000")].

Definition resolve_str (s : string) : rres :=
  match parse (bytes_of_string s) with POk items => resolve_items lit_match rp0 items None | _ => RErr end.
Definition git_str (items : list item) : rres := git_items lit_match rp0 items None.

Example C47_rp0_ok : repo_ok rp0 = true. Proof. vm_compute. reflexivity. Qed.

(* 1. a prefix shorter than 4 digits resolves (git: fails) *)
Theorem C47_short_prefix_refuted :
  resolve_str "cd" = ROk 2 /\ git_str [IRef (b "cd")] = RNotFound.
Proof. vm_compute. split; reflexivity. Qed.

(* 2. an ambiguous prefix (two commits start with ab12) resolves to the first candidate (git: fails) *)
Theorem C47_ambiguous_refuted :
  resolve_str "ab12" = ROk 0 /\ git_str [IRef (b "ab12")] = RNotFound /\
  resolve_str "ab121" = ROk 1 /\ git_str [IRef (b "ab121")] = ROk 1.
Proof. vm_compute. repeat split; reflexivity. Qed.

(* 3. an abbreviated id wins over a branch of that name (git: the branch) *)
Theorem C47_hexlike_refname_refuted :
  resolve_str "cd34" = ROk 2 /\ git_str [IRef (b "cd34")] = ROk 0.
Proof. vm_compute. split; reflexivity. Qed.

(* 4. ^{/text} whose last word is a type name is parsed as a type peel and the text is dropped *)
Theorem C47_regex_type_word_refuted :
  parse (bytes_of_string "main^{/bug tag}") = POk [IRef (b "main"); ICaretType (b "tag")] /\
  resolve_str "main^{/bug tag}" = ROk 4 /\
  git_str [IRef (b "main"); ICaretReg (b "bug tag") false] = ROk 1.
Proof. vm_compute. repeat split; reflexivity. Qed.

(* 5. the token after ^{} is lost *)
Theorem C47_token_after_empty_braces_refuted :
  parse (bytes_of_string "main^{}^") = POk [IRef (b "main"); ICaretType (b "tag")] /\
  resolve_str "main^{}^" = ROk 4 /\
  git_str [IRef (b "main"); ICaretType (b "tag"); ICaret 1] = ROk 2.
Proof. vm_compute. repeat split; reflexivity. Qed.

(* 6. ^{/w}: first match of the depth-first walk, not of git's date-ordered walk *)
Theorem C47_regex_walk_order_refuted :
  resolve_str "main^{/w}" = ROk 0 /\ git_str [IRef (b "main"); ICaretReg (b "w") false] = ROk 3.
Proof. vm_compute. split; reflexivity. Qed.

(* non-vacuity of the guard: expressions outside the six classes pass it and agree *)
Example C47_safe_examples :
  forallb (fun s => match parse (bytes_of_string s) with
                    | POk items => safe lit_match rp0 items None
                                   && match resolve_items lit_match rp0 items None, git_items lit_match rp0 items None with
                                      | ROk a, ROk b => Nat.eqb a b | _, _ => false end
                    | _ => false end)
          ["main"; "HEAD~2"; "@^2"; "main^{/merge}~1"; "ef56"; "ef5600^{commit}^"; "heads/main^1^{}"; "main^{/bug}^0"]%string
  = true.
Proof. vm_compute. reflexivity. Qed.
