(* Properties/C47.v — Revision expressions resolve as git rev-parse resolves them. *)
From Coq Require Import List NArith Bool.
From GoGit Require Import Base.Out Model.Revision.
Import ListNotations.

Theorem C47_scan_total : forall s, exists t l r, scan s = (t, l, r).
Proof. intros s. destruct (scan s) as [[t l] r]. now exists t, l, r. Qed.
Print Assumptions C47_scan_total.
