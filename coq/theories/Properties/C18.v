(* Properties/C18.v — Objects are readable immediately after a successful write.
   Only statements here; proofs live in Proofs/C18.v.

   G = Model/ObjVis.v (dotgit list caches, gates, handle catalog, writers,
   pack index), S = Spec/ObjDisk.v (lookups answer from what the successful
   writes put on disk).  [guard c] = the repaired tree, or no ExclusiveAccess.
   The full statement (every configuration) is FALSE of the tree before the
   repair `fix: dotgit: forget cached object/pack lists when a writer closes`:
   see the two _refuted theorems, kept as a record of the defect. *)
From Coq Require Import List NArith Bool.
From GoGit Require Import Model.ObjVis Spec.ObjDisk Proofs.C18.
Import ListNotations.
Local Open Scope N_scope.

(* every history of writers opened/closed, deletions, Reindex and lookups, from
   any initial repository: the implementation model gives the answers of the
   abstract disk, step by step *)
Theorem C18_refines_disk : forall c l0 p0 ops, guard c = true ->
  snd (run c (init_st l0 p0) ops) = snd (spec_run (init_disk l0 p0) ops).
Proof. exact refines_disk. Qed.
Print Assumptions C18_refines_disk.

(* once the writer in slot w (writing object k) is closed, every lookup of k
   (has, size, get, iteration, prefix search) finds it, whatever reads, writers,
   Reindex happened before, in between (ops1: e.g. lookups while the writer was
   open) and after (ops2), as long as k's loose file is not deleted *)
Theorem C18_visible_after_close : forall c l0 p0 ops1 w k ops2 q, guard c = true ->
  slot_get w (ow (fst (run c (init_st l0 p0) ops1))) = Some k ->
  forallb (fun o => negb (is_del k o)) ops2 = true ->
  is_lookup k q = true ->
  finds k q (last (snd (run c (init_st l0 p0) (ops1 ++ CloseObj w :: ops2 ++ [q]))) ROk) = true.
Proof. exact visible_after_close. Qed.
Print Assumptions C18_visible_after_close.

(* the same for a pack writer: every object of the pack, every later history *)
Theorem C18_visible_after_pack_close : forall c l0 p0 ops1 w p k ops2 q, guard c = true ->
  slot_get w (pw (fst (run c (init_st l0 p0) ops1))) = Some p ->
  mem k p = true ->
  is_lookup k q = true ->
  finds k q (last (snd (run c (init_st l0 p0) (ops1 ++ ClosePack w :: ops2 ++ [q]))) ROk) = true.
Proof. exact visible_after_pack_close. Qed.
Print Assumptions C18_visible_after_pack_close.

(* in every reachable state every indexed pack passes the hasPack gate: the
   pack chosen by findObjectInPackfile (MRU hint, object cache — not modelled)
   cannot turn a lookup into ErrPackfileNotFound *)
Theorem C18_gate_open : forall c l0 p0 ops p, guard c = true ->
  let s := fst (run c (init_st l0 p0) ops) in
  memp p (index_val s) = true -> snd (pack_handle c s p) = true.
Proof. exact gate_open. Qed.
Print Assumptions C18_gate_open.

(* without ExclusiveAccess the caches are never consulted: holds with or without the repair *)
Theorem C18_nonexclusive : forall fx l0 p0 ops,
  snd (run (Cfg false fx) (init_st l0 p0) ops) = snd (spec_run (init_disk l0 p0) ops).
Proof. intros. apply refines_disk. unfold guard. cbn. apply orb_true_r. Qed.
Print Assumptions C18_nonexclusive.

(* the tree before the repair, ExclusiveAccess: [NewObject; Has x; Close; Has new] *)
Theorem C18_unrepaired_refuted :
  snd (run (Cfg true false) (init_st 0 []) [NewObj 0 1; Has 2; CloseObj 0; Has 1; Get 1 TAny; Iter TAny])
  = [ROk; RBool false; ROk; RBool false; RErr ENotFound; RSet 0].
Proof. exact unrepaired_refuted. Qed.
Print Assumptions C18_unrepaired_refuted.

(* … and the pack analogue: the index knows the object, the pack gate refuses it *)
Theorem C18_unrepaired_pack_refuted :
  snd (run (Cfg true false) (init_st 0 [9]) [NewPack 0 22; Packs; ClosePack 0; Has 1; Get 1 TAny; Iter TAny; Packs])
  = [ROk; RPacks [9]; ROk; RBool true; RErr EPackNotFound; RSet 9; RPacks [9]].
Proof. exact unrepaired_pack_refuted. Qed.
Print Assumptions C18_unrepaired_pack_refuted.

(* non-vacuity: the premises hold of the witness history in the repaired
   exclusive configuration, and the lookups there succeed *)
Example C18_premises_hold :
  guard (Cfg true true) = true /\
  slot_get 0%nat (ow (fst (run (Cfg true true) (init_st 0 []) [NewObj 0 1; Has 2]))) = Some 1 /\
  snd (run (Cfg true true) (init_st 0 []) [NewObj 0 1; Has 2; CloseObj 0; Has 1; Get 1 TAny; Iter TAny])
  = [ROk; RBool false; ROk; RBool true; ROk; RSet 2].
Proof. vm_compute. repeat split. Qed.

Example C18_pack_premises_hold :
  slot_get 0%nat (pw (fst (run (Cfg true true) (init_st 0 [9]) [NewPack 0 22; Packs]))) = Some 22 /\
  mem 1 22 = true /\
  snd (run (Cfg true true) (init_st 0 [9]) [NewPack 0 22; Packs; ClosePack 0; Has 1; Get 1 TAny; Iter TAny; Packs])
  = [ROk; RPacks [9]; ROk; RBool true; ROk; RSet 31; RPacks [9; 22]].
Proof. vm_compute. repeat split. Qed.

(* writer slots are arbitrary: the theorems above cover any number of object and
   pack writers open at once, writers that are never closed, and RawObjectWriter
   calls abandoned by a failing WriteHeader (FailObj).  Instance: two object
   writers open, a lookup rebuilds the cached list, the first closes while the
   second is still open (and a third was abandoned): its object is found at once *)
Example C18_two_open_writers :
  slot_get 0%nat (ow (fst (run (Cfg true true) (init_st 0 []) [FailObj; NewObj 0 1; NewObj 1 2; Has 5]))) = Some 1 /\
  snd (run (Cfg true true) (init_st 0 [])
         [FailObj; NewObj 0 1; NewObj 1 2; Has 5; CloseObj 0; Has 1; Size 1; Get 1 TAny; Iter TAny; Prefix 1 20;
          NewPack 0 12; NewPack 1 48; Packs; ClosePack 0; Get 2 TAny; Iter TAny; CloseObj 1; Has 2])
  = [RErr EOther; ROk; ROk; RBool false; ROk; RBool true; ROk; ROk; RSet 2; RNum 1;
     ROk; ROk; RPacks []; ROk; ROk; RSet 14; ROk; RBool true].
Proof. vm_compute. split; reflexivity. Qed.
