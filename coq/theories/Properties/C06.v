(* Properties/C06.v — stub while the development is being built *)
From Coq Require Import List NArith Bool.
From GoGit Require Import Base.Out Model.Delta Spec.GitDelta.
Import ListNotations.
Local Open Scope N_scope.

Example C06_stub : patch_delta [104;105] [2;3;144;2;1;33] = Ok [104;105;33].
Proof. vm_compute. reflexivity. Qed.
