(* Properties/C06.v — Delta encoding round-trips and all delta appliers agree
   with git.  Statements only; proofs in Proofs/C06{Leaf,Apply,Diff}.v.

   G1 = patch_delta (patchDelta), G1' = patch_delta_wrapper (PatchDelta),
   G2 = reader_from_delta (ReaderFromDelta), G3 = patch_delta_writer
   (patchDeltaWriter; the flag says whether the base is a *bytes.Reader),
   S = git_patch_delta (git 2.39 patch-delta.c).  to_g forgets the error class.

   FULL STATEMENT of the applier half (refuted on the unchanged tree, see the
   _refuted theorems):  forall src d, to_g (G src d) = git_patch_delta src d. *)
From Coq Require Import List NArith ZArith Bool String.
From GoGit Require Import Base.Out Gen.C06 Model.Delta Spec.GitDelta
  Proofs.C06Leaf Proofs.C06Apply Proofs.C06Diff Proofs.C06DiffGit.
Import ListNotations.
Local Open Scope N_scope.

(* ---- the buffer applier is git's patch_delta on every delta of at least 4
   bytes whose two size headers decode (<= 9 bytes each) and whose first header
   does not run to the end of the delta (git_guard, boolean) *)
Theorem C06_apply_eq_git_partial : forall src d,
  bytes_ok d = true -> git_guard d = true ->
  to_g (patch_delta src d) = git_patch_delta src d.
Proof. exact apply_eq_git. Qed.
Print Assumptions C06_apply_eq_git_partial.

(* ... and the guard cannot be dropped: each conjunct has a witness on which
   go-git and git differ (below git's DELTA_SIZE_MIN; first header reaching the
   end of the delta; a 10-byte zero-padded size that git accepts) *)
Theorem C06_apply_eq_git_refuted :
  (exists src d, bytes_ok d = true /\ to_g (patch_delta src d) <> git_patch_delta src d /\ len d <? 4 = true) /\
  (exists src d, bytes_ok d = true /\ to_g (patch_delta src d) <> git_patch_delta src d /\ 4 <=? len d = true
                 /\ leb_buf d = Ok (len src, [])) /\
  (exists src d out, bytes_ok d = true /\ patch_delta src d = Err EOverflow /\ git_patch_delta src d = GOk out).
Proof.
  split; [|split].
  - exists [104; 101; 108; 108; 111], [5; 0]. vm_compute. repeat split; discriminate.
  - exists [97], [129; 128; 128; 128]. vm_compute. repeat split; discriminate.
  - exists [104; 101; 108; 108; 111], [133; 128; 128; 128; 128; 128; 128; 128; 128; 0; 4; 144; 4], [104; 101; 108; 108].
    vm_compute. repeat split.
Qed.
Print Assumptions C06_apply_eq_git_refuted.

(* ---- the streaming applier: whenever its reader-side header decoding succeeds
   it IS the buffer applier (same bytes, same error class), otherwise it rejects;
   under the boolean guard it is git's patch_delta *)
Theorem C06_stream_eq_git_partial : forall src d,
  (bytes_ok d = true -> stream_guard d = true -> to_g (reader_from_delta src d) = git_patch_delta src d) /\
  (reader_from_delta src d = patch_delta src d \/ exists e, reader_from_delta src d = Err e).
Proof.
  intros src d. split; [apply stream_eq_git|].
  destruct (leb_rd d) as [[s d1]|e] eqn:H1.
  - destruct (leb_rd d1) as [[t d2]|e] eqn:H2.
    + left. eapply stream_eq_buffer; eassumption.
    + right. apply stream_rejects_otherwise. intros s' d1' t' d2' A B. congruence.
  - right. apply stream_rejects_otherwise. intros s' d1' t' d2' A B. congruence.
Qed.
Print Assumptions C06_stream_eq_git_partial.

(* the guard is needed: git accepts a delta that ends inside the target-size
   varint (empty target), the streaming appliers reject it *)
Theorem C06_stream_eq_git_refuted :
  exists src d, bytes_ok d = true /\ git_patch_delta src d = GOk [] /\
    reader_from_delta src d = Err EInvalid /\ patch_delta_writer true src d = Err EInvalid.
Proof. exists [104; 101; 108; 108; 111], [5; 128; 128; 128]. vm_compute. repeat split. Qed.
Print Assumptions C06_stream_eq_git_refuted.

(* ---- the pack parser's applier with a *bytes.Reader base (the only base the
   parser passes) *)
Theorem C06_writer_eq_git_partial : forall src d,
  bytes_ok d = true -> stream_guard d = true ->
  to_g (patch_delta_writer true src d) = git_patch_delta src d.
Proof. exact writer_eq_git. Qed.
Print Assumptions C06_writer_eq_git_partial.

(* ---- any other io.ReaderAt base: the declared source size is not checked.
   Equal to the bytes.Reader case exactly when the declared size is right ... *)
Theorem C06_writer_srcsz_partial : forall src d s d1,
  leb_rd d = Ok (s, d1) -> s = len src ->
  patch_delta_writer false src d = patch_delta_writer true src d.
Proof. exact writer_other_eq. Qed.
Print Assumptions C06_writer_srcsz_partial.

(* ... and otherwise it accepts what git (and the other appliers) reject, and can
   succeed with fewer bytes than the declared target size *)
Theorem C06_writer_srcsz_refuted :
  (exists src d out, patch_delta_writer false src d = Ok out /\ git_patch_delta src d = GReject
                     /\ patch_delta_writer true src d = Err EInvalid) /\
  (exists src d out, patch_delta_writer false src d = Ok out /\ target_size d = Some 7 /\ len out = 3).
Proof.
  split.
  - exists [104; 101; 108; 108; 111], [6; 5; 144; 5], [104; 101; 108; 108; 111]. vm_compute. repeat split.
  - exists [104; 101; 108; 108; 111], [9; 7; 145; 2; 7], [108; 108; 111]. vm_compute. repeat split.
Qed.
Print Assumptions C06_writer_srcsz_refuted.

(* ---- the exported wrapper PatchDelta *)
Theorem C06_wrapper_partial : forall src d,
  src <> [] -> 2 <= len d -> patch_delta_wrapper src d = patch_delta src d.
Proof. exact wrapper_eq. Qed.
Print Assumptions C06_wrapper_partial.

(* empty source: git applies an insert-only delta, PatchDelta refuses it *)
Theorem C06_wrapper_refuted :
  exists d out, bytes_ok d = true /\ git_patch_delta [] d = GOk out /\ patch_delta [] d = Ok out /\
    patch_delta_wrapper [] d = Err EInvalid.
Proof. exists [0; 3; 3; 97; 98; 99], [97; 98; 99]. vm_compute. repeat split. Qed.
Print Assumptions C06_wrapper_refuted.

(* ---- no applier succeeds with an output whose length is not the declared target size *)
Theorem C06_no_partial_success : forall src d out,
  bytes_ok d = true -> patch_delta src d = Ok out -> target_size d = Some (len out).
Proof. exact no_partial_success. Qed.
Print Assumptions C06_no_partial_success.

Theorem C06_no_partial_success_stream : forall src d out,
  bytes_ok d = true -> reader_from_delta src d = Ok out -> target_size d = Some (len out).
Proof. exact no_partial_success_stream. Qed.
Print Assumptions C06_no_partial_success_stream.

Theorem C06_no_partial_success_writer : forall src d out,
  bytes_ok d = true -> patch_delta_writer true src d = Ok out -> target_size d = Some (len out).
Proof. exact no_partial_success_writer. Qed.
Print Assumptions C06_no_partial_success_writer.

(* ---- diff round trip, for EVERY candidate function standing for the hash index.
   len src <= 2^32 is forced by the four offset bytes of encodeCopyOperation;
   len tgt < 2^63 by the 9-byte LEB128 rule (both hold for Go slices on the
   largest sources the encoder can address). *)
Theorem C06_diff_roundtrip : forall (pick : nat -> option nat) src tgt,
  len src <= 2 ^ 32 -> len tgt < 2 ^ 63 ->
  exists d, diff_delta pick src tgt = Some d /\ patch_delta src d = Ok tgt.
Proof. exact diff_roundtrip. Qed.
Print Assumptions C06_diff_roundtrip.

Theorem C06_diff_roundtrip_stream : forall (pick : nat -> option nat) src tgt,
  len src <= 2 ^ 32 -> len tgt < 2 ^ 63 ->
  exists d, diff_delta pick src tgt = Some d /\ reader_from_delta src d = Ok tgt.
Proof. exact diff_roundtrip_stream. Qed.
Print Assumptions C06_diff_roundtrip_stream.

Theorem C06_diff_roundtrip_writer : forall (pick : nat -> option nat) src tgt,
  len src <= 2 ^ 32 -> len tgt < 2 ^ 63 ->
  exists d, diff_delta pick src tgt = Some d /\ patch_delta_writer true src d = Ok tgt.
Proof. exact diff_roundtrip_writer. Qed.
Print Assumptions C06_diff_roundtrip_writer.

(* git's own patch_delta maps go-git's delta back to the target (non-empty targets: git refuses the
   2-byte delta of an empty target, known finding below-git-min-delta-size) *)
Theorem C06_diff_git : forall (pick : nat -> option nat) src tgt,
  bytes_ok tgt = true -> tgt <> [] -> len src <= 2 ^ 32 -> len tgt < 2 ^ 63 ->
  exists d, diff_delta pick src tgt = Some d /\ git_patch_delta src d = GOk tgt.
Proof. exact diff_git. Qed.
Print Assumptions C06_diff_git.

(* ---- the fuel of the model loops is sufficient: the out-of-fuel value is never produced *)
Theorem C06_fuel_sufficient :
  (forall src d, bytes_ok d = true -> patch_delta src d <> Err EFuel) /\
  (forall pick src tgt, diff_delta pick src tgt <> None).
Proof.
  split; [exact patch_delta_fuel|].
  intros pick src tgt. unfold diff_delta.
  pose proof (diff_loop_fuel src pick (S (List.length tgt)) tgt 0%nat [] (Nat.lt_succ_diag_r _)) as H.
  destruct (diff_loop (S (List.length tgt)) pick src tgt 0 []); [discriminate|congruence].
Qed.
Print Assumptions C06_fuel_sufficient.

(* ---- the model's leaf predicates are the ones gotrans regenerates from /repo *)
Theorem C06_leaves_tied :
  (forall c, packfile_isCopyFromSrc (Z.of_N c) = is_copy_src c) /\
  (forall c, packfile_isCopyFromDelta (Z.of_N c) = is_copy_delta c) /\
  (forall sz r, packfile_invalidSize (Z.of_N sz) (Z.of_N r) = invalid_size sz r) /\
  (forall a b, packfile_sumOverflows (Z.of_N a) (Z.of_N b) = sum_overflows a b) /\
  (forall o s n, packfile_invalidOffsetSize (Z.of_N o) (Z.of_N s) (Z.of_N n) = invalid_offset_size o s n) /\
  (forall k, (Z.of_nat k * 7 >? packutil_uintBits - 7)%Z = Nat.ltb 8 k) /\
  packfile_maskContinue = Z.of_N mask_continue /\
  packutil_maskContinue = 128%Z /\ packutil_maskPayload = 127%Z /\
  packfile_maxCopySize = Z.of_N max_copy_size /\
  packfile_minDeltaSize = 2%Z /\
  packfile_s = Z.of_nat blk /\ packfile_blksz = Z.of_nat blk.
Proof. exact c06_leaves_tied. Qed.
Print Assumptions C06_leaves_tied.

(* ---- non-vacuity *)
Example C06_guard_nonvacuous :
  let d := [11; 6; 145; 6; 3; 144; 3] in   (* copy(6,3) copy(0,3) on "hello world" *)
  bytes_ok d = true /\ git_guard d = true /\ stream_guard d = true /\
  patch_delta (bytes_of_string "hello world"%string) d = Ok (bytes_of_string "worhel"%string) /\
  git_patch_delta (bytes_of_string "hello world"%string) d = GOk (bytes_of_string "worhel"%string).
Proof. vm_compute. repeat split. Qed.

(* a candidate function that proposes offset 3 everywhere; the 20-byte match at
   target offset 2 becomes a copy, the rest inserts *)
Example C06_diff_nonvacuous :
  let src := bytes_of_string "___abcdefghijklmnopqrstuvwxyz"%string in
  let tgt := bytes_of_string "XYabcdefghijklmnopqrstQRSTUVWXYZ0123456789"%string in
  exists d, diff_delta (fun _ => Some 3%nat) src tgt = Some d /\
            d = ([29; 42; 2; 88; 89; 145; 3; 20] ++ [20] ++ bytes_of_string "QRSTUVWXYZ0123456789"%string)%list /\
            patch_delta src d = Ok tgt.
Proof. eexists. vm_compute. repeat split. Qed.

(* ---- the (mask, shift) tables of decodeOffset / decodeSize are regenerated from the source too *)
Theorem C06_tables_tied :
  packfile_offsets = tbl_to_Z offsets_tbl /\ packfile_sizes = tbl_to_Z sizes_tbl.
Proof. split; [exact offsets_tbl_gen_spec | exact sizes_tbl_gen_spec]. Qed.
Print Assumptions C06_tables_tied.
