(* Properties/C50.v — Archives have git archive's content (entry lists).
   Only statements here; proofs live in Proofs/C50.v.
   G = Model/Archive.v (go-git, modes through the regenerated Gen/C50.v);
   S = Spec/GitArchive.v (git archive 2.39, validated against the binary).
   The full statement "for any tree, prefix and filter the entries are equal" is
   FALSE of the code as it is (five known findings, findings/C50.json): each
   refutation below has a witness; the _eq / _partial theorems state what holds
   under explicit boolean guards. *)
From Coq Require Import List NArith ZArith Bool String.
From GoGit Require Import Base.Out Gen.C50 Model.Archive Spec.GitArchive Proofs.C50.
Import ListNotations.
Local Open Scope N_scope.

(* tar, no path filter: for EVERY tree whose sub-trees all hold a file, link or
   gitlink (dirs_ok: what git can create from an index), every such prefix
   and commit id, go-git's entry list (names, kinds, modes, link targets,
   contents, order, pax comment) is git archive's *)
Theorem C50_tar_entries_eq : forall commit prefix f,
  dirs_ok f = true -> links_ok f = true -> prefix_ok prefix = true ->
  tar_entries commit prefix [] f = git_archive_entries false commit prefix [] f.
Proof. exact tar_nofilter_eq. Qed.
Print Assumptions C50_tar_entries_eq.

(* tar WITH literal path filters.  filters_ok: at least one filter, none empty or
   ending in '/', each the path of an existing entry, and (fits) every filter
   lying below a directory names something inside it while none lies below a
   file.  Then go-git's eager selection (MatchesPathFilter on every walked
   entry, parents included) equals git's lazy one (pathspec on files,
   directories only when something below them is written). *)
Theorem C50_tar_entries_eq_filtered : forall commit prefix fs f,
  names_ok f = true -> dirs_ok f = true -> links_ok f = true -> prefix_ok prefix = true -> filters_ok fs f = true ->
  tar_entries commit prefix fs f = git_archive_entries false commit prefix fs f.
Proof. exact tar_filtered_eq. Qed.
Print Assumptions C50_tar_entries_eq_filtered.

(* ... and so is the whole request: <commit>/<tag>/<ref>, <tree>, <rev>: *)
Theorem C50_archive_tar_eq : forall t commit prefix f,
  match t with TSub (_ :: _) => false | _ => true end = true ->
  dirs_ok f = true -> links_ok f = true -> prefix_ok prefix = true ->
  archive t FTar commit prefix [] f = git_archive t FTar commit prefix [] f.
Proof. exact archive_tar_eq. Qed.
Print Assumptions C50_archive_tar_eq.

(* ... and <rev>:<path> (after the fix: no commit id, current time) *)
Theorem C50_archive_tar_eq_sub : forall path commit prefix f sub,
  path <> [] -> no_empty_part path = true ->
  find_dir f (split_slash path []) = inr sub ->
  dirs_ok sub = true -> links_ok sub = true -> prefix_ok prefix = true ->
  archive (TSub path) FTar commit prefix [] f = git_archive (TSub path) FTar commit prefix [] f.
Proof. exact archive_tar_eq_sub. Qed.
Print Assumptions C50_archive_tar_eq_sub.

(* the mode arithmetic of the regenerated Go leaves gives git's numbers *)
Theorem C50_tar_modes :
  archive_ApplyUmaskDir (perm filemode_Dir) = 509%Z /\
  archive_ApplyUmaskDir (perm filemode_Submodule) = 509%Z /\
  archive_ApplyUmask (perm filemode_Executable) true = 509%Z /\
  archive_ApplyUmask (perm filemode_Regular) false = 436%Z /\
  archive_ApplyUmaskDir 0 = 509%Z.
Proof. exact tar_modes. Qed.
Print Assumptions C50_tar_modes.

(* literal path filters, file level: a filter list without trailing slashes,
   none lying strictly below the path p, selects a file / link / gitlink p for
   go-git exactly when git's pathspec matching selects it *)
Theorem C50_filter_file_agree : forall n p fs,
  match n with NDir _ => false | _ => true end = true ->
  forallb (fun f => negb (ends_with_slash f) && negb (has_prefix f (p ++ [SLASH]))) fs = true ->
  fs <> [] -> matches p fs = git_sel n fs p.
Proof. exact match_file_agree. Qed.
Print Assumptions C50_filter_file_agree.

(* zip: for EVERY tree (no guard) the payload — commit-id comment, file names
   and contents in order, a link's target as its content — is git's ... *)
Theorem C50_zip_files_partial : forall commit prefix f,
  match zip_entries commit prefix [] f, git_archive_entries true commit prefix [] f with
  | inr a, inr b => flat_map payload a = flat_map payload b
  | _, _ => False
  end.
Proof. exact zip_nofilter_payload. Qed.
Print Assumptions C50_zip_files_partial.

(* ... but the entry lists differ (known finding zip-layout): directories and
   gitlinks are missing, modes differ, a link is a regular file *)
Definition w_tree : forest :=
  FCons [97] (NFile false [120])
 (FCons [100] (NDir (FCons [101] (NFile true [121]) FNil))
 (FCons [108] (NLink [97])
 (FCons [115] NSub FNil))).
Theorem C50_zip_refuted :
  dirs_ok w_tree = true /\
  zip_entries None [] [] w_tree <> git_archive_entries true None [] [] w_tree.
Proof. split; [reflexivity|]. vm_compute. discriminate. Qed.
Print Assumptions C50_zip_refuted.

(* tar with an empty sub-tree (known finding empty-subtree): the guard of
   C50_tar_entries_eq cannot be dropped *)
Theorem C50_empty_dir_refuted :
  exists f, dirs_ok f = false /\ links_ok f = true /\
            tar_entries None [] [] f <> git_archive_entries false None [] [] f.
Proof.
  exists (FCons [97] (NFile false [120]) (FCons [101] (NDir FNil) FNil)).
  vm_compute. repeat split; discriminate.
Qed.
Print Assumptions C50_empty_dir_refuted.

(* path filters (known findings filter-trailing-slash, filter-nomatch-accepted) *)
Theorem C50_filter_refuted :
  tar_entries None [] [[100; 47]] w_tree <> git_archive_entries false None [] [[100; 47]] w_tree /\
  (exists l, tar_entries None [] [[97]; [122]] w_tree = inr l) /\
  git_archive_entries false None [] [[97]; [122]] w_tree = inl ENoMatch.
Proof. vm_compute. split; [discriminate|split; [eexists; reflexivity|reflexivity]]. Qed.
Print Assumptions C50_filter_refuted.

(* non-vacuity: the witness tree satisfies the guards, and the tar lists agree on it *)
Example C50_guards_hold :
  dirs_ok w_tree = true /\ links_ok w_tree = true /\
  prefix_ok (bytes_of_string "proj-1.0/"%string) = true /\ prefix_ok [] = true /\
  prefix_ok (bytes_of_string "../x/"%string) = false.
Proof. vm_compute. repeat split. Qed.

Example C50_filter_guards_hold :
  names_ok w_tree = true /\
  filters_ok [[100; 47; 101]] w_tree = true /\ filters_ok [[100]; [97]] w_tree = true /\
  filters_ok [[100; 47]] w_tree = false /\ filters_ok [[97]; [122]] w_tree = false /\
  tar_entries None [] [[100; 47; 101]] w_tree = inr [ADir [100; 47] 509; AFile [100; 47; 101] 509 [121]].
Proof. vm_compute. repeat split. Qed.

Example C50_tar_example :
  tar_entries (Some [49]) (bytes_of_string "p/"%string) [] w_tree =
  inr [APax [49]; ADir [112; 47] 509; AFile [112; 47; 97] 436 [120]; ADir [112; 47; 100; 47] 509;
       AFile [112; 47; 100; 47; 101] 509 [121]; ALink [112; 47; 108] 511 [97]; ADir [112; 47; 115; 47] 509].
Proof. vm_compute. reflexivity. Qed.
