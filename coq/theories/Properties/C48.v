From Coq Require Import List NArith Bool.
From GoGit Require Import Base.Out Model.ConfigEnc Spec.GitConfig.
Example C48_stub : True. Proof. exact I. Qed.
