(* Properties/C48.v — Configuration files mean the same to go-git and git.
   Only statements here; proofs live in Proofs/C48.v and Proofs/C48Interp.v.

   G = Model/ConfigEnc.v (format/config Encoder as it is after the CR repair;
   the seven boolean / numeric readers of config/config.go + optbool.go),
   S = Spec/GitConfig.v (git 2.39.5 config.c reader and parse.c helpers,
   validated against the git binary on every run).  The decoder (external
   gcfg scanner) is not modelled: see props/C48.py (suites decode, encode
   read-back). *)
From Coq Require Import List NArith ZArith Bool String.
From GoGit Require Import Base.Out Model.ConfigEnc Model.ConfigOpts Spec.GitConfig Proofs.C48 Proofs.C48Interp Proofs.C48Opts.
Import ListNotations.
Local Open Scope N_scope.

(* ---- any configuration go-git writes is read back by git with the same values ----
   For EVERY format.Config whose section names are non-empty [A-Za-z0-9-]*
   (sections that emit nothing are exempt), whose keys are a letter followed
   by [A-Za-z0-9-]*, whose values contain no NUL and whose subsection names
   contain no NUL and no LF — values and subsection names are otherwise
   arbitrary bytes: quotes, backslashes, '#', ';', blanks at either end, TAB,
   LF, BS, CR, high bytes — git's reader accepts the emitted text and reports
   exactly the written options, in order, section and key lower-cased,
   subsection and value byte for byte.
   Excluded and nevertheless written by the encoder (known findings, see
   findings/C48.json): NUL anywhere (enc-nul), LF in a subsection name
   (enc-subsection-newline).  Invalid section / key names are written raw too;
   go-git's own typed API (config.Config) only produces valid ones. *)
Theorem C48_git_reads_ours : forall c,
  wf c = true -> git_config_parse (encode c) = inr (canon c).
Proof. exact git_reads_ours. Qed.
Print Assumptions C48_git_reads_ours.

(* the value / subsection part of the guard is needed: with perfectly valid
   section and key names the encoder still emits text git rejects or reads
   differently (LF in a subsection name; a NUL byte, on which S is undefined
   and the git binary truncates the value) *)
Theorem C48_git_reads_ours_unguarded_refuted :
  (exists c, git_config_parse (encode c) = inl GErrSyntax) /\
  (exists c, git_config_parse (encode c) = inl GErrNul).
Proof.
  split.
  - exists [([97], [], [([97; 10; 98], [([107], [118])])])]. vm_compute. reflexivity.
  - exists [([97], [([107], [97; 0; 98])], [])]. vm_compute. reflexivity.
Qed.
Print Assumptions C48_git_reads_ours_unguarded_refuted.

(* non-vacuity: a hostile configuration satisfies the guard, and git reads it as written *)
Example C48_git_reads_ours_nonvacuous :
  let c : cfg :=
    [ (bytes_of_string "Core", [(bytes_of_string "Bare", bytes_of_string " a # b ; ""c"" \ ");
                                (bytes_of_string "x-1", [13; 97; 9; 10; 8; 13]);
                                (bytes_of_string "e", [])],
       [ ([34; 92; 32; 13; 93; 200], [(bytes_of_string "URL", [32]); (bytes_of_string "url", bytes_of_string "a  b")]);
         ([], [(bytes_of_string "k", [255; 35])]) ]);
      ([0; 10], [], []) ] in
  wf c = true /\
  git_config_parse (encode c) = inr (canon c) /\
  List.length (canon c) = 6%nat.
Proof. vm_compute. repeat split. Qed.
Print Assumptions C48_git_reads_ours_nonvacuous.

(* ---- boolean settings ----
   Full statement (false of the faithful model, for every reader):
     forall v, reader (go_value v) = git_bool v. *)

(* core.bare, remote.<n>.mirror, remote.<n>.promisor:  Get(key) == "true" *)
Theorem C48_bool_eq_true_refuted :
  exists v, git_bool v = Some true /\ go_eq_true (go_value v) = false.
Proof. exact eq_true_refuted. Qed.
Print Assumptions C48_bool_eq_true_refuted.
(* they agree on what go-git itself writes (fmt %t / FormatBool) ... *)
Theorem C48_bool_eq_true_partial : forall s,
  canonical_bool s = true -> git_bool (Some s) = Some (go_eq_true s).
Proof. exact eq_true_partial. Qed.
Print Assumptions C48_bool_eq_true_partial.
(* ... and go-git never says true where git does not *)
Theorem C48_bool_eq_true_sound : forall s,
  go_eq_true s = true -> git_bool (Some s) = Some true.
Proof. exact eq_true_sound. Qed.
Print Assumptions C48_bool_eq_true_sound.

(* core.filemode, pack.readReverseIndex, pack.writeReverseIndex:  != "false" *)
Theorem C48_bool_ne_false_refuted :
  exists s, git_bool (Some s) = Some false /\ go_ne_false s = true.
Proof. exact ne_false_refuted. Qed.
Print Assumptions C48_bool_ne_false_refuted.
Theorem C48_bool_ne_false_partial : forall s,
  canonical_bool s = true -> git_bool (Some s) = Some (go_ne_false s).
Proof. exact ne_false_partial. Qed.
Print Assumptions C48_bool_ne_false_partial.

(* extensions.worktreeConfig: strings.EqualFold(v, "true") *)
Theorem C48_bool_fold_true_refuted :
  exists s, git_bool (Some s) = Some true /\ go_fold_true s = false.
Proof. exact fold_true_refuted. Qed.
Print Assumptions C48_bool_fold_true_refuted.
Theorem C48_bool_fold_true_partial : forall s,
  folded_bool s = true -> git_bool (Some s) = Some (go_fold_true s).
Proof. exact fold_true_partial. Qed.
Print Assumptions C48_bool_fold_true_partial.

(* tag/commit.gpgSign, index.skipHash, uploadArchive.allowUnreachable: strconv.ParseBool.
   Refuted both ways: git's "yes" is unset for go-git; go-git's "t" is an error for git. *)
Theorem C48_bool_parsebool_refuted :
  (exists s, git_bool (Some s) = Some true /\ go_parse_bool s = OBUnset) /\
  (exists s, git_bool (Some s) = None /\ go_parse_bool s = OBTrue).
Proof. exact parsebool_refuted. Qed.
Print Assumptions C48_bool_parsebool_refuted.
Theorem C48_bool_parsebool_partial : forall s,
  parsebool_common s = true -> ob_of (git_bool (Some s)) = go_parse_bool s.
Proof. exact parsebool_partial. Qed.
Print Assumptions C48_bool_parsebool_partial.

(* core.protectNTFS / protectHFS: parseConfigBool ("mirrors git_parse_maybe_bool").
   Refuted: "" (git false, go-git unset), "1k" (git true, go-git unset),
   "2147483648" (git: out of range, go-git true). *)
Theorem C48_bool_configbool_refuted :
  (exists s, git_bool (Some s) = Some false /\ parse_config_bool s = OBUnset) /\
  (exists s, git_bool (Some s) = Some true /\ parse_config_bool s = OBUnset) /\
  (exists s, git_bool (Some s) = None /\ parse_config_bool s = OBTrue).
Proof. exact configbool_refuted. Qed.
Print Assumptions C48_bool_configbool_refuted.
(* equal on true/yes/on/false/no/off in any capitalisation ... *)
Theorem C48_bool_configbool_partial : forall s,
  word6 s = true -> ob_of (git_bool (Some s)) = parse_config_bool s.
Proof. exact configbool_partial_words. Qed.
Print Assumptions C48_bool_configbool_partial.
(* ... and on every plain decimal numeral (no sign, no leading zero) up to INT_MAX *)
Theorem C48_bool_configbool_partial_num : forall s n,
  plain_dec s = true -> dec_digits_val s 0 = Some n -> n <= 2147483647 ->
  ob_of (git_bool (Some s)) = parse_config_bool s.
Proof. exact configbool_partial_num. Qed.
Print Assumptions C48_bool_configbool_partial_num.

(* a valueless key ("[core] bare") is true for git; decoder.go drops gcfg's
   blank flag, every reader then sees "" *)
Theorem C48_bool_valueless_refuted :
  git_bool None = Some true /\
  go_eq_true (go_value None) = false /\ go_fold_true (go_value None) = false /\
  go_parse_bool (go_value None) = OBUnset /\ parse_config_bool (go_value None) = OBUnset.
Proof. exact valueless_refuted. Qed.
Print Assumptions C48_bool_valueless_refuted.

(* ---- numeric setting pack.window: strconv.ParseUint(v, 10, 32) vs git_config_int ----
   Full statement (false): forall s, option_map Z.of_N (go_window s) = git_int (Some s).
   Refuted: "1k" (git 1024, go-git error), "010" (git 8 — octal —, go-git 10),
   "4294967295" (git: out of range for int, go-git accepts). *)
Theorem C48_int_window_refuted :
  (exists s, git_int (Some s) = Some 1024%Z /\ go_window s = None) /\
  (exists s, git_int (Some s) = Some 8%Z /\ go_window s = Some 10) /\
  (exists s, git_int (Some s) = None /\ go_window s = Some 4294967295).
Proof. exact window_refuted. Qed.
Print Assumptions C48_int_window_refuted.
(* equal on every plain decimal numeral up to INT_MAX *)
Theorem C48_int_window_partial : forall s n,
  plain_dec s = true -> dec_digits_val s 0 = Some n -> n <= 2147483647 ->
  git_int (Some s) = Some (Z.of_N n) /\ go_window s = Some n.
Proof. exact window_partial. Qed.
Print Assumptions C48_int_window_partial.

(* non-vacuity of the guards *)
Example C48_guards_inhabited :
  canonical_bool s_true = true /\ folded_bool [84;114;85;101] = true /\
  parsebool_common [84;82;85;69] = true /\ word6 [79;102;70] = true /\
  plain_dec [50;49;52;55;52;56;51;54;52;55] = true /\
  dec_digits_val [50;49;52;55;52;56;51;54;52;55] 0 = Some 2147483647.
Proof. vm_compute. repeat split. Qed.

(* ---- read-modify-write: SetOption / AddOption / RemoveOption ----
   G = Model/ConfigOpts.v (option.go: IsKey, Get, GetAll, withoutOption,
   withAddedOption, withSettedOption).  git's keys are case-insensitive, so a
   file may spell a key `URL` or `Bare`; every Config.Marshal field goes through
   SetOption, which must replace the entry under ANY spelling. *)

(* set-then-get, for every option list, key, spelling key' of the key and value:
   Get returns the new value; every option left under any spelling of the key
   carries the new value (no stale case-variant survives); GetAll is non-empty
   and holds nothing else *)
Theorem C48_set_then_get : forall os key key' v,
  key_eq key' key = true ->
  opt_get (with_setted os key [v]) key' = v /\
  (forall o, In o (with_setted os key [v]) -> key_eq (fst o) key' = true -> snd o = v) /\
  (forall x, In x (opt_get_all (with_setted os key [v]) key') -> x = v) /\
  opt_get_all (with_setted os key [v]) key' <> [].
Proof. exact set_then_get. Qed.
Print Assumptions C48_set_then_get.

(* several values (remote url / fetch, url insteadOf): GetAll under any spelling
   holds exactly the new values *)
Theorem C48_set_get_all : forall os key key' values x,
  key_eq key' key = true ->
  (In x (opt_get_all (with_setted os key values) key') <-> In x values).
Proof. exact set_get_all. Qed.
Print Assumptions C48_set_get_all.

(* options under other keys are untouched, order included *)
Theorem C48_set_preserves_others : forall os key values,
  filter (fun o => negb (key_eq (fst o) key)) (with_setted os key values) =
  filter (fun o => negb (key_eq (fst o) key)) os.
Proof. exact set_preserves_others. Qed.
Print Assumptions C48_set_preserves_others.

(* RemoveOption removes every spelling of the key and nothing else *)
Theorem C48_remove_all_spellings : forall os key key',
  key_eq key' key = true ->
  opt_get_all (without_option os key) key' = [] /\ has (without_option os key) key' = false /\
  filter (fun o => negb (key_eq (fst o) key)) (without_option os key) =
  filter (fun o => negb (key_eq (fst o) key)) os.
Proof. exact remove_all_spellings. Qed.
Print Assumptions C48_remove_all_spellings.

Theorem C48_add_then_get : forall os key key' v,
  key_eq key' key = true -> opt_get (with_added os key v) key' = v.
Proof. exact add_then_get. Qed.
Print Assumptions C48_add_then_get.

(* non-vacuity: url / URL / Url with stale values, set through the lower-case spelling *)
Example C48_set_example :
  let os := [(bytes_of_string "URL", bytes_of_string "old1"); (bytes_of_string "fetch", bytes_of_string "f");
             (bytes_of_string "Url", bytes_of_string "new"); (bytes_of_string "url", bytes_of_string "old2")] in
  with_setted os (bytes_of_string "url") [bytes_of_string "new"] =
    [(bytes_of_string "fetch", bytes_of_string "f"); (bytes_of_string "Url", bytes_of_string "new")] /\
  with_setted os (bytes_of_string "url") [bytes_of_string "other"] =
    [(bytes_of_string "fetch", bytes_of_string "f"); (bytes_of_string "url", bytes_of_string "other")] /\
  key_eq (bytes_of_string "URL") (bytes_of_string "url") = true.
Proof. vm_compute. repeat split. Qed.
