(* Properties/C52.v — Reflog entries interoperate with git.
   Only statements here; proofs live in Proofs/C52.v (and C52Lists.v).
   G = Model/Reflog.v (go-git's Encode / Decode, after the three `fix:` commits
   recorded in findings/C52.json); S = Spec/ReflogGit.v (git 2.39's writer,
   reader and message normalisation, validated against the binary each run). *)
From Coq Require Import List NArith ZArith Bool String.
From GoGit Require Import Base.Out Model.Reflog Spec.ReflogGit Proofs.C52Lists Proofs.C52.
Import ListNotations.
Local Open Scope N_scope.

(* go-git reads back what it appends: every entry, message normalised.
   wf: ids of 20 or 32 bytes; name/email free of '<' '>' LF, name without
   leading/trailing SP HT LF CR; int64 time; zone a whole number of minutes
   below 100 h.  The message is ARBITRARY bytes. *)
Theorem C52_roundtrip : forall e, wf e = true -> decode (encode e) = Some [normalise e].
Proof. exact roundtrip_one. Qed.
Print Assumptions C52_roundtrip.

(* ... for whole reflog files (any history of appends) *)
Theorem C52_roundtrip_file : forall es,
  forallb wf es = true -> decode (List.concat (map encode es)) = Some (map normalise es).
Proof. exact roundtrip_file. Qed.
Print Assumptions C52_roundtrip_file.

(* git lists exactly the appended entries: ids, identity, time, +hhmm zone and
   the normalised message (wf_git = wf + SHA-1 ids + time > 0; git itself
   treats time 0 as a corrupt line) *)
Theorem C52_git_reads_ours : forall e,
  wf_git e = true -> git_read 40 (encode e) = [git_view (normalise e)].
Proof.
  intros e H. pose proof (git_reads_file [e]) as R. cbn [forallb map List.concat] in R.
  rewrite app_nil_r, H in R. now apply R.
Qed.
Print Assumptions C52_git_reads_ours.

Theorem C52_git_reads_ours_file : forall es,
  forallb wf_git es = true ->
  git_read 40 (List.concat (map encode es)) = map (fun e => git_view (normalise e)) es.
Proof. exact git_reads_file. Qed.
Print Assumptions C52_git_reads_ours_file.

(* stronger: the bytes go-git appends are the bytes git's own writer emits for
   the same fields *)
Theorem C52_encode_is_git_write : forall e,
  wf_git e = true -> encode e = git_write (git_view (normalise e)).
Proof. exact encode_is_git_write. Qed.
Print Assumptions C52_encode_is_git_write.

(* every reflog git writes (fmt_ident-sanitised identity incl. TABs and
   non-ASCII spaces, any +hhmm zone incl. -0000 and minutes >= 60, message
   with or without TAB) is decoded by go-git into the entries git shows *)
Theorem C52_we_read_git_file : forall gs,
  forallb wf_gitent gs = true ->
  decode (List.concat (map git_write gs)) = Some (map go_view gs) /\
  git_read 40 (List.concat (map git_write gs)) = gs.
Proof. exact go_reads_git_file. Qed.
Print Assumptions C52_we_read_git_file.

Theorem C52_we_read_git : forall g,
  wf_gitent g = true -> decode (git_write g) = Some [go_view g].
Proof.
  intros g H. pose proof (go_reads_git_file [g]) as R. cbn [forallb map List.concat] in R.
  rewrite app_nil_r, H in R. now apply R.
Qed.
Print Assumptions C52_we_read_git.

(* normalizeMessage is git's copy_reflog_msg, for every message *)
Theorem C52_normalize_git : forall m, normalize m = git_copy_reflog_msg m.
Proof. exact normalize_is_copy_reflog_msg. Qed.
Print Assumptions C52_normalize_git.

(* Full statement without the identity guard is FALSE of the code as it is
   (known finding ident-unsanitised): Encode writes the name verbatim. *)
Definition witness_bad_ident : entry :=
  mkEntry (repeat 0 20) (repeat 170 20) [97; 10; 98] [101] 5%Z 0%Z [109].
Theorem C52_unsanitised_ident_refuted :
  exists e, hash20 (e_old e) = true /\ hash20 (e_new e) = true /\ zone_ok (e_off e) = true /\ (0 < e_secs e)%Z /\
            decode (encode e) <> Some [normalise e] /\ git_read 40 (encode e) <> [git_view (normalise e)].
Proof. exists witness_bad_ident. vm_compute. repeat split; discriminate. Qed.
Print Assumptions C52_unsanitised_ident_refuted.

(* non-vacuity *)
Example C52_wf_example :
  let e := mkEntry (repeat 0 20) (repeat 171 20)
                   (bytes_of_string "A U Thor"%string) (bytes_of_string "a@example.com"%string)
                   1700000000%Z (-34200)%Z [32; 9; 97; 11; 98; 32; 32; 99; 10; 13] in
  wf_git e = true /\
  encode e = bytes_of_string "0000000000000000000000000000000000000000 abababababababababababababababababababab A U Thor <a@example.com> 1700000000 -0930"%string
             ++ [9; 97; 11; 98; 32; 99; 10].
Proof. vm_compute. split; reflexivity. Qed.

Example C52_wf_gitent_example :
  wf_gitent (mkGitent (repeat 1 20) (repeat 2 20) [97; 9; 98; 194; 160] [101; 9; 102] 1 (-0)%Z []) = true /\
  wf_gitent (mkGitent (repeat 1 20) (repeat 2 20) [] [] (2 ^ 62) 9959%Z [120; 9; 121]) = true.
Proof. vm_compute. split; reflexivity. Qed.
