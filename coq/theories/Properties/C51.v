(* Properties/C51.v — Commit-graph files interoperate with git.
   Statements only; proofs in Proofs/C51.v. *)
From Coq Require Import List NArith ZArith Bool.
From Coq Require Import Permutation.
From GoGit Require Import Base.Out Model.CommitGraph Spec.Dag Spec.DagGen2 Proofs.C51 Proofs.C51Reader Proofs.C51Records
  Proofs.C51Roundtrip Proofs.C51Decode Proofs.C51Derived Proofs.C51Lookup.
Import ListNotations.
Local Open Scope N_scope.

(* Every chunk the encoder declares in the table of contents is followed, at its declared
   position, by exactly the declared number of bytes, and nothing else is written before the
   trailer: the file is header ++ table ++ the chunk payloads in table order, payload i having
   the size the table states (so `git commit-graph verify` and go-git's own reader, which both
   derive chunk sizes from consecutive offsets, see every chunk whole).  For ALL inputs with
   distinct 20-byte ids and 20-byte tree ids — any parents, any times, any generation numbers,
   in particular generation-v2 offsets in [2^31, 2^32) (true since the repair of prepare()). *)
Theorem C51_table_consistent : forall es, wf_entries es ->
  let sorted := sorted_of es in
  let n := N.of_nat (List.length sorted) in
  let tbl := chunk_table es n in
  let k := N.of_nat (List.length tbl) in
  exists payloads,
    encode es = sig_CGPH ++ [1; 1; k mod 256; 0] ++ chunk_headers tbl (8 + (k + 1) * 12) ++ List.concat payloads
    /\ Forall2 payload_ok payloads tbl
    /\ nth 0 payloads [] = flat_map be32 (fanout_of sorted).
Proof. exact encode_layout. Qed.
Print Assumptions C51_table_consistent.

(* go-git's own reader (and, with it, any reader deriving chunk sizes from consecutive offsets as
   git does) accepts every file the encoder writes: header, size, table of contents (known, distinct
   chunk ids, monotone offsets), chunk sizes against the fanout total, fanout — and sees the right
   number of commits, the right fanout and the generation-v2 flag.  For ALL well-formed inputs
   (distinct 20-byte ids with byte values < 256, < 2^31 commits, file shorter than 2^62 bytes). *)
Theorem C51_reader_accepts : forall es trailer, wf_file es -> List.length trailer = 20%nat ->
  exists fi, open_file (encode es ++ trailer) = Ok fi /\
    ncommits fi = N.of_nat (List.length (sorted_of es)) /\
    f_gen2 fi = has_gen2 es /\
    f_fanout fi = fanout_of (sorted_of es).
Proof. exact reader_accepts. Qed.
Print Assumptions C51_reader_accepts.

(* the code as it was before the fix: the overflow chunk was sized with `> MaxUint32`, so an
   offset in [2^31, 2^32) wrote an overflow entry that no chunk declared *)
Theorem C51_overflow_count_before_fix_refuted :
  exists es, wf_entries es /\ has_gen2 es = true /\
    overflow_count_before_fix es = 0 /\ List.length (written_overflow_entries es) = 1%nat.
Proof. exists witness_entries. destruct overflow_before_fix_refuted as [A [B [C [D _]]]]. auto. Qed.
Print Assumptions C51_overflow_count_before_fix_refuted.

(* ---- per-commit read-back.
   A graph is well formed (graph_ok) when: commit ids are distinct 20-byte strings (byte values < 256), tree ids
   have 20 bytes, every parent is a commit of the graph, 0 <= commit time < 2^34, generation (level) < 2^30,
   GenerationV2 < 2^64, at most 0x70000000 commits (parentNone) and fewer than 2^31 octopus edges.  Nothing is
   assumed about the size of the output. *)

(* position i of the file holds the i-th commit in id order; GetCommitDataByIndex returns its tree, the positions
   and ids of ALL its parents in order (none / one / two in the two parent words, three or more through the
   EDGE chunk with the parentOctopusUsed and parentLast flags), its level and time (`time | generation << 34`)
   and its generation v2 (commit time + the 31-bit offset of the GDA2 chunk, or + the 64-bit GDO2 slot the
   word points to when the offset is >= 2^31; uint64 wrap-around of GenerationV2 - time included) *)
Theorem C51_commit_data : forall es trailer fi i, graph_ok es -> List.length trailer = 20%nat ->
  open_file (encode es ++ trailer) = Ok fi -> (i < List.length es)%nat ->
  let e := nth i (sorted_entries es) dummy_entry in
  hash_local (encode es ++ trailer) fi (N.of_nat i) = Ok (e_hash e) /\
  get_commit_data (encode es ++ trailer) fi (N.of_nat i) =
    Ok (mkCD (e_tree e) (map (hash_to_index (sorted_of es)) (e_parents e)) (e_parents e) (e_gen e)
             (if has_gen2 es then norm_gen2 e else 0) (Z.to_N (e_when e))).
Proof.
  intros es trailer fi i Hg Htr Hopen Hi e. pose proof (graph_ok_wf es Hg) as Hwf.
  assert (Hi' : (i < List.length (sorted_of es))%nat).
  { rewrite (Permutation_length (sorted_perm es (rt_wfe es Hwf))), map_length. exact Hi. }
  split.
  - rewrite (rt_hash_local es trailer Hwf Htr fi Hopen i Hi').
    destruct (rt_ent es Hwf i Hi') as [_ E]. unfold e. now rewrite E.
  - exact (commit_readback es trailer Hwf Htr fi Hopen i Hi').
Qed.
Print Assumptions C51_commit_data.

(* GetIndexByHash: the fanout bucket of the id's first byte and the binary search inside it (at most 40 halvings,
   uint32 midpoint) find every commit of the graph at its position *)
Theorem C51_lookup : forall es trailer fi i, graph_ok es -> List.length trailer = 20%nat ->
  open_file (encode es ++ trailer) = Ok fi -> (i < List.length es)%nat ->
  index_by_hash (encode es ++ trailer) fi (e_hash (nth i (sorted_entries es) dummy_entry)) = Ok (N.of_nat i).
Proof.
  intros es trailer fi i Hg Htr Hopen Hi. pose proof (graph_ok_wf es Hg) as Hwf.
  assert (Hi' : (i < List.length (sorted_of es))%nat).
  { rewrite (Permutation_length (sorted_perm es (rt_wfe es Hwf))), map_length. exact Hi. }
  destruct (rt_ent es Hwf i Hi') as [_ E]. rewrite E.
  exact (lookup_readback es trailer Hwf Htr fi Hopen i Hi').
Qed.
Print Assumptions C51_lookup.

(* decode (encode g) = Ok g: opening the file and reading every position yields the commits of g (ids, trees,
   parent ids, level, generation v2, time) in id order — a permutation of g.  GenerationV2 comes back as written
   by MemoryIndex.Add (MaxUint64 -> 0) and as 0 for every commit when some commit of g lacks it (the encoder then
   writes no generation data); [C51_roundtrip_exact]: when every commit has a proper GenerationV2 the list read
   back is g itself, sorted. *)
Theorem C51_roundtrip : forall es trailer, graph_ok es -> List.length trailer = 20%nat ->
  decode (encode es ++ trailer) = Ok (has_gen2 es, map (canon (has_gen2 es)) (sorted_entries es)) /\
  Permutation (sorted_entries es) es.
Proof.
  intros es trailer Hg Htr. pose proof (graph_ok_wf es Hg) as Hwf. split.
  - now apply decode_roundtrip.
  - apply sorted_entries_perm. apply (rt_wfe es Hwf).
Qed.
Print Assumptions C51_roundtrip.

Theorem C51_roundtrip_exact : forall es trailer, graph_ok es -> List.length trailer = 20%nat ->
  Forall (fun e => 0 < e_gen2 e < two64 - 1) es ->
  exists l, decode (encode es ++ trailer) = Ok (true, l) /\ Permutation l es.
Proof.
  intros es trailer Hg Htr H2. pose proof (graph_ok_wf es Hg) as Hwf. exists (sorted_entries es). split.
  - now apply decode_roundtrip_exact.
  - apply sorted_entries_perm. apply (rt_wfe es Hwf).
Qed.
Print Assumptions C51_roundtrip_exact.

(* the values read back are those derived from the commit objects: for a history g (Spec/Dag.v: topologically
   numbered parent lists and committer times) with injective 20-byte ids, 0 < time < 2^34, fewer than 2^30 commits
   and fewer than 2^31 parent edges, the graph whose entries carry git's generation numbers — level =
   Dag.generation, corrected commit date = DagGen2.corrected_date — is read back, for exactly the commits of g,
   as (id, tree, ids of the parents in order, Dag.generation, DagGen2.corrected_date, committer time) *)
Theorem C51_derived : forall (g : dag) (hash tree : node -> bytes) trailer,
  history_ok g hash tree -> List.length trailer = 20%nat ->
  exists l, decode (encode (entries_of_dag g hash tree) ++ trailer) = Ok (true, l) /\
    Permutation l (map (fun c => mkEntry (hash c) (tree c) (map hash (parents g c)) (N.of_nat (generation g c))
                                         (Z.to_N (corrected_date g c)) (ctime g c)) (nodes g)).
Proof. intros g hash tree trailer H Htr. exact (derived_readback g hash tree trailer H Htr). Qed.
Print Assumptions C51_derived.

(* the bit-level facts the codec rests on (Proofs/BitPack.v, reusable): a field below 2^k and a field shifted by k
   do not interfere; a flag bit above a k-bit position is recovered and stripped *)
Theorem C51_time_generation_word : forall t g, t < 2 ^ 34 ->
  N.land (N.lor t (N.shiftl g 34)) (N.ones 34) = t /\ N.shiftr (N.lor t (N.shiftl g 34)) 34 = g.
Proof. intros t g H. split; [now apply BitPack.unpack_low | now apply BitPack.unpack_high]. Qed.
Print Assumptions C51_time_generation_word.

(* non-vacuity and read-back: an octopus merge (EDGE chunk) with an offset of 3000000001 (GDO2
   chunk): the reader model returns parents, times and generation numbers of the input *)
Example C51_readback :
  let es := [mkEntry (h20 1) (h20 9) [] 1 4500000000 4500000000%Z;
             mkEntry (h20 2) (h20 9) [h20 1] 2 4500000001 1500000000%Z;
             mkEntry (h20 3) (h20 9) [h20 1] 2 4500000001 1500000100%Z;
             mkEntry (h20 4) (h20 9) [h20 2; h20 3; h20 1] 3 4500000002 1500000200%Z] in
  let file := encode es ++ repeat 0 20 in
  match open_file file with
  | Ok fi =>
    f_gen2 fi = true /\ ncommits fi = 4 /\
    match get_commit_data file fi 3 with
    | Ok d => d_pidx d = [1; 2; 0] /\ d_gen d = 3 /\ d_gen2 d = 4500000002 /\ d_when d = 1500000200
    | Er _ => False
    end /\
    match get_commit_data file fi 1 with
    | Ok d => d_pidx d = [0] /\ d_gen2 d = 4500000001 /\ d_when d = 1500000000
    | Er _ => False
    end
  | Er _ => False
  end.
Proof. vm_compute. repeat split. Qed.

(* non-vacuity of C51_derived: a history with an octopus merge whose first parent is dated 3*10^9 s after it:
   corrected dates 4500000000.., offsets >= 2^31 in two overflow slots *)
Example C51_derived_example :
  let g := mkDag [[]; [0]; [0]; [1; 2; 0]; [3]]%nat [4500000000; 1500000000; 1500000100; 1500000200; 1500000300]%Z in
  map (generation g) (nodes g) = [1; 2; 2; 3; 4]%nat /\
  map (corrected_date g) (nodes g) = [4500000000; 4500000001; 4500000001; 4500000002; 4500000003]%Z /\
  match decode (encode (entries_of_dag g (fun c => h20 (N.of_nat c + 1)) (fun _ => h20 9)) ++ repeat 0 20) with
  | Ok (true, l) => map e_gen2 l = [4500000000; 4500000001; 4500000001; 4500000002; 4500000003] /\
                    map e_gen l = [1; 2; 2; 3; 4] /\
                    map (fun e => List.length (e_parents e)) l = [0; 1; 1; 3; 1]%nat
  | _ => False
  end.
Proof. vm_compute. repeat split. Qed.
