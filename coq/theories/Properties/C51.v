(* Properties/C51.v — Commit-graph files interoperate with git. *)
From Coq Require Import List NArith ZArith Bool.
From GoGit Require Import Base.Out Model.CommitGraph.
Import ListNotations.
Local Open Scope N_scope.

Theorem C51_be_roundtrip : unbe (be32 305419896) 0 = 305419896.
Proof. vm_compute. reflexivity. Qed.
Print Assumptions C51_be_roundtrip.
