(* Properties/C51.v — Commit-graph files interoperate with git.
   Statements only; proofs in Proofs/C51.v. *)
From Coq Require Import List NArith ZArith Bool.
From GoGit Require Import Base.Out Model.CommitGraph Proofs.C51 Proofs.C51Reader.
Import ListNotations.
Local Open Scope N_scope.

(* Every chunk the encoder declares in the table of contents is followed, at its declared
   position, by exactly the declared number of bytes, and nothing else is written before the
   trailer: the file is header ++ table ++ the chunk payloads in table order, payload i having
   the size the table states (so `git commit-graph verify` and go-git's own reader, which both
   derive chunk sizes from consecutive offsets, see every chunk whole).  For ALL inputs with
   distinct 20-byte ids and 20-byte tree ids — any parents, any times, any generation numbers,
   in particular generation-v2 offsets in [2^31, 2^32) (true since the repair of prepare()). *)
Theorem C51_table_consistent : forall es, wf_entries es ->
  let sorted := sorted_of es in
  let n := N.of_nat (List.length sorted) in
  let tbl := chunk_table es n in
  let k := N.of_nat (List.length tbl) in
  exists payloads,
    encode es = sig_CGPH ++ [1; 1; k mod 256; 0] ++ chunk_headers tbl (8 + (k + 1) * 12) ++ List.concat payloads
    /\ Forall2 payload_ok payloads tbl
    /\ nth 0 payloads [] = flat_map be32 (fanout_of sorted).
Proof. exact encode_layout. Qed.
Print Assumptions C51_table_consistent.

(* go-git's own reader (and, with it, any reader deriving chunk sizes from consecutive offsets as
   git does) accepts every file the encoder writes: header, size, table of contents (known, distinct
   chunk ids, monotone offsets), chunk sizes against the fanout total, fanout — and sees the right
   number of commits, the right fanout and the generation-v2 flag.  For ALL well-formed inputs
   (distinct 20-byte ids with byte values < 256, < 2^31 commits, file shorter than 2^62 bytes). *)
Theorem C51_reader_accepts : forall es trailer, wf_file es -> List.length trailer = 20%nat ->
  exists fi, open_file (encode es ++ trailer) = Ok fi /\
    ncommits fi = N.of_nat (List.length (sorted_of es)) /\
    f_gen2 fi = has_gen2 es /\
    f_fanout fi = fanout_of (sorted_of es).
Proof. exact reader_accepts. Qed.
Print Assumptions C51_reader_accepts.

(* the code as it was before the fix: the overflow chunk was sized with `> MaxUint32`, so an
   offset in [2^31, 2^32) wrote an overflow entry that no chunk declared *)
Theorem C51_overflow_count_before_fix_refuted :
  exists es, wf_entries es /\ has_gen2 es = true /\
    overflow_count_before_fix es = 0 /\ List.length (written_overflow_entries es) = 1%nat.
Proof. exists witness_entries. destruct overflow_before_fix_refuted as [A [B [C [D _]]]]. auto. Qed.
Print Assumptions C51_overflow_count_before_fix_refuted.

(* non-vacuity and read-back: an octopus merge (EDGE chunk) with an offset of 3000000001 (GDO2
   chunk): the reader model returns parents, times and generation numbers of the input *)
Example C51_readback :
  let es := [mkEntry (h20 1) (h20 9) [] 1 4500000000 4500000000%Z;
             mkEntry (h20 2) (h20 9) [h20 1] 2 4500000001 1500000000%Z;
             mkEntry (h20 3) (h20 9) [h20 1] 2 4500000001 1500000100%Z;
             mkEntry (h20 4) (h20 9) [h20 2; h20 3; h20 1] 3 4500000002 1500000200%Z] in
  let file := encode es ++ repeat 0 20 in
  match open_file file with
  | Ok fi =>
    f_gen2 fi = true /\ ncommits fi = 4 /\
    match get_commit_data file fi 3 with
    | Ok d => d_pidx d = [1; 2; 0] /\ d_gen d = 3 /\ d_gen2 d = 4500000002 /\ d_when d = 1500000200
    | Er _ => False
    end /\
    match get_commit_data file fi 1 with
    | Ok d => d_pidx d = [0] /\ d_gen2 d = 4500000001 /\ d_when d = 1500000000
    | Er _ => False
    end
  | Er _ => False
  end.
Proof. vm_compute. repeat split. Qed.
