(* Properties/C53.v — Decoders of untrusted input never crash, hang or
   over-allocate.  For every decoder that has a model: C53_<dec>_total (the
   model never reports out-of-fuel on ANY input with the fuel it is given; where
   the model merges fuel exhaustion with a rejection: more fuel never changes
   the answer), C53_<dec>_no_oob (index / slice expressions are in range under
   the code's own checks, boundary index == table length rejected),
   C53_<dec>_alloc (what is built is bounded by k*|input| + c).
   First part: pkt-line, sideband, varints, packp line counts (Proofs/C34*.v,
   Proofs/C53.v).  Second part: the decoders modelled by other properties
   (Proofs/C53Idx, C53Delta, C53Tree, C53Index, C53Pack, C53Rev, C53Graph,
   C53ObjFile, C53Lines; wildmatch from Proofs/C49Total).  PARTIAL by design:
   unmodelled library code (zlib, bufio, gcfg, goroutine plumbing), the
   packfile.Packfile read paths and the refname / capability-list / protocol v2
   scanners are exercised by the harness only. *)
From Coq Require Import List NArith ZArith Bool.
From GoGit Require Import Base.Out Gen.C34 Gen.C53 Model.PktLine Model.Sideband Model.Packp Model.C53Varint
  Proofs.C34Stream Proofs.C34Hex Proofs.C34Pkt Proofs.C34Sideband Proofs.C35Base Proofs.C53.
Import ListNotations.

(* FULL STATEMENT (not provable as a whole): for every byte string, every
   decoder of go-git returns a value or an error without panicking, looping or
   allocating out of proportion.  What follows is proved for ALL inputs. *)

(* pkt-line: the Read / ReadLine / Scanner loops terminate on every chunked
   byte stream with fuel = |input| + 2 *)
Theorem C53_pktline_total : forall bufsz r, read_all bufsz r <> RFuel /\ scan_all r <> RFuel.
Proof. intros. split; [apply read_all_total|apply scan_all_total]. Qed.
Print Assumptions C53_pktline_total.

(* pkt-line: the slice p[LenSize:length] handed out by a successful Read lies
   inside the caller's buffer and inside the stream: 4 < length <= len(p), and the
   payload has exactly length-4 bytes *)
Theorem C53_pktline_no_oob : forall bufsz r d r',
  pkt_read bufsz r = (d, r') -> (rd_err d = None \/ exists t, rd_err d = Some (PEerrline t)) ->
  (rd_len d <= 4 /\ rd_payload d = [])%Z \/
  (4 < rd_len d <= Z.of_nat bufsz /\ rd_len d <= pktline_MaxSize /\
   Z.of_nat (List.length (rd_payload d)) = rd_len d - 4 /\ (Z.to_nat (rd_len d) <= List.length (concat r))%nat)%Z.
Proof.
  intros bufsz r d r' H Hok. destruct (pkt_read_sound _ _ _ _ H Hok) as (n & Hp & Hn & Hl & Hrest).
  destruct (parse_length_range _ _ Hp) as [Hr _]. subst n.
  destruct (Z.leb_spec (rd_len d) 4).
  - left. split; [assumption|apply Hrest].
  - right. destruct Hrest as (Hpl & Hlen & Hb & _). repeat split; try Lia.lia.
    rewrite Hpl, firstn_length, skipn_length in Hlen. Lia.lia.
Qed.
Print Assumptions C53_pktline_no_oob.

(* sideband: Demuxer.Read and the Muxer terminate on every input, pending
   state and read size *)
Theorem C53_sideband_total : forall t hp sizes d acc req ws,
  demux_session t hp sizes d acc <> DSFuel /\ demux_read t hp req d <> DFuel /\ mux_session t ws <> MFuel.
Proof.
  intros. pose proof (mux_session_total t ws) as [A _].
  repeat split; auto using demux_session_total, demux_read_total.
Qed.
Print Assumptions C53_sideband_total.

(* packp messages: whatever the bytes and their chunking, a decoder is handed
   at most |input|/4 lines (the decoders themselves are structural recursions
   over these lines: no fuel) *)
Theorem C53_packp_lines_bound : forall r, (4 * List.length (s_items (src_of (scan_all r))) <= rlen r)%nat.
Proof. exact scan_items_bound. Qed.
Print Assumptions C53_packp_lines_bound.

(* ... and AdvRefs.Decode allocates at most one reference or shallow per line:
   4 * (refs + shallows) <= |input| *)
Theorem C53_advrefs_alloc : forall r a, adv_decode (src_of (scan_all r)) = inl a ->
  (4 * (List.length (ar_refs a) + List.length (ar_shallows a)) <= rlen r)%nat.
Proof.
  intros r a H. apply adv_decode_count in H. pose proof (scan_items_bound r). Lia.lia.
Qed.
Print Assumptions C53_advrefs_alloc.

(* LEB128 (DecodeLEB128): input[sz] is always in range and the loop ends within
   |input| + 1 iterations, for every input *)
Theorem C53_leb128_total_no_oob : forall input,
  decode_leb128 input <> VOob /\ decode_leb128 input <> VFuel.
Proof.
  intros input. pose proof (decode_leb128_safe input) as H.
  destruct (decode_leb128 input); cbn in H; split; congruence.
Qed.
Print Assumptions C53_leb128_total_no_oob.

(* LEB128 / entry sizes: a successful decode consumed between 0 and 9 bytes
   (10 from a reader), never more than the input holds; the rest is returned *)
Theorem C53_varint_consumed : forall input,
  (forall n rest, decode_leb128 input = VOk n rest ->
     exists k, rest = skipn k input /\ (k <= List.length input)%nat /\ (k <= 9)%nat) /\
  (forall n rest, decode_leb128_reader input = VOk n rest ->
     exists k, rest = skipn k input /\ (1 <= k <= List.length input)%nat /\ (k <= 9)%nat) /\
  (forall first n rest, variable_length_size first input = VOk n rest ->
     exists k, rest = skipn k input /\ (k <= List.length input)%nat /\ (k <= 9)%nat).
Proof.
  intros input. split; [|split].
  - apply decode_leb128_consumed.
  - intros n rest H. apply leb_reader_consumed in H. destruct H as (k & A & B & C). exists k. repeat split; try Lia.lia. assumption.
  - intros first n rest. unfold variable_length_size.
    destruct (Z.land (Z.of_N first) pfutil_maskContinue =? 0)%Z.
    + intros [= <- <-]. exists 0%nat. cbn. repeat split; Lia.lia.
    + intros H. apply vls_loop_consumed in H; [|Lia.lia]. destruct H as (k & A & B & C). exists k. repeat split; try Lia.lia. assumption.
Qed.
Print Assumptions C53_varint_consumed.

(* ====================================================================== *)
(* Decoders modelled by OTHER properties (models imported, never copied):  *)
(* Model/Idx.v (C10), Delta.v (C06), TreeObj.v (C04), IndexFile.v (C12),   *)
(* PackParse.v (C08/C09), Gitignore.v (C49), Revision.v (C47),             *)
(* CommitGraph.v (C51), ObjFile.v (C01), ObjLines.v / Ident.v (C02).       *)
(* Names are qualified: several models define res / Ok / Err / slice.      *)
(* ====================================================================== *)
From GoGit Require Model.PackBytes Model.Idx Model.Delta Spec.GitDelta Model.TreeObj Model.IndexFile Model.PackParse
  Model.Gitignore Model.Revision Model.CommitGraph Model.ObjFile Model.ObjLines Model.Ident.
From GoGit Require Proofs.C06Apply Proofs.C49Total Proofs.C53Idx Proofs.C53Delta Proofs.C53Tree Proofs.C53Index Proofs.C53Pack
  Proofs.C53Rev Proofs.C53Graph Proofs.C53ObjFile Proofs.C53Lines.

(* ---- pack index (.idx v2 / .rev): MemoryIndex, LazyIndex, mmap.PackScanner ---- *)

(* every binary search of the three readers ends within the fuel of the model
   (1 + bit size of the interval) on EVERY index structure, sorted or not:
   no lookup, iterator or prefix scan answers "out of fuel" *)
Theorem C53_idx_total : forall hs m st h o prefix (s : Idx.lazyidx) want (sc : Idx.scanner) w,
  fst (Idx.mem_find_offset hs m st h) <> Idx.Err Idx.EFuel /\ Idx.mem_find_crc hs m h <> Idx.Err Idx.EFuel /\
  Idx.mem_contains hs m h <> Idx.Err Idx.EFuel /\
  fst (Idx.mem_find_hash hs m st o) <> Idx.Err Idx.EFuel /\ snd (Idx.mem_entries hs m) <> Some Idx.EFuel /\
  snd (Idx.mem_by_offset hs m) <> Some Idx.EFuel /\ snd (Idx.mem_prefix hs m prefix) <> Some Idx.EFuel /\
  Idx.lazy_contains hs s h <> Idx.Err Idx.EFuel /\ Idx.lazy_find_offset hs s h <> Idx.Err Idx.EFuel /\
  Idx.lazy_find_crc hs s h <> Idx.Err Idx.EFuel /\
  Idx.lazy_find_hash hs s want <> Idx.Err Idx.EFuel /\ snd (Idx.lazy_entries hs s) <> Some Idx.EFuel /\
  snd (Idx.lazy_by_offset hs s) <> Some Idx.EFuel /\ snd (Idx.lazy_prefix hs s prefix) <> Some Idx.EFuel /\
  Idx.scan_find_offset sc h <> Idx.Err Idx.EFuel /\ Idx.scan_find_hash hs sc w <> Idx.Err Idx.EFuel.
Proof. exact C53Idx.c53_idx_total. Qed.
Print Assumptions C53_idx_total.

(* the 64-bit offset table.  MemoryIndex.getOffset: the table has |Offset64|/8
   slots; a slot index EQUAL TO (or above) that number is ErrMalformedIdxFile and
   is not read; an accepted slot lies wholly inside the table.  LazyIndex.offset
   and PackScanner.offset likewise against the slot count / the trailer start. *)
Theorem C53_idx_no_oob :
  (forall m b i, let ofs := PackBytes.get32 (PackBytes.slice (Idx.b_off32 b) (4 * i) 4) in
     N.land ofs Idx.O64MASK <> 0%N -> (PackBytes.blen (Idx.m_off64 m) / 8 <= N.ldiff ofs Idx.O64MASK)%N ->
     Idx.mem_get_offset m b i = Idx.Err Idx.EMalformed) /\
  (forall m b i o, let ofs := PackBytes.get32 (PackBytes.slice (Idx.b_off32 b) (4 * i) 4) in
     Idx.mem_get_offset m b i = Idx.Ok o -> N.land ofs Idx.O64MASK <> 0%N ->
     (N.ldiff ofs Idx.O64MASK < PackBytes.blen (Idx.m_off64 m) / 8)%N /\
     (8 * N.ldiff ofs Idx.O64MASK + 8 <= PackBytes.blen (Idx.m_off64 m))%N) /\
  (forall s pos b, PackBytes.read_at (Idx.l_file s) (Idx.l_off32 s + pos * Idx.L_OFF32) Idx.L_OFF32 = Some b ->
     N.land (PackBytes.get32 b) Idx.L_MASK <> 0%N -> (Idx.l_count64 s <= N.ldiff (PackBytes.get32 b) Idx.L_MASK)%N ->
     Idx.lazy_offset s pos = Idx.Err Idx.EMalformed) /\
  (forall s pos, let start := (Idx.s_off32 s + pos * Idx.S_OFF32)%N in
     let off32 := PackBytes.get32 (PackBytes.slice (Idx.s_idx s) start Idx.S_OFF32) in
     (start + Idx.S_OFF32 <= PackBytes.blen (Idx.s_idx s))%N -> N.land off32 Idx.S_MASK <> 0%N ->
     (Idx.s_trailer s < Idx.s_off64 s + N.ldiff off32 Idx.S_MASK * Idx.S_OFF64 + Idx.S_OFF64)%N ->
     Idx.scan_offset s pos = Idx.Err Idx.EMalformed).
Proof. exact C53Idx.c53_idx_no_oob. Qed.
Print Assumptions C53_idx_no_oob.

(* Decoder.Decode: every bucket of a decoded index is consistent (|names| = n*hs,
   |offset32| = |crc32| = 4n), and all the tables it allocated fit in the file:
   allocation <= |file| whatever object count the fanout claims *)
Theorem C53_idx_alloc : forall hs Hsz file m, Idx.decode hs Hsz file = Idx.Ok m ->
  Forall (C53Idx.bucket_ok hs) (Idx.m_bk m) /\
  (C53Idx.tables_len (Idx.m_bk m) + PackBytes.blen (Idx.m_off64 m) + PackBytes.blen (Idx.m_pack m) + PackBytes.blen (Idx.m_sum m) + 1032
     <= PackBytes.blen file)%N /\
  List.length (Idx.m_fanout m) = Idx.NFANOUT.
Proof. exact C53Idx.decode_consistent. Qed.
Print Assumptions C53_idx_alloc.

(* ---- delta appliers: patchDelta, ReaderFromDelta, patchDeltaWriter ---- *)
Theorem C53_delta_total : forall bb src d,
  Delta.patch_delta src d <> Delta.Err Delta.EFuel /\ Delta.patch_delta_wrapper src d <> Delta.Err Delta.EFuel /\
  Delta.reader_from_delta src d <> Delta.Err Delta.EFuel /\ Delta.patch_delta_writer bb src d <> Delta.Err Delta.EFuel.
Proof. exact C53Delta.c53_delta_total. Qed.
Print Assumptions C53_delta_total.

(* the buffer applier with Go's slice expressions made partial (None = slice
   bounds out of range = panic) never takes the None branch *)
Theorem C53_delta_no_oob : forall src d, C06Apply.bytes_ok d = true ->
  C53Delta.patch_delta_chk src d = Some (Delta.patch_delta src d).
Proof. exact C53Delta.patch_delta_no_oob. Qed.
Print Assumptions C53_delta_no_oob.

(* a successful application returns exactly the declared target size, which is at most 2^24 per delta byte *)
Theorem C53_delta_alloc : forall src d out, C06Apply.bytes_ok d = true -> Delta.patch_delta src d = Delta.Ok out ->
  C06Apply.target_size d = Some (Delta.len out) /\ (Delta.len out <= 16777216 * Delta.len d)%N.
Proof. exact C53Delta.patch_delta_alloc. Qed.
Print Assumptions C53_delta_alloc.

(* ---- Tree.Decode ---- *)
Theorem C53_tree_total : forall hsz b, TreeObj.decode hsz b <> inl TreeObj.DFuel.
Proof. exact C53Tree.decode_total. Qed.
Print Assumptions C53_tree_total.

Theorem C53_tree_no_oob : forall hsz b l, TreeObj.decode hsz b = inr l ->
  Forall (fun e => List.length (TreeObj.t_hash e) = hsz /\ TreeObj.t_name e <> []) l.
Proof. exact C53Tree.decode_no_oob. Qed.
Print Assumptions C53_tree_no_oob.

Theorem C53_tree_alloc : forall hsz b l, TreeObj.decode hsz b = inr l ->
  (C53Tree.tsize hsz l <= List.length b)%nat /\ (List.length l * (hsz + 4) <= List.length b)%nat.
Proof. exact C53Tree.decode_alloc. Qed.
Print Assumptions C53_tree_alloc.

(* ---- index (DIRC) decoder ---- *)
Theorem C53_index_total : forall hs H skip b, IndexFile.decode hs H skip b <> IndexFile.Err IndexFile.EFuel.
Proof. exact C53Index.decode_total. Qed.
Print Assumptions C53_index_total.

(* index v4 prefix compression: strip length N > |previous name| is rejected (N = |prev| + 1 included),
   an accepted N is <= |prev| and the name is prev[:|prev|-N] ++ suffix *)
Theorem C53_index_no_oob :
  (forall ln b l b1, IndexFile.read_varint b = IndexFile.Ok (l, b1) -> (N.of_nat (List.length ln) < l)%N ->
     IndexFile.read_name4 (Some ln) b = IndexFile.Err IndexFile.EMalformed) /\
  (forall ln b nm r, IndexFile.read_name4 (Some ln) b = IndexFile.Ok (nm, r) ->
     exists l b1 suffix, IndexFile.read_varint b = IndexFile.Ok (l, b1) /\ (N.to_nat l <= List.length ln)%nat /\
       nm = firstn (List.length ln - N.to_nat l) ln ++ suffix).
Proof. split; [exact C53Index.read_name4_strip_rejected|exact C53Index.read_name4_strip_in_range]. Qed.
Print Assumptions C53_index_no_oob.

(* whatever the 32-bit entry count of the header, the decoded entries fit the input: 42+hs bytes each *)
Theorem C53_index_alloc : forall hs ver count b3 es b4,
  IndexFile.read_entries hs (S (List.length b3)) ver count None b3 [] = IndexFile.Ok (es, b4) ->
  (List.length es * (42 + hs) + List.length b4 <= List.length b3)%nat /\
  Forall (fun e => List.length (IndexFile.e_hash e) = hs) es.
Proof. intros hs. exact (C53Index.decode_entries_bound hs (fun b => b)). Qed.
Print Assumptions C53_index_alloc.

(* ---- pack scanner / parser (option-valued model: fuel stability) ---- *)
Theorem C53_pack_total :
  (forall first r g, (11 <= g)%nat ->
     (let size := N.land first 15 in if (N.land first 128 =? 0)%N then Some (size, r) else PackParse.size_cont g r size 4)
     = PackParse.entry_size first r) /\
  (forall r g, (10 <= g)%nat ->
     match r with
     | [] => None
     | c :: r' => if (N.land c 128 =? 0)%N then Some (N.land c 127, r') else PackParse.vwint_cont g r' (N.land c 127)
     end = PackParse.vwint r) /\
  (forall r g, (10 <= g)%nat -> PackParse.leb128 g r 0 0 = PackParse.leb128 10 r 0 0) /\
  (forall src f d remaining out g, (List.length d < f)%nat -> (f <= g)%nat ->
     PackParse.delta_loop g src d remaining out = PackParse.delta_loop f src d remaining out) /\
  (forall hs Hsz inflate crc32 pack count g, (S (List.length pack) <= g)%nat ->
     PackParse.scan_entries hs Hsz inflate crc32 g pack count 0 12 [] =
     PackParse.scan_entries hs Hsz inflate crc32 (S (List.length pack)) pack count 0 12 []).
Proof. exact C53Pack.c53_pack_total. Qed.
Print Assumptions C53_pack_total.

(* an entry is only found at a position inside the pack *)
Theorem C53_pack_no_oob : forall hs Hsz inflate crc32 pack pos oh next,
  PackParse.scan_entry hs Hsz inflate crc32 pack pos (skipn (N.to_nat pos) pack) = Some (oh, next) -> (pos < PackBytes.blen pack)%N.
Proof. exact C53Pack.scan_entry_in_pack. Qed.
Print Assumptions C53_pack_no_oob.

(* the 32-bit object count of the header cannot make the scanner return more entries than the pack has bytes *)
Theorem C53_pack_alloc : forall hs Hsz inflate crc32 pack es sum,
  PackParse.scan_pack hs Hsz inflate crc32 pack = Some (es, sum) -> (List.length es + 12 <= List.length pack)%nat.
Proof. exact C53Pack.scan_pack_alloc. Qed.
Print Assumptions C53_pack_alloc.

(* ---- wildmatch (gitignore) ---- *)
Theorem C53_wild_total : forall flags p t, Gitignore.dowild (Gitignore.wm_fuel p) flags None p t <> Gitignore.WFuel.
Proof. intros. apply C49Total.wildmatch_total. Qed.
Print Assumptions C53_wild_total.

(* the bracket-class parser never runs out of fuel and hands back a strictly shorter pattern:
   it cannot read past the end of an unterminated class *)
Theorem C53_wild_no_oob : forall cf tch q,
  fst (Gitignore.bracket cf tch q) <> Gitignore.CFuel /\
  (forall m r n, Gitignore.bracket cf tch q = (Gitignore.CDone m r, n) -> (List.length r < List.length q)%nat).
Proof. exact C49Total.bracket_ok. Qed.
Print Assumptions C53_wild_no_oob.

(* ---- revision parser ---- *)
Theorem C53_rev_total :
  (forall s g, (S (S (List.length s)) <= g)%nat -> Revision.parse_loop g s [] = Revision.parse s) /\
  (forall f s prev buf g, (List.length s < f)%nat -> (f <= g)%nat -> Revision.parse_ref g s prev buf = Revision.parse_ref f s prev buf) /\
  (forall f s start re negate g, (List.length s < f)%nat -> (f <= g)%nat ->
     Revision.caret_braces g s start re negate = Revision.caret_braces f s start re negate).
Proof. exact C53Rev.c53_rev_total. Qed.
Print Assumptions C53_rev_total.

Theorem C53_rev_no_oob : forall s t lit r, Revision.scan s = (t, lit, r) ->
  (List.length r <= List.length s)%nat /\ (s <> [] -> (List.length r < List.length s)%nat).
Proof. exact C53Rev.scan_len. Qed.
Print Assumptions C53_rev_no_oob.

Theorem C53_rev_alloc : forall s l, Revision.parse s = Revision.POk l -> (List.length l <= List.length s)%nat.
Proof. exact C53Rev.parse_alloc. Qed.
Print Assumptions C53_rev_alloc.

(* ---- commit-graph file reader ---- *)
Theorem C53_graph_total :
  (forall file off pos cnt g, (S (List.length file) <= g)%nat ->
     CommitGraph.read_edges file g off pos cnt = CommitGraph.read_edges file (S (List.length file)) off pos cnt) /\
  (forall file fi h g, CommitGraph.open_file file = CommitGraph.Ok fi -> (40 <= g)%nat ->
     match h with
     | [] => CommitGraph.Er CommitGraph.ENotFound
     | b0 :: _ => CommitGraph.bsearch file fi h g
                    (if (b0 =? 0)%N then 0%N else nth (N.to_nat b0 - 1) (CommitGraph.f_fanout fi) 0%N)
                    (nth (N.to_nat b0) (CommitGraph.f_fanout fi) 0%N)
     end = CommitGraph.index_by_hash file fi h).
Proof. exact C53Graph.c53_graph_total. Qed.
Print Assumptions C53_graph_total.

(* an index equal to the table length is rejected and not read: commit index, parent index (in a split graph:
   a parent index below [min] is delegated to the parent layers [below], one >= min + ncommits is rejected),
   EDGE position; a successful lookup used only indices below the count and returned 20-byte ids *)
Theorem C53_graph_no_oob :
  (forall below min file fi idx, (CommitGraph.ncommits fi <= idx)%N ->
     CommitGraph.get_commit_data_in below min file fi idx = CommitGraph.Er CommitGraph.ENotFound) /\
  (forall below min file fi idxs i, In i idxs -> (min + CommitGraph.ncommits fi <= i)%N ->
     exists e, CommitGraph.hashes_of below min file fi idxs = CommitGraph.Er e) /\
  (forall below min file fi i r, (i < min)%N ->
     CommitGraph.hashes_of below min file fi (i :: r) =
     match below i with
     | CommitGraph.Er e => CommitGraph.Er e
     | CommitGraph.Ok h => match CommitGraph.hashes_of below min file fi r with
                           | CommitGraph.Ok l => CommitGraph.Ok (h :: l) | CommitGraph.Er e => CommitGraph.Er e end
     end) /\
  (forall file f off pos cnt, (cnt <= pos)%Z -> CommitGraph.read_edges file (S f) off pos cnt = CommitGraph.Er CommitGraph.EMalformed) /\
  (forall below min file fi idx d, CommitGraph.get_commit_data_in below min file fi idx = CommitGraph.Ok d ->
     (idx < CommitGraph.ncommits fi)%N /\ List.length (CommitGraph.d_tree d) = 20%nat /\
     Forall (fun i => (i < min + CommitGraph.ncommits fi)%N) (CommitGraph.d_pidx d) /\
     List.length (CommitGraph.d_phash d) = List.length (CommitGraph.d_pidx d) /\
     ((forall i h, below i = CommitGraph.Ok h -> List.length h = 20%nat) ->
      Forall (fun h => List.length h = 20%nat) (CommitGraph.d_phash d)) /\
     (4 * Z.of_nat (List.length (CommitGraph.d_pidx d)) <= Z.of_nat (List.length file) + 4)%Z) /\
  (forall file fi idx d, CommitGraph.get_commit_data file fi idx = CommitGraph.Ok d ->
     (idx < CommitGraph.ncommits fi)%N /\ Forall (fun i => (i < CommitGraph.ncommits fi)%N) (CommitGraph.d_pidx d) /\
     Forall (fun h => List.length h = 20%nat) (CommitGraph.d_phash d)).
Proof. exact C53Graph.c53_graph_no_oob. Qed.
Print Assumptions C53_graph_no_oob.

Theorem C53_graph_alloc : forall file fi, CommitGraph.open_file file = CommitGraph.Ok fi ->
  List.length (CommitGraph.f_fanout fi) = 256%nat /\ Forall (fun v => (v <= 2147483647)%N) (CommitGraph.f_fanout fi).
Proof. exact C53Graph.open_file_fanout. Qed.
Print Assumptions C53_graph_alloc.

(* ---- loose object header ---- *)
Theorem C53_objfile_total : forall raw t n rest, ObjFile.read_header raw = ObjFile.Ok (t, n, rest) ->
  exists ty sz, raw = ty ++ 32%N :: sz ++ 0%N :: rest /\
    (List.length ty + List.length sz + 2 <= ObjFile.max_header_len)%nat /\
    ObjFile.parse_type ty = Some t /\ ObjFile.parse_int64 sz = Some n.
Proof. exact C53ObjFile.read_header_bounded. Qed.
Print Assumptions C53_objfile_total.

Theorem C53_objfile_no_oob : forall raw t n rest, ObjFile.read_header raw = ObjFile.Ok (t, n, rest) ->
  (- 9223372036854775808 <= n < 9223372036854775808)%Z /\ (List.length rest <= List.length raw)%nat.
Proof. exact C53ObjFile.read_header_size_int64. Qed.
Print Assumptions C53_objfile_no_oob.

(* ---- commit / tag line scanner and Signature.Decode ---- *)
Theorem C53_lines_total : forall b, concat (ObjLines.split_lines b) = b /\ (List.length (ObjLines.split_lines b) <= List.length b)%nat.
Proof. intros b. split; [apply C53Lines.split_lines_concat|apply C53Lines.split_lines_count]. Qed.
Print Assumptions C53_lines_total.

Theorem C53_ident_no_oob : forall b op cl,
  ObjLines.last_index_of Ident.LT b = Some op -> ObjLines.last_index_of Ident.GT b = Some cl -> Nat.ltb cl op = false ->
  (S op <= cl)%nat /\ (cl < List.length b)%nat.
Proof. exact C53Lines.decode_ident_brackets. Qed.
Print Assumptions C53_ident_no_oob.

Theorem C53_ident_alloc : forall b,
  (List.length (Ident.id_name (Ident.decode_ident b)) <= List.length b)%nat /\
  (List.length (Ident.id_email (Ident.decode_ident b)) <= List.length b)%nat.
Proof. exact C53Lines.decode_ident_alloc. Qed.
Print Assumptions C53_ident_alloc.

(* ---- pack parser: depth-first delta resolution (visit) ---- *)
From GoGit Require Proofs.C53Visit Proofs.C53Reflog Model.Reflog.

(* every nested visit follows a delta that has just been marked done: with fuel above the number of
   undone deltas, more fuel never changes the answer; the resolver's fuel |entries|+1 is such a fuel *)
Theorem C53_pack_visit_total :
  (forall hs Hsz ext refs ofss f pid poff s g, (C53Visit.undone refs ofss s < f)%nat -> (f <= g)%nat ->
     PackParse.visit hs Hsz g ext refs ofss pid poff s = PackParse.visit hs Hsz f ext refs ofss pid poff s) /\
  (forall hs Hsz ext (es : list PackParse.ohdr) pid poff s g,
     let refs := filter (fun e => match PackParse.oh_type e with PackParse.TRef => true | _ => false end) es in
     let ofss := filter (fun e => match PackParse.oh_type e with PackParse.TOfs => true | _ => false end) es in
     (S (List.length es) <= g)%nat ->
     PackParse.visit hs Hsz g ext refs ofss pid poff s = PackParse.visit hs Hsz (S (List.length es)) ext refs ofss pid poff s).
Proof. split; [exact C53Visit.visit_stable|exact C53Visit.resolve_visit_stable]. Qed.
Print Assumptions C53_pack_visit_total.

(* ---- revfile.Decode ---- *)
From GoGit Require Proofs.C53RevFile.
Theorem C53_revfile_alloc : forall Hsz file count pack es, Idx.rev_decode Hsz file count pack = Idx.Ok es ->
  N.of_nat (List.length es) = count /\ (4 * count + 52 <= PackBytes.blen file)%N.
Proof. exact C53RevFile.rev_decode_alloc. Qed.
Print Assumptions C53_revfile_alloc.

(* ---- reflog ---- *)
Theorem C53_reflog_alloc : forall file l, Reflog.decode file = Some l -> (List.length l <= List.length file)%nat.
Proof. exact C53Reflog.decode_alloc. Qed.
Print Assumptions C53_reflog_alloc.

(* ---------- non-vacuity ---------- *)
From Coq Require Import String.
Example C53_ex_leb :
  decode_leb128 (unhex "e58e26ff"%string) = VOk 624485 [255%N] /\
  decode_leb128 (unhex "ffffffffffffffffff01"%string) = VOverflow /\
  decode_leb128 (unhex "8080"%string) = VOk 0 [] /\
  variable_length_size 159 (unhex "8001aa"%string) = VOk 2063 [170%N] /\
  variable_length_size 159 (unhex "ffffffffffffffffff"%string) = VOverflow /\
  decode_leb128_reader (unhex "80"%string) = VEof.
Proof. vm_compute. repeat split. Qed.

Example C53_ex_lines :
  s_items (src_of (scan_all [unhex "303030366162303030303030303666"%string])) = [(6%Z, [97%N; 98%N]); (0%Z, [])] /\
  s_fin (src_of (scan_all [unhex "303030366162303030303030303666"%string])) = Some PEunexpected.
Proof. vm_compute. split; reflexivity. Qed.

(* the boundary of the 64-bit table: one slot (8 bytes); slot 0 is read, slot 1 (== table length) is rejected *)
Example C53_ex_idx_slot :
  let m := Idx.mkM [] [] [] (unhex "0000000100000000"%string) [] [] in
  Idx.mem_get_offset m (Idx.mkB [] (unhex "80000000"%string) []) 0 = Idx.Ok 4294967296%N /\
  Idx.mem_get_offset m (Idx.mkB [] (unhex "80000001"%string) []) 0 = Idx.Err Idx.EMalformed /\
  Idx.mem_get_offset (Idx.mkM [] [] [] [] [] []) (Idx.mkB [] (unhex "80000000"%string) []) 0 = Idx.Err Idx.EMalformed.
Proof. vm_compute. repeat split. Qed.

(* copy-from-source commands ending at |src| (accepted) and one byte past it (rejected, not sliced) *)
Example C53_ex_delta_boundary :
  Delta.patch_delta (unhex "616263"%string) (unhex "03039003"%string) = Delta.Ok (unhex "616263"%string) /\
  Delta.patch_delta (unhex "616263"%string) (unhex "0302910102"%string) = Delta.Ok (unhex "6263"%string) /\
  Delta.patch_delta (unhex "616263"%string) (unhex "0303910103"%string) = Delta.Err Delta.EInvalid /\
  C53Delta.patch_delta_chk (unhex "616263"%string) (unhex "0303910103"%string) = Some (Delta.Err Delta.EInvalid).
Proof. vm_compute. repeat split. Qed.

(* a tree whose last object id is one byte short is malformed, not a short id *)
Example C53_ex_tree_short_id :
  TreeObj.decode 4 (unhex "3130303634342061000102030431303037353520620001020304"%string) =
    inr [TreeObj.mkT 33188 [97%N] [1;2;3;4]%N; TreeObj.mkT 33261 [98%N] [1;2;3;4]%N] /\
  TreeObj.decode 4 (unhex "31303036343420610001020304313030373535206200010203"%string) = inl TreeObj.DMalformed.
Proof. vm_compute. split; reflexivity. Qed.
