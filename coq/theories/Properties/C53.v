(* Properties/C53.v — Decoders of untrusted input never crash, hang or
   over-allocate: the part that is provable on the decoders modelled by this
   batch (pkt-line, sideband, variable-length integers, the line-oriented packp
   messages).  PARTIAL by design: unmodelled library code (zlib, bufio, gcfg,
   goroutine plumbing) and the decoders owned by other batches are exercised by
   the harness only.  Proofs live in Proofs/C34*.v and Proofs/C53.v. *)
From Coq Require Import List NArith ZArith Bool.
From GoGit Require Import Base.Out Gen.C34 Gen.C53 Model.PktLine Model.Sideband Model.Packp Model.C53Varint
  Proofs.C34Stream Proofs.C34Hex Proofs.C34Pkt Proofs.C34Sideband Proofs.C35Base Proofs.C53.
Import ListNotations.

(* FULL STATEMENT (not provable as a whole): for every byte string, every
   decoder of go-git returns a value or an error without panicking, looping or
   allocating out of proportion.  What follows is proved for ALL inputs. *)

(* pkt-line: the Read / ReadLine / Scanner loops terminate on every chunked
   byte stream with fuel = |input| + 2 *)
Theorem C53_pktline_total : forall bufsz r, read_all bufsz r <> RFuel /\ scan_all r <> RFuel.
Proof. intros. split; [apply read_all_total|apply scan_all_total]. Qed.
Print Assumptions C53_pktline_total.

(* pkt-line: the slice p[LenSize:length] handed out by a successful Read lies
   inside the caller's buffer and inside the stream: 4 < length <= len(p), and the
   payload has exactly length-4 bytes *)
Theorem C53_pktline_no_oob : forall bufsz r d r',
  pkt_read bufsz r = (d, r') -> (rd_err d = None \/ exists t, rd_err d = Some (PEerrline t)) ->
  (rd_len d <= 4 /\ rd_payload d = [])%Z \/
  (4 < rd_len d <= Z.of_nat bufsz /\ rd_len d <= pktline_MaxSize /\
   Z.of_nat (List.length (rd_payload d)) = rd_len d - 4 /\ (Z.to_nat (rd_len d) <= List.length (concat r))%nat)%Z.
Proof.
  intros bufsz r d r' H Hok. destruct (pkt_read_sound _ _ _ _ H Hok) as (n & Hp & Hn & Hl & Hrest).
  destruct (parse_length_range _ _ Hp) as [Hr _]. subst n.
  destruct (Z.leb_spec (rd_len d) 4).
  - left. split; [assumption|apply Hrest].
  - right. destruct Hrest as (Hpl & Hlen & Hb & _). repeat split; try Lia.lia.
    rewrite Hpl, firstn_length, skipn_length in Hlen. Lia.lia.
Qed.
Print Assumptions C53_pktline_no_oob.

(* sideband: Demuxer.Read and the Muxer terminate on every input, pending
   state and read size *)
Theorem C53_sideband_total : forall t hp sizes d acc req ws,
  demux_session t hp sizes d acc <> DSFuel /\ demux_read t hp req d <> DFuel /\ mux_session t ws <> MFuel.
Proof.
  intros. pose proof (mux_session_total t ws) as [A _].
  repeat split; auto using demux_session_total, demux_read_total.
Qed.
Print Assumptions C53_sideband_total.

(* packp messages: whatever the bytes and their chunking, a decoder is handed
   at most |input|/4 lines (the decoders themselves are structural recursions
   over these lines: no fuel) *)
Theorem C53_packp_lines_bound : forall r, (4 * List.length (s_items (src_of (scan_all r))) <= rlen r)%nat.
Proof. exact scan_items_bound. Qed.
Print Assumptions C53_packp_lines_bound.

(* ... and AdvRefs.Decode allocates at most one reference or shallow per line:
   4 * (refs + shallows) <= |input| *)
Theorem C53_advrefs_alloc : forall r a, adv_decode (src_of (scan_all r)) = inl a ->
  (4 * (List.length (ar_refs a) + List.length (ar_shallows a)) <= rlen r)%nat.
Proof.
  intros r a H. apply adv_decode_count in H. pose proof (scan_items_bound r). Lia.lia.
Qed.
Print Assumptions C53_advrefs_alloc.

(* LEB128 (DecodeLEB128): input[sz] is always in range and the loop ends within
   |input| + 1 iterations, for every input *)
Theorem C53_leb128_total_no_oob : forall input,
  decode_leb128 input <> VOob /\ decode_leb128 input <> VFuel.
Proof.
  intros input. pose proof (decode_leb128_safe input) as H.
  destruct (decode_leb128 input); cbn in H; split; congruence.
Qed.
Print Assumptions C53_leb128_total_no_oob.

(* LEB128 / entry sizes: a successful decode consumed between 0 and 9 bytes
   (10 from a reader), never more than the input holds; the rest is returned *)
Theorem C53_varint_consumed : forall input,
  (forall n rest, decode_leb128 input = VOk n rest ->
     exists k, rest = skipn k input /\ (k <= List.length input)%nat /\ (k <= 9)%nat) /\
  (forall n rest, decode_leb128_reader input = VOk n rest ->
     exists k, rest = skipn k input /\ (1 <= k <= List.length input)%nat /\ (k <= 9)%nat) /\
  (forall first n rest, variable_length_size first input = VOk n rest ->
     exists k, rest = skipn k input /\ (k <= List.length input)%nat /\ (k <= 9)%nat).
Proof.
  intros input. split; [|split].
  - apply decode_leb128_consumed.
  - intros n rest H. apply leb_reader_consumed in H. destruct H as (k & A & B & C). exists k. repeat split; try Lia.lia. assumption.
  - intros first n rest. unfold variable_length_size.
    destruct (Z.land (Z.of_N first) pfutil_maskContinue =? 0)%Z.
    + intros [= <- <-]. exists 0%nat. cbn. repeat split; Lia.lia.
    + intros H. apply vls_loop_consumed in H; [|Lia.lia]. destruct H as (k & A & B & C). exists k. repeat split; try Lia.lia. assumption.
Qed.
Print Assumptions C53_varint_consumed.

(* ---------- non-vacuity ---------- *)
From Coq Require Import String.
Example C53_ex_leb :
  decode_leb128 (unhex "e58e26ff"%string) = VOk 624485 [255%N] /\
  decode_leb128 (unhex "ffffffffffffffffff01"%string) = VOverflow /\
  decode_leb128 (unhex "8080"%string) = VOk 0 [] /\
  variable_length_size 159 (unhex "8001aa"%string) = VOk 2063 [170%N] /\
  variable_length_size 159 (unhex "ffffffffffffffffff"%string) = VOverflow /\
  decode_leb128_reader (unhex "80"%string) = VEof.
Proof. vm_compute. repeat split. Qed.

Example C53_ex_lines :
  s_items (src_of (scan_all [unhex "303030366162303030303030303666"%string])) = [(6%Z, [97%N; 98%N]); (0%Z, [])] /\
  s_fin (src_of (scan_all [unhex "303030366162303030303030303666"%string])) = Some PEunexpected.
Proof. vm_compute. split; reflexivity. Qed.
