(* Properties/C05.v — SHA-1 digests detect known collision attacks.
   Only statements here; proofs are in Proofs/C05.v (and Proofs/SHA.v).

   What is proved: (1) the published colliding messages collide under the
   executable SHA-1 of Spec/SHA.v — not only the published pairs but every
   pair obtained by appending a common suffix — so an entry point that uses
   plain SHA-1 necessarily emits the attacker's digest; (2) over the call lists
   regenerated from the Go sources on every run, every SHA-1 entry point of
   go-git reaches only the collision-detecting constructor (plumbing/hash
   registry or sha1cd).  What is NOT modelled: sha1cd's detector itself (its
   behaviour on the attack files is exercised on every run, see TRUSTED). *)
From Coq Require Import List String Bool NArith.
From GoGit Require Import Base.Out Spec.SHA Spec.ShaAttack Gen.C05 Model.HashWiring Proofs.SHA Proofs.C05.
Import ListNotations.

(* SHAttered (Stevens et al. 2017): the two PDF prefixes, and every extension *)
Theorem C05_shattered_collides :
  sha1 shattered_1 = sha1 shattered_2 /\ shattered_1 <> shattered_2 /\
  sha1 shattered_1 = unhex "f92d74e3874587aaf443d1db961d4e26dde13e9c"%string.
Proof. exact shattered_collides. Qed.
Print Assumptions C05_shattered_collides.

Theorem C05_shattered_family : forall s,
  sha1 (shattered_1 ++ s) = sha1 (shattered_2 ++ s) /\ shattered_1 ++ s <> shattered_2 ++ s.
Proof. exact shattered_family. Qed.
Print Assumptions C05_shattered_family.

(* SHA-1 is a Shambles (Leurent, Peyrin 2020): chosen-prefix collision *)
Theorem C05_shambles_collides :
  sha1 shambles_1 = sha1 shambles_2 /\ shambles_1 <> shambles_2 /\
  sha1 shambles_1 = unhex "8ac60ba76f1999a1ab70223f225aefdc78d4ddc0"%string.
Proof. exact shambles_collides. Qed.
Print Assumptions C05_shambles_collides.

Theorem C05_shambles_family : forall s,
  sha1 (shambles_1 ++ s) = sha1 (shambles_2 ++ s) /\ shambles_1 ++ s <> shambles_2 ++ s.
Proof. exact shambles_family. Qed.
Print Assumptions C05_shambles_family.

(* consequently: whatever reaches plain SHA-1 answers "collides" on the whole family *)
Theorem C05_plain_emits_colliding_digest : forall ks s,
  has_plain ks = true ->
  pair_out ks true (shattered_1 ++ s) (shattered_2 ++ s) = OOk [OSym "collides"%string] /\
  pair_out ks true (shambles_1 ++ s) (shambles_2 ++ s) = OOk [OSym "collides"%string].
Proof. exact plain_collides. Qed.
Print Assumptions C05_plain_emits_colliding_digest.

(* the wiring: every entry point in the regenerated table reaches at least one
   SHA-1 constructor and only collision-detecting ones *)
Theorem C05_wiring : forall e, In e entry_points -> safe table e = true.
Proof. exact wiring. Qed.
Print Assumptions C05_wiring.

Theorem C05_wiring_no_plain : forall e, In e entry_points -> has_plain (sha1_ctors table e) = false.
Proof. exact wiring_no_plain. Qed.
Print Assumptions C05_wiring_no_plain.

(* the same predicate on the call lists of the tree before the repair: the
   object hashers, the objfile writer, the pack scanner's object hasher, the
   idx/rev checksum of PackWriter.save and the rev-file decoder reach Go's
   crypto registry (stdlib SHA-1), while plumbing/hash.New does not *)
Theorem C05_wiring_unfixed_refuted :
  ~ (forall e, In e (map e_key table_unfixed) -> safe table_unfixed e = true).
Proof. exact wiring_unfixed_refuted. Qed.
Print Assumptions C05_wiring_unfixed_refuted.

(* ---------- non-vacuity ---------- *)
Example C05_ex_entry_points : List.length entry_points = 27%nat /\ In "plumbing.NewHasher"%string entry_points.
Proof. split; [reflexivity | now left]. Qed.

Example C05_ex_scanner : sha1_ctors table "packfile.NewScanner"%string <> [].
Proof. vm_compute. discriminate. Qed.

Example C05_ex_sha256_unaffected :
  sha256 shattered_1 <> sha256 shattered_2 /\ sha256 shambles_1 <> sha256 shambles_2.
Proof. exact sha256_distinguishes. Qed.

Example C05_ex_suffix :
  sha1 (shattered_1 ++ [1;2;3]%N) = sha1 (shattered_2 ++ [1;2;3]%N).
Proof. exact (proj1 (shattered_family [1;2;3]%N)). Qed.
