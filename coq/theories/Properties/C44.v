(* Properties/C44.v — stub, replaced below *)
From Coq Require Import List NArith.
From GoGit Require Import Base.Out Model.DiffTree.
Import ListNotations.
Example C44_stub : difftree [] [] = Some [].
Proof. reflexivity. Qed.
