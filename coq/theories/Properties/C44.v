(* Properties/C44.v — Tree diffs are complete and agree with git.
   Only statements here; proofs live in Proofs/C44_{order,diff,sort,spec,rename}.v.

   Model (Model/DiffTree.v): merkletrie.DiffTree as the recursive merge of name-sorted children, with
   directory hash equality = structural equality (no collisions), object.DiffTreeWithOptions and
   DetectRenames with the content-similarity matrix as a parameter.
   Spec (Spec/MapDiff.v): map_diff of the two flattened trees (path -> (mode, id)); `git diff-tree -r
   --no-renames` is compared with it (and with go-git) on every generated case.
   Paths are component lists here; the object layer joins them with '/' (to_chg). *)
From Coq Require Import List NArith ZArith Bool Arith Permutation.
From GoGit Require Import Base.Out Gen.C44 Model.DiffTree Spec.MapDiff
  Proofs.C44_order Proofs.C44_diff Proofs.C44_sort Proofs.C44_spec Proofs.C44_rename Proofs.C44_nodup Proofs.C44_paths.
Import ListNotations.

(* For all trees whose directories have pairwise distinct names: the walk terminates within its fuel
   and reports exactly the insertions, deletions and modifications between the two flattened trees. *)
Theorem C44_eq_spec : forall a b,
  tree_ok a = true -> tree_ok b = true ->
  exists cs, difftree a b = Some cs /\
             forall c, In c cs <-> In c (map_diff (flatten a) (flatten b)).
Proof. exact difftree_eq_map_diff. Qed.
Print Assumptions C44_eq_spec.

(* ... hence the reported changes transform the first tree into the second *)
Theorem C44_complete : forall a b,
  tree_ok a = true -> tree_ok b = true ->
  exists cs, difftree a b = Some cs /\ fmap_equiv (apply_changes cs (flatten a)) (flatten b).
Proof. exact difftree_complete. Qed.
Print Assumptions C44_complete.

(* the declarative reading of a reported change *)
Theorem C44_change_meaning : forall a b,
  tree_ok a = true -> tree_ok b = true ->
  exists cs, difftree a b = Some cs /\
    forall c, In c cs <->
      match c with
      | MDel p l => In (p, l) (flatten a) /\ ~ (exists l', In (p, l') (flatten b))
      | MIns p l => In (p, l) (flatten b) /\ ~ (exists l', In (p, l') (flatten a))
      | MMod p x y => In (p, x) (flatten a) /\ In (p, y) (flatten b) /\ leaf_eqb x y = false
      end.
Proof. exact difftree_spec. Qed.
Print Assumptions C44_change_meaning.

(* no change is reported twice *)
Theorem C44_nodup : forall a b cs,
  tree_ok a = true -> tree_ok b = true -> difftree a b = Some cs -> NoDup cs.
Proof. exact difftree_nodup. Qed.
Print Assumptions C44_nodup.

(* the object layer prints a path as its components joined with '/': when every name is non-empty and
   free of '/' (boolean guard names_ok — true of every tree go-git decodes or git writes), distinct
   changes stay distinct after joining, so the statements above carry over to Change{From,To} values *)
Theorem C44_object_layer : forall a b cs,
  tree_ok a = true -> tree_ok b = true -> names_ok a = true -> names_ok b = true ->
  difftree a b = Some cs ->
  NoDup (map to_chg cs) /\ forall c c', In c cs -> In c' cs -> to_chg c = to_chg c' -> c = c'.
Proof. exact difftree_object_layer. Qed.
Print Assumptions C44_object_layer.

(* Rename detection, for EVERY score oracle, rename limit and mode: the From sides and the To sides of
   the result are permutations of those of the input (nothing lost, invented or used twice); every
   reported change is an input change or joins the From of an input deletion with the To of an input
   insertion; modifications are returned unchanged.
   (True of the repaired code: before "fix: rename detection dropped an addition ..." the model refuted
   it — see C44_unrepaired_refuted.) *)
Theorem C44_renames_conserve : forall limit only_exact oracle cs,
  let out := detect_renames limit only_exact oracle cs in
  Permutation (froms out) (froms cs) /\
  Permutation (tos out) (tos cs) /\
  (forall c, In c out ->
     In c cs \/ exists d a, In d cs /\ is_del d = true /\ In a cs /\ is_ins a = true /\ c = (fst d, snd a)) /\
  (forall c, In c cs -> is_mod c = true -> In c out).
Proof. exact renames_conserve. Qed.
Print Assumptions C44_renames_conserve.

(* the projection compared by the correspondence in content mode does not depend on the oracle *)
Theorem C44_content_projection_oracle_free : forall limit o1 o2 cs,
  Permutation (froms (detect_renames limit false o1 cs)) (froms (detect_renames limit false o2 cs)) /\
  Permutation (tos (detect_renames limit false o1 cs)) (tos (detect_renames limit false o2 cs)).
Proof.
  intros limit o1 o2 cs.
  destruct (renames_conserve limit false o1 cs) as (F1 & T1 & _).
  destruct (renames_conserve limit false o2 cs) as (F2 & T2 & _).
  split; (etransitivity; [eassumption | symmetry; eassumption]).
Qed.
Print Assumptions C44_content_projection_oracle_free.

(* leaf regenerated from plumbing/object/tree.go: decoded entry modes are canonical, so the
   Deprecated (0100664) special case of treeNoder.Hash never fires on decoded trees *)
Theorem C44_decode_mode_canonical : forall m, canon_mode (decode_mode m) = decode_mode m.
Proof.
  intros m. unfold decode_mode, object_canonicalTreeMode.
  repeat match goal with |- context [Z.eqb ?x ?y] => destruct (Z.eqb x y) end; reflexivity.
Qed.
Print Assumptions C44_decode_mode_canonical.

(* ---------- non-vacuity *)
Local Open Scope N_scope.
Definition ex_a : tree :=
  [ ([97], File (33188, [1])); ([97; 46; 98], File (33188, [2]));
    ([100], Dir [ ([120], File (33188, [3])); ([121], File (33261, [4])) ]) ].
Definition ex_b : tree :=
  [ ([97], Dir [ ([113], File (33188, [5])) ]); ([97; 46; 98], File (33188, [2]));
    ([100], Dir [ ([121], File (33188, [4])); ([122], File (40960, [6])) ]) ].
Example C44_guard_holds : tree_ok ex_a = true /\ tree_ok ex_b = true /\ names_ok ex_a = true /\ names_ok ex_b = true.
Proof. vm_compute. repeat split; reflexivity. Qed.
Example C44_example_diff :
  difftree ex_a ex_b =
  Some [ MDel [[97]] (33188, [1]); MIns [[97]; [113]] (33188, [5]);
         MDel [[100]; [120]] (33188, [3]); MMod [[100]; [121]] (33261, [4]) (33188, [4]);
         MIns [[100]; [122]] (40960, [6]) ].
Proof. vm_compute. reflexivity. Qed.
(* duplicate names are outside the guard *)
Example C44_guard_rejects : tree_ok [ ([97], File (33188, [1])); ([97], File (33188, [2])) ] = false.
Proof. vm_compute. reflexivity. Qed.

(* The defect that was repaired in /repo: an added file whose id matches several deleted files, none of
   which bestNameMatch picks (all name scores are 0: "b" against "d/a" and "d/c").  The model of the
   UNREPAIRED code — exact_unique without the final else — loses the insertion; the repaired model
   keeps it (and the theorem above holds for it). *)
Definition ex_del1 : chg := (Some ([100; 47; 97], (33188, [7])), None).
Definition ex_del2 : chg := (Some ([100; 47; 99], (33188, [7])), None).
Definition ex_add : chg := (None, Some ([98], (33188, [7]))).
Example C44_repaired_keeps_addition :
  detect_renames 0%nat true (fun _ _ => []) [ex_add; ex_del1; ex_del2] = [ex_add; ex_del1; ex_del2].
Proof. vm_compute. reflexivity. Qed.
Definition exact_unique_unrepaired (c : chg) (st : xstate) : xstate :=
  let h := ch_hash c in
  match g_get h st.(x_dels) with
  | [] | [_] => exact_unique c st
  | ds =>
    match best_match c ds with
    | Some i =>
      match nth_error ds i with
      | Some d => if same_mode c d then exact_unique c st else st
      | None => st
      end
    | None => st                                   (* the addition is dropped *)
    end
  end.
Example C44_unrepaired_refuted :
  let st0 := {| x_dels := group_by_hash [ex_del1; ex_del2]; x_left := []; x_mod := [] |} in
  x_left (exact_unique_unrepaired ex_add st0) = [] /\ x_left (exact_unique ex_add st0) = [ex_add].
Proof. vm_compute. split; reflexivity. Qed.
