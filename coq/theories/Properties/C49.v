(* Properties/C49.v — Ignore rules match git check-ignore (statements only). *)
From Coq Require Import List NArith Bool.
From GoGit Require Import Base.Out Model.Gitignore Spec.GitIgnore.
Import ListNotations.
Local Open Scope N_scope.

Example C49_smoke : wildmatch [97;42;98] [97;120;98] = true.
Proof. vm_compute. reflexivity. Qed.
