(* Properties/C49.v — Ignore rules match git check-ignore.
   Statements only; proofs live in Proofs/C49*.v.
     G = Model/Gitignore.v   (go-git's gitignore package as it is)
     S = Spec/GitIgnore.v    (git 2.39.5 dir.c + wildmatch.c, validated against the binary)
         Spec/Glob.v         (declarative glob semantics of one path component)
         Spec/PathGlob.v     (declarative semantics of patterns with slashes) *)
From Coq Require Import List NArith Bool String.
From GoGit Require Import Base.Out Model.Gitignore Spec.Glob Spec.PathGlob Spec.GitIgnore
     Proofs.C49Total Proofs.C49Wild Proofs.C49Scope Proofs.C49Git Proofs.C49Trim Proofs.C49Names
     Proofs.C49Path Proofs.C49Walk Proofs.C49GoGlob Proofs.C49Slash Proofs.C49Frag Proofs.C49Anc.
Import ListNotations.
Local Open Scope N_scope.
Local Open Scope string_scope.

(* ---- wildmatch ---------------------------------------------------- *)

(* dowild terminates with a Go result for every pattern, text and flag set:
   the model's fuel |p|+1 is never exhausted (each recursive call is on a
   strictly shorter pattern) *)
Theorem C49_dowild_total : forall flags prev p t fuel,
  (List.length p < fuel)%nat -> dowild fuel flags prev p t <> WFuel.
Proof. intros. now apply dowild_total. Qed.
Print Assumptions C49_dowild_total.

(* wildmatch as gitignore calls it (flags = 0) accepts exactly the texts the
   declarative glob denoted by the pattern matches: every pattern of the
   fragment  literal | \c | ? | * | ** | [set] | [!set] | [^set]  (glob_of p = Some g;
   a set may hold bytes, escaped bytes, ranges lo-hi / lo-\hi, a leading closing
   bracket, literal dashes and the POSIX classes [:alnum:] ... [:xdigit:], which
   denote unions of ASCII ranges — everything wildmatch accepts; only patterns
   wildmatch itself calls malformed (unknown class, unterminated bracket or "[:",
   trailing backslash, NUL) are outside), every text.  The abort codes and the
   fast-forward after a star prune nothing that could match. *)
Theorem C49_dowild_sound_complete : forall p g t,
  glob_of p = Some g -> (wildmatch p t = true <-> Gmatch g t).
Proof. exact wildmatch_sound_complete. Qed.
Print Assumptions C49_dowild_sound_complete.

(* the return codes individually: WMatch = the glob matches; WNoMatch = it does
   not; WAbortAll = it matches no suffix of the text either; the other two
   codes do not occur with flags = 0 *)
Theorem C49_dowild_codes : forall fuel fuel' p t prev g,
  (List.length p < fuel)%nat -> parse_glob fuel' p = Some g ->
  match dowild fuel 0 prev p t with
  | WMatch => Gmatch g t
  | WNoMatch => ~ Gmatch g t
  | WAbortAll => forall t', suffix t' t -> ~ Gmatch g t'
  | _ => False
  end.
Proof. exact dowild_R. Qed.
Print Assumptions C49_dowild_codes.

(* the same holds of git 2.39.5's dowild (different abort codes), hence the
   two agree on the fragment: go-git's port decides a component like git *)
Theorem C49_dowild_eq_git : forall p g t,
  glob_of p = Some g -> wildmatch p t = gwildmatch 0 p t.
Proof. exact wildmatch_eq_git. Qed.
Print Assumptions C49_dowild_eq_git.

(* ---- patterns with slashes: git's wildmatch with WM_PATHNAME ---------- *)

(* match_pathname's wildmatch(p, t, WM_PATHNAME) accepts exactly the joined
   paths the path glob denoted by p matches (pglob_of p = Some g: segments
   separated by slashes, each a glob as above without two adjacent stars and
   without an escaped slash, or a whole segment "**" followed by a slash):
   ? and [set] never match a slash, * stays inside a component, "**/" stands for
   zero or more whole directories.  WM_ABORT_ALL, WM_ABORT_TO_STARSTAR, the "**/"
   shortcut, the jump of "*/" to the next slash and the fast-forward to a
   literal prune nothing that could match. *)
Theorem C49_pathname_sound_complete : forall p g t,
  pglob_of p = Some g -> (gwildmatch 2 p t = true <-> PMatch g t).
Proof. exact gwildmatch_path_sound_complete. Qed.
Print Assumptions C49_pathname_sound_complete.

(* the return codes individually (bos: p starts a segment; prev: the pattern
   byte before p): WM_ABORT_TO_STARSTAR = no suffix reached without crossing a
   slash matches; WM_ABORT_ALL = no suffix matches (for a pattern that starts
   with "**/": no suffix that starts a component) *)
Theorem C49_pathname_codes : forall fuel fuel' p t prev bos g,
  (List.length p < fuel)%nat -> pparse fuel' bos p = Some g ->
  (bos = true -> prev = None \/ prev = Some 47) ->
  match gdowild fuel 2 prev p t with
  | WMatch => PMatch g t
  | WNoMatch => ~ PMatch g t
  | WAbortStarStar => forall t', csuffix t' t -> ~ PMatch g t'
  | WAbortAll => if bos then forall t', bsuffix t' t -> ~ PMatch g t'
                 else forall t', suffix t' t -> ~ PMatch g t'
  | WFuel => False
  end.
Proof. exact gdowild_R2. Qed.
Print Assumptions C49_pathname_codes.

(* go-git's globMatch on the segment shapes of the fragment (plain segments,
   then groups of one or more "**" followed by exactly one plain segment):
   it accepts a path exactly when the segments match, component by component, a
   non-empty leading part of it (and, for a directory-only pattern that uses the
   whole path, the path is a directory) *)
Theorem C49_globmatch_prefix : forall dironly isdir F segs path,
  shape GR F = true -> F <> [] -> Forall2 seg_den segs F ->
  (glob_loop segs dironly isdir path false false = true <-> GG dironly isdir F path).
Proof.
  intros dironly isdir F segs path Hs Hne HF.
  exact (proj2 (proj2 (glob_loop_spec dironly isdir F)) Hs Hne segs path false HF).
Qed.
Print Assumptions C49_globmatch_prefix.

(* ---- matcher and scope -------------------------------------------- *)

(* matcher.Match: the last pattern of the list that matches decides *)
Theorem C49_last_match_wins : forall ps path d,
  exists r, decides ps path d r /\
            matcher_match ps path d = match r with Exclude => true | _ => false end.
Proof. exact matcher_last_match_wins. Qed.
Print Assumptions C49_last_match_wins.

Theorem C49_decision_unique : forall ps path d r1 r2,
  decides ps path d r1 -> decides ps path d r2 -> r1 = r2.
Proof. exact decides_unique. Qed.
Print Assumptions C49_decision_unique.

(* Scope.Descend: nothing below an excluded directory is re-included, whatever
   the ignore files (negations included) in it or below it say *)
Theorem C49_excluded_parent : forall excl fs d e rest isdir,
  ignored excl fs d true = true -> ignored excl fs (d ++ e :: rest) isdir = true.
Proof. exact excluded_parent. Qed.
Print Assumptions C49_excluded_parent.

(* ParsePattern's trailing-space rule (the repaired trimTrailingSpaces loop)
   computes exactly git's trim_trailing_spaces, for every line *)
Theorem C49_trim_eq_git : forall p, trim_trailing_spaces p = gtrim p.
Proof. exact trim_eq_git. Qed.
Print Assumptions C49_trim_eq_git.

(* ---- go-git versus git -------------------------------------------- *)

(* Full statement of the property:
     forall excl fs path isdir, ignored excl fs path isdir = git_ignored excl fs path isdir.
   It is false of the faithful model; each witness below is replayed on the
   real code and on the git binary by the check (corpus/C49). *)
Theorem C49_pattern_eq_git_refuted : exists excl fs path isdir,
  ignored excl fs path isdir <> git_ignored excl fs path isdir.
Proof. exact eq_git_refuted. Qed.
Print Assumptions C49_pattern_eq_git_refuted.

(* the suite's always-failing conformance case TestIgnoreDoubleStarPrefix:
   pattern foo**/bar, path foobar — git 2.39.5 strips the literal prefix "foo"
   and matches the rest against "**/bar"; go-git does not *)
Example C49_double_star_prefix_refuted :
  ignored None [([], bytes_of_string "foo**/bar")] [bytes_of_string "foobar"] false = false /\
  git_ignored None [([], bytes_of_string "foo**/bar")] [bytes_of_string "foobar"] false = true.
Proof. vm_compute. split; reflexivity. Qed.

(* one witness per known divergence class (findings/C49.json, corpus/C49):
   left = go-git (G), right = git 2.39.5 (S); each is replayed on the real
   code and on the git binary by every run of the check *)
Local Notation B := bytes_of_string.
Example C49_refuted_trailing_doublestar_dir :      (* abc/** vs directory abc *)
  (ignored None [([], B "abc/**")] [B "abc"] true, git_ignored None [([], B "abc/**")] [B "abc"] true) = (true, false).
Proof. vm_compute. reflexivity. Qed.
Example C49_refuted_empty_segment :                (* //a vs a *)
  (ignored None [([], B "//a")] [B "a"] false, git_ignored None [([], B "//a")] [B "a"] false) = (true, false).
Proof. vm_compute. reflexivity. Qed.
Example C49_refuted_negated_ancestor :             (* * then !foo vs foo/x *)
  (ignored None [([], B "*
!foo")] [B "foo"; B "x"] false, git_ignored None [([], B "*
!foo")] [B "foo"; B "x"] false) = (false, true).
Proof. vm_compute. reflexivity. Qed.
Example C49_refuted_triple_star_segment :          (* a/***/b vs a/b *)
  (ignored None [([], B "a/***/b")] [B "a"; B "b"] false, git_ignored None [([], B "a/***/b")] [B "a"; B "b"] false) = (false, true).
Proof. vm_compute. reflexivity. Qed.
Example C49_refuted_escaped_slash :                (* a\/b vs a/b *)
  (ignored None [([], B "a\/b")] [B "a"; B "b"] false, git_ignored None [([], B "a\/b")] [B "a"; B "b"] false) = (false, true).
Proof. vm_compute. reflexivity. Qed.
Example C49_refuted_slash_in_bracket :             (* [a/b]c vs ac *)
  (ignored None [([], B "[a/b]c")] [B "ac"] false, git_ignored None [([], B "[a/b]c")] [B "ac"] false) = (false, true).
Proof. vm_compute. reflexivity. Qed.
Example C49_refuted_doublestar_greedy :            (* **/a/b vs a/c/a/b *)
  (ignored None [([], B "**/a/b")] [B "a"; B "c"; B "a"; B "b"] false,
   git_ignored None [([], B "**/a/b")] [B "a"; B "c"; B "a"; B "b"] false) = (false, true).
Proof. vm_compute. reflexivity. Qed.
Example C49_refuted_dir_pattern_below_reincluded_dir :   (* foo/x/ then !*/**/ vs file foo/x/a *)
  (ignored None [([], B "foo/x/
!*/**/")] [B "foo"; B "x"; B "a"] false,
   git_ignored None [([], B "foo/x/
!*/**/")] [B "foo"; B "x"; B "a"] false) = (true, false).
Proof. vm_compute. reflexivity. Qed.
Example C49_refuted_whitespace_only_line :         (* a line holding TAB vs a file named TAB *)
  (ignored None [([], [9; 10])] [[9]] false, git_ignored None [([], [9; 10])] [[9]] false) = (false, true).
Proof. vm_compute. reflexivity. Qed.
(* three divergences were repaired in go-git (fix: commits, findings/C49.json):
   trailing spaces are now trimmed by a port of git's trim_trailing_spaces, a
   UTF-8 byte order mark at the start of an ignore file is skipped, and
   [:space:] is git's isspace (no vertical tab, no form feed) *)
Example C49_fixed_space_class :                    (* x[[:space:]] vs "x" VT *)
  (ignored None [([], B "x[[:space:]]")] [[120; 11]] false, git_ignored None [([], B "x[[:space:]]")] [[120; 11]] false) = (false, false) /\
  (ignored None [([], B "x[[:space:]]")] [[120; 9]] false, git_ignored None [([], B "x[[:space:]]")] [[120; 9]] false) = (true, true).
Proof. vm_compute. split; reflexivity. Qed.
Example C49_fixed_trailing_space_escape :          (* a\<sp><sp> vs "a " ; a\\<sp> vs "a\" *)
  (ignored None [([], B "a\  ")] [B "a "] false, git_ignored None [([], B "a\  ")] [B "a "] false) = (true, true) /\
  (ignored None [([], B "a\\ ")] [B "a\"] false, git_ignored None [([], B "a\\ ")] [B "a\"] false) = (true, true).
Proof. vm_compute. split; reflexivity. Qed.
Example C49_fixed_utf8_bom :                       (* BOM a vs a *)
  (ignored None [([], [239; 187; 191; 97; 10])] [B "a"] false,
   git_ignored None [([], [239; 187; 191; 97; 10])] [B "a"] false) = (true, true).
Proof. vm_compute. reflexivity. Qed.

(* Partial statement 1 (kept from the first round): ignore files made of plain
   name patterns — no negation, no slash except an optional trailing one, glob
   inside the fragment, nothing for the two line readers to disagree on
   (names_file) — give the same verdict in go-git and in git, for EVERY path
   (no condition on the components), with ignore files at every level and
   info/exclude. *)
Theorem C49_names_eq_git_partial : forall excl fs path isdir,
  names_case excl fs = true ->
  ignored excl fs path isdir = git_ignored excl fs path isdir.
Proof. exact names_eq_git. Qed.
Print Assumptions C49_names_eq_git_partial.

(* Partial statement 2 (the widening).  Boolean guards:
     wide_case excl fs : every line of every ignore file (and of info/exclude) is
       empty, a comment, or  ["!"] body ["/"]  where body is not empty, does not
       begin with "!", and is either a slash-free glob of Spec/Glob (a name
       pattern, POSIX classes included) or a pattern with a leading / inner
       slash (slash_body: every segment a non-empty glob of Spec/Glob or "**";
       no "**" inside a segment, at the end, or not followed by "/"; no escaped
       slash; plain segments first, then groups of "**"s each followed by exactly
       one plain segment: /a/b, a/*.c, **/x, a/**/b, /**/a/**/b ...); pattern lines hold
       no blank (nothing to trim; comments may), no CR, no byte order mark (nothing
       for the two line readers to disagree on);
     path_ok path : components non-empty, without slash or NUL;
     no_reincluded_ancestor excl fs path : go-git's own decision (last match wins)
       on every proper ancestor directory of the path, from the top down to the
       first excluded one, is never "re-included by a negated pattern".
   Then go-git and git check-ignore agree on the path: negation is last-match-
   wins on both sides, nothing below an excluded directory is re-included on
   either side (C49_excluded_parent), anchored patterns, inner slashes and the
   "**/" forms mean the same.
   The third guard is needed (C49_reincluded_ancestor_refuted below, the known
   finding negated-ancestor): a negated pattern that matches a directory
   re-includes everything below it in go-git only.  What stays outside: the other
   eight finding classes (each excluded by wide_case), a trailing "/**", a "**"
   followed by two or more plain segments. *)
Theorem C49_pattern_eq_git_partial : forall excl fs path isdir,
  wide_case excl fs = true -> path_ok path = true ->
  no_reincluded_ancestor excl fs path = true ->
  ignored excl fs path isdir = git_ignored excl fs path isdir.
Proof. exact wide_eq_git. Qed.
Print Assumptions C49_pattern_eq_git_partial.

(* without negation the third guard is void: every path *)
Theorem C49_pattern_eq_git_positive : forall excl fs path isdir,
  wide_case excl fs = true -> positive_case excl fs = true -> path_ok path = true ->
  ignored excl fs path isdir = git_ignored excl fs path isdir.
Proof. exact positive_eq_git. Qed.
Print Assumptions C49_pattern_eq_git_positive.

(* inside the fragment go-git's verdict is EXACTLY git's algorithm with every
   pattern also matching everything below what it matches (gpat_match_anc in
   the place of gpat_match in last_matching_pattern / prep_exclude), for every
   path and without the third guard: the ancestor matching of pattern.Match is
   the only source of divergence there *)
Theorem C49_pattern_eq_git_modulo_ancestor : forall excl fs path isdir,
  wide_case excl fs = true -> path_ok path = true ->
  ignored excl fs path isdir = git_anc_ignored excl fs path isdir.
Proof. exact anc_eq_git. Qed.
Print Assumptions C49_pattern_eq_git_modulo_ancestor.

(* the third guard cannot be dropped: inside the fragment, with a re-included
   ancestor, the two differ (pattern "*" then "!foo", path foo/x) *)
Theorem C49_reincluded_ancestor_refuted :
  let fs := [([], bytes_of_string "*
!foo
")] in
  let path := [bytes_of_string "foo"; bytes_of_string "x"] in
  wide_case None fs = true /\ path_ok path = true /\
  no_reincluded_ancestor None fs path = false /\
  ignored None fs path false = false /\ git_ignored None fs path false = true.
Proof. vm_compute. repeat split; reflexivity. Qed.
Print Assumptions C49_reincluded_ancestor_refuted.

(* ---- non-vacuity --------------------------------------------------- *)

Example C49_fragment_example :
  exists g, glob_of (bytes_of_string "a[!b-d]?\**.[ch]") = Some g /\
            gmatch g (bytes_of_string "aez*foo.c") = true /\
            wildmatch (bytes_of_string "a[!b-d]?\**.[ch]") (bytes_of_string "aez*foo.c") = true /\
            wildmatch (bytes_of_string "a[!b-d]?\**.[ch]") (bytes_of_string "acz*foo.c") = false.
Proof. eexists. vm_compute. repeat split; reflexivity. Qed.

Example C49_fragment_sets :
  (exists g, glob_of (bytes_of_string "[]-]x[\]a-\c-][[a]") = Some g) /\
  wildmatch (bytes_of_string "[]-]x[\]a-\c-][[a]") (bytes_of_string "]xb[") = true /\
  wildmatch (bytes_of_string "[]-]x[\]a-\c-][[a]") (bytes_of_string "-x-a") = true /\
  wildmatch (bytes_of_string "[]-]x[\]a-\c-][[a]") (bytes_of_string "axb[") = false /\
  glob_of (bytes_of_string "[[:foo:]]") = None /\ glob_of (bytes_of_string "[[:alpha:]") = None.
Proof. vm_compute. repeat split; try reflexivity. eexists; reflexivity. Qed.

Example C49_fragment_classes :
  glob_of (bytes_of_string "[[:alpha:]_][[:alnum:]_]*.[![:digit:][:space:]x-z]") =
    Some [ISet false [(65, 90); (97, 122); (95, 95)];
          ISet false [(48, 57); (65, 90); (97, 122); (95, 95)]; IStar; ILit 46;
          ISet true [(48, 57); (32, 32); (9, 10); (13, 13); (120, 120); (120, 122)]] /\
  wildmatch (bytes_of_string "[[:alpha:]_][[:alnum:]_]*.[![:digit:][:space:]x-z]") (bytes_of_string "_a1.c") = true /\
  wildmatch (bytes_of_string "[[:alpha:]_][[:alnum:]_]*.[![:digit:][:space:]x-z]") (bytes_of_string "_a1.7") = false /\
  glob_of (bytes_of_string "[[:]") = Some [ISet false [(91, 91); (58, 58)]] /\
  glob_of (bytes_of_string "[[:alpha:]-z]") = Some [ISet false [(65, 90); (97, 122); (45, 45); (122, 122)]].
Proof. vm_compute. repeat split; reflexivity. Qed.

Example C49_pathglob_example :
  pglob_of (bytes_of_string "src/**/*.c") =
    Some [PIt (ILit 115); PIt (ILit 114); PIt (ILit 99); PSep; PDirs; PIt IStar; PIt (ILit 46); PIt (ILit 99)] /\
  gwildmatch 2 (bytes_of_string "src/**/*.c") (bytes_of_string "src/a/b/x.c") = true /\
  gwildmatch 2 (bytes_of_string "src/**/*.c") (bytes_of_string "src/x.c") = true /\
  gwildmatch 2 (bytes_of_string "src/**/*.c") (bytes_of_string "src/a/x.h") = false /\
  gwildmatch 2 (bytes_of_string "src/*.c") (bytes_of_string "src/a/x.c") = false.
Proof. vm_compute. repeat split; reflexivity. Qed.

(* a realistic set of ignore files inside the widened fragment: negation,
   anchored and inner-slash patterns, "**/" forms, POSIX classes, a nested file *)
Example C49_wide_example :
  let root := bytes_of_string "# build products
*.o
!keep.o
/build/
src/**/*.tmp
**/gen
doc/*.pdf
[[:upper:]]*.bak
" in
  let sub := bytes_of_string "!main.o
/sub/x?
" in
  let fs := [([], root); ([bytes_of_string "src"], sub)] in
  let B := bytes_of_string in
  wide_case None fs = true /\
  map (fun q => (no_reincluded_ancestor None fs (fst q), ignored None fs (fst q) (snd q), git_ignored None fs (fst q) (snd q)))
      [([B "a.o"], false); ([B "keep.o"], false); ([B "build"], true); ([B "build"], false);
       ([B "x"; B "build"], true); ([B "src"; B "a"; B "b"; B "t.tmp"], false); ([B "src"; B "t.tmp"], false);
       ([B "x"; B "gen"; B "y"], false); ([B "doc"; B "m.pdf"], false); ([B "doc"; B "d"; B "m.pdf"], false);
       ([B "Old.bak"], false); ([B "old.bak"], false); ([B "src"; B "main.o"], false); ([B "src"; B "sub"; B "x1"], false);
       ([B "src"; B "sub"; B "x12"], false)] =
  [(true, true, true); (true, false, false); (true, true, true); (true, false, false);
   (true, false, false); (true, true, true); (true, true, true);
   (true, true, true); (true, true, true); (true, false, false);
   (true, true, true); (true, false, false); (true, false, false); (true, true, true);
   (true, false, false)].
Proof. vm_compute. split; reflexivity. Qed.

Example C49_names_example :
  names_case (Some (bytes_of_string "*.o
build/
")) [([], bytes_of_string "*.[oa]
tmp?
"); ([bytes_of_string "src"], bytes_of_string "gen*/
")] = true /\
  ignored (Some (bytes_of_string "*.o
build/
")) [([], bytes_of_string "*.[oa]
tmp?
"); ([bytes_of_string "src"], bytes_of_string "gen*/
")] [bytes_of_string "src"; bytes_of_string "gen1"; bytes_of_string "x.c"] false = true.
Proof. vm_compute. split; reflexivity. Qed.

Example C49_excluded_parent_example :
  ignored None [([], bytes_of_string "build
"); ([bytes_of_string "build"], bytes_of_string "!keep
")] [bytes_of_string "build"; bytes_of_string "keep"] false = true.
Proof. vm_compute. reflexivity. Qed.
