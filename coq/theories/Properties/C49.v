(* Properties/C49.v — Ignore rules match git check-ignore.
   Statements only; proofs live in Proofs/C49*.v.
     G = Model/Gitignore.v   (go-git's gitignore package as it is)
     S = Spec/GitIgnore.v    (git 2.39.5 dir.c + wildmatch.c, validated against the binary)
         Spec/Glob.v         (declarative glob semantics) *)
From Coq Require Import List NArith Bool String.
From GoGit Require Import Base.Out Model.Gitignore Spec.Glob Spec.GitIgnore
     Proofs.C49Total Proofs.C49Wild Proofs.C49Scope Proofs.C49Git Proofs.C49Trim Proofs.C49Names.
Import ListNotations.
Local Open Scope N_scope.
Local Open Scope string_scope.

(* ---- wildmatch ---------------------------------------------------- *)

(* dowild terminates with a Go result for every pattern, text and flag set:
   the model's fuel |p|+1 is never exhausted (each recursive call is on a
   strictly shorter pattern) *)
Theorem C49_dowild_total : forall flags prev p t fuel,
  (List.length p < fuel)%nat -> dowild fuel flags prev p t <> WFuel.
Proof. intros. now apply dowild_total. Qed.
Print Assumptions C49_dowild_total.

(* wildmatch as gitignore calls it (flags = 0) accepts exactly the texts the
   declarative glob denoted by the pattern matches: every pattern of the
   fragment  literal | \c | ? | * | ** | [set] | [!set] | [^set]  (glob_of p = Some g;
   a set may hold bytes, escaped bytes, ranges, a leading closing bracket, literal
   dashes — everything wildmatch accepts except POSIX classes [:name:]), every text.  The abort codes and the fast-forward after a star prune
   nothing that could match. *)
Theorem C49_dowild_sound_complete : forall p g t,
  glob_of p = Some g -> (wildmatch p t = true <-> Gmatch g t).
Proof. exact wildmatch_sound_complete. Qed.
Print Assumptions C49_dowild_sound_complete.

(* the return codes individually: WMatch = the glob matches; WNoMatch = it does
   not; WAbortAll = it matches no suffix of the text either; the other two
   codes do not occur with flags = 0 *)
Theorem C49_dowild_codes : forall fuel fuel' p t prev g,
  (List.length p < fuel)%nat -> parse_glob fuel' p = Some g ->
  match dowild fuel 0 prev p t with
  | WMatch => Gmatch g t
  | WNoMatch => ~ Gmatch g t
  | WAbortAll => forall t', suffix t' t -> ~ Gmatch g t'
  | _ => False
  end.
Proof. exact dowild_R. Qed.
Print Assumptions C49_dowild_codes.

(* the same holds of git 2.39.5's dowild (different abort codes), hence the
   two agree on the fragment: go-git's port decides a component like git *)
Theorem C49_dowild_eq_git : forall p g t,
  glob_of p = Some g -> wildmatch p t = gwildmatch 0 p t.
Proof. exact wildmatch_eq_git. Qed.
Print Assumptions C49_dowild_eq_git.

(* ---- matcher and scope -------------------------------------------- *)

(* matcher.Match: the last pattern of the list that matches decides *)
Theorem C49_last_match_wins : forall ps path d,
  exists r, decides ps path d r /\
            matcher_match ps path d = match r with Exclude => true | _ => false end.
Proof. exact matcher_last_match_wins. Qed.
Print Assumptions C49_last_match_wins.

Theorem C49_decision_unique : forall ps path d r1 r2,
  decides ps path d r1 -> decides ps path d r2 -> r1 = r2.
Proof. exact decides_unique. Qed.
Print Assumptions C49_decision_unique.

(* Scope.Descend: nothing below an excluded directory is re-included, whatever
   the ignore files (negations included) in it or below it say *)
Theorem C49_excluded_parent : forall excl fs d e rest isdir,
  ignored excl fs d true = true -> ignored excl fs (d ++ e :: rest) isdir = true.
Proof. exact excluded_parent. Qed.
Print Assumptions C49_excluded_parent.

(* ParsePattern's trailing-space rule (the repaired trimTrailingSpaces loop)
   computes exactly git's trim_trailing_spaces, for every line *)
Theorem C49_trim_eq_git : forall p, trim_trailing_spaces p = gtrim p.
Proof. exact trim_eq_git. Qed.
Print Assumptions C49_trim_eq_git.

(* ---- go-git versus git -------------------------------------------- *)

(* Full statement of the property:
     forall excl fs path isdir, ignored excl fs path isdir = git_ignored excl fs path isdir.
   It is false of the faithful model; each witness below is replayed on the
   real code and on the git binary by the check (corpus/C49). *)
Theorem C49_pattern_eq_git_refuted : exists excl fs path isdir,
  ignored excl fs path isdir <> git_ignored excl fs path isdir.
Proof. exact eq_git_refuted. Qed.
Print Assumptions C49_pattern_eq_git_refuted.

(* the suite's always-failing conformance case TestIgnoreDoubleStarPrefix:
   pattern foo**/bar, path foobar — git 2.39.5 strips the literal prefix "foo"
   and matches the rest against "**/bar"; go-git does not *)
Example C49_double_star_prefix_refuted :
  ignored None [([], bytes_of_string "foo**/bar")] [bytes_of_string "foobar"] false = false /\
  git_ignored None [([], bytes_of_string "foo**/bar")] [bytes_of_string "foobar"] false = true.
Proof. vm_compute. split; reflexivity. Qed.

(* one witness per known divergence class (findings/C49.json, corpus/C49):
   left = go-git (G), right = git 2.39.5 (S); each is replayed on the real
   code and on the git binary by every run of the check *)
Local Notation B := bytes_of_string.
Example C49_refuted_trailing_doublestar_dir :      (* abc/** vs directory abc *)
  (ignored None [([], B "abc/**")] [B "abc"] true, git_ignored None [([], B "abc/**")] [B "abc"] true) = (true, false).
Proof. vm_compute. reflexivity. Qed.
Example C49_refuted_empty_segment :                (* //a vs a *)
  (ignored None [([], B "//a")] [B "a"] false, git_ignored None [([], B "//a")] [B "a"] false) = (true, false).
Proof. vm_compute. reflexivity. Qed.
Example C49_refuted_negated_ancestor :             (* * then !foo vs foo/x *)
  (ignored None [([], B "*
!foo")] [B "foo"; B "x"] false, git_ignored None [([], B "*
!foo")] [B "foo"; B "x"] false) = (false, true).
Proof. vm_compute. reflexivity. Qed.
Example C49_refuted_triple_star_segment :          (* a/***/b vs a/b *)
  (ignored None [([], B "a/***/b")] [B "a"; B "b"] false, git_ignored None [([], B "a/***/b")] [B "a"; B "b"] false) = (false, true).
Proof. vm_compute. reflexivity. Qed.
Example C49_refuted_escaped_slash :                (* a\/b vs a/b *)
  (ignored None [([], B "a\/b")] [B "a"; B "b"] false, git_ignored None [([], B "a\/b")] [B "a"; B "b"] false) = (false, true).
Proof. vm_compute. reflexivity. Qed.
Example C49_refuted_slash_in_bracket :             (* [a/b]c vs ac *)
  (ignored None [([], B "[a/b]c")] [B "ac"] false, git_ignored None [([], B "[a/b]c")] [B "ac"] false) = (false, true).
Proof. vm_compute. reflexivity. Qed.
Example C49_refuted_doublestar_greedy :            (* **/a/b vs a/c/a/b *)
  (ignored None [([], B "**/a/b")] [B "a"; B "c"; B "a"; B "b"] false,
   git_ignored None [([], B "**/a/b")] [B "a"; B "c"; B "a"; B "b"] false) = (false, true).
Proof. vm_compute. reflexivity. Qed.
Example C49_refuted_dir_pattern_below_reincluded_dir :   (* foo/x/ then !*/**/ vs file foo/x/a *)
  (ignored None [([], B "foo/x/
!*/**/")] [B "foo"; B "x"; B "a"] false,
   git_ignored None [([], B "foo/x/
!*/**/")] [B "foo"; B "x"; B "a"] false) = (true, false).
Proof. vm_compute. reflexivity. Qed.
Example C49_refuted_whitespace_only_line :         (* a line holding TAB vs a file named TAB *)
  (ignored None [([], [9; 10])] [[9]] false, git_ignored None [([], [9; 10])] [[9]] false) = (false, true).
Proof. vm_compute. reflexivity. Qed.
(* two divergences were repaired in go-git (fix: commits, findings/C49.json):
   trailing spaces are now trimmed by a port of git's trim_trailing_spaces, and a
   UTF-8 byte order mark at the start of an ignore file is skipped *)
Example C49_fixed_trailing_space_escape :          (* a\<sp><sp> vs "a " ; a\\<sp> vs "a\" *)
  (ignored None [([], B "a\  ")] [B "a "] false, git_ignored None [([], B "a\  ")] [B "a "] false) = (true, true) /\
  (ignored None [([], B "a\\ ")] [B "a\"] false, git_ignored None [([], B "a\\ ")] [B "a\"] false) = (true, true).
Proof. vm_compute. split; reflexivity. Qed.
Example C49_fixed_utf8_bom :                       (* BOM a vs a *)
  (ignored None [([], [239; 187; 191; 97; 10])] [B "a"] false,
   git_ignored None [([], [239; 187; 191; 97; 10])] [B "a"] false) = (true, true).
Proof. vm_compute. reflexivity. Qed.

(* Partial statement: ignore files made of plain name patterns — no negation,
   no slash except an optional trailing one, glob inside the fragment, nothing
   for the two line readers to disagree on (names_file) — give the same verdict
   in go-git and in git, for every path at every depth, with ignore files at
   every level and info/exclude.
   Missing for the full statement: negated patterns (go-git's matching of
   ancestor components re-includes differently), patterns with inner slashes
   and the ** forms, the line-reading corner cases; the witnesses above show
   each of them really differs. *)
Theorem C49_pattern_eq_git_partial : forall excl fs path isdir,
  names_case excl fs = true ->
  ignored excl fs path isdir = git_ignored excl fs path isdir.
Proof. exact names_eq_git. Qed.
Print Assumptions C49_pattern_eq_git_partial.

(* ---- non-vacuity --------------------------------------------------- *)

Example C49_fragment_example :
  exists g, glob_of (bytes_of_string "a[!b-d]?\**.[ch]") = Some g /\
            gmatch g (bytes_of_string "aez*foo.c") = true /\
            wildmatch (bytes_of_string "a[!b-d]?\**.[ch]") (bytes_of_string "aez*foo.c") = true /\
            wildmatch (bytes_of_string "a[!b-d]?\**.[ch]") (bytes_of_string "acz*foo.c") = false.
Proof. eexists. vm_compute. repeat split; reflexivity. Qed.

Example C49_fragment_sets :
  (exists g, glob_of (bytes_of_string "[]-]x[\]a-\c-][[a]") = Some g) /\
  wildmatch (bytes_of_string "[]-]x[\]a-\c-][[a]") (bytes_of_string "]xb[") = true /\
  wildmatch (bytes_of_string "[]-]x[\]a-\c-][[a]") (bytes_of_string "-x-a") = true /\
  wildmatch (bytes_of_string "[]-]x[\]a-\c-][[a]") (bytes_of_string "axb[") = false /\
  glob_of (bytes_of_string "[[:alpha:]]") = None.
Proof. vm_compute. repeat split; try reflexivity. eexists; reflexivity. Qed.

Example C49_names_example :
  names_case (Some (bytes_of_string "*.o
build/
")) [([], bytes_of_string "*.[oa]
tmp?
"); ([bytes_of_string "src"], bytes_of_string "gen*/
")] = true /\
  ignored (Some (bytes_of_string "*.o
build/
")) [([], bytes_of_string "*.[oa]
tmp?
"); ([bytes_of_string "src"], bytes_of_string "gen*/
")] [bytes_of_string "src"; bytes_of_string "gen1"; bytes_of_string "x.c"] false = true.
Proof. vm_compute. split; reflexivity. Qed.

Example C49_excluded_parent_example :
  ignored None [([], bytes_of_string "build
"); ([bytes_of_string "build"], bytes_of_string "!keep
")] [bytes_of_string "build"; bytes_of_string "keep"] false = true.
Proof. vm_compute. reflexivity. Qed.
