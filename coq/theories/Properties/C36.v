(* Properties/C36.v — Fetch and clone deliver complete history and correct
   refs: the protocol core (partial by design: the transports, the servers'
   wire handling and git-as-peer pairings are exercised by the correspondence
   suites, not proved).  Only statements here; proofs live in Proofs/C36.v. *)
From Coq Require Import List NArith ZArith Bool Lia String.
From GoGit Require Import Base.Out Gen.C36 Model.RefSpec Model.RevList Model.PushRules Model.FetchProto
     Spec.ObjReach Proofs.C38 Proofs.C36 Proofs.C36Refspec Proofs.C36Gen Proofs.C36V2.
Import ListNotations.

(* the negotiation constants of the model are the ones in negotiate.go
   (regenerated from the source on every run: Gen/C36.v) *)
Theorem C36_flush_constants :
  Gen.C36.transport_initialFlush = Z.of_nat INITIAL_FLUSH /\ Gen.C36.transport_pipeSafeFlush = Z.of_nat PIPESAFE_FLUSH /\
  Gen.C36.transport_largeFlush = Z.of_nat LARGE_FLUSH /\ Gen.C36.transport_maxInVein = Z.of_nat MAX_IN_VEIN.
Proof. exact gen_constants. Qed.
Print Assumptions C36_flush_constants.

(* NegotiatePack terminates whatever the server acknowledges: against any
   acknowledgement table, stateful or stateless, the round loop ends within
   |haves| + 1 rounds (fuel |haves| + 2 is never exhausted) *)
Theorem C36_terminates : forall stateless wants no_shallows table haves,
  exists rounds nochange,
    negotiate (S (S (Datatypes.length haves))) stateless wants no_shallows table (neg_init haves) [] = Some (rounds, nochange) /\
    (Datatypes.length rounds <= S (Datatypes.length haves))%nat.
Proof.
  intros.
  assert (F : (1 <= n_flush_at (neg_init haves))%nat) by (cbn; unfold INITIAL_FLUSH; lia).
  assert (G : (Datatypes.length (n_haves (neg_init haves)) < S (S (Datatypes.length haves)))%nat) by (cbn; lia).
  destruct (negotiate_terminates stateless wants no_shallows table _ (neg_init haves) [] F G) as (r & nc & E & L).
  exists r, nc. split; [exact E | cbn in L; lia].
Qed.
Print Assumptions C36_terminates.

(* refspec mapping is invertible: for a valid refspec s (whose destination does
   not begin with '+') and a name n it matches, the reversed refspec matches
   Dst(n) and maps it back to n — what pruneRemotes (fetch) and prune on push
   rely on; it holds for forced refspecs since Reverse keeps the '+' in front
   (repaired) *)
Theorem C36_refspec_roundtrip : forall s n,
  rs_valid s = true -> dst_plain s = true -> rs_match s n = true ->
  rs_match (rs_reverse s) (rs_dst s n) = true /\ rs_dst (rs_reverse s) (rs_dst s n) = n.
Proof. intros s n Hv Hp M. now apply roundtrip. Qed.
Print Assumptions C36_refspec_roundtrip.

(* getWants asks for every fetched reference value the client does not hold
   (and for all of them when the repository is shallow and the depth is not 1) *)
Theorem C36_wants_cover : forall client sh depth m name h,
  In (name, h) m ->
  get client h = None \/ (negb (Nat.eqb depth 1) && negb (Nat.eqb (Datatypes.length sh) 0) = true) ->
  In h (get_wants client sh depth m).
Proof. intros client sh depth m name h Hin Hc. exact (get_wants_cover client sh depth m (name, h) Hin Hc). Qed.
Print Assumptions C36_wants_cover.

(* updateLocalReferenceStorage, one fetched reference (name, h) under refspec
   spec: either the update is refused, the store is left alone and force-needed
   is raised (reported as ErrForceNeeded — also with Tags = NoTags, repaired),
   or the local name the refspec maps it to now holds h *)
Theorem C36_ref_update : forall st sh force spec name h u u' lname,
  update_one st sh force spec (name, h) u = Some u' -> local_name spec name = Some lname ->
  (u_force_needed u' = true /\ u_local u' = u_local u) \/ ref_get (u_local u') lname = Some (RHash h).
Proof. intros. eapply (update_one_spec st sh force spec (name, h)); eauto. Qed.
Print Assumptions C36_ref_update.

(* pruneRemotes only removes a local reference whose source the server no
   longer advertises *)
Theorem C36_prune_only_stale : forall spec remote snapshot local changed m,
  ref_get local m <> None ->
  ref_get (fst (prune_spec (rs_reverse spec) remote snapshot local changed)) m = None ->
  exists n, beq_bytes n m = true /\ rs_match (rs_reverse spec) n = true /\
            ref_get remote (rs_dst (rs_reverse spec) n) = None.
Proof. intros. eapply prune_spec_only_stale; eauto. Qed.
Print Assumptions C36_prune_only_stale.

(* completeness of what is delivered: a pack selected by revlist.Objects over
   the wants and the common haves (C37), stored by a client that holds what the
   common haves reach, leaves the client with everything the wants reach — up
   to the shallow boundary sh used for the selection *)
Theorem C36_complete : forall server sh wants common pack (held : oid -> Prop),
  wf_store server = true -> objects server sh wants common = Ok pack ->
  (forall o, reach_set server sh common o -> held o) ->
  forall o, reach_set server sh wants o -> In o pack \/ held o.
Proof. exact fetch_complete. Qed.
Print Assumptions C36_complete.

(* the protocol-v2 server and an ALREADY SHALLOW client (it sent shallow lines):
   the pack is selected against the boundary the response announces — the new
   boundary when a deepen was computed, and an EMPTY new boundary means the
   whole history; the client's old boundary only when no deepen was asked for.
   Whatever the wants reach down to that boundary is in the pack or is what the
   client's haves reach down to its old boundary (what it holds).  So a client
   that is told to unshallow its old boundary receives the history below it. *)
Theorem C36_v2_deepen_covers : forall fuel st wants haves c0 cs depth out,
  wf_store st = true ->
  serve_fetch_v2 fuel st wants haves (c0 :: cs) depth = Ok out ->
  exists have_new newb,
    (vo_shallow out = None <-> have_new = false) /\
    (forall shl un, vo_shallow out = Some (shl, un) -> shl = newb) /\
    forall o, reach_set st (v2_boundary (c0 :: cs) have_new newb) wants o ->
              In o (vo_objs out) \/ reach_set st (c0 :: cs) haves o.
Proof. exact v2_shallow_client_covers. Qed.
Print Assumptions C36_v2_deepen_covers.

(* ... and a client that is not shallow gets everything the wants reach and its
   haves do not, down to the boundary announced (none: full history) *)
Theorem C36_v2_plain_covers : forall fuel st wants haves depth out,
  wf_store st = true ->
  serve_fetch_v2 fuel st wants haves [] depth = Ok out ->
  exists boundary,
    (forall shl un, vo_shallow out = Some (shl, un) -> shl = boundary /\ un = []) /\
    (vo_shallow out = None -> boundary = []) /\
    forall o, reach_set st boundary wants o -> ~ reach_set st boundary haves o -> In o (vo_objs out).
Proof. exact v2_plain_client_covers. Qed.
Print Assumptions C36_v2_plain_covers.

(* getShallowCommits: what it reports lies where it says — a commit listed as
   shallow is depth-1 (or more) parent steps from a wanted commit, a commit
   listed as not shallow is closer than that *)
Theorem C36_shallow_partial : forall st depth heads fuel sh un,
  shallow_walk fuel st depth None heads [] [] [] = Some (sh, un) ->
  (forall c, In c sh -> exists h k, In h heads /\ pdist st h c k /\ (depth <= S k)%nat) /\
  (forall c, In c un -> exists h k, In h heads /\ pdist st h c k /\ (S k < depth)%nat).
Proof.
  intros st depth heads fuel sh un H.
  eapply (shallow_walk_sound st depth heads); eauto using incl_refl; try discriminate; intros ? [].
Qed.
Print Assumptions C36_shallow_partial.

(* ... but the full statement — the shallow commits are exactly the ones at
   distance depth-1 — is false of the code: the peek at the next parent consumes
   it, so the second parent of a merge is never walked.  M(5) has parents D(3)
   and E(4), depth 2: E is one step from the want and is in neither list. *)
Definition merge_store : store :=
  [(1, Blob); (2, Tree [mkE 97 KFile 1]); (3, Commit 2 [] 10%Z); (4, Commit 2 [] 20%Z); (5, Commit 2 [3; 4] 30%Z)]%N.

Theorem C36_shallow_eq_refuted :
  pdist merge_store 5%N 4%N 1 /\
  exists sh un, shallow_walk 100 merge_store 2 None [5%N] [] [] [] = Some (sh, un) /\ ~ In 4%N sh /\ ~ In 4%N un.
Proof.
  split.
  - econstructor; [vm_compute; reflexivity | right; now left | constructor].
  - eexists. eexists. split; [vm_compute; reflexivity|]. split; intros [H|[]]; discriminate.
Qed.
Print Assumptions C36_shallow_eq_refuted.

(* ---- non-vacuity ---- *)
(* a negotiation over 40 haves where the server acknowledges one as common and
   another as ready: the ready arrives in the first batch, the second round says done *)
Example C36_neg_example :
  match negotiate 42 false [99%N] true [(5%N, AckCommon); (30%N, AckReady)] (neg_init (map N.of_nat (seq 1 40))) [] with
  | Some (rounds, false) => Datatypes.length rounds = 2%nat /\ r_done (last rounds (mkR [] false false)) = true
  | _ => False
  end.
Proof. vm_compute. split; reflexivity. Qed.

(* the default refspec maps refs/heads/main to the tracking name, a short destination to a branch *)
Example C36_local_name :
  local_name (s2b "+refs/heads/*:refs/remotes/origin/*"%string) (s2b "refs/heads/main"%string)
    = Some (s2b "refs/remotes/origin/main"%string) /\
  local_name (s2b "dev:devlocal"%string) (s2b "refs/heads/dev"%string) = Some (s2b "refs/heads/devlocal"%string).
Proof. vm_compute. split; reflexivity. Qed.

(* the default fetch refspec is valid, plain, and maps a branch there and back *)
Example C36_roundtrip_default :
  let s := s2b "+refs/heads/*:refs/remotes/origin/*"%string in
  rs_valid s = true /\ dst_plain s = true /\ rs_match s (s2b "refs/heads/feat/x"%string) = true /\
  rs_dst s (s2b "refs/heads/feat/x"%string) = s2b "refs/remotes/origin/feat/x"%string /\
  rs_dst (rs_reverse s) (s2b "refs/remotes/origin/feat/x"%string) = s2b "refs/heads/feat/x"%string.
Proof. vm_compute. repeat split; reflexivity. Qed.

(* deepening to the root: 3 <- 4 <- 5 <- 6, the client cloned 6 with depth 1 (shallow at 6) and asks for
   depth 10: the new boundary is empty, the pack carries commits 3, 4, 5 (their tree and blob are held already)
   and the client is told to unshallow 6 *)
Example C36_v2_deepen_to_root :
  serve_fetch_v2 200 [(1, Blob); (2, Tree [mkE 97 KFile 1]); (3, Commit 2 [] 1%Z); (4, Commit 2 [3] 2%Z);
                      (5, Commit 2 [4] 3%Z); (6, Commit 2 [5] 4%Z)]%N [6%N] [6%N] [6%N] 10
  = Ok (mkV2 [3; 4; 5]%N (Some ([], [6%N]))) /\
  update_shallow [6%N] (Some ([], [6%N])) = [].
Proof. vm_compute. split; reflexivity. Qed.

(* a linear history: depth 2 from commit 5 (5 -> 4 -> 3) gives the boundary {4} and the interior {5} *)
Example C36_shallow_linear :
  shallow_walk 100 [(2, Tree []); (3, Commit 2 [] 1%Z); (4, Commit 2 [3] 2%Z); (5, Commit 2 [4] 3%Z)]%N 2 None [5%N] [] [] []
  = Some ([4%N], [5%N]).
Proof. vm_compute. reflexivity. Qed.
