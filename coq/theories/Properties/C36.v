(* Properties/C36.v — placeholder while the correspondence is brought up *)
From GoGit Require Import Model.RefSpec Model.RevList Model.PushRules Model.FetchProto.
