(* Properties/C19.v — Transactional storage shows base plus pending writes,
   then commits them.  Only statements here; proofs live in Proofs/C19.v.

   G = Model/Txn.v: storage/transactional with the three repairs committed in
   the repository worktree (IterReferences filters the base listing,
   CheckAndSetReference honours `deleted`, ShallowStorage has a `set` flag).
   S = the abstract transaction of Spec/AStore.v (a base and a view: every
   write goes to the view, every read is a query on the view, Commit makes the
   base equal to the view).  Answers are compared with [res_equiv]: listings
   up to order, but not up to multiplicity.

   Full statement of the property:
     forall U b ops, st_okb b = true ->
       Forall2 res_equiv (snd (g_run U (txn_begin b) ops)) (snd (spec_run U (spec_begin b) ops))
       /\ t_base (fst (g_run U (txn_begin b) ops)) = b
       /\ g_commit (fst (g_run U (txn_begin b) ops)) = spec_commit (fst (spec_run U (spec_begin b) ops)).
   Its second and third conjuncts are proved for every history; the first is
   proved for every history whose IterEncodedObjects calls are not made while
   an object written in the transaction is also in the base (such an object is
   listed twice: C19_view_refuted_iter_objects, a known finding).
   On the tree as found three more witnesses refuted it (corpus/C19): an
   overwritten or removed reference still listed, CAS succeeding after
   RemoveReference, SetShallow([]) ignored; they are now theorems
   (C19_repaired_witnesses). *)
From Coq Require Import List NArith Bool Permutation.
From GoGit Require Import Base.Out Spec.AStore Model.Txn Proofs.AStoreFacts Proofs.C19.
Import ListNotations.
Local Open Scope N_scope.

(* the base storage is not touched before Commit — for every history *)
Theorem C19_base_untouched : forall U b ops, t_base (fst (g_run U (txn_begin b) ops)) = b.
Proof. intros. apply g_run_base. Qed.
Print Assumptions C19_base_untouched.

(* Commit writes exactly the transaction's own view — for every history *)
Theorem C19_commit_abs : forall U b ops, st_okb b = true ->
  g_commit (fst (g_run U (txn_begin b) ops)) = absview (fst (g_run U (txn_begin b) ops)).
Proof. exact commit_abs. Qed.
Print Assumptions C19_commit_abs.

(* every answer equals the answer of the abstract transaction; the only
   guarded call is IterEncodedObjects (op_ok: no object written in the
   transaction is already in the base).  SetReference, CheckAndSetReference,
   Reference, IterReferences, RemoveReference, the object reads and writes,
   index, config, shallow and the three reflog calls are unguarded *)
Theorem C19_view_partial : forall U b ops,
  st_okb b = true -> guards U (txn_begin b) ops = true ->
  Forall2 res_equiv (snd (g_run U (txn_begin b) ops)) (snd (spec_run U (spec_begin b) ops)).
Proof. exact view_partial. Qed.
Print Assumptions C19_view_partial.

(* ... and then Commit leaves the base equal to the abstract view *)
Theorem C19_commit_partial : forall U b ops,
  st_okb b = true -> guards U (txn_begin b) ops = true ->
  g_commit (fst (g_run U (txn_begin b) ops)) = spec_commit (fst (spec_run U (spec_begin b) ops)).
Proof. exact commit_partial. Qed.
Print Assumptions C19_commit_partial.

(* ---- the full statement is still false for object listings *)
Definition U1 : universe := fun _ => (3, 1).
Definition full_view U b ops :=
  Forall2 res_equiv (snd (g_run U (txn_begin b) ops)) (snd (spec_run U (spec_begin b) ops)).

(* an object rewritten in the transaction is listed twice *)
Theorem C19_view_refuted_iter_objects :
  exists b ops, st_okb b = true /\ ~ full_view U1 b ops.
Proof.
  exists (mkStore [] [(0, tt)] 0 0 [] []), [OSetObj 0; OIterObjs 0].
  split; [reflexivity|]. unfold full_view. vm_compute. intro H.
  inversion H as [|? ? ? ? _ H2]; subst. inversion H2 as [|? ? ? ? HP _]; subst.
  apply Permutation_length in HP. discriminate.
Qed.
Print Assumptions C19_view_refuted_iter_objects.

(* ... and the guard is exact for the full listing: whenever it fails in a
   reachable state, IterEncodedObjects(AnyObject) differs from the view's *)
Theorem C19_guard_tight_iter_objects : forall U t,
  Inv t -> op_ok U t (OIterObjs 0) = false ->
  ~ Permutation (g_iter_objs U t 0) (st_iter_objs U 0 (absview t)).
Proof. exact guard_tight_iter_objs. Qed.
Print Assumptions C19_guard_tight_iter_objects.

(* ---- the three witnesses of the tree as found now satisfy the statement,
   answers and Commit *)
Example C19_repaired_witnesses :
  (* overwritten reference listed once, removed reference not listed *)
  snd (g_run U1 (txn_begin (mkStore [(0, RHash 0); (1, RHash 0)] [] 0 0 [] []))
             [OSetRef 0 (RHash 1); ODelRef 1; OIterRefs])
  = [ROk; ROk; RRefs [(0, RHash 1)]]
  (* CAS after RemoveReference: not found *)
  /\ snd (g_run U1 (txn_begin (mkStore [(0, RHash 0)] [] 0 0 [] []))
                [ODelRef 0; OCas 0 (RHash 1) 0 (RHash 0); OGetRef 0])
     = [ROk; RErr ENotFound; RErr ENotFound]
  (* SetShallow([]) is visible and committed *)
  /\ (let t := fst (g_run U1 (txn_begin (mkStore [] [] 0 0 [0] [])) [OSetShallow []]) in
      g_shallow t = [] /\ s_shallow (g_commit t) = []).
Proof. vm_compute. repeat split. Qed.

(* ---- non-vacuity: a history with writes of every kind passes the guard, and
   the invariant used above holds of every state the model can reach *)
Example C19_guards_nonvacuous :
  guards U1 (txn_begin (mkStore [(0, RHash 0); (2, RSym 0)] [(1, tt)] 1 2 [1] [(0, [5])]))
    [OSetRef 0 (RHash 2); OCas 0 (RHash 3) 0 (RHash 2); OGetRef 0; OIterRefs; ODelRef 2;
     OCas 2 (RHash 1) 2 (RSym 0); OIterRefs;
     OSetObj 2; OHasObj 1; OGetObj 3 2; OIterObjs 0; OSetIdx 3; OGetIdx; OSetCfg 0; OGetCfg;
     OSetShallow []; OGetShallow; ODelLog 0; OAppendLog 0 7; OAppendLog 3 8; OGetLog 0] = true.
Proof. vm_compute. reflexivity. Qed.

Example C19_inv_reachable : forall U b ops, st_okb b = true -> Inv (fst (g_run U (txn_begin b) ops)).
Proof. intros U b ops Hb. apply Inv_run, Inv_begin, store_ok_okb. exact Hb. Qed.
