(* Properties/C19.v — Transactional storage shows base plus pending writes,
   then commits them.  Only statements here; proofs live in Proofs/C19.v.

   G = Model/Txn.v (storage/transactional as it is), S = the abstract
   transaction of Spec/AStore.v (a base and a view: every write goes to the
   view, every read is a query on the view, Commit makes the base equal to the
   view).  Answers are compared with [res_equiv]: listings up to order.

   Full statement of the property (FALSE of the faithful model, see the
   _refuted theorems):
     forall U b ops, st_okb b = true ->
       Forall2 res_equiv (snd (g_run U (txn_begin b) ops)) (snd (spec_run U (spec_begin b) ops))
       /\ t_base (fst (g_run U (txn_begin b) ops)) = b
       /\ g_commit (fst (g_run U (txn_begin b) ops)) = spec_commit (fst (spec_run U (spec_begin b) ops)). *)
From Coq Require Import List NArith Bool Permutation.
From GoGit Require Import Base.Out Spec.AStore Model.Txn Proofs.AStoreFacts Proofs.C19.
Import ListNotations.
Local Open Scope N_scope.

(* the base storage is not touched before Commit — for every history, no guard *)
Theorem C19_base_untouched : forall U b ops, t_base (fst (g_run U (txn_begin b) ops)) = b.
Proof. intros. apply g_run_base. Qed.
Print Assumptions C19_base_untouched.

(* Commit writes exactly the transaction's own view (absview: base minus the
   deleted names, overridden by temporal; index/config when set; the temporal
   shallow list when non-empty; reflogs deleted then appended) — for every
   history, no guard *)
Theorem C19_commit_abs : forall U b ops, st_okb b = true ->
  g_commit (fst (g_run U (txn_begin b) ops)) = absview (fst (g_run U (txn_begin b) ops)).
Proof. exact commit_abs. Qed.
Print Assumptions C19_commit_abs.

(* every answer equals the answer of the abstract transaction, as long as each
   call passes [op_ok] in the state it is made in:
     IterReferences        no base name is deleted or overwritten in the transaction
     CheckAndSetReference  old.Name() is not (deleted in the transaction and present in the base)
     IterEncodedObjects    no object written in the transaction is already in the base
     SetShallow l          l is not empty, or the base list is empty
   all other calls (SetReference, Reference, RemoveReference, the object reads
   and writes, index, config, Shallow, the three reflog calls) are unguarded *)
Theorem C19_view_partial : forall U b ops,
  st_okb b = true -> guards U (txn_begin b) ops = true ->
  Forall2 res_equiv (snd (g_run U (txn_begin b) ops)) (snd (spec_run U (spec_begin b) ops)).
Proof. exact view_partial. Qed.
Print Assumptions C19_view_partial.

(* ... and then Commit leaves the base equal to the abstract view *)
Theorem C19_commit_partial : forall U b ops,
  st_okb b = true -> guards U (txn_begin b) ops = true ->
  g_commit (fst (g_run U (txn_begin b) ops)) = spec_commit (fst (spec_run U (spec_begin b) ops)).
Proof. exact commit_partial. Qed.
Print Assumptions C19_commit_partial.

(* ---- the full statement is false: four witnesses (replayed on the real code
   by corpus/C19/witnesses.json) *)
Definition U1 : universe := fun _ => (3, 1).
Definition full_view U b ops :=
  Forall2 res_equiv (snd (g_run U (txn_begin b) ops)) (snd (spec_run U (spec_begin b) ops)).

(* an overwritten reference is listed twice *)
Theorem C19_view_refuted_iter :
  exists b ops, st_okb b = true /\ ~ full_view U1 b ops.
Proof.
  exists (mkStore [(0, RHash 0)] [] 0 0 [] []), [OSetRef 0 (RHash 1); OIterRefs].
  split; [reflexivity|]. unfold full_view. vm_compute. intro H.
  inversion H as [|? ? ? ? _ H2]; subst. inversion H2 as [|? ? ? ? HP _]; subst.
  apply Permutation_length in HP. discriminate.
Qed.
Print Assumptions C19_view_refuted_iter.

(* CAS after RemoveReference succeeds against the base value *)
Theorem C19_view_refuted_cas_after_remove :
  exists b ops, st_okb b = true /\ ~ full_view U1 b ops.
Proof.
  exists (mkStore [(0, RHash 0)] [] 0 0 [] []), [ODelRef 0; OCas 0 (RHash 1) 0 (RHash 0)].
  split; [reflexivity|]. unfold full_view. vm_compute. intro H.
  inversion H as [|? ? ? ? _ H2]; subst. inversion H2 as [|? ? ? ? HP _]; subst.
  discriminate.
Qed.
Print Assumptions C19_view_refuted_cas_after_remove.

(* SetShallow([]) is invisible *)
Theorem C19_view_refuted_shallow_clear :
  exists b ops, st_okb b = true /\ ~ full_view U1 b ops.
Proof.
  exists (mkStore [] [] 0 0 [0] []), [OSetShallow []; OGetShallow].
  split; [reflexivity|]. unfold full_view. vm_compute. intro H.
  inversion H as [|? ? ? ? _ H2]; subst. inversion H2 as [|? ? ? ? HP _]; subst.
  discriminate.
Qed.
Print Assumptions C19_view_refuted_shallow_clear.

(* an object rewritten in the transaction is listed twice *)
Theorem C19_view_refuted_iter_objects :
  exists b ops, st_okb b = true /\ ~ full_view U1 b ops.
Proof.
  exists (mkStore [] [(0, tt)] 0 0 [] []), [OSetObj 0; OIterObjs 0].
  split; [reflexivity|]. unfold full_view. vm_compute. intro H.
  inversion H as [|? ? ? ? _ H2]; subst. inversion H2 as [|? ? ? ? HP _]; subst.
  apply Permutation_length in HP. discriminate.
Qed.
Print Assumptions C19_view_refuted_iter_objects.

(* ... and Commit does not write the cleared shallow list *)
Theorem C19_commit_refuted_shallow_clear :
  exists b ops, st_okb b = true /\
    g_commit (fst (g_run U1 (txn_begin b) ops)) <> spec_commit (fst (spec_run U1 (spec_begin b) ops)).
Proof.
  exists (mkStore [] [] 0 0 [0] []), [OSetShallow []].
  split; [reflexivity|]. vm_compute. discriminate.
Qed.
Print Assumptions C19_commit_refuted_shallow_clear.

(* ---- the guards of the two reference calls are exact: whenever the guard
   fails in a reachable state, the transaction's answer differs from the view's *)
Theorem C19_guard_tight_iter : forall t,
  Inv t -> op_ok (fun _ => (0, 0)) t OIterRefs = false ->
  ~ Permutation (g_iter_refs t) (s_refs (absview t)).
Proof. exact guard_tight_iter. Qed.
Print Assumptions C19_guard_tight_iter.

Theorem C19_guard_tight_cas : forall U t n v on ov,
  Inv t -> op_ok U t (OCas n v on ov) = false ->
  snd (g_step U t (OCas n v on ov))
  <> snd (spec_step U (mkSpec (t_base t) (absview t)) (OCas n v on ov)).
Proof. exact guard_tight_cas. Qed.
Print Assumptions C19_guard_tight_cas.

(* ---- non-vacuity: a history with writes of every kind passes all guards, and
   the invariant used above holds of every state the model can reach *)
Example C19_guards_nonvacuous :
  guards U1 (txn_begin (mkStore [(0, RHash 0); (2, RSym 0)] [(1, tt)] 1 2 [1] [(0, [5])]))
    [OSetRef 1 (RHash 2); OCas 1 (RHash 3) 1 (RHash 2); OGetRef 1; OIterRefs; ODelRef 1;
     OSetObj 2; OHasObj 1; OGetObj 3 2; OIterObjs 0; OSetIdx 3; OGetIdx; OSetCfg 0; OGetCfg;
     OSetShallow [2; 1]; OGetShallow; ODelLog 0; OAppendLog 0 7; OAppendLog 3 8; OGetLog 0] = true.
Proof. vm_compute. reflexivity. Qed.

Example C19_inv_reachable : forall U b ops, st_okb b = true -> Inv (fst (g_run U (txn_begin b) ops)).
Proof. intros U b ops Hb. apply Inv_run, Inv_begin, store_ok_okb. exact Hb. Qed.
