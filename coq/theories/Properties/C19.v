(* Properties/C19.v — placeholder while the harness is brought up *)
From Coq Require Import List NArith Bool.
From GoGit Require Import Base.Out Spec.AStore Model.Txn Proofs.C19.
Import ListNotations.
Local Open Scope N_scope.

Theorem C19_base_untouched : forall U b ops, t_base (fst (g_run U (txn_begin b) ops)) = b.
Proof. intros. apply g_run_base. Qed.
Print Assumptions C19_base_untouched.
