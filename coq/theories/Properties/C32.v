(* Properties/C32.v — Sparse checkout materialises exactly the selected directories.
   Only statements here; proofs live in Proofs/C32*.v. *)
From Coq Require Import List NArith Bool String.
From GoGit Require Import Base.Out Model.SparseCheckout Spec.SparseSpec Proofs.C32 Proofs.C32Porcelain.
Import ListNotations.
Local Open Scope N_scope.

(* Index.SkipUnless (after the repair "fix: match sparse-checkout directories by
   whole path components"): for ANY pattern list and entry list, an entry is
   left un-skipped exactly when its name is a selected directory itself or lies
   below one ("d/..."); names, order and data of the entries are untouched. *)
Theorem C32_exact : forall D es e,
  In e (skip_unless D es) -> (e_skip e = false <-> Selected D (e_name e)).
Proof. exact skip_unless_exact. Qed.
Print Assumptions C32_exact.

Theorem C32_names_kept : forall D es,
  map e_name (skip_unless D es) = map e_name es /\ map e_data (skip_unless D es) = map e_data es.
Proof. intros; split; [apply skip_unless_names|apply skip_unless_data]. Qed.
Print Assumptions C32_names_kept.

(* "inside" is by whole path components: the '/'-components of the directory
   (strings.Split) are a prefix of the components of the path *)
Theorem C32_components : forall d p, pat_match d p = true <-> ComponentPrefix d p.
Proof. exact pat_match_components. Qed.
Print Assumptions C32_components.

(* the full statement is FALSE for the condition the unchanged tree used
   (strings.HasPrefix(e.Name, pattern)): D = {a} also selected ab/y *)
Theorem C32_prefix_refuted :
  exists D es e, In e (skip_unless_old D es) /\ e_skip e = false /\ ~ Selected D (e_name e).
Proof. exact old_prefix_refuted. Qed.
Print Assumptions C32_prefix_refuted.

(* ---- checkout / reset with sparse directories (flat model of worktree.go, see
   Model/SparseCheckout.v for what it covers) ---- *)

(* after ANY successful Reset / Checkout with a non-empty directory list, in either mode,
   an index entry is un-skipped exactly when its path lies inside a selected directory *)
Theorem C32_flags : forall prev m t dirs sv s s',
  dirs <> [] -> reset_core prev m t dirs sv s = (SOk, s') ->
  forall e, In e (s_idx s') -> e_skip e = false <-> Selected dirs (e_name e).
Proof. exact reset_flags. Qed.
Print Assumptions C32_flags.

(* HardReset / forced checkout: every tracked entry is in the worktree iff it is not
   skip-worktree, present files hold the entry's blob, and files that are neither tracked
   nor deleted by the commit switch are left alone *)
Theorem C32_hard_worktree : forall prev t dirs sv s s',
  NoDup (map e_name (s_idx s)) -> NoDup (map fst t) ->
  reset_core prev Hard t dirs sv s = (SOk, s') ->
  NoDup (map e_name (s_idx s')) /\
  (forall e, In e (s_idx s') ->
     has (e_name e) (s_wt s') = negb (e_skip e) /\
     (e_skip e = false -> lookup (e_name e) (s_wt s') = Some (e_data e))) /\
  (forall n, ~ In n (map e_name (s_idx s')) -> (has n prev && negb (has n t))%bool = false ->
     lookup n (s_wt s') = lookup n (s_wt s)).
Proof. exact hard_materialises. Qed.
Print Assumptions C32_hard_worktree.

(* the full statement relative to the TARGET COMMIT — the worktree holds exactly the target's
   files inside the selected directories — holds when no entry is skip-worktree beforehand
   (first checkout after clone, or a fully populated worktree) ... *)
Theorem C32_target_exact_partial : forall s t dirs s',
  dirs <> [] -> NoDup (map e_name (s_idx s)) -> NoDup (map fst t) -> no_skip (s_idx s) = true ->
  step s (OCheckout true t dirs) = (SOk, s') ->
  forall n c, lookup n t = Some c ->
    (Selected dirs n -> lookup n (s_wt s') = Some c) /\ (~ Selected dirs n -> lookup n (s_wt s') = None).
Proof.
  intros s t dirs s' Hd Hi Ht Hns Hstep. cbn [step] in Hstep.
  exact (fresh_exact (s_head s) t dirs false (mkS t (s_idx s) (s_wt s)) s' Hd Hi Ht Hns Hstep).
Qed.
Print Assumptions C32_target_exact_partial.

(* ... and is FALSE of the non-forced path (MergeReset) once the index is populated: switching the
   selection from {a} to {b} on the same commit un-skips b/Z but never writes it *)
Theorem C32_merge_switch_refuted :
  let s := fold_left (fun s o => snd (step s o)) merge_switch_witness (mkS tA [] []) in
  exists e, In e (s_idx s) /\ e_skip e = false /\ Selected [[98]] (e_name e) /\ lookup (e_name e) (s_wt s) = None.
Proof. exact merge_switch_refuted. Qed.
Print Assumptions C32_merge_switch_refuted.

(* non-vacuity *)
Example C32_ex_select :
  map e_skip (skip_unless [[97]; [98;47;99]]
     [mkE [97;47;120] [] true; mkE [97;98;47;121] [] false; mkE [97] [] true;
      mkE [98;47;99;47;100] [] true; mkE [98;47;99;100] [] false])
  = [false; true; false; false; true].
Proof. vm_compute. reflexivity. Qed.

Example C32_ex_checkout :
  let t := [([97;47;88], [1]); ([97;98;47;89], [2]); ([98;47;90], [3])] in
  match step (mkS [] [] [([85], [9])]) (OCheckout true t [[97]]) with
  | (SOk, s') => map fst (sort_by fst (s_wt s')) = [[85]; [97;47;88]] /\ no_skip [] = true
  | _ => False
  end.
Proof. vm_compute. split; reflexivity. Qed.
