(* Properties/C32.v — Sparse checkout materialises exactly the selected directories.
   Only statements here; proofs live in Proofs/C32*.v. *)
From Coq Require Import List NArith Bool String.
From GoGit Require Import Base.Out Model.SparseCheckout Spec.SparseSpec Proofs.C32.
Import ListNotations.
Local Open Scope N_scope.

(* Index.SkipUnless (after the repair "fix: match sparse-checkout directories by
   whole path components"): for ANY pattern list and entry list, an entry is
   left un-skipped exactly when its name is a selected directory itself or lies
   below one ("d/..."); names, order and data of the entries are untouched. *)
Theorem C32_exact : forall D es e,
  In e (skip_unless D es) -> (e_skip e = false <-> Selected D (e_name e)).
Proof. exact skip_unless_exact. Qed.
Print Assumptions C32_exact.

Theorem C32_names_kept : forall D es,
  map e_name (skip_unless D es) = map e_name es /\ map e_data (skip_unless D es) = map e_data es.
Proof. intros; split; [apply skip_unless_names|apply skip_unless_data]. Qed.
Print Assumptions C32_names_kept.

(* "inside" is by whole path components: the '/'-components of the directory
   (strings.Split) are a prefix of the components of the path *)
Theorem C32_components : forall d p, pat_match d p = true <-> ComponentPrefix d p.
Proof. exact pat_match_components. Qed.
Print Assumptions C32_components.

(* the full statement is FALSE for the condition the unchanged tree used
   (strings.HasPrefix(e.Name, pattern)): D = {a} also selected ab/y *)
Theorem C32_prefix_refuted :
  exists D es e, In e (skip_unless_old D es) /\ e_skip e = false /\ ~ Selected D (e_name e).
Proof. exact old_prefix_refuted. Qed.
Print Assumptions C32_prefix_refuted.

(* non-vacuity *)
Example C32_ex_select :
  map e_skip (skip_unless [[97]; [98;47;99]]
     [mkE [97;47;120] [] true; mkE [97;98;47;121] [] false; mkE [97] [] true;
      mkE [98;47;99;47;100] [] true; mkE [98;47;99;100] [] false])
  = [false; true; false; false; true].
Proof. vm_compute. reflexivity. Qed.
