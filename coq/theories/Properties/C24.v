(* Properties/C24.v — placeholder while the proofs are written *)
From Coq Require Import List Arith Bool String.
From GoGit Require Import Base.Out Model.SharedFile.
Import ListNotations.
Theorem C24_placeholder : True. Proof. exact I. Qed.
