(* Properties/C24.v — An acquired pack descriptor is never closed under its
   reader.  Statements only; proofs in Proofs/C24.v.  [reachable c s] = some
   finite sequence of steps of Model/SharedFile.step leads from the initial
   state to s: any number of files and threads, any interleaving of the
   critical sections of Acquire / Release / ReleaseNow / Close / the grace
   timer / Pool.Touch / Pool.Forget, any eviction victim. *)
From Coq Require Import List Arith Bool.
From GoGit Require Import Base.Out Model.SharedFile Proofs.C24.
Import ListNotations.

(* A handle instance h handed to a reader that has not yet released it is
   still the open descriptor of its file, unless the owner was closed. *)
Theorem C24_pinned_open : forall c s t f h, reachable c s ->
  In (t, f, h) (holds s) -> fclosed (files s f) = false -> ffile (files s f) = Some h.
Proof. intros c s t f h R. apply (i_pin c s (inv_reachable c s R)). Qed.
Print Assumptions C24_pinned_open.

(* the reference count is exactly the number of outstanding holds *)
Theorem C24_refs_exact : forall c s f, reachable c s -> frefs (files s f) = hcount f (holds s).
Proof. intros c s f R. apply (i_refs c s (inv_reachable c s R)). Qed.
Print Assumptions C24_refs_exact.

(* the pool's list and the members' registration tokens agree, no member is
   linked twice, and the list never exceeds the capacity *)
Theorem C24_lru_wf : forall c s, reachable c s ->
  NoDup (lru s) /\ (forall f, finlru (files s f) = true <-> In f (lru s)) /\ List.length (lru s) <= cap c.
Proof.
  intros c s R. pose proof (inv_reachable c s R) as I.
  split; [apply (i_nodup c s I) | split; [apply (i_inlru c s I) | apply (i_len c s I)]].
Qed.
Print Assumptions C24_lru_wf.

(* FULL STATEMENT (false):  forall reachable s and duplicate-free fs of pooled files,
     count is_open s fs <= cap c + count is_pinned s fs.
   Refuted under the Go victim policy (choose_victim): capacity 1, three
   descriptors open, one pinned, two evictions in flight. *)
Theorem C24_bound_refuted : exists c s fs, reachable c s /\ NoDup fs /\
  (forall f, In f fs -> epooled c f = true) /\
  cap c + count is_pinned s fs < count is_open s fs.
Proof.
  exists overshoot_cfg, overshoot_state, [0; 1; 2].
  split; [exact overshoot_reachable|]. split; [repeat constructor; cbn; intuition discriminate|].
  split; [intros f [<-|[<-|[<-|[]]]]; reflexivity|].
  destruct overshoot_counts as (-> & -> & -> & _). repeat constructor.
Qed.
Print Assumptions C24_bound_refuted.

(* what does hold: the overshoot is bounded by the evictions in flight *)
Theorem C24_bound_partial : forall c s fs, reachable c s -> NoDup fs ->
  (forall f, In f fs -> epooled c f = true) ->
  count is_open s fs <= cap c + count is_pinned s fs + List.length (inflight s).
Proof. exact bound_partial. Qed.
Print Assumptions C24_bound_partial.

(* ... so the stated bound holds whenever no eviction is in flight (guard: inflight s = []) *)
Theorem C24_bound_quiescent : forall c s fs, reachable c s -> NoDup fs ->
  (forall f, In f fs -> epooled c f = true) ->
  (match inflight s with [] => true | _ => false end) = true ->
  count is_open s fs <= cap c + count is_pinned s fs.
Proof.
  intros c s fs R Hnd Hp Hq. apply bound_quiescent; auto. destruct (inflight s); [reflexivity|discriminate].
Qed.
Print Assumptions C24_bound_quiescent.

(* Close is final: the descriptor is gone, the flag never clears, Acquire
   changes nothing (it returns ErrClosed) *)
Theorem C24_close_final : forall c s f, reachable c s -> fclosed (files s f) = true ->
  ffile (files s f) = None
  /\ (forall ls s', run c s ls = Some s' -> fclosed (files s' f) = true /\ ffile (files s' f) = None)
  /\ (forall t ok s', step c s (LAcquire t f ok) = Some s' -> s' = s).
Proof.
  intros c s f R Hc. split; [apply (i_closed c s (inv_reachable c s R)); auto|]. split.
  - intros ls s' H. pose proof (closed_run c ls s s' f H Hc) as Hc'. split; auto.
    apply (i_closed c s' (inv_reachable c s' (reachable_run c ls s s' R H))); auto.
  - intros t ok s'. now apply acquire_closed.
Qed.
Print Assumptions C24_close_final.

(* idle handles are eventually closed, no pool: an idle open descriptor always
   has its grace timer armed with the CURRENT generation (or the callback
   already started) ... *)
Theorem C24_idle_armed : forall c s f, reachable c s -> epooled c f = false ->
  frefs (files s f) = 0 -> is_open (files s f) = true -> fclosed (files s f) = false ->
  ftimer (files s f) = Some (fgen (files s f), fidle (files s f) + grace c)
  \/ In (fgen (files s f)) (fcbs (files s f)).
Proof. exact idle_armed. Qed.
Print Assumptions C24_idle_armed.

(* ... and letting the clock and that timer run closes it *)
Theorem C24_idle_fire_closes : forall c s f, reachable c s -> epooled c f = false ->
  frefs (files s f) = 0 -> is_open (files s f) = true -> fclosed (files s f) = false ->
  exists ls s', run c s ls = Some s' /\ ffile (files s' f) = None.
Proof. exact idle_closes. Qed.
Print Assumptions C24_idle_fire_closes.

(* with a pool: an idle open descriptor is registered (an eviction can reach it)
   or its eviction is already in flight, and ReleaseNow — the pool's eviction
   call and CloseIdleDescriptors — closes it *)
Theorem C24_idle_pooled_reachable : forall c s t f, reachable c s -> epooled c f = true ->
  frefs (files s f) = 0 -> is_open (files s f) = true ->
  (In f (lru s) \/ In f (inflight s))
  /\ (pcs s t = PIdle -> exists s', step c s (LReleaseNow t f) = Some s' /\ is_open (files s' f) = false).
Proof.
  intros c s t f R Hp Hr Ho. split; [eapply idle_pooled_registered; eauto|].
  intros Hi. eapply release_now_closes; eauto.
Qed.
Print Assumptions C24_idle_pooled_reachable.

(* the grace period is respected: a timer callback closes a descriptor only
   if it has been idle for the whole grace period (generation check) *)
Theorem C24_grace_respected : forall c s f g s', reachable c s ->
  step c s (LTimerRun f g) = Some s' ->
  is_open (files s f) = true -> is_open (files s' f) = false ->
  fidle (files s f) + grace c <= now s.
Proof. exact grace_respected. Qed.
Print Assumptions C24_grace_respected.

(* the command interpreter used by the correspondence only takes steps of the
   model (with the Go victim policy): every state it visits is reachable *)
Theorem C24_exec_sound : forall c nf ks, reachable c (fst (exec c nf init ks)).
Proof. intros. apply exec_reachable. apply reachable_init. Qed.
Print Assumptions C24_exec_sound.

(* non-vacuity *)
Example C24_ex_hold : exists s, reachable (c24_cfg 1 10 [true]) s /\ holds s = [(0, 0, 0)]
  /\ ffile (files s 0) = Some 0 /\ lru s = [0].
Proof.
  exists (fst (exec (c24_cfg 1 10 [true]) 1 init [CAcquire 0 0 false; CStep 0])).
  split; [apply C24_exec_sound | vm_compute; auto].
Qed.

Example C24_ex_timer : exists s, reachable (c24_cfg 0 10 [false]) s
  /\ frefs (files s 0) = 0 /\ is_open (files s 0) = true /\ ftimer (files s 0) = Some (2, 10).
Proof.
  exists (fst (exec (c24_cfg 0 10 [false]) 1 init [CAcquire 0 0 false; CRelease 0 0])).
  split; [apply C24_exec_sound | vm_compute; auto].
Qed.

Example C24_ex_timer_closes :
  let s := fst (exec (c24_cfg 0 10 [false]) 1 init [CAcquire 0 0 false; CRelease 0 0; CSleep 10; CFire 0]) in
  is_open (files s 0) = false /\ now s = 10.
Proof. vm_compute. auto. Qed.
