(* Properties/C20.v — The cached index view always equals the on-disk index.
   Only statements here; proofs live in Proofs/C20.v.

   Model/IndexCache.v: entries are heap cells, an *index.Index is a list of
   addresses, the cache remembers such a list under the file's stat key, and
   every write of .git/index (SetIndex or another process) changes the key —
   the premise of the property.  A history is ANY list of operations of
   { Index(), write through a returned entry, replace / append / remove in a
   returned slice, SetIndex(h), external rewrite, external delete }, which
   covers worktree operations that fail part-way (they simply stop before
   their SetIndex). *)
From Coq Require Import List NArith Bool String.
From GoGit Require Import Base.Out Model.IndexCache Model.IndexCacheExt Proofs.C20 Proofs.C20Ext Proofs.C20Quiet.
Import ListNotations.

(* G as repaired ("fix: copy the entries in copyIndex", deep = true): after EVERY
   history, what Index() returns is the decode of the file, and a cache entry
   whose key matches the file holds the file's content. *)
Theorem C20_inv : forall ops,
  reads_disk true (run true ops) /\ cache_ok (run true ops).
Proof. exact deep_all_histories. Qed.
Print Assumptions C20_inv.

(* the same statement is FALSE for the tree as found (shallow copyIndex, deep = false):
   Index(); write through the returned entry; no SetIndex (the operation failed);
   the next Index() returns the written value although the file still holds (1,10) *)
Theorem C20_alias_refuted :
  exists ops, fst (read_now false (run false ops)) <> disk_content (run false ops)
              /\ disk_content (run false ops) = [(1%N, 10%N)].
Proof. exact shallow_alias_refuted. Qed.
Print Assumptions C20_alias_refuted.

(* ... and TRUE of the shallow copy exactly under the comment's assumption that
   callers replace entries and never modify them in place *)
Theorem C20_inv_partial : forall ops,
  no_mutate ops = true -> reads_disk false (run false ops) /\ cache_ok (run false ops).
Proof. exact shallow_without_mutation. Qed.
Print Assumptions C20_inv_partial.

(* the refuting history is harmless once copyIndex copies the entries *)
Theorem C20_deepcopy_restores : fst (read_now true (run true alias_witness)) = [(1%N, 10%N)].
Proof. exact deep_alias_witness. Qed.
Print Assumptions C20_deepcopy_restores.

(* ---- the extension pointers (Cache, ResolveUndo, EndOfIndexEntry) of the cached Index ----
   Model/IndexCacheExt.v: an Index is abstracted to "reports extension data"; the decoder sets it when
   the file carries TREE / REUC / EOIE, the encoder writes none (C12).
   G as repaired ("fix: SetIndex caches an index without the extensions it did not write", fixed = true):
   after EVERY history Index() reports extensions exactly when the file has them. *)
Theorem C20_ext_inv : forall ops, ereads_disk (erun true ops) /\ einv (erun true ops).
Proof. exact ext_fixed_all_histories. Qed.
Print Assumptions C20_ext_inv.

(* FALSE for the tree as found (fixed = false): read an index that carries a TREE extension, write it back:
   the file SetIndex wrote has no extension, the cached copy still reports one *)
Theorem C20_ext_stale_refuted :
  fst (eread_now (erun false stale_witness)) = true /\ edisk_ext (erun false stale_witness) = false.
Proof. exact ext_stale_refuted. Qed.
Print Assumptions C20_ext_stale_refuted.

(* ... and TRUE of the tree as found as long as no other program writes an index with extensions *)
Theorem C20_ext_inv_partial : forall ops, no_ext ops = true -> ereads_disk (erun false ops).
Proof. exact ext_unfixed_without_extensions. Qed.
Print Assumptions C20_ext_inv_partial.

Example C20_ext_history :
  let s := erun true [EExternal true; EIndex; ENop; ESetIndex 0; EIndex; EExternal true; EIndex; EDrop 2; EExtDelete; EIndex] in
  ehandles s = [true; false; false; false] /\ fst (eread_now s) = false /\
  fst (eread_now (erun true [EExternal true; EIndex; ESetIndex 0; EExternal true])) = true.
Proof. vm_compute. repeat split. Qed.

(* non-vacuity: a history with every kind of operation, ending in a state with a live cache *)
Example C20_history :
  let s := run true [OExternal [(2%N,20%N); (1%N,10%N)]; OIndex; OMutate 0 1 7%N; OAppend 0 (3%N,30%N); OSetIndex 0;
                     OMutate 0 0 8%N; OIndex; OReplace 1 0 (4%N,40%N); ORemove 1 1; OExternal [(5%N,50%N)]; OIndex] in
  fst (read_now true s) = [(5%N,50%N)] /\ cache s <> None /\ List.length (handles s) = 3.
Proof. vm_compute. repeat split; discriminate. Qed.

(* ---- the correspondence with quiet steps (the harness does not read the index after a step flagged
   true, so that the history's own next Index() is e.g. the cache MISS after an external rewrite):
   with no quiet step it is the plain trace; C20_inv speaks about every history whatever is observed ---- *)
Theorem C20_trace_quiet_loud : forall deep ops s, trace_q deep s (map (pair false) ops) = trace deep s ops.
Proof. exact trace_q_all_loud. Qed.
Print Assumptions C20_trace_quiet_loud.

Theorem C20_ext_trace_quiet_loud : forall fixed ops s, etrace_q fixed s (map (pair false) ops) = etrace fixed s ops.
Proof. exact etrace_q_all_loud. Qed.
Print Assumptions C20_ext_trace_quiet_loud.

(* non-vacuity: [external rewrite; Index() (miss); write / append / remove through the returned value;
   no SetIndex] — the next Index() returns the file *)
Example C20_miss_history :
  let s := run true [OExternal [(9%N,90%N)]; OIndex; OExternal [(2%N,20%N); (1%N,10%N)]; OIndex; OMutate 1 0 99%N;
                     OAppend 1 (3%N,30%N); ORemove 1 1] in
  fst (read_now true s) = [(1%N,10%N); (2%N,20%N)] /\ view s (nth 1 (handles s) []) = [(1%N,99%N); (3%N,30%N)].
Proof. vm_compute. split; reflexivity. Qed.
