(* Properties/C26.v — Worktree operations never touch paths outside the
   worktree or in .git.  Statements only; proofs in Proofs/C26.v.
   Model: Model/WorktreePaths.v (validPath, ValidTreePath and friends on ASCII
   byte strings; POSIX reading of a path = '/'-separated components).  *)
From Coq Require Import List NArith Bool String.
From GoGit Require Import Base.Out Model.Porcelain Model.WorktreePaths Proofs.PorcelainMaps Proofs.C26.
Import ListNotations.
Local Open Scope N_scope.

(* Lexical confinement.  If validPath accepts p then, read as a POSIX path
   below the worktree root: p has at least one component, no component is "."
   or ".." — so pure lexical resolution never pops and yields the components
   themselves, i.e. a location strictly below the root — and the first
   component is not .git / git~1 in any letter case: the location is not in the
   repository's .git directory.  Holds for both settings of protectNTFS/HFS. *)
Theorem C26_lexical_confined : forall ntfs hfs p, valid_path ntfs hfs p = true ->
  os_parts p <> [] /\
  (forall c, In c (os_parts p) -> c <> s_dot /\ c <> s_dotdot) /\
  lex_resolve [] (os_parts p) = Some (os_parts p) /\
  (forall c r, os_parts p = c :: r -> is_dotgit_name c = false).
Proof.
  intros ntfs hfs p H. destruct (valid_path_confined _ _ _ H) as (A & B & C).
  repeat split; auto; eapply valid_path_os_nodots; eauto.
Qed.
Print Assumptions C26_lexical_confined.

(* Tree paths (Tree.FindEntry, CherryPick, Submodule.Repository run
   pathutil.ValidTreePath): no component AT ANY DEPTH is .git / git~1 (any
   case), "." or "..". *)
Theorem C26_tree_paths : forall p c, valid_tree_path p = true -> In c (os_parts p) ->
  is_dotgit_name c = false /\ c <> s_dot /\ c <> s_dotdot.
Proof. exact valid_tree_path_components. Qed.
Print Assumptions C26_tree_paths.

(* Symlink discipline.  For ANY file tree ([node]: what sits at a resolved
   location) and ANY behaviour of symlinks ([follow]): if validNoLeadingSymlink
   accepts the components of p — Lstat (kernel-resolved) reports no symlink at
   any proper prefix — then the kernel resolves the directory part of p to the
   lexical directory: the create / remove / open happens in the directory the
   string names.  With C26_lexical_confined: below the root, outside .git.
   (Not covered: the window between the Lstat calls and the operation.) *)
Theorem C26_write_confined : forall (node : list bytes -> ntype) (follow : list bytes -> list bytes) parts,
  parts <> [] ->
  no_leading_symlink (os_lstat node follow) parts = true ->
  walk node follow (removelast parts) = removelast parts.
Proof. exact no_leading_symlink_lexical. Qed.
Print Assumptions C26_write_confined.

(* FULL statement for nested .git directories ("... or inside a submodule's
   git directory"):
     valid_path ntfs hfs p = true -> forall pre c x post, os_parts p = pre ++ c :: x :: post -> is_dotgit_name c = false
   is FALSE of validPath: it splits on '/' AND '\', allows .git as the LAST of
   those components, and a tail made of backslashes only produces no component —
   but on a POSIX filesystem "\" is an ordinary file name, so "a/.git/\" names a
   file inside a/.git/.  Replayed on the real wrapper (corpus/C26).  ValidTreePath
   rejects it (C26_tree_paths), so checkout of a hostile tree cannot produce it. *)
Theorem C26_nested_dotgit_refuted :
  exists p pre c x post, valid_path true true p = true /\
    os_parts p = (pre ++ c :: x :: post)%list /\ is_dotgit_name c = true.
Proof.
  exists (bytes_of_string "a/.git/\"%string), [bytes_of_string "a"%string], s_dotgit, [BSLASH], [].
  vm_compute. repeat split.
Qed.
Print Assumptions C26_nested_dotgit_refuted.

(* partial: without a backslash in p the POSIX components ARE validPath's
   components, and no non-final one is a .git name *)
Theorem C26_nested_dotgit_partial : forall ntfs hfs p pre c x post,
  forallb (fun b => negb (is_bslash b)) p = true ->
  valid_path ntfs hfs p = true -> os_parts p = (pre ++ c :: x :: post)%list -> is_dotgit_name c = false.
Proof.
  intros ntfs hfs p pre c x post Hb H Hos. destruct (valid_path_parts _ _ _ H) as [_ Hv].
  assert (E : fields is_sep p = os_parts p).
  { unfold fields, os_parts, fields. f_equal. clear -Hb. induction p as [|a r IH]; [reflexivity|].
    cbn [forallb] in Hb. apply andb_true_iff in Hb. destruct Hb as [H1 H2]. apply negb_true_iff in H1.
    cbn [words]. unfold is_sep. rewrite H1, orb_false_r. fold is_sep. now rewrite (IH H2). }
  rewrite E, Hos in Hv. eapply valid_parts_nonfinal; eauto.
Qed.
Print Assumptions C26_nested_dotgit_partial.

(* non-vacuity *)
Example C26_examples :
  valid_path true false (bytes_of_string "dir/sub/file.txt"%string) = true /\
  valid_path true false (bytes_of_string "sub/.git"%string) = true /\      (* gitlink pointer file: allowed *)
  valid_path true false (bytes_of_string ".GIT/config"%string) = false /\
  valid_path true false (bytes_of_string "a\..\..\x"%string) = false /\
  valid_path true false (bytes_of_string "a/.git /x"%string) = false /\   (* NTFS disguise *)
  valid_path false false (bytes_of_string "a/.git /x"%string) = true /\
  valid_path true false (bytes_of_string "aux.c"%string) = false /\
  valid_tree_path (bytes_of_string "sub/.git"%string) = false /\
  valid_tree_path (bytes_of_string "sub/git~1"%string) = false /\
  valid_tree_path (bytes_of_string "sub/.gitx/ok"%string) = true.
Proof. vm_compute. repeat split. Qed.
