(* Properties/C41.v — Remote command quoting is injection-free.
   Only statements here; proofs live in Proofs/C41.v. *)
From Coq Require Import List NArith Bool String.
From GoGit Require Import Base.Out Model.ShellQuote Spec.ShWords Proofs.C41.
Import ListNotations.
Local Open Scope N_scope.

(* For every path and argument list (ANY bytes), a POSIX shell splits the
   command line go-git sends into exactly [cmd; path; args...]; because the
   spec lexer refuses every unquoted operator/expansion byte, [Some] also
   means no second command, substitution or redirection exists. *)
Theorem C41_sh : forall cmd path args,
  cmd <> [] -> forallb plain cmd = true ->
  sh_words (build cmd path args) = Some (cmd :: path :: args).
Proof. exact sh_words_build. Qed.
Print Assumptions C41_sh.

(* git-shell dequotes the single path argument back to the original bytes *)
Theorem C41_dequote : forall path, sq_dequote (quote path) = Some path.
Proof. exact sq_dequote_quote. Qed.
Print Assumptions C41_dequote.

(* ... and sq_dequote_to_argv recovers path and every argument *)
Theorem C41_dequote_argv : forall path args fuel,
  (List.length args < fuel)%nat ->
  sq_dequote_argv fuel (quote path ++ flat_map (fun x => SP :: quote x) args) []
  = Some (path :: args).
Proof. intros; now apply sq_dequote_argv_quotes. Qed.
Print Assumptions C41_dequote_argv.

(* non-vacuity: the two service names used by go-git satisfy the premises,
   and a hostile path/argument pair is split as claimed *)
Example C41_cmd_ok :
  forallb plain (bytes_of_string "git-upload-pack"%string) = true /\
  forallb plain (bytes_of_string "git-receive-pack"%string) = true /\
  forallb plain (bytes_of_string "git-upload-archive"%string) = true.
Proof. vm_compute. repeat split. Qed.

Example C41_hostile :
  sh_words (build [103;105;116] [39;59;114;109;33;36] [[]; [32;39]])
  = Some [[103;105;116]; [39;59;114;109;33;36]; []; [32;39]].
Proof. vm_compute. reflexivity. Qed.
