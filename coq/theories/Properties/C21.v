(* Properties/C21.v — A crash at any point leaves a readable, connected
   repository.  Only statements here; proofs live in Proofs/C21.v and
   Proofs/CrashFacts.v.

   [crash_states ops fs] (Model/Crash.v) are ALL states a process stop can
   leave behind while the mutation list [ops] runs from directory [fs]: the
   state after every completed mutation, the state with a torn (partly
   written) file inside every write, and every partly done run of removals.
   [crash_safe g fs ops] : every one of them satisfies [repo_ok g]
   (Spec/RepoOk.v): HEAD, every loose ref file, packed-refs, shallow, index and
   config completely written, every pack has its complete idx, and every object
   needed by an effective reference is available.

   Operations are modelled after the repairs
     "fix: close the new pack before deleting the loose objects it replaces"
     "fix: rewrite packed-refs before deleting the loose file in RemoveRef"
   (findings/C21.json); before them RepackObjects and RemoveRef had unsafe
   prefixes.  The in-place rewrites (SetRef, index, config, shallow) are NOT
   repaired: refuted below, with the strongest partial statement. *)
From Coq Require Import List NArith ZArith Bool String.
From GoGit Require Import Base.Out Gen.C22 Model.Gc Model.Crash Spec.RepoOk Proofs.C22 Proofs.CrashFacts Proofs.C21.
Import ListNotations.
Local Open Scope N_scope.

(* the executable checker used by the correspondence implies the specification *)
Theorem C21_checker_sound : forall g fs, repo_okb g fs = true -> repo_ok g fs.
Proof. exact repo_okb_sound. Qed.
Print Assumptions C21_checker_sound.

(* ---- safe operations: every crash state is fine, for every repository ---- *)

(* loose object write (temp file + rename) *)
Theorem C21_setobj_safe : forall g fs o, repo_ok g fs -> crash_safe g fs (op_setobj fs o).
Proof. exact setobj_safe. Qed.
Print Assumptions C21_setobj_safe.

(* pack write: idx, rev, promisor marker, and only then the pack itself *)
Theorem C21_packwrite_safe : forall g fs os prom,
  pack_fresh fs (new_pack_name fs) = true -> repo_ok g fs -> crash_safe g fs (op_packwrite fs os prom).
Proof. exact packwrite_safe. Qed.
Print Assumptions C21_packwrite_safe.

(* reference removal (packed entry first, loose file last) *)
Theorem C21_rmref_safe : forall g fs n, repo_ok g fs -> crash_safe g fs (op_rmref fs n).
Proof. exact rmref_safe. Qed.
Print Assumptions C21_rmref_safe.

(* PackRefs: packed-refs written through a temp file, loose files removed afterwards *)
Theorem C21_packrefs_safe : forall g fs, repo_ok g fs -> crash_safe g fs (op_packrefs fs).
Proof. exact packrefs_safe. Qed.
Print Assumptions C21_packrefs_safe.

(* Prune: only objects outside the walker's seen set go — by C22 nothing needed.
   wf_modes / wf_index: the boolean content well-formedness conditions of C22. *)
Theorem C21_prune_safe : forall g fs ol lim,
  wf_modes (to_repo g fs ol []) = true -> wf_index (to_repo g fs ol []) = true ->
  repo_ok g fs -> crash_safe g fs (op_prune g fs ol lim).
Proof. exact prune_safe. Qed.
Print Assumptions C21_prune_safe.

(* RepackObjects (repaired order): new pack in place, then the loose copies, then the old packs
   (each pack before its idx) *)
Theorem C21_repack_safe : forall g fs op lim,
  wf_modes (to_repo g fs [] op) = true -> wf_index (to_repo g fs [] op) = true ->
  pack_fresh fs (new_pack_name fs) = true ->
  repo_ok g fs -> crash_safe g fs (op_repack g fs op lim).
Proof. exact repack_safe. Qed.
Print Assumptions C21_repack_safe.

(* a worktree commit (new trees bottom-up, commit object, then the branch): the
   object writes are safe whatever they are ... *)
Theorem C21_commit_objects_safe : forall g fs os, repo_ok g fs -> crash_safe g fs (op_setobjs 0 fs os).
Proof. exact commit_objects_safe. Qed.
Print Assumptions C21_commit_objects_safe.

(* ... and the only bad crash states of the whole commit are those inside the
   final in-place rewrite of the reference file (C21_setref_refuted) *)
Theorem C21_commit_partial : forall g fs os n v s,
  repo_ok g fs -> repo_ok g (run (op_commit fs os n v) fs) ->
  In s (crash_states (op_commit fs os n v) fs) -> whole_at s (refpath n) = true -> repo_ok g s.
Proof. exact commit_partial. Qed.
Print Assumptions C21_commit_partial.

(* operations compose: the crash states of a sequence are those of its parts *)
Theorem C21_sequence : forall g fs a b,
  crash_safe g fs a -> crash_safe g (run a fs) b -> crash_safe g fs (a ++ b).
Proof. intros g fs a b Ha Hb. unfold crash_safe. rewrite crash_states_app. apply Forall_app. now split. Qed.
Print Assumptions C21_sequence.

(* ---- in-place rewrites: refuted; the only bad states are those in which the
        rewritten file is incomplete ---- *)

(* full statement:  forall g fs n v, repo_ok g fs -> repo_ok g (run (op_setref fs n v) fs)
                                      -> crash_safe g fs (op_setref fs n v)           — false: *)
Theorem C21_setref_refuted : exists g fs n v,
  repo_ok g fs /\ repo_ok g (run (op_setref fs n v) fs) /\ ~ crash_safe g fs (op_setref fs n v).
Proof. exact setref_refuted. Qed.
Print Assumptions C21_setref_refuted.

Theorem C21_setref_partial : forall g fs n v s,
  repo_ok g (run (op_setref fs n v) fs) ->
  In s (crash_states (op_setref fs n v) fs) -> whole_at s (refpath n) = true -> repo_ok g s.
Proof. exact setref_partial. Qed.
Print Assumptions C21_setref_partial.

Theorem C21_casref_refuted : exists g fs n v,
  repo_ok g fs /\ repo_ok g (run (op_casref fs n v) fs) /\ ~ crash_safe g fs (op_casref fs n v).
Proof. exact casref_refuted. Qed.
Print Assumptions C21_casref_refuted.

Theorem C21_casref_partial : forall g fs n v s,
  repo_ok g (run (op_casref fs n v) fs) ->
  In s (crash_states (op_casref fs n v) fs) -> whole_at s (refpath n) = true -> repo_ok g s.
Proof. exact casref_partial. Qed.
Print Assumptions C21_casref_partial.

Theorem C21_setindex_refuted : exists g fs es,
  repo_ok g fs /\ repo_ok g (run (op_setindex es) fs) /\ ~ crash_safe g fs (op_setindex es).
Proof. exact setindex_refuted. Qed.
Print Assumptions C21_setindex_refuted.

Theorem C21_setindex_partial : forall g fs es s,
  repo_ok g (run (op_setindex es) fs) ->
  In s (crash_states (op_setindex es) fs) -> whole_at s PIndex = true -> repo_ok g s.
Proof. exact setindex_partial. Qed.
Print Assumptions C21_setindex_partial.

Theorem C21_setconfig_refuted : exists g fs,
  repo_ok g fs /\ repo_ok g (run op_setconfig fs) /\ ~ crash_safe g fs op_setconfig.
Proof. exact setconfig_refuted. Qed.
Print Assumptions C21_setconfig_refuted.

Theorem C21_setconfig_partial : forall g fs s,
  repo_ok g (run op_setconfig fs) ->
  In s (crash_states op_setconfig fs) -> whole_at s PConfig = true -> repo_ok g s.
Proof. exact setconfig_partial. Qed.
Print Assumptions C21_setconfig_partial.

Theorem C21_setshallow_refuted : exists g fs l,
  repo_ok g fs /\ repo_ok g (run (op_setshallow l) fs) /\ ~ crash_safe g fs (op_setshallow l).
Proof. exact setshallow_refuted. Qed.
Print Assumptions C21_setshallow_refuted.

Theorem C21_setshallow_partial : forall g fs l s,
  l <> [] -> repo_ok g (run (op_setshallow l) fs) ->
  In s (crash_states (op_setshallow l) fs) -> whole_at s PShallow = true -> repo_ok g s.
Proof. exact setshallow_partial. Qed.
Print Assumptions C21_setshallow_partial.

(* ---- non-vacuity ---- *)
Example C21_witness_ok : repo_okb wg wfs = true /\ repo_okb wg wfs_shallow = true.
Proof. vm_compute. split; reflexivity. Qed.

Example C21_packwrite_example :
  pack_fresh wfs (new_pack_name wfs) = true /\
  forallb (repo_okb wg) (crash_states (op_packwrite wfs [3; 4] false) wfs) = true /\
  List.length (crash_states (op_packwrite wfs [3; 4] false) wfs) = 13%nat.
Proof. vm_compute. repeat split. Qed.
