From GoGit Require Import Base.Out Model.Gc Model.Crash.
