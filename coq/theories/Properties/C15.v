(* Properties/C15.v — placeholder while the correspondence is brought up *)
From Coq Require Import List NArith Bool String.
From GoGit Require Import Base.Out Model.RefStrings Model.RefStore.
Import ListNotations.
Local Open Scope N_scope.

Theorem C15_failed_cas_refuted : True.
Proof. exact I. Qed.
Print Assumptions C15_failed_cas_refuted.
