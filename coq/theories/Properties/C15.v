(* Properties/C15.v — Reference store behaves like a map and packing preserves it.
   Only statements here; proofs live in Proofs/C15*.v.
   G = Model/RefStore (dotgit SetRef / CheckAndSet, Ref, Refs, RemoveRef, PackRefs over
       loose files + packed-refs, after the repairs "fix: PackRefs leaves symbolic
       references loose …", "fix: RemoveRef drops the peeled line …" and "fix: rewrite
       packed-refs before deleting the loose file in RemoveRef"),
   S = Spec/RefMap (a name -> value map, compare-and-swap on object ids),
   abs s = the loose value of a name, else its first occurrence in packed-refs.

   FULL statement (the property): from every well-formed state (wfb: git- or
   go-git-written loose files and packed-refs, header / comments / peeled lines
   allowed) and for every history of operations on listed, clean names
   (op_okb), every answer is the map's answer and abs commutes with every step
   (refines_step); a SetRef refused by the filesystem leaves the state unchanged,
   a RemoveRef removes the name from the map whether or not the filesystem
   refuses the loose path afterwards (packed-refs is rewritten first).
   The faithful model refutes it at one point (C15_failed_cas_refuted): a
   failed compare-and-swap on a name without a loose file leaves an empty file,
   after which the listing fails.  Everything else is proved in full:
     C15_refines_step      — every single answer and the abstraction, NO guard;
     C15_refines_partial   — whole histories under the boolean guard `guards`
                             (each CAS names a reference that has a loose file);
     C15_pack_preserves    — PackRefs changes no read and no listing. *)
From Coq Require Import List NArith Bool String.
From GoGit Require Import Base.Out Model.RefStrings Model.RefGuard Model.RefStore Spec.RefMap
  Proofs.C15a Proofs.C15b Proofs.C15c Proofs.C15.
Import ListNotations.
Local Open Scope N_scope.

(* one operation from a well-formed state: its answer is the map's and the
   abstraction commutes — compare-and-swap included, whatever its outcome *)
Theorem C15_refines_step : forall s o, wfb s = true -> op_okb o = true ->
  let (s', r) := step_t s o in refines_step s o s' r.
Proof. exact step_refines_reads. Qed.
Print Assumptions C15_refines_step.

(* whole histories, under the guard; the final state is well-formed again *)
Theorem C15_refines_partial : forall ops s, wfb s = true -> guards s ops = true ->
  run_refines s ops /\ wfb (fold_left (fun st o => fst (step_t st o)) ops s) = true.
Proof. exact run_refines_all. Qed.
Print Assumptions C15_refines_partial.

(* the full statement (no guard) is false of the code as it is *)
Theorem C15_failed_cas_refuted :
  exists s o, wfb s = true /\ op_okb o = true /\ cas_guard s o = false /\
    snd (step_t s o) = TUnit (Er ENotFound) /\
    wfb (fst (step_t s o)) = false /\
    list_refs (fst (step_t s o)) = Er EEmpty /\ (exists l, list_refs s = Ok l).
Proof. exists s_fresh, cas_absent. exact failed_cas_breaks. Qed.
Print Assumptions C15_failed_cas_refuted.

(* packing never changes, drops or corrupts a reference, symbolic or not *)
Theorem C15_pack_preserves : forall s, wfb s = true ->
  let s' := fst (pack_refs s) in
  wfb s' = true /\ abs_eq (abs s') (abs s) /\
  exists l l', list_refs s = Ok l /\ list_refs s' = Ok l' /\ forall n v, In (n, v) l' <-> In (n, v) l.
Proof. exact pack_preserves. Qed.
Print Assumptions C15_pack_preserves.

(* what is written is what is read back: a loose file, a packed-refs line *)
Theorem C15_loose_roundtrip : forall v, val_okb v = true -> read_ref_content (ref_content v) = Ok v.
Proof. exact read_written. Qed.
Print Assumptions C15_loose_roundtrip.
Theorem C15_packed_roundtrip : forall h f name, hash_okb h f = true -> mem 32 name = false ->
  process_line (hash_string h f ++ [32] ++ name) = Some (Some (name, VHash h f)).
Proof. exact process_line_render. Qed.
Print Assumptions C15_packed_roundtrip.

(* ---- non-vacuity ---- *)
Definition ln (s : string) : bytes := bytes_of_string s ++ [10].
Definition cat (l : list bytes) : bytes := List.concat l.
Local Open Scope string_scope.
(* a git-written store: HEAD, a loose branch shadowing a packed one, a loose
   symbolic ref below refs/, packed-refs with header, a comment and a peeled tag *)
Definition ex_store : store :=
  {| fs := {| files := [(bytes_of_string "HEAD", ln "ref: refs/heads/a");
                        (bytes_of_string "refs/heads/a", ln "e6c47f5d909abcf69dd810014ec7d771b68c27f4");
                        (bytes_of_string "refs/remotes/origin/HEAD", ln "ref: refs/heads/a")];
              dirs := map bytes_of_string ["refs"; "refs/heads"; "refs/tags"; "refs/remotes"; "refs/remotes/origin"] |};
     packed := Some (cat [ln "# pack-refs with: peeled fully-peeled sorted ";
                          ln "c503512623217e92a7079b75ada1b728f48082ba refs/heads/a";
                          ln "c503512623217e92a7079b75ada1b728f48082ba refs/heads/b";
                          ln "9470c2cf496bd5396ba9652d5321e4ef672ce9f3 refs/tags/t";
                          ln "^e6c47f5d909abcf69dd810014ec7d771b68c27f4"]) |}.
Definition ex_ops : list op :=
  [ORefs; OPack; ORm (bytes_of_string "refs/tags/t");
   OSet (bytes_of_string "refs/heads/b") (mk_hash "e6c47f5d909abcf69dd810014ec7d771b68c27f4") None;
   OSet (bytes_of_string "refs/heads/b") (mk_hash "c503512623217e92a7079b75ada1b728f48082ba")
        (Some (mk_hash "e6c47f5d909abcf69dd810014ec7d771b68c27f4"));
   OSet (bytes_of_string "refs/x") (mk_sym "726566732f68656164732f62") None; OPack;
   ORef (bytes_of_string "refs/remotes/origin/HEAD"); ORefs].
Example C15_wf_nonvacuous : wfb ex_store = true /\ guards ex_store ex_ops = true.
Proof. vm_compute. split; reflexivity. Qed.
Example C15_run_example :
  map render (run ex_store [OPack; ORef (bytes_of_string "refs/remotes/origin/HEAD"); ORef (bytes_of_string "refs/heads/b")])
  = ["( ok )"; "( ok ( x726566732f72656d6f7465732f6f726967696e2f48454144 sym x726566732f68656164732f61 ) )";
     "( ok ( x726566732f68656164732f62 hash x63353033353132363233323137653932613730373962373561646131623732386634383038326261 ) )"].
Proof. vm_compute. reflexivity. Qed.
