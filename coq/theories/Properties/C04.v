(* Properties/C04.v — Trees are decoded like git and only fsck-clean trees are written.
   Only statements here; proofs live in Proofs/C04.v.
   G = Model/TreeObj.v (go-git, after the canonicalTreeMode fix recorded in
   findings/C04.json; leaves regenerated into Gen/C04.v);
   S = Spec/GitTree.v (git 2.39 ls-tree / fsck --strict, validated against the binary). *)
From Coq Require Import List NArith ZArith Bool String.
From GoGit Require Import Base.Out Gen.C04 Model.TreeObj Spec.GitTree Proofs.C04 Proofs.C04Utf8 Proofs.C04Hfs Proofs.C04Ntfs Proofs.C04Dot.
Import ListNotations.
Local Open Scope N_scope.

(* 1. Decoding.  For EVERY byte string: whenever go-git decodes it, git ls-tree
   lists exactly the same entries (names, canonical modes, ids, order). *)
Theorem C04_decode_git : forall b es, decode 20 b = inr es -> git_ls_tree 20 b = inr es.
Proof. exact decode_is_git. Qed.
Print Assumptions C04_decode_git.

(* ... and conversely: whenever git lists a tree whose mode fields have at most
   7 digits (boolean guard on git's own parse), go-git decodes it to the same
   entries.  Together: on such trees the two readers are the same partial function. *)
Theorem C04_git_decode : forall b es,
  match git_parse 20 b with inr rs => short_modes rs | inl _ => true end = true ->
  git_ls_tree 20 b = inr es -> decode 20 b = inr es.
Proof. exact git_is_decode. Qed.
Print Assumptions C04_git_decode.

(* ... and the 7-digit limit of filemode.FromBytes is the ONLY difference between
   the two readers: whenever git lists a tree, go-git decodes it if and only if
   no mode field has more than 7 digits (then to the same entries, by the two
   theorems above; otherwise Tree.Decode fails: known finding mode-over-7-digits) *)
Theorem C04_git_decode_exact : forall b rs, git_parse 20 b = inr rs ->
  ((exists es, decode 20 b = inr es) <-> short_modes rs = true).
Proof. exact git_decode_exact. Qed.
Print Assumptions C04_git_decode_exact.

(* mode canonicalisation is git's canon_mode, for every 32-bit (indeed every) mode *)
Theorem C04_canon_is_git : forall m, treeobj_canonicalTreeMode m = canon_mode m.
Proof. exact canon_same. Qed.
Print Assumptions C04_canon_is_git.

(* the converse fails only through the 7-digit limit of filemode.FromBytes
   (known finding mode-over-7-digits): git lists this tree, go-git refuses it *)
Definition w_long_mode : bytes := [48; 48; 49; 48; 48; 54; 52; 52; 32; 97; 0] ++ repeat 7 20.
Theorem C04_decode_long_mode_refuted :
  git_ls_tree 20 w_long_mode = inr [mkT 33188 [97] (repeat 7 20)] /\ decode 20 w_long_mode = inl DMalformed.
Proof. vm_compute. split; reflexivity. Qed.
Print Assumptions C04_decode_long_mode_refuted.

(* 2. Encoding round trip: what Encode writes, Decode reads back (the
   deprecated mode 0100664 reads back as 0100644, as in git) *)
Theorem C04_enc_dec : forall es b,
  Forall (fun e => List.length (t_hash e) = 20%nat) es ->
  encode es = Some b -> decode 20 b = inr (map canon_entry es).
Proof. exact enc_dec. Qed.
Print Assumptions C04_enc_dec.

(* 3. The name detectors.  go-git's pathutil.IsHFSDot is git's is_hfs_dot_generic
   (utf8.c: pick_one_utf8_char, next_hfs_char with its own list of 16 ignored
   code points — Spec/GitTree.v shares nothing with the model here) on every
   well-formed UTF-8 byte string without NUL and '/', for EVERY needle.
   wf_utf8 = git's own notion: pick_one_utf8_char never reports an invalid
   sequence (overlongs, surrogates, > U+10FFFF, U+FFFE/U+FFFF rejected). *)
Theorem C04_hfs_dot_eq_git : forall name needle,
  is_bytes name = true -> utf8_guard name = true -> tlacks 0 name = true -> tlacks 47 name = true ->
  is_hfs_dot name needle = git_is_hfs_dot name needle.
Proof. exact hfs_dot_eq_git2. Qed.
Print Assumptions C04_hfs_dot_eq_git.

(* utf8_guard name = wf_utf8 name || "the first non-ignored character is not '.'":
   well-formedness is only asked of names that start like a dot-file *)
Theorem C04_wf_utf8_guard : forall name, wf_utf8 name = true -> utf8_guard name = true.
Proof. exact wf_utf8_guard. Qed.
Print Assumptions C04_wf_utf8_guard.

(* without well-formedness only one inclusion survives: what go-git calls
   .<needle> git does too *)
Theorem C04_hfs_dot_sound : forall name needle,
  is_bytes name = true -> is_hfs_dot name needle = true -> git_is_hfs_dot name needle = true.
Proof. exact hfs_dot_le_git. Qed.
Print Assumptions C04_hfs_dot_sound.

(* ... and the other inclusion fails exactly on a malformed tail, which git reads
   as the end of the string (known finding hfs-dotgit-malformed-tail):
   ".git\xff" and ".git" + EF BF BE (U+FFFE) *)
Theorem C04_hfs_dot_malformed_refuted :
  let ff := [46; 103; 105; 116; 255] in
  let fffe := [46; 103; 105; 116; 239; 191; 190] in
  (wf_utf8 ff = false /\ is_hfs_dot ff N_git = false /\ git_is_hfs_dot ff N_git = true) /\
  (wf_utf8 fffe = false /\ is_hfs_dot fffe N_git = false /\ git_is_hfs_dot fffe N_git = true).
Proof. exact hfs_dot_malformed. Qed.
Print Assumptions C04_hfs_dot_malformed_refuted.

(* IsNTFSDotGit is git's is_ntfs_dotgit on a single path component (git's loop
   also stops at the two separators, go-git splits the name there beforehand) *)
Theorem C04_ntfs_dotgit_eq_git : forall p,
  tlacks 47 p = true -> tlacks 92 p = true -> is_ntfs_dotgit p = git_is_ntfs_dotgit p.
Proof. exact ntfs_dotgit_eq_git. Qed.
Print Assumptions C04_ntfs_dotgit_eq_git.

(* IsNTFSDot is git's is_ntfs_dot_generic (path.c, transcribed index-wise over a
   NUL-terminated string: strncasecmp, the only_spaces_and_periods loop, the
   fall-back short-name loop with saw_tilde), for every NUL-free byte string and
   every needle pair of the shape of git's four (ASCII name of >= 6 bytes,
   prefix of >= 6 bytes, neither starting with a period) *)
Theorem C04_ntfs_dot_eq_git : forall name dotgit short,
  is_bytes name = true -> tlacks 0 name = true -> ntfs_needles_ok dotgit short = true ->
  is_ntfs_dot name dotgit short = git_is_ntfs_dot_generic name dotgit short.
Proof. exact ntfs_dot_eq. Qed.
Print Assumptions C04_ntfs_dot_eq_git.

Example C04_needles_ok :
  ntfs_needles_ok N_gitmodules S_gi7eba = true /\ ntfs_needles_ok N_gitattributes S_gi7d29 = true /\
  ntfs_needles_ok N_gitignore S_gi250a = true /\ ntfs_needles_ok N_mailmap S_maba30 = true.
Proof. exact needles_ok_all. Qed.

(* whole names.  ValidTreePath splits the name at '/' and '\' and tests every
   field; fsck_tree tests the whole name with is_hfs_dotgit and is_ntfs_dotgit,
   and is_ntfs_dotgit again on every suffix that follows a backslash.  Whatever
   ValidTreePath accepts, git does not report as hasDotgit. *)
Theorem C04_has_dotgit_refused : forall n,
  is_bytes n = true -> utf8_guard n = true -> tlacks 0 n = true -> tlacks 47 n = true ->
  valid_tree_path n = true -> git_has_dotgit n = false.
Proof. exact has_dotgit_refused. Qed.
Print Assumptions C04_has_dotgit_refused.

(* git's .gitmodules verdict on a name, in go-git's terms: the two whole-name
   tests of Validate plus the one it does not make (NTFS variants after a backslash) *)
Theorem C04_dotgitmodules_eq : forall n,
  is_bytes n = true -> utf8_guard n = true -> tlacks 0 n = true -> tlacks 47 n = true ->
  git_is_dotgitmodules n =
  is_hfs_dot n N_gitmodules || is_ntfs_dot n N_gitmodules S_gi7eba || ntfs_gitmodules_after_backslash n.
Proof. exact dotgitmodules_eq. Qed.
Print Assumptions C04_dotgitmodules_eq.

Theorem C04_dotgitmodules_symlink : forall n,
  is_bytes n = true -> utf8_guard n = true -> tlacks 0 n = true -> tlacks 47 n = true -> tlacks 92 n = true ->
  git_is_dotgitmodules n = true -> dot_symlink_name n = true.
Proof. exact dotgitmodules_symlink. Qed.
Print Assumptions C04_dotgitmodules_symlink.

(* 4. Written trees and git fsck --strict.  Everything Encode accepts is free of
   the structural errors, with no condition on the names: nullSha1, fullPathname,
   hasDot, hasDotdot, zeroPaddedFilemode, duplicateEntries (incl. the d/f name
   stack), treeNotSorted, and git can parse it (no badTree) *)
Theorem C04_written_clean_structural : forall es b,
  Forall (fun e => List.length (t_hash e) = 20%nat) es ->
  encode es = Some b ->
  forallb (fun m => negb (structural m)) (git_fsck_tree 20 b) = true.
Proof. exact written_clean_structural. Qed.
Print Assumptions C04_written_clean_structural.

(* ... and fsck --strict reports NOTHING when every name that starts like a
   dot-file is well-formed UTF-8 (utf8_guard) and no symlink has an NTFS variant
   of .gitmodules after a backslash (name_guard, boolean).  Both conditions are needed: the witnesses
   below are written trees that fail exactly one of them. *)
Theorem C04_written_clean_partial : forall es b,
  Forall (fun e => List.length (t_hash e) = 20%nat) es ->
  encode es = Some b -> forallb name_guard es = true ->
  git_fsck_tree 20 b = [].
Proof. exact written_clean_wf. Qed.
Print Assumptions C04_written_clean_partial.

(* the full statement "fsck reports nothing" is false of the code as it is
   (known finding hfs-dotgit-malformed-tail): a malformed tail after .git *)
Definition w_dotgit_ff : list tentry := [mkT 33188 [46; 103; 105; 116; 255] (repeat 7 20)].
Theorem C04_written_clean_refuted :
  forallb name_guard w_dotgit_ff = false /\
  exists b, encode w_dotgit_ff = Some b /\ git_fsck_tree 20 b = [MHasDotgit].
Proof. split; [vm_compute; reflexivity|]. eexists. split; [vm_compute; reflexivity|]. vm_compute. reflexivity. Qed.
Print Assumptions C04_written_clean_refuted.

(* ... the same with .gitmodules for a symlink *)
Definition w_gitmodules_ff : list tentry :=
  [mkT 40960 [46; 103; 105; 116; 109; 111; 100; 117; 108; 101; 115; 255] (repeat 7 20)].
Theorem C04_written_gitmodules_malformed_refuted :
  forallb name_guard w_gitmodules_ff = false /\
  exists b, encode w_gitmodules_ff = Some b /\ git_fsck_tree 20 b = [MGitmodulesSymlink].
Proof. split; [vm_compute; reflexivity|]. eexists. split; [vm_compute; reflexivity|]. vm_compute. reflexivity. Qed.
Print Assumptions C04_written_gitmodules_malformed_refuted.

(* go-git's adjacent sort test implies git's verify_ordered is satisfied *)
Theorem C04_sort_is_git_order : forall a b st,
  entry_ok a -> entry_ok b -> bgt (sort_name a) (sort_name b) = false ->
  fst (verify_ordered (t_mode a) (t_name a) (t_mode b) (t_name b) st) <> Unordered.
Proof.
  intros a b st Ha Hb H. pose proof (verify_ordered_sorted a b st Ha Hb H) as V.
  destruct (verify_ordered (t_mode a) (t_name a) (t_mode b) (t_name b) st). apply V.
Qed.
Print Assumptions C04_sort_is_git_order.

(* 5. Never refuses: any duplicate-free set of entries that pass the per-entry
   rules is accepted once sorted with TreeEntrySorter — no order, no pair of
   names (file/directory prefixes included) makes Validate refuse *)
Theorem C04_never_refuses : forall es,
  Forall (fun e => entry_valid e = true) es -> NoDup (map t_name es) ->
  exists b, encode (sort_entries es) = Some b.
Proof.
  intros es Hv Hn. unfold encode. rewrite (never_refuses es Hv Hn). eexists. reflexivity.
Qed.
Print Assumptions C04_never_refuses.

(* ... where the per-entry rules are stricter than git's (known findings
   name-control-char, name-backslash, dotfile-symlink): fsck-clean single-entry
   trees whose entry go-git refuses *)
Theorem C04_never_refuses_refuted :
  let tab := mkT 33188 [97; 9; 98] (repeat 7 20) in
  let bs := mkT 33188 [97; 92; 46; 46; 92; 98] (repeat 7 20) in
  let ign := mkT 40960 [46; 103; 105; 116; 105; 103; 110; 111; 114; 101] (repeat 7 20) in
  forallb (fun e => negb (entry_valid e) &&
                    match fsck_entries [raw_of e] with [] => true | _ => false end) [tab; bs; ign] = true.
Proof. vm_compute. reflexivity. Qed.
Print Assumptions C04_never_refuses_refuted.

(* non-vacuity: a realistic set (file/dir prefix clash names) passes the guards,
   sorts into git order and encodes *)
Example C04_example :
  let es := [mkT 33188 [102; 111; 111; 46; 98] (repeat 1 20); mkT 16384 [102; 111; 111] (repeat 2 20);
             mkT 33261 [102; 111; 111; 45] (repeat 3 20); mkT 40960 [97] (repeat 4 20)] in
  forallb entry_valid es = true /\
  map t_name (sort_entries es) = [[97]; [102; 111; 111; 45]; [102; 111; 111; 46; 98]; [102; 111; 111]] /\
  match encode (sort_entries es) with Some b => git_fsck_tree 20 b = [] | None => False end.
Proof. vm_compute. repeat split. Qed.

(* ... a well-formed name that fails the second half of name_guard (known finding
   gitmodules-symlink-after-backslash) *)
Definition w_gitmodules_bs : list tentry :=
  [mkT 40960 [120; 92; 46; 103; 105; 116; 109; 111; 100; 117; 108; 101; 115] (repeat 7 20)].
Theorem C04_written_gitmodules_refuted :
  forallb name_guard w_gitmodules_bs = false /\
  exists b, encode w_gitmodules_bs = Some b /\ git_fsck_tree 20 b = [MGitmodulesSymlink].
Proof. split; [vm_compute; reflexivity|]. eexists. split; [vm_compute; reflexivity|]. vm_compute. reflexivity. Qed.
Print Assumptions C04_written_gitmodules_refuted.

(* non-vacuity of the guard: multi-byte UTF-8 of every length, HFS-ignorable code
   points inside ordinary names, a symlink with a backslash, a regular file named
   like an NTFS .gitmodules variant after a backslash *)
Example C04_guard_example :
  let es := sort_entries
            [mkT 33188 [195; 169] (repeat 1 20);                                   (* U+00E9 *)
             mkT 33188 [97; 226; 128; 140; 98] (repeat 2 20);                      (* a U+200C b *)
             mkT 33188 [240; 159; 152; 128; 46; 103; 105; 116] (repeat 3 20);      (* U+1F600 .git *)
             mkT 40960 [120; 92; 121] (repeat 4 20);                               (* symlink x\y *)
             mkT 33188 [99; 97; 102; 233; 46; 103; 105; 116; 255] (repeat 6 20);   (* Latin-1 "caf E9 .git FF": not UTF-8 *)
             mkT 33188 [120; 92; 103; 105; 55; 101; 98; 97; 126; 49] (repeat 5 20) (* file x\gi7eba~1 *)] in
  forallb name_guard es = true /\
  match encode es with Some b => git_fsck_tree 20 b = [] | None => False end.
Proof. vm_compute. split; reflexivity. Qed.
