From Coq Require Import List NArith ZArith Bool.
From GoGit Require Import Base.Out Model.TreeObj Spec.GitTree.
Import ListNotations.
Theorem C04_smoke : decode 20 [] = inr [].
Proof. reflexivity. Qed.
