(* Properties/C04.v — Trees are decoded like git and only fsck-clean trees are written.
   Only statements here; proofs live in Proofs/C04.v.
   G = Model/TreeObj.v (go-git, after the canonicalTreeMode fix recorded in
   findings/C04.json; leaves regenerated into Gen/C04.v);
   S = Spec/GitTree.v (git 2.39 ls-tree / fsck --strict, validated against the binary). *)
From Coq Require Import List NArith ZArith Bool String.
From GoGit Require Import Base.Out Gen.C04 Model.TreeObj Spec.GitTree Proofs.C04.
Import ListNotations.
Local Open Scope N_scope.

(* 1. Decoding.  For EVERY byte string: whenever go-git decodes it, git ls-tree
   lists exactly the same entries (names, canonical modes, ids, order). *)
Theorem C04_decode_git : forall b es, decode 20 b = inr es -> git_ls_tree 20 b = inr es.
Proof. exact decode_is_git. Qed.
Print Assumptions C04_decode_git.

(* ... and conversely: whenever git lists a tree whose mode fields have at most
   7 digits (boolean guard on git's own parse), go-git decodes it to the same
   entries.  Together: on such trees the two readers are the same partial function. *)
Theorem C04_git_decode : forall b es,
  match git_parse 20 b with inr rs => short_modes rs | inl _ => true end = true ->
  git_ls_tree 20 b = inr es -> decode 20 b = inr es.
Proof. exact git_is_decode. Qed.
Print Assumptions C04_git_decode.

(* mode canonicalisation is git's canon_mode, for every 32-bit (indeed every) mode *)
Theorem C04_canon_is_git : forall m, treeobj_canonicalTreeMode m = canon_mode m.
Proof. exact canon_same. Qed.
Print Assumptions C04_canon_is_git.

(* the converse fails only through the 7-digit limit of filemode.FromBytes
   (known finding mode-over-7-digits): git lists this tree, go-git refuses it *)
Definition w_long_mode : bytes := [48; 48; 49; 48; 48; 54; 52; 52; 32; 97; 0] ++ repeat 7 20.
Theorem C04_decode_long_mode_refuted :
  git_ls_tree 20 w_long_mode = inr [mkT 33188 [97] (repeat 7 20)] /\ decode 20 w_long_mode = inl DMalformed.
Proof. vm_compute. split; reflexivity. Qed.
Print Assumptions C04_decode_long_mode_refuted.

(* 2. Encoding round trip: what Encode writes, Decode reads back (the
   deprecated mode 0100664 reads back as 0100644, as in git) *)
Theorem C04_enc_dec : forall es b,
  Forall (fun e => List.length (t_hash e) = 20%nat) es ->
  encode es = Some b -> decode 20 b = inr (map canon_entry es).
Proof. exact enc_dec. Qed.
Print Assumptions C04_enc_dec.

(* 3. Written trees and git fsck --strict.  Everything Encode accepts is free of
   the structural errors: nullSha1, fullPathname, hasDot, hasDotdot,
   zeroPaddedFilemode, duplicateEntries (incl. the d/f name stack), treeNotSorted,
   and git can parse it (no badTree) *)
Theorem C04_written_clean_partial : forall es b,
  Forall (fun e => List.length (t_hash e) = 20%nat) es ->
  encode es = Some b ->
  forallb (fun m => negb (structural m)) (git_fsck_tree 20 b) = true.
Proof. exact written_clean_structural. Qed.
Print Assumptions C04_written_clean_partial.

(* ... but NOT free of hasDotgit: the full statement "fsck reports nothing" is
   false of the code as it is (known finding hfs-dotgit-malformed-tail).  What is
   missing for the full theorem: IsHFSDot / IsNTFSDotGit cover git's
   is_hfs_dotgit / is_ntfs_dotgit only on well-formed UTF-8 (exercised by the
   correspondence, not proved). *)
Definition w_dotgit_ff : list tentry := [mkT 33188 [46; 103; 105; 116; 255] (repeat 7 20)].
Theorem C04_written_clean_refuted :
  exists b, encode w_dotgit_ff = Some b /\ git_fsck_tree 20 b = [MHasDotgit].
Proof. eexists. split; vm_compute; reflexivity. Qed.
Print Assumptions C04_written_clean_refuted.

(* go-git's adjacent sort test implies git's verify_ordered is satisfied *)
Theorem C04_sort_is_git_order : forall a b st,
  entry_ok a -> entry_ok b -> bgt (sort_name a) (sort_name b) = false ->
  fst (verify_ordered (t_mode a) (t_name a) (t_mode b) (t_name b) st) <> Unordered.
Proof.
  intros a b st Ha Hb H. pose proof (verify_ordered_sorted a b st Ha Hb H) as V.
  destruct (verify_ordered (t_mode a) (t_name a) (t_mode b) (t_name b) st). apply V.
Qed.
Print Assumptions C04_sort_is_git_order.

(* 4. Never refuses: any duplicate-free set of entries that pass the per-entry
   rules is accepted once sorted with TreeEntrySorter — no order, no pair of
   names (file/directory prefixes included) makes Validate refuse *)
Theorem C04_never_refuses : forall es,
  Forall (fun e => entry_valid e = true) es -> NoDup (map t_name es) ->
  exists b, encode (sort_entries es) = Some b.
Proof.
  intros es Hv Hn. unfold encode. rewrite (never_refuses es Hv Hn). eexists. reflexivity.
Qed.
Print Assumptions C04_never_refuses.

(* ... where the per-entry rules are stricter than git's (known findings
   name-control-char, name-backslash, dotfile-symlink): fsck-clean single-entry
   trees whose entry go-git refuses *)
Theorem C04_never_refuses_refuted :
  let tab := mkT 33188 [97; 9; 98] (repeat 7 20) in
  let bs := mkT 33188 [97; 92; 46; 46; 92; 98] (repeat 7 20) in
  let ign := mkT 40960 [46; 103; 105; 116; 105; 103; 110; 111; 114; 101] (repeat 7 20) in
  forallb (fun e => negb (entry_valid e) &&
                    match fsck_entries [raw_of e] with [] => true | _ => false end) [tab; bs; ign] = true.
Proof. vm_compute. reflexivity. Qed.
Print Assumptions C04_never_refuses_refuted.

(* non-vacuity: a realistic set (file/dir prefix clash names) passes the guards,
   sorts into git order and encodes *)
Example C04_example :
  let es := [mkT 33188 [102; 111; 111; 46; 98] (repeat 1 20); mkT 16384 [102; 111; 111] (repeat 2 20);
             mkT 33261 [102; 111; 111; 45] (repeat 3 20); mkT 40960 [97] (repeat 4 20)] in
  forallb entry_valid es = true /\
  map t_name (sort_entries es) = [[97]; [102; 111; 111; 45]; [102; 111; 111; 46; 98]; [102; 111; 111]] /\
  match encode (sort_entries es) with Some b => git_fsck_tree 20 b = [] | None => False end.
Proof. vm_compute. repeat split. Qed.

(* ... nor of gitmodulesSymlink (known finding gitmodules-symlink-after-backslash) *)
Definition w_gitmodules_bs : list tentry :=
  [mkT 40960 [120; 92; 46; 103; 105; 116; 109; 111; 100; 117; 108; 101; 115] (repeat 7 20)].
Theorem C04_written_gitmodules_refuted :
  exists b, encode w_gitmodules_bs = Some b /\ git_fsck_tree 20 b = [MGitmodulesSymlink].
Proof. eexists. split; vm_compute; reflexivity. Qed.
Print Assumptions C04_written_gitmodules_refuted.
