From GoGit Require Import Base.Out Model.GoPath Model.Loader.
