(* Properties/C40.v — Repository loaders never serve a repository outside
   their root (lexical part: no symbolic links below the root).
   Only statements here; proofs live in Proofs/C40.v and Proofs/GoPathFacts.v.

   [under R p]  :=  p = R/c1/.../cn  with every ci a normal component
                    (non-empty, no '/', not "." and not "..").
   [good_root R] (boolean): R is absolute, filepath.Clean R = R and R <> "/". *)
From Coq Require Import List NArith Bool String.
From GoGit Require Import Base.Out Model.GoPath Model.Loader Proofs.GoPathFacts Proofs.C40.
Import ListNotations.
Local Open Scope N_scope.

(* For EVERY request path, every filesystem content (hence every gitfile
   content), both loader modes and both Chroot implementations: whatever
   FilesystemLoader.load serves is rooted lexically below R. *)
Theorem C40_confined : forall R, good_root R = true ->
  forall fuel k fs strict path tried root,
  fst (load fuel k fs R strict path tried) = Ok root -> under R root.
Proof. exact load_confined. Qed.
Print Assumptions C40_confined.

(* ... and every path the loader hands to the filesystem (Lstat/Open of
   ".git" and "config") is below R as well, also when it ends in an error. *)
Theorem C40_footprint : forall R, good_root R = true ->
  forall fuel k fs strict path tried p,
  In p (snd (load fuel k fs R strict path tried)) -> under R p.
Proof. exact load_footprint. Qed.
Print Assumptions C40_footprint.

(* the recursion is bounded by the [tried] flag: two levels always suffice *)
Theorem C40_terminates : forall n k fs R strict path tried,
  fst (load (S (S n)) k fs R strict path tried) <> Err EFuel.
Proof. exact load_no_fuel. Qed.
Print Assumptions C40_terminates.

(* what is served is a directory holding a regular file "config" *)
Theorem C40_serves_repository : forall fuel k fs R strict path tried root,
  fst (load fuel k fs R strict path tried) = Ok root ->
  exists c, lstat k fs root CONFIG = Some (NFile c).
Proof. exact load_serves. Qed.
Print Assumptions C40_serves_repository.

(* the two billy Chroot implementations a loader base can have, on their own *)
Theorem C40_bound_chroot_confined : forall R, good_root R = true ->
  forall fs path root, chroot_bound fs R path = Ok root -> under R root.
Proof. exact chroot_bound_under. Qed.
Print Assumptions C40_bound_chroot_confined.

Theorem C40_helper_chroot_confined : forall R, good_root R = true ->
  forall path root, chroot_helper R path = Ok root -> under R root.
Proof. exact chroot_helper_under. Qed.
Print Assumptions C40_helper_chroot_confined.

(* ---- non-vacuity ---- *)
Definition b (s : string) : bytes := bytes_of_string s.
Local Open Scope string_scope.

Example C40_good_root : good_root (b "/srv/git") = true.
Proof. vm_compute. reflexivity. Qed.

(* a gitfile pointing at an absolute path outside the root, reached through a
   dot-dot request: the loader ends below the root (here: not found), while a
   legitimate gitfile inside the root is followed *)
Definition ex_fs : fsmap :=
  [ (map b ["srv"; "git"], NDir);
    (map b ["srv"; "git"; "wt"], NDir);
    (map b ["srv"; "git"; "wt"; ".git"], NFile (b "gitdir: /srv/git/real.git
"));
    (map b ["srv"; "git"; "real.git"], NDir);
    (map b ["srv"; "git"; "real.git"; "config"], NFile (b "[core]"));
    (map b ["srv"; "git"; "evil"], NDir);
    (map b ["srv"; "git"; "evil"; ".git"], NFile (b "gitdir: /srv/secret.git
"));
    (map b ["srv"; "secret.git"], NDir);
    (map b ["srv"; "secret.git"; "config"], NFile (b "[core]")) ].

Example C40_follows_inside :
  fst (load 2 Bound ex_fs (b "/srv/git") false (b "../../wt") false) = Ok (b "/srv/git/real.git").
Proof. vm_compute. reflexivity. Qed.

Example C40_refuses_outside :
  fst (load 2 Bound ex_fs (b "/srv/git") false (b "evil") false) = Err ENotFound /\
  fst (load 2 Bound ex_fs (b "/srv/git") false (b "../secret.git") false) = Err ENotFound /\
  fst (load 2 Chroot ex_fs (b "/srv/git") false (b "../secret.git") false) = Err EChroot /\
  fst (load 2 Chroot ex_fs (b "/srv/git") false (b "wt/../real") false) = Ok (b "/srv/git/real.git").
Proof. vm_compute. repeat split. Qed.
