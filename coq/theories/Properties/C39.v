(* Properties/C39.v — placeholder while the harness is brought up *)
From Coq Require Import List NArith Bool.
From GoGit Require Import Base.Out Spec.AStore Model.ReceivePack.
Import ListNotations.
Local Open Scope N_scope.

Theorem C39_placeholder : forall s, g_update s [] = mkU3 s [] false.
Proof. reflexivity. Qed.
Print Assumptions C39_placeholder.
