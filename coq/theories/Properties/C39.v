(* Properties/C39.v — The receive-pack server applies only consistent ref
   updates.  Only statements here; proofs live in Proofs/C39.v.

   G = Model/ReceivePack.v: plumbing/transport/receive_pack.go with the three
   repairs committed in the repository worktree (old value compared, new
   object required, duplicate names refused).  On the tree as found the three
   statements below were false: the witnesses are corpus/C39/witnesses.json
   (stale old value applied; reference set to an object of no store or pack;
   two commands on one name reported as one). *)
From Coq Require Import List NArith Bool.
From GoGit Require Import Base.Out Spec.AStore Model.ReceivePack Proofs.AStoreFacts Proofs.C39.
Import ListNotations.
Local Open Scope N_scope.

(* the per-command decision of updateReferences is git's rule: a command is
   applied iff its old value is the current value and its new object exists *)
Theorem C39_refines_rule : forall s c, is_invalid c = false -> g_apply s c = spec_apply s c.
Proof. exact g_apply_spec. Qed.
Print Assumptions C39_refines_rule.

(* a reference is updated only if its current value equals the old value sent *)
Theorem C39_old_checked : forall s c s',
  g_apply s c = Some s' -> old_matches (fm_get (c_name c) (s_refs s)) (c_old c) = true.
Proof. exact g_apply_old. Qed.
Print Assumptions C39_old_checked.

(* "current value" in git's sense — the value reached through symbolic
   references: an applied command named a reference that is its own referent
   and whose resolved value is exactly the old value sent (absent for a create) *)
Theorem C39_old_checked_resolved : forall s c s' f,
  g_apply s c = Some s' -> resolve (S f) s (c_name c) = Some (c_name c, c_old c).
Proof. exact g_apply_resolved. Qed.
Print Assumptions C39_old_checked_resolved.

(* a command naming a symbolic reference (HEAD, a branch alias, dangling or
   not; create, update or delete) is never applied: a symbolic reference is
   not equal to a zero or hash old value *)
Theorem C39_symbolic_refused : forall s c, is_symbolic s (c_name c) = true -> g_apply s c = None.
Proof. exact g_apply_symbolic. Qed.
Print Assumptions C39_symbolic_refused.

(* against git receive-pack's own rule (compare the old value with the
   resolved value, update the referent; git_apply is validated against the git
   binary on every run): equal on references that are not symbolic, and on
   every reference whatever go-git applies git would apply, with the same effect *)
Theorem C39_agrees_with_git : forall s c f,
  is_invalid c = false -> is_symbolic s (c_name c) = false -> g_apply s c = git_apply (S f) s c.
Proof. exact g_apply_git. Qed.
Print Assumptions C39_agrees_with_git.

Theorem C39_applied_subset_of_git : forall s c s' f,
  is_invalid c = false -> g_apply s c = Some s' -> git_apply (S f) s c = Some s'.
Proof. exact g_apply_subset_git. Qed.
Print Assumptions C39_applied_subset_of_git.

(* ... and only to an object the repository has (after unpacking) *)
Theorem C39_new_exists : forall s c s', g_apply s c = Some s' -> new_present s (c_new c) = true.
Proof. exact g_apply_new. Qed.
Print Assumptions C39_new_exists.

(* for every command list and every store: each applied command was consistent
   in the state it met and did exactly its own update; refused commands change nothing *)
Theorem C39_run_consistent : forall cmds s, consistent_run s cmds.
Proof. exact run_consistent. Qed.
Print Assumptions C39_run_consistent.

(* inductive invariant of the whole service: if no reference pointed outside
   the object set before the push, none does afterwards — whatever the request *)
Theorem C39_refs_closed : forall s r, closed s -> closed (o_store (g_receive s r)).
Proof. exact receive_closed. Qed.
Print Assumptions C39_refs_closed.

(* the report is exact: for every request that reaches the update loop, the
   final references are those of the sequential application, the status list
   holds exactly one entry per command with its real outcome, the unpack line
   and the return value say whether all commands went through, and
   PostReceive sees exactly the applied commands *)
Theorem C39_report_exact : forall s r,
  accepted r = true ->
  let o := g_receive s r in
  let outs := outcomes (unpacked s r) (r_cmds r) in
  o_store o = final_store (unpacked s r) (r_cmds r)
  /\ o_ok o = forallb snd outs
  /\ (exists l, o_report o = Some (forallb snd outs, l)
                /\ forall k b, fm_get k l = Some b <-> In (k, b) outs)
  /\ (exists p, o_post o = Some p
                /\ forall c, In c p <-> In c (r_cmds r) /\ In (c_name c, true) outs).
Proof. exact receive_exact. Qed.
Print Assumptions C39_report_exact.

(* every other request (empty, malformed command, a name twice, no
   report-status capability, unparsable pack, PreReceive refusal) leaves all
   references as they were *)
Theorem C39_not_accepted_no_update : forall s r,
  accepted r = false -> s_refs (o_store (g_receive s r)) = s_refs s.
Proof. exact receive_not_accepted_refs. Qed.
Print Assumptions C39_not_accepted_no_update.

(* ---- non-vacuity *)
Definition U0 : universe := fun _ => (1, 10).
Definition s0 : store := mkStore [(0, RHash 0); (1, RHash 1)] [(0, tt); (1, tt)] 0 0 [] [].

(* a request with a current update, a stale update, a create of a missing
   object and a delete is accepted; exactly the consistent commands are applied *)
Example C39_mixed_request :
  let r := mkReq true [mkCmd 0 (Some 0) (Some 2); mkCmd 1 (Some 0) (Some 2);
                       mkCmd 2 None (Some 7); mkCmd 3 None (Some 2)] (Some [2]) false in
  accepted r = true
  /\ outcomes (unpacked s0 r) (r_cmds r) = [(0, true); (1, false); (2, false); (3, true)]
  /\ s_refs (o_store (g_receive s0 r)) = [(0, RHash 2); (1, RHash 1); (3, RHash 2)].
Proof. vm_compute. repeat split. Qed.

Example C39_closed_nonvacuous : closed s0.
Proof.
  intros n h. cbn [s0 s_refs s_objs fm_get].
  destruct (n =? 0); [intro E; injection E as <-; reflexivity|].
  destruct (n =? 1); [intro E; injection E as <-; reflexivity|discriminate].
Qed.

(* symbolic server references: HEAD -> branch 0, alias 3 -> branch 0, dangling
   alias 4 -> 5: every action naming them is refused; git itself would apply the
   update through the alias and the create on the dangling one (to the referent) *)
Definition s_sym : store :=
  mkStore [(0, RHash 0); (2, RSym 0); (3, RSym 0); (4, RSym 5)] [(0, tt); (1, tt)] 0 0 [] [].
Example C39_symbolic_cases :
  g_apply s_sym (mkCmd 2 None (Some 1)) = None            (* create over HEAD *)
  /\ g_apply s_sym (mkCmd 3 None (Some 1)) = None         (* create over an alias *)
  /\ g_apply s_sym (mkCmd 4 None (Some 1)) = None         (* create over a dangling alias *)
  /\ g_apply s_sym (mkCmd 3 (Some 0) (Some 1)) = None     (* update, old = resolved value *)
  /\ g_apply s_sym (mkCmd 3 (Some 0) None) = None         (* delete, old = resolved value *)
  /\ git_apply 8 s_sym (mkCmd 3 None (Some 1)) = None     (* git refuses the create too *)
  /\ git_apply 8 s_sym (mkCmd 3 (Some 0) (Some 1)) = Some (set_ref s_sym 0 1)
  /\ git_apply 8 s_sym (mkCmd 4 None (Some 1)) = Some (set_ref s_sym 5 1)
  /\ is_symbolic s_sym 3 = true.
Proof. vm_compute. repeat split. Qed.

(* the three witnesses of the tree as found are now refused *)
Example C39_witnesses_refused :
  g_apply (mkStore [(0, RHash 0)] [(0, tt); (2, tt)] 0 0 [] []) (mkCmd 0 (Some 1) (Some 2)) = None
  /\ g_apply (mkStore [(0, RHash 0)] [(0, tt)] 0 0 [] []) (mkCmd 0 (Some 0) (Some 5)) = None
  /\ accepted (mkReq true [mkCmd 0 None (Some 0); mkCmd 0 None (Some 1)] (Some []) false) = false.
Proof. vm_compute. repeat split. Qed.
