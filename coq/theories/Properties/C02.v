(* Properties/C02.v — Commit and tag codecs are faithful to git (work in progress). *)
From Coq Require Import List NArith ZArith Bool String.
From GoGit Require Import Base.Out Model.ObjLines Model.Ident Model.Commit Model.Tag.
Import ListNotations.
