(* Properties/C02.v — Commit and tag codecs are faithful to git.
   G = Model/Commit, Model/Tag, Model/Ident (go-git's scanners and encoders as
   they are); S = Spec/GitFields (what git 2.39 reports); boolean
   well-formedness / agreement clauses in Spec/ObjWf.
   Only statements here; proofs live in Proofs/C02*.v. *)
From Coq Require Import List NArith ZArith Bool String.
From GoGit Require Import Base.Out Model.ObjLines Model.Ident Model.Commit Model.Tag
     Spec.GitFields Spec.ObjWf Proofs.ObjLinesFacts Proofs.C02Dec Proofs.C02Ident Proofs.C02Commit Proofs.C02Tag Proofs.C02Message Proofs.C02IdentGit.
Import ListNotations.
Local Open Scope N_scope.

(* ---- "Encoding any well-formed in-memory commit and decoding the result
        gives back the same field values" ---- *)
Theorem C02_ident_dec_enc : forall i, wf_ident i = true -> decode_ident (encode_ident i) = i.
Proof. exact ident_dec_enc. Qed.
Print Assumptions C02_ident_dec_enc.

Theorem C02_commit_dec_enc : forall c, wf_commit c = true -> decode_commit (encode_commit c true) = Ok c.
Proof. exact commit_dec_enc. Qed.
Print Assumptions C02_commit_dec_enc.

(* ---- "Decoding any commit git can store and re-encoding it reproduces the
        same bytes": true of the canonical objects (the image of the encoder on
        well-formed structs) ... ---- *)
Theorem C02_commit_enc_dec_bytes : forall c b, wf_commit c = true -> b = encode_commit c true ->
  exists d, decode_commit b = Ok d /\ encode_commit d true = b.
Proof. intros c b Hwf ->. exists c. split; [now apply commit_dec_enc|reflexivity]. Qed.
Print Assumptions C02_commit_enc_dec_bytes.

(* ... and FALSE of every stored object (full statement:
     forall b d, decode_commit b = Ok d -> encode_commit d true = b):
   duplicate / repeated headers, explicit "encoding UTF-8", zone -0000, a
   negative timestamp, gpgsig before encoding. *)
Definition reencode_differs (b : bytes) : Prop :=
  exists d, decode_commit b = Ok d /\ encode_commit d true <> b.

Theorem C02_commit_reencode_refuted :
  reencode_differs (unhex "7472656520346238323564633634326362366562396130363065353462663864363932383866626565343930340a617574686f722041203c6140623e2031202b303030300a636f6d6d69747465722043203c6340643e2032202d303133300a782d64757020760a782d64757020760a7472656520346238323564633634326362366562396130363065353462663864363932383866626565343930340a0a6d0a") /\
  reencode_differs (unhex "7472656520346238323564633634326362366562396130363065353462663864363932383866626565343930340a617574686f722041203c6140623e2031202b303030300a636f6d6d69747465722043203c6340643e2032202d303133300a656e636f64696e67205554462d380a0a6d0a") /\
  reencode_differs (unhex "7472656520346238323564633634326362366562396130363065353462663864363932383866626565343930340a617574686f722041203c6140623e2031202d303030300a636f6d6d69747465722043203c6340643e2032202d303133300a0a6d0a") /\
  reencode_differs (unhex "7472656520346238323564633634326362366562396130363065353462663864363932383866626565343930340a617574686f722041203c6140623e202d35202b303030300a636f6d6d69747465722043203c6340643e2032202d303133300a0a6d0a") /\
  reencode_differs (unhex "7472656520346238323564633634326362366562396130363065353462663864363932383866626565343930340a617574686f722041203c6140623e2031202b303030300a636f6d6d69747465722043203c6340643e2032202d303133300a67706773696720780a656e636f64696e67206c6174696e310a0a6d0a").
Proof.
  repeat split; (eexists; split; [vm_compute; reflexivity|vm_compute; discriminate]).
Qed.
Print Assumptions C02_commit_reencode_refuted.

(* ---- tags: same triple ---- *)
Theorem C02_tag_dec_enc : forall t, wf_tag t = true -> decode_tag (encode_tag t true) = Ok t.
Proof. exact tag_dec_enc. Qed.
Print Assumptions C02_tag_dec_enc.

Theorem C02_tag_enc_dec_bytes : forall t b, wf_tag t = true -> b = encode_tag t true ->
  exists d, decode_tag b = Ok d /\ encode_tag d true = b.
Proof. intros t b Hwf ->. exists t. split; [now apply tag_dec_enc|reflexivity]. Qed.
Print Assumptions C02_tag_enc_dec_bytes.

(* stored tags that do not re-encode byte-exactly: an unknown header (Tag keeps none), zone -0000 *)
Theorem C02_tag_reencode_refuted :
  (exists d, decode_tag (unhex "6f626a65637420346238323564633634326362366562396130363065353462663864363932383866626565343930340a7479706520747265650a7461672076310a7461676765722047203c6740683e2033202b303230300a782d657874726120760a0a6d0a") = Ok d /\
             encode_tag d true <> unhex "6f626a65637420346238323564633634326362366562396130363065353462663864363932383866626565343930340a7479706520747265650a7461672076310a7461676765722047203c6740683e2033202b303230300a782d657874726120760a0a6d0a") /\
  (exists d, decode_tag (unhex "6f626a65637420346238323564633634326362366562396130363065353462663864363932383866626565343930340a7479706520747265650a7461672076310a7461676765722047203c6740683e2033202d303030300a0a6d0a") = Ok d /\
             encode_tag d true <> unhex "6f626a65637420346238323564633634326362366562396130363065353462663864363932383866626565343930340a7479706520747265650a7461672076310a7461676765722047203c6740683e2033202d303030300a0a6d0a").
Proof. split; (eexists; split; [vm_compute; reflexivity|vm_compute; discriminate]). Qed.
Print Assumptions C02_tag_reencode_refuted.

(* ---- "the decoded fields are the ones git itself reports": FALSE of every
        stored object (author behind another header; several '<'), witnesses
        checked against git 2.39.5 by the C-git suite ---- *)
(* TRUE without any guard for the message: for every stored commit that
   go-git decodes and git parses, Commit.Message is the message git reports *)
Theorem C02_message_matches_git : forall raw c g m,
  decode_commit raw = Ok c -> git_log_fields raw = GOk g -> gl_body g = Some m -> c_msg c = m.
Proof. exact message_matches_git. Qed.
Print Assumptions C02_message_matches_git.

(* PARTIAL for identities: for every author/committer/tagger value that passes
   the boolean clauses person_ok (one '<', one '>', in order; no leading blank,
   no TAB/CR before the trailing blanks of the name) and date_ok (nothing after
   '>', or exactly " <digits> [+-]hhmm" with digits < 2^63, mm < 60, not -00mm
   with mm > 0, no further digit), Signature.Decode yields the name, e-mail and
   raw date that git's split_ident_line / show_ident_date report *)
Theorem C02_ident_matches_git_partial : forall v,
  no_lf v = true -> person_ok v = true -> date_ok v = true ->
  let i := decode_ident v in
  git_person (Some v) = (id_name i, id_email i, go_date i).
Proof. exact ident_matches_git. Qed.
Print Assumptions C02_ident_matches_git_partial.

(* the full statement (no clauses) is false: last-vs-first bracket, blanks around the date *)
Theorem C02_ident_matches_git_refuted :
  (let v := str "A <x> <y> 5 +0100" in let i := decode_ident v in
   git_person (Some v) <> (id_name i, id_email i, go_date i)) /\
  (let v := str "C <c@d>  7 +0530" in let i := decode_ident v in
   git_person (Some v) <> (id_name i, id_email i, go_date i)).
Proof. split; vm_compute; discriminate. Qed.
Print Assumptions C02_ident_matches_git_refuted.

Example C02_ident_clauses_nonvacuous :
  let v := str "A U Thor <author@example.com> 1234567890 -0330" in
  no_lf v = true /\ person_ok v = true /\ date_ok v = true /\
  git_person (Some v) = (str "A U Thor", str "author@example.com", str "1234567890 -0330").
Proof. vm_compute. repeat split. Qed.

Definition author_differs (b : bytes) : Prop :=
  exists d g, decode_commit b = Ok d /\ git_log_fields b = GOk g /\
              (id_name (c_author d), id_email (c_author d)) <> (gl_an g, gl_ae g).

Theorem C02_fields_match_git_refuted :
  author_differs (unhex "7472656520346238323564633634326362366562396130363065353462663864363932383866626565343930340a782d6e6f746520760a617574686f722041203c6140623e2031202b303030300a636f6d6d69747465722043203c6340643e2032202d303133300a0a6d0a") /\
  author_differs (unhex "7472656520346238323564633634326362366562396130363065353462663864363932383866626565343930340a617574686f722041203c783e203c793e2035202b303130300a636f6d6d69747465722043203c6340643e2032202d303133300a0a6d0a").
Proof.
  split; (do 2 eexists; split; [vm_compute; reflexivity|split; [vm_compute; reflexivity|vm_compute; discriminate]]).
Qed.
Print Assumptions C02_fields_match_git_refuted.

(* non-vacuity: a merge commit with two parents, a non-default encoding, a
   multi-line mergetag, an extra header with an empty line in its value, and
   both signatures is well-formed *)
Example C02_wf_example :
  let i := mk_ident (str "A U Thor") (str "a@example.org") 1234567890 (-330) in
  let c := mk_commit (repeat 17 20) [repeat 1 20; repeat 255 32] i (mk_ident [] (str "x") 0 5999)
             (str "ISO-8859-1")
             [(str "mergetag", str "object 1" ++ [10] ++ str "type commit" ++ [10; 10] ++ str "sig");
              (str "x-flag", [])]
             (str "-----BEGIN PGP SIGNATURE-----" ++ [10; 10] ++ str "abc" ++ [10] ++ str "-----END PGP SIGNATURE-----" ++ [10])
             (str "-----BEGIN SSH SIGNATURE-----" ++ [10])
             (str "subject" ++ [10; 10] ++ str "gpgsig body" ++ [10]) in
  wf_commit c = true /\ decode_commit (encode_commit c true) = Ok c.
Proof. vm_compute. split; reflexivity. Qed.

Example C02_wf_tag_example :
  let t := mk_tag (repeat 9 20) (str "commit") (str "v1.0 rc") (mk_ident (str "T") (str "t@x") 7 (-90))
             (str "-----BEGIN PGP SIGNATURE-----" ++ [10] ++ str "zz" ++ [10])
             (str "release" ++ [10; 10] ++ str "notes" ++ [10])
             (str "-----BEGIN SSH SIGNATURE-----" ++ [10] ++ str "abc" ++ [10] ++ str "-----END SSH SIGNATURE-----" ++ [10]) in
  wf_tag t = true /\ decode_tag (encode_tag t true) = Ok t.
Proof. vm_compute. split; reflexivity. Qed.
